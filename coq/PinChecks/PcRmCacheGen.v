(* Obligations tying the TRANSLATED CACHED role manager (Gen/RmCacheGen.v, regenerated on every
   run by tools/rs2coq.py / tools/rs2coq_rmcache.py from /repo/src/rbac/default_role_manager.rs
   with `feature = "cached"` ON) to the uncached translation of part 11 (Gen/RoleManagerGen.v,
   PinChecks/PcRoleManagerGen.v) and to the hand model Model/RmCache.v (Proofs/RmCacheP.v).
   This replaces the text pin pin_body_rmcache_stmts (PinChecks/PcBody_rmcache.v).

   1. Side by side (no invariant, all states, all caches - hence all eviction schedules):
        gen_c_get_or_create_role / gen_c_clear / gen_c_matching_fn   the state and value of the uncached
            translation; the cache kept or cleared / cleared / kept or cleared   (..._sim)
        gen_c_has_link   a `query_outcome` around gen_has_link: the answer is the uncached answer or a value
            held under the key hfin [name1; name2; domain-or-DEFAULT]; afterwards the cache holds what it
            held (or less) and possibly (key, uncached answer) when name1 <> name2   (gen_c_has_link_sim)
      The two translations differ in the result type R of their loops; `sim_go` compares them
      structurally (flow_sim / rs_for_sim / rs_while_some_sim of Proofs/RmCacheGenP.v), without induction
      on a generated term.
   2. add_link / delete_link under rm_inv (gen_c_add_link_ok, gen_c_delete_link_ok): the state of the
      uncached translation, the cache kept or cleared, and CLEARED whenever the model's graph says a Link
      edge is added (no Link edge a -> b after the two get_or_create_role) / an edge is removed.
   3. Refinement of Model/RmCache.v (`crel`: rm_abs s = embed (rc_rm M), RcInv, the translated cache a
      SUB-cache of the model's list on the keys in play): gen_c_new / add_link / delete_link / clear /
      has_link refine {| [], [] |} / rc_add_link / rc_delete_link / rc_clear / rc_has_link
      (..._refines), for every state, argument and eviction schedule.
   4. Histories (gen_c_run_refines, gen_c_history_ok, gen_c_answer_ok): along every history of add_link /
      delete_link / clear / has_link from DefaultRoleManager::new, the cached translation, the uncached
      translation and the uncached model produce the same outputs; the answers are m_has_link (mrun _).
   5. The hypothesis about the hasher: `hfin_inj_on hfin (keys_of h)` - no two has_link calls of the history
      with different (name1, name2, domain-or-DEFAULT) get the same digest.  Necessary (ex_collision_refuted).
   6. FINDINGS (F1, F2: PinChecks/PcRmCacheFindings.v): with matching functions, matching_fn and a delete_link
      that only creates roles change has_link answers without clearing; the statement for all histories is
      refuted there.

   Answers to the questions of the task (each is a variant of tools/rs2coq_demo_rmcache.py):
     delete_link clears only when an edge was removed: FINE (that is the source; rc_delete_link clears iff
        link_removed, and delete_link_noop of Proofs/RmCacheP.v: otherwise the manager is unchanged).
     add_link clears only when the Link edge was added: FINE (the source; link_added / add_link_noop).
        Leaving the clear to get_or_create_role's `added` is NOT (no Match edge without matching function).
     has_link looking the key up BEFORE the name1 == name2 shortcut: harmless (a reflexive key is never
        stored, and a stored value is coherent anyway); caching only `true` answers: harmless (a sub-cache).
     matching_fn: the source does NOT clear there: finding F1. *)
From CV Require Import Model.Base Model.RoleGraph Model.RoleGraphM Model.RmCache.
From CV Require Import Gen.RustStr Gen.RustVec Gen.RustIter Gen.Petgraph Gen.MokaRt Gen.Model2Gen Gen.RoleManagerGen
                       Gen.RmCacheRt Gen.RmCacheGen.
From CV Require Import Proofs.ListAux Proofs.BaseP Proofs.RoleGraphP Proofs.GenBfsP Proofs.RoleGraphMA Proofs.RoleGraphMP
                       Proofs.RustVecP Proofs.PetgraphP Proofs.RmCacheP Proofs.RmCacheGenP.
From CV Require Import PinChecks.PcRoleManagerGen.
From Coq Require Import Lia Permutation.

Lemma gen_rmcache_translated_ok : gen_rmcache_translated = true.
Proof. reflexivity. Qed.

(* new: the uncached state, and a cache that holds nothing and has the given future (whatever its capacity) *)
Lemma gen_c_new_ok : forall sched lvl,
  fst (gen_c_new sched lvl) = gen_new lvl /\ mk_entries (snd (gen_c_new sched lvl)) = [] /\
  mk_sched (snd (gen_c_new sched lvl)) = sched.
Proof. intros sched lvl. repeat split; reflexivity. Qed.


(* ------------------------------------------------------------------ *)
(* the two translations side by side                                    *)
Definition ret_sim {R1 R2} (Q : R1 -> R2 -> Prop) (o1 : option R1) (o2 : option R2) : Prop :=
  match o1, o2 with
  | Some r1, Some r2 => Q r1 r2
  | None, None => True
  | _, _ => False
  end.

Lemma rs_fn_sim : forall {R1 R2} (Q : R1 -> R2 -> Prop) (f1 : flow unit R1) (f2 : flow unit R2),
  flow_sim Q f1 f2 -> ret_sim Q (rs_fn f1) (rs_fn f2).
Proof.
  intros R1 R2 Q f1 f2 H. destruct f1, f2; cbn [flow_sim] in H; try contradiction; cbn [rs_fn ret_sim]; auto.
Qed.

(* one step of the comparison of two terms of the same shape; `leaf` proves the
   relation between two returned values *)
Ltac sim_step leaf :=
  cbv beta iota zeta;
  lazymatch goal with
  | |- flow_sim _ (LReturn _) (LReturn _) => cbn [flow_sim]; first [assumption | leaf]
  | |- flow_sim _ (LNext _) (LNext _) => reflexivity
  | |- flow_sim _ (LBreak _) (LBreak _) => reflexivity
  | |- flow_sim _ LPanic LPanic => exact I
  | |- flow_sim ?Q (match rs_for ?b1 ?l ?s with _ => _ end) (match rs_for ?b2 ?l ?s with _ => _ end) =>
      let H := fresh "Hloop" in
      assert (H : loop_sim Q (rs_for b1 l s) (rs_for b2 l s));
      [ apply rs_for_sim; intros ? ? _
      | destruct (rs_for b1 l s), (rs_for b2 l s); cbn [loop_sim] in H; try contradiction; try subst ]
  | |- flow_sim ?Q (match rs_while_some ?fu ?nx ?b1 ?s with _ => _ end) (match rs_while_some ?fu ?nx ?b2 ?s with _ => _ end) =>
      let H := fresh "Hloop" in
      assert (H : loop_sim Q (rs_while_some fu nx b1 s) (rs_while_some fu nx b2 s));
      [ apply rs_while_some_sim; intros ? ?
      | destruct (rs_while_some fu nx b1 s), (rs_while_some fu nx b2 s); cbn [loop_sim] in H; try contradiction; try subst ]
  | |- flow_sim _ (match ?x with _ => _ end) (match ?x with _ => _ end) => destruct x eqn:?
  | |- flow_sim _ (if ?x then _ else _) (if ?x then _ else _) => destruct x eqn:?
  end.
Ltac sim_go leaf := repeat (sim_step leaf).

(* get_or_create_role: the state and the index of the uncached translation; the cache kept or cleared *)
Lemma gen_c_get_or_create_role_sim : forall s c n d,
  ret_sim (fun (r1 : rm_state * ncache * node_index) (r2 : rm_state * node_index) =>
             fst (fst r1) = fst r2 /\ snd r1 = snd r2 /\ kept_or_cleared c (snd (fst r1)))
          (gen_c_get_or_create_role s c n d) (gen_get_or_create_role s n d).
Proof.
  intros s c n d. unfold gen_get_or_create_role, gen_c_get_or_create_role. apply rs_fn_sim.
  sim_go ltac:(cbn [fst snd]; repeat split;
               repeat match goal with |- context [if ?b then _ else _] => destruct b end;
               first [apply kept_or_cleared_refl | apply kept_or_cleared_clear]).
Qed.

Lemma gen_c_clear_sim : forall s c,
  ret_sim (fun (r1 : rm_state * ncache) (r2 : rm_state) => fst r1 = r2 /\ mk_entries (snd r1) = [])
          (gen_c_clear s c) (gen_clear s).
Proof.
  intros s c. unfold gen_c_clear, gen_clear. apply rs_fn_sim.
  sim_go ltac:(cbn [fst snd]; split; reflexivity).
Qed.

Lemma gen_c_matching_fn_sim : forall s c rf df,
  ret_sim (fun (r1 : rm_state * ncache) (r2 : rm_state) => fst r1 = r2 /\ kept_or_cleared c (snd r1))
          (gen_c_matching_fn s c rf df) (gen_matching_fn s rf df).
Proof.
  intros s c rf df. unfold gen_c_matching_fn, gen_matching_fn. apply rs_fn_sim.
  sim_go ltac:(cbn [fst snd]; split; [reflexivity|first [apply kept_or_cleared_refl | apply kept_or_cleared_clear]]).
Qed.

(* has_link: a query in the sense of Proofs/RmCacheGenP.v (query_outcome) around the uncached translation *)
Lemma gen_c_has_link_sim : forall hfin ord fuel s c a b d,
  match gen_has_link ord fuel s a b d with
  | Some ur => exists c' r, gen_c_has_link hfin ord fuel s c a b d = Some (c', r) /\
                            query_outcome c c' (hfin [a; b; dom_key d]) (negb (teqb a b)) ur r
  | None => True
  end.
Proof.
  intros hfin ord fuel s c a b d. unfold gen_c_has_link, gen_has_link.
  unfold rs_hasher_finish, rs_hash_str, rs_hasher_new. cbv zeta. cbn [app].
  change (rs_unwrap_or d gen_DEFAULT_DOMAIN) with (dom_key d).
  set (K := hfin [a; b; dom_key d]).
  destruct (gen_cache_get_spec c K) as [G1 G2].
  destruct (gen_cache_get nat bool Nat.eqb c K) as [c1 q]. cbn [fst snd] in G1, G2.
  unfold rs_eq. destruct (teqb a b) eqn:Eab; destruct q as [r|]; cbv beta iota zeta.
  all: first
    [ (* served from the cache *)
      match goal with |- match ?U with _ => _ end => destruct U as [ur|]; [|exact I] end;
      exists c1, r; split; [reflexivity|]; split; [right; apply G1; symmetry; exact G2|];
      intros k v Hl; left; apply G1, Hl
    | (* computed: the loop of the uncached translation *)
      match goal with
      | |- match rs_fn ?U with _ => _ end =>
          match goal with
          | |- context [rs_fn ?C = Some _] =>
              pose proof (rs_fn_sim (fun (r1 : ncache * bool) (r2 : bool) =>
                                       query_outcome c (fst r1) K (negb (teqb a b)) r2 (snd r1)) C U) as Hs
          end
      end;
      rewrite Eab in Hs;
      match type of Hs with ?P -> _ => assert (Hp : P); [|specialize (Hs Hp); clear Hp] end;
      [ sim_go ltac:(unfold query_outcome; cbn [fst snd negb]; split; [left; reflexivity|];
                     intros k v Hl;
                     repeat match type of Hl with context [if ?x then _ else _] => destruct x end;
                     first [ left; exact Hl
                           | left; apply G1; exact Hl
                           | apply gen_cache_set_spec in Hl; destruct Hl as [[-> ->]|Hl];
                             [right; repeat split; reflexivity | left; first [exact Hl | apply G1, Hl]] ])
      | match type of Hs with ret_sim _ ?X ?Y => destruct X as [[c' r']|], Y as [ur|] end;
        cbn [ret_sim fst snd] in Hs; try contradiction; try exact I;
        exists c', r'; split; [reflexivity|exact Hs] ] ].
Qed.

(* the second component of a pair of calls of get_or_create_role, cached *)
Lemma goc_c : forall s c n d s' r, gen_get_or_create_role s n d = Some (s', r) ->
  exists c', gen_c_get_or_create_role s c n d = Some (s', c', r) /\ kept_or_cleared c c'.
Proof.
  intros s c n d s' r E. pose proof (gen_c_get_or_create_role_sim s c n d) as H. rewrite E in H.
  destruct (gen_c_get_or_create_role s c n d) as [[[s1 c1] r1]|]; cbn [ret_sim fst snd] in H; [|contradiction].
  destruct H as (-> & -> & K). exists c1. split; [reflexivity|exact K].
Qed.

Theorem gen_c_add_link_ok : forall s c a b d, rm_inv s ->
  exists s' c', gen_c_add_link s c a b d = Some (s', c') /\ gen_add_link s a b d = Some s' /\
    kept_or_cleared c c' /\
    (teqb a b = false ->
     m_find_edge (m_create_node (r_rfn (rm_abs s)) (m_create_node (r_rfn (rm_abs s)) (mgraph_of (rm_abs s) (dom_key d)) a) b) a b
       <> Some KLink ->
     mk_entries c' = []).
Proof.
  intros s c a b d Hinv. unfold gen_c_add_link, gen_add_link. norm.
  destruct (teqb a b) eqn:Eab.
  - exists s, c. split; [reflexivity|]. split; [reflexivity|]. split; [apply kept_or_cleared_refl|]. intros X; discriminate X.
  - destruct (create_two s a b d Hinv) as (s1 & s2 & ix & E1 & E2 & Hd & Hi & Hok & W2 & Hc).
    destruct (goc_c s c a d _ _ E1) as (c1 & F1 & K1). destruct (goc_c s1 c1 b d _ _ E2) as (c2 & F2 & K2).
    cbv zeta in Hd, Hok, W2. rewrite E1, F1. cbv beta iota zeta. rewrite E2, F2. cbv beta iota zeta.
    change (rs_unwrap_or d (T "DEFAULT")) with (dom_key d).
    set (dk := dom_key d) in *.
    change (r_rfn (rm_abs s)) with (rm_role_matching_fn s).
    set (g2 := m_create_node (rm_role_matching_fn s) (m_create_node (rm_role_matching_fn s) (mgraph_of (rm_abs s) dk) a) b) in *.
    rewrite hm_get_assoc, Hd, assoc_set_same.
    assert (Va : m_has_node g2 a = true) by (apply create_keeps_node, create_has_node).
    assert (Vb : m_has_node g2 b = true) by apply create_has_node.
    norm. rewrite ?Va, ?Vb. cbn [andb].
    split_all; norm.
    all: try (exfalso; cbn in *; congruence).
    all: eexists _, _; (split; [reflexivity|]); (split; [reflexivity|]); split;
         [ eapply kept_or_cleared_trans; [exact K1|]; eapply kept_or_cleared_trans; [exact K2|];
           first [apply kept_or_cleared_refl | apply kept_or_cleared_clear]
         | intros _ Hne; first [ reflexivity
                               | exfalso; apply Hne; f_equal;
                                 match goal with k : ekind |- _ => destruct k; first [reflexivity | discriminate] end ] ].
Qed.

Theorem gen_c_delete_link_ok : forall ord s c a b d, ord_ok ord -> rm_inv s ->
  exists s' c' r, gen_c_delete_link ord s c a b d = Some (s', c', r) /\ gen_delete_link ord s a b d = Some (s', r) /\
    kept_or_cleared c c' /\
    (teqb a b = false -> domain_has_role (rm_abs s) a d = true -> domain_has_role (rm_abs s) b d = true ->
     m_find_edge (m_create_node (r_rfn (rm_abs s)) (m_create_node (r_rfn (rm_abs s)) (mgraph_of (rm_abs s) (dom_key d)) a) b) a b
       <> None ->
     mk_entries c' = []).
Proof.
  intros ord s c a b d Hord Hinv. unfold gen_c_delete_link, gen_delete_link. norm.
  destruct (teqb a b) eqn:Eab.
  - exists s, c, (ROk tt). split; [reflexivity|]. split; [reflexivity|]. split; [apply kept_or_cleared_refl|]. intros X; discriminate X.
  - rewrite !(gen_domain_has_role_ok ord s _ d Hord Hinv).
    destruct (domain_has_role (rm_abs s) a d); cbn [negb orb];
      [destruct (domain_has_role (rm_abs s) b d); cbn [negb orb]|].
    2, 3: eexists s, c, _; (split; [reflexivity|]); (split; [reflexivity|]); (split; [apply kept_or_cleared_refl|]);
          intros _ X Y; first [discriminate X | discriminate Y].
    destruct (create_two s a b d Hinv) as (s1 & s2 & ix & E1 & E2 & Hd & Hi & Hok & W2 & Hc).
    destruct (goc_c s c a d _ _ E1) as (c1 & F1 & K1). destruct (goc_c s1 c1 b d _ _ E2) as (c2 & F2 & K2).
    cbv zeta in Hd, Hok, W2. rewrite E1, F1. cbv beta iota zeta. rewrite E2, F2. cbv beta iota zeta.
    change (rs_unwrap_or d (T "DEFAULT")) with (dom_key d).
    set (dk := dom_key d) in *.
    change (r_rfn (rm_abs s)) with (rm_role_matching_fn s).
    set (g2 := m_create_node (rm_role_matching_fn s) (m_create_node (rm_role_matching_fn s) (mgraph_of (rm_abs s) dk) a) b) in *.
    rewrite hm_get_assoc, Hd, assoc_set_same. cbn [fst snd].
    destruct (pg_find_edge g2 a b) as [ei|] eqn:E.
    + destruct (pg_remove_found _ _ _ _ E) as (k & ->). cbv beta iota zeta.
      eexists _, _, _. split; [reflexivity|]. split; [reflexivity|]. split.
      * eapply kept_or_cleared_trans; [exact K1|]. eapply kept_or_cleared_trans; [exact K2|].
        first [apply kept_or_cleared_refl | apply kept_or_cleared_clear].
      * intros _ _ _ _. reflexivity.
    + eexists _, _, _. split; [reflexivity|]. split; [reflexivity|]. split.
      * eapply kept_or_cleared_trans; [exact K1|]. eapply kept_or_cleared_trans; [exact K2|].
        first [apply kept_or_cleared_refl | apply kept_or_cleared_clear].
      * intros _ _ _ Hne. exfalso. apply Hne. apply pg_find_edge_None, E.
Qed.

(* ------------------------------------------------------------------ *)
(* get_or_create_role clears when it adds a Match edge                  *)
(* (outside Model/RmCache.v, which has no matching functions: this is what makes the
   `self.cache.clear()` of get_or_create_role visible to a proof) *)
Lemma lim_not_added : forall f g np mp, lim_added f g np mp = false -> link_if_matches f g np mp = g.
Proof.
  intros f g np mp. unfold lim_added, link_if_matches. destruct (f mp np); cbn [negb andb]; [|reflexivity].
  destruct (m_find_edge g np mp) as [[|]|]; intros H; first [discriminate H | reflexivity].
Qed.

Theorem gen_c_get_or_create_role_clears : forall s c n d, rm_inv s ->
  exists s' c', gen_c_get_or_create_role s c n d = Some (s', c', n) /\
    (m_edges (m_create_node (rm_role_matching_fn s) (mgraph_of (rm_abs s) (dom_key d)) n) <>
     m_edges (mgraph_of (rm_abs s) (dom_key d)) -> mk_entries c' = []).
Proof.
  intros s c n d Hinv. unfold gen_c_get_or_create_role.
  change (rs_unwrap_or d gen_DEFAULT_DOMAIN) with (dom_key d).
  set (dk := dom_key d).
  destruct (rm_inv_dom s dk Hinv) as [W0 I0].
  unfold mgraph_of in *. destruct s as [doms idxs lvl rfn dfn]. cbn [rm_abs r_doms] in *. rec_simpl.
  set (g0 := match assoc dk doms with Some g => g | None => empty_mgraph end) in *.
  set (ix0 := match assoc dk idxs with Some ix => ix | None => hm_new end) in *.
  rewrite hm_entry_or_uniform. fold g0. cbv zeta iota beta. rec_simpl.
  rewrite hm_entry_or_uniform. change pg_new with empty_mgraph. fold g0. fold ix0. cbv iota beta. rec_simpl.
  rewrite hm_get_assoc, I0.
  unfold m_create_node. destruct (m_has_node g0 n) eqn:Hn.
  - cbn [rs_fn]. eexists _, _. split; [reflexivity|]. intros X. exfalso. apply X. reflexivity.
  - unfold pg_add_node. cbv iota beta zeta.
    set (g1 := {| m_nodes := m_nodes g0 ++ [n]; m_edges := m_edges g0 |}).
    rewrite !hm_insert_assoc_set, !assoc_set_set.
    destruct rfn as [f|].
    + rewrite (rs_iter_filter_opt_total _ (fun x => negb (teqb x n)))
        by (intros x Hx; rewrite (pg_node_weight_In _ _ Hx); cbv delta [rs_eq]; cbv beta;
            first [reflexivity | rewrite (teqb_sym n x); reflexivity]).
      set (Rel := fun (st : rm_state * bool * mgraph) (m : mgraph) =>
                    let '(self, added, g) := st in
                    g = m /\ m_nodes m = m_nodes g1 /\ (added = false -> m_edges m = m_edges g1)).
      match goal with
      | |- context [rs_for ?b ?l ?s0] =>
          destruct (rs_for_rel b Rel (fun acc ex => link_if_matches f (link_if_matches f acc n ex) ex n) l s0 g1)
            as ([[self added] g] & Hfor & Hrel)
      end.
      * cbn. repeat split; reflexivity.
      * intros x [[self added] g] m Hx (-> & Hnodes & Hadd).
        apply filter_In in Hx. destruct Hx as [Hx _]. change (pg_node_indices g1) with (m_nodes g1) in Hx.
        assert (Vn : m_has_node m n = true).
        { apply m_has_node_In. rewrite Hnodes. apply in_or_app. right. left. reflexivity. }
        assert (Vx : m_has_node m x = true) by (apply m_has_node_In; rewrite Hnodes; exact Hx).
        cbv beta iota. rewrite gen_link_if_matches_ok, Vn, Vx. cbn [andb].
        rewrite gen_link_if_matches_ok. unfold m_has_node in *. rewrite !lim_nodes, Vn, Vx. cbn [andb].
        eexists. split; [reflexivity|]. cbn [Rel]. rewrite !lim_nodes.
        split; [reflexivity|]. split; [exact Hnodes|].
        intros Hf. apply orb_false_iff in Hf. destruct Hf as [Hf H2]. apply orb_false_iff in Hf. destruct Hf as [H0 H1].
        rewrite (lim_not_added _ _ _ _ H1) in H2 |- *. rewrite (lim_not_added _ _ _ _ H2). apply Hadd, H0.
      * rewrite Hfor. cbn [rs_fn]. destruct Hrel as (-> & Hnodes & Hadd).
        eexists self, _. split; [reflexivity|].
        assert (Hl : filter (fun x => negb (teqb x n)) (pg_node_indices g1) = filter (fun x => negb (teqb x n)) (m_nodes g0)).
        { change (pg_node_indices g1) with (m_nodes g0 ++ [n]). rewrite filter_app. cbn [filter].
          rewrite teqb_refl. cbn [negb]. apply app_nil_r. }
        rewrite Hl in Hadd. intros X. destruct added; [reflexivity|]. exfalso. apply X. apply Hadd. reflexivity.
    + cbn [rs_fn]. eexists _, _. split; [reflexivity|]. intros X. exfalso. apply X. reflexivity.
Qed.

(* ------------------------------------------------------------------ *)
(* refinement of Model/RmCache.v                                       *)
(* the translated cached manager (s, c) against the model's M: the graph state is the
   model's (through rm_abs / embed: no matching functions, as Model/RmCache.v), the
   model is coherent (RcInv, Proofs/RmCacheP.v) and the translated cache is a SUB-cache
   of the model's association list on the keys in play *)
Definition crel (hfin : hasher -> nat) (S : rkey -> Prop) (lvl : nat) (s : rm_state) (c : ncache) (M : rmc) : Prop :=
  rm_inv s /\ rm_abs s = embed (rc_rm M) /\ rm_max_hierarchy_level s = lvl /\
  RcInv lvl M /\ cache_sub hfin S c (rc_cache M).

Lemma has_edge_add_node : forall g n a b, has_edge (add_node g n) a b = has_edge g a b.
Proof. intros g n a b. unfold add_node. destruct (has_node g n); reflexivity. Qed.

(* the graph of the domain after the two get_or_create_role calls, in the model's terms *)
Lemma g2_embed : forall r dk a b,
  m_create_node (r_rfn (embed r)) (m_create_node (r_rfn (embed r)) (mgraph_of (embed r) dk) a) b =
  embed_g (add_node (add_node (graph_or_empty r dk) a) b).
Proof.
  intros r dk a b. cbn [embed r_rfn]. rewrite mgraph_of_embed, !m_create_node_embed. reflexivity.
Qed.

Lemma find_edge_g2 : forall r d a b,
  m_find_edge (embed_g (add_node (add_node (graph_or_empty r (dom_key d)) a) b)) a b =
  if edge_present r a b d then Some KLink else None.
Proof.
  intros r d a b. rewrite m_find_edge_embed, !has_edge_add_node.
  unfold edge_present, graph_or_empty, graph_of. destruct (assoc (dom_key d) r); reflexivity.
Qed.

Theorem gen_c_new_refines : forall hfin S sched lvl,
  crel hfin S lvl (fst (gen_c_new sched lvl)) (snd (gen_c_new sched lvl)) {| rc_rm := []; rc_cache := [] |}.
Proof.
  intros hfin S sched lvl. destruct (gen_c_new_ok sched lvl) as (E1 & E2 & _). rewrite E1.
  destruct (gen_new_ok lvl) as (A & I & L).
  split; [exact I|]. split; [rewrite A; reflexivity|]. split; [exact L|].
  split; [apply rcinv_init, wf_nil|]. apply cache_sub_empty. exact E2.
Qed.

Theorem gen_c_add_link_refines : forall hfin S lvl s c M a b d, crel hfin S lvl s c M ->
  exists s' c', gen_c_add_link s c a b d = Some (s', c') /\ gen_add_link s a b d = Some s' /\
                crel hfin S lvl s' c' (rc_add_link M a b d).
Proof.
  intros hfin S lvl s c M a b d (Hinv & Habs & Hlvl & Hrc & Hsub).
  destruct (gen_c_add_link_ok s c a b d Hinv) as (s' & c' & Ec & Eu & Hk & Hflag).
  destruct (gen_add_link_ok s a b d Hinv) as (s'' & Eu' & A & I & L).
  rewrite Eu in Eu'. injection Eu' as <-.
  exists s', c'. split; [exact Ec|]. split; [exact Eu|].
  split; [exact I|]. split; [rewrite A, Habs; apply m_add_link_embed|]. split; [congruence|].
  split; [apply (rc_write_inv lvl M (LAdd a b d) Hrc)|].
  cbn [rc_add_link rc_cache]. apply (cache_sub_mutator hfin S c c'); [exact Hsub|exact Hk|].
  unfold link_added. intros Hf. apply andb_true_iff in Hf. destruct Hf as [Hab Hed].
  apply negb_true_iff in Hab. apply negb_true_iff in Hed.
  apply Hflag; [exact Hab|]. rewrite Habs, g2_embed, find_edge_g2, Hed. discriminate.
Qed.

Theorem gen_c_delete_link_refines : forall hfin S lvl ord s c M a b d, ord_ok ord -> crel hfin S lvl s c M ->
  exists s' c' r, gen_c_delete_link ord s c a b d = Some (s', c', r) /\ gen_delete_link ord s a b d = Some (s', r) /\
                  rs_is_ok r = snd (rc_delete_link M a b d) /\
                  crel hfin S lvl s' c' (fst (rc_delete_link M a b d)).
Proof.
  intros hfin S lvl ord s c M a b d Hord (Hinv & Habs & Hlvl & Hrc & Hsub).
  destruct (gen_c_delete_link_ok ord s c a b d Hord Hinv) as (s' & c' & r & Ec & Eu & Hk & Hflag).
  destruct (gen_delete_link_ok ord s a b d Hord Hinv) as (s'' & r' & Eu' & A & R & I & L).
  rewrite Eu in Eu'. injection Eu' as <- <-.
  pose proof (rc_write_inv lvl M (LDel a b d) Hrc) as Hrc'. cbn [rc_write] in Hrc'.
  destruct Hrc as [Hwf Hcoh].
  rewrite Habs, (m_delete_link_embed _ a b d Hwf) in A, R. cbn [fst snd] in A, R.
  exists s', c', r. split; [exact Ec|]. split; [exact Eu|].
  unfold rc_delete_link in *. destruct (delete_link (rc_rm M) a b d) as [m' ok]. cbn [fst snd] in *.
  split; [exact R|].
  split; [exact I|]. split; [exact A|]. split; [congruence|]. split; [exact Hrc'|].
  cbn [rc_cache]. apply (cache_sub_mutator hfin S c c'); [exact Hsub|exact Hk|].
  unfold link_removed. intros Hf. apply andb_true_iff in Hf. destruct Hf as [Hab Hg].
  apply negb_true_iff in Hab.
  destruct (graph_of (rc_rm M) d) as [g|] eqn:Eg; [|discriminate Hg].
  apply andb_true_iff in Hg. destruct Hg as [Hn He]. apply andb_true_iff in Hn. destruct Hn as [Hna Hnb].
  apply Hflag; [exact Hab| | |].
  - rewrite Habs, domain_has_role_embed, Eg. exact Hna.
  - rewrite Habs, domain_has_role_embed, Eg. exact Hnb.
  - rewrite Habs, g2_embed, find_edge_g2. unfold edge_present. rewrite Eg, He. discriminate.
Qed.

Theorem gen_c_clear_refines : forall hfin S lvl s c M, crel hfin S lvl s c M ->
  exists s' c', gen_c_clear s c = Some (s', c') /\ gen_clear s = Some s' /\ crel hfin S lvl s' c' (rc_clear M).
Proof.
  intros hfin S lvl s c M (Hinv & Habs & Hlvl & Hrc & Hsub).
  destruct (gen_clear_ok s) as (s' & Eu & A & I & L).
  pose proof (gen_c_clear_sim s c) as Hs. rewrite Eu in Hs.
  destruct (gen_c_clear s c) as [[s1 c1]|]; cbn [ret_sim fst snd] in Hs; [|contradiction].
  destruct Hs as [-> Hc]. exists s', c1. split; [reflexivity|]. split; [exact Eu|].
  split; [exact I|]. split; [rewrite A, Habs; reflexivity|]. split; [congruence|].
  split; [apply (rc_write_inv lvl M LClear Hrc)|]. apply cache_sub_empty, Hc.
Qed.

Theorem gen_c_has_link_refines : forall hfin S lvl ord fuel s c M a b d,
  hfin_inj_on hfin S -> S (rkey_of a b d) -> ord_ok ord -> fuel_ok fuel s -> crel hfin S lvl s c M ->
  exists c', gen_c_has_link hfin ord fuel s c a b d = Some (c', snd (rc_has_link lvl M a b d)) /\
             gen_has_link ord fuel s a b d = Some (snd (rc_has_link lvl M a b d)) /\
             crel hfin S lvl s c' (fst (rc_has_link lvl M a b d)).
Proof.
  intros hfin S lvl ord fuel s c M a b d Hinj Hk Hord Hfuel (Hinv & Habs & Hlvl & Hrc & Hsub).
  pose proof (gen_has_link_ok ord fuel s a b d Hord Hinv Hfuel) as Eu.
  rewrite Hlvl, Habs, m_has_link_embed in Eu.
  pose proof (gen_c_has_link_sim hfin ord fuel s c a b d) as Hs. rewrite Eu in Hs.
  destruct Hs as (c' & r & Ec & Hout).
  destruct (cache_sub_query hfin S lvl M c c' a b d r Hinj Hk Hrc Hsub Hout) as [Er Hsub'].
  pose proof (rc_has_link_spec lvl M a b d Hrc) as (Hans & Hrm & Hrc').
  exists c'. split; [rewrite Ec, Er; reflexivity|]. split; [rewrite Eu, Hans; reflexivity|].
  split; [exact Hinv|]. split; [rewrite Hrm; exact Habs|]. split; [exact Hlvl|]. split; [exact Hrc'|exact Hsub'].
Qed.

(* ------------------------------------------------------------------ *)
(* whole histories                                                     *)
(* a history of the cached manager: the mutators of the RoleManager trait (matching_fn
   included) and has_link queries; the outputs are the flags of the mutators and the
   answers of the queries, in order *)
Inductive cop := CWrite (o : mop) | CHas (a b : text) (d : option text).

Definition gen_c_step (hfin : hasher -> nat) (ord : list text -> list text) (fuel : nat)
    (s : rm_state) (c : ncache) (o : cop) : option (rm_state * ncache * bool) :=
  match o with
  | CWrite (MAdd a b d) => match gen_c_add_link s c a b d with Some (s', c') => Some (s', c', true) | None => None end
  | CWrite (MDel a b d) => match gen_c_delete_link ord s c a b d with Some (s', c', r) => Some (s', c', rs_is_ok r) | None => None end
  | CWrite MClear => match gen_c_clear s c with Some (s', c') => Some (s', c', true) | None => None end
  | CWrite (MSetFns rf df) => match gen_c_matching_fn s c rf df with Some (s', c') => Some (s', c', true) | None => None end
  | CHas a b d => match gen_c_has_link hfin ord fuel s c a b d with Some (c', r) => Some (s, c', r) | None => None end
  end.

Fixpoint gen_c_run (hfin : hasher -> nat) (ord : list text -> list text) (fuel : nat)
    (s : rm_state) (c : ncache) (h : list cop) : option (list bool) :=
  match h with
  | [] => Some []
  | o :: h' => match gen_c_step hfin ord fuel s c o with
               | None => None
               | Some (s', c', b) => match gen_c_run hfin ord fuel s' c' h' with
                                     | None => None
                                     | Some bs => Some (b :: bs)
                                     end
               end
  end.

(* the same history on the UNCACHED translation of part 11 (gen_step of PcRoleManagerGen.v, gen_has_link) *)
Fixpoint gen_u_run (ord : list text -> list text) (fuel : nat) (s : rm_state) (h : list cop) : option (list bool) :=
  match h with
  | [] => Some []
  | CWrite o :: h' => match gen_step ord s o with
                      | None => None
                      | Some (s', b) => match gen_u_run ord fuel s' h' with None => None | Some bs => Some (b :: bs) end
                      end
  | CHas a b d :: h' => match gen_has_link ord fuel s a b d with
                        | None => None
                        | Some b0 => match gen_u_run ord fuel s h' with None => None | Some bs => Some (b0 :: bs) end
                        end
  end.

(* the histories of Model/RmCache.v (no matching_fn) as histories of the translated manager *)
Definition cop_of (o : rcop) : cop :=
  match o with RCWrite w => CWrite (mop_of w) | RCHas a b d => CHas a b d end.

(* the keys of the queries of a history: the keys in play *)
Definition keys_of (h : list rcop) : rkey -> Prop :=
  fun k => exists a b d, In (RCHas a b d) h /\ k = rkey_of a b d.

Lemma keys_of_tail : forall o h k, keys_of h k -> keys_of (o :: h) k.
Proof. intros o h k (a & b & d & Hin & E). exists a, b, d. split; [right; exact Hin|exact E]. Qed.

Lemma fuel_ok_mono : forall s f f', fuel_ok f s -> f <= f' -> fuel_ok f' s.
Proof. intros s f f' H Hle dk g E. specialize (H dk g E). lia. Qed.

(* one step of the model's history is one step of both translations *)
Lemma gen_c_write_refines : forall hfin S lvl ord fuel s c M w, ord_ok ord -> crel hfin S lvl s c M ->
  exists s' c', gen_c_step hfin ord fuel s c (CWrite (mop_of w)) = Some (s', c', snd (rc_write M w)) /\
                gen_step ord s (mop_of w) = Some (s', snd (rc_write M w)) /\
                crel hfin S lvl s' c' (fst (rc_write M w)).
Proof.
  intros hfin S lvl ord fuel s c M w Hord Hrel. destruct w as [a b d|a b d|]; cbn [mop_of gen_c_step gen_step rc_write fst snd].
  - destruct (gen_c_add_link_refines hfin S lvl s c M a b d Hrel) as (s' & c' & Ec & Eu & R).
    rewrite Ec, Eu. exists s', c'. split; [reflexivity|]. split; [reflexivity|exact R].
  - destruct (gen_c_delete_link_refines hfin S lvl ord s c M a b d Hord Hrel) as (s' & c' & r & Ec & Eu & Er & R).
    rewrite Ec, Eu, Er. exists s', c'. split; [reflexivity|]. split; [reflexivity|exact R].
  - destruct (gen_c_clear_refines hfin S lvl s c M Hrel) as (s' & c' & Ec & Eu & R).
    rewrite Ec, Eu. exists s', c'. split; [reflexivity|]. split; [reflexivity|exact R].
Qed.

(* the part of crel that does not mention the cache *)
Definition grel (lvl : nat) (s : rm_state) (M : rmc) : Prop :=
  rm_inv s /\ rm_abs s = embed (rc_rm M) /\ rm_max_hierarchy_level s = lvl /\ RcInv lvl M.

Lemma crel_grel : forall hfin S lvl s c M, crel hfin S lvl s c M <-> grel lvl s M /\ cache_sub hfin S c (rc_cache M).
Proof. intros. unfold crel, grel. tauto. Qed.

(* along every history of Model/RmCache.v, from related states, BOTH translations produce the model's
   outputs - for every iteration order, every eviction schedule (any related cache), every large enough fuel *)
Theorem gen_c_run_refines : forall hfin ord lvl S, ord_ok ord -> hfin_inj_on hfin S ->
  forall h s M, (forall k, keys_of h k -> S k) -> grel lvl s M ->
  exists F, forall fuel c, F <= fuel -> cache_sub hfin S c (rc_cache M) ->
    gen_c_run hfin ord fuel s c (map cop_of h) = Some (rc_run lvl M h) /\
    gen_u_run ord fuel s (map cop_of h) = Some (rc_run lvl M h).
Proof.
  intros hfin ord lvl S Hord Hinj. induction h as [|[w|a b d] h IH]; intros s M Hkeys Hg.
  - exists 0. intros fuel c _ _. split; reflexivity.
  - (* a mutator: the next graph state does not depend on the cache *)
    set (c0 := gen_cache_new nat bool [] 0).
    assert (R0 : crel hfin S lvl s c0 M) by (apply crel_grel; split; [exact Hg|apply cache_sub_empty; reflexivity]).
    destruct (gen_c_write_refines hfin S lvl ord 0 s c0 M w Hord R0) as (s0 & c0' & _ & Eu0 & R0').
    apply crel_grel in R0'. destruct R0' as [Hg' _].
    destruct (IH s0 (fst (rc_write M w))) as (F & HF); [intros k Hk; apply Hkeys, keys_of_tail, Hk|exact Hg'|].
    exists F. intros fuel c Hf Hsub.
    assert (R : crel hfin S lvl s c M) by (apply crel_grel; split; assumption).
    destruct (gen_c_write_refines hfin S lvl ord fuel s c M w Hord R) as (s' & c' & Ec & Eu & R').
    rewrite Eu in Eu0. injection Eu0 as <-.
    apply crel_grel in R'. destruct R' as [_ Hsub'].
    destruct (HF fuel c' Hf Hsub') as [H1 H2].
    cbn [map cop_of gen_c_run gen_u_run rc_run]. rewrite Ec, Eu, H1, H2.
    destruct (rc_write M w) as [M' r]. cbn [fst snd]. split; reflexivity.
  - (* a query: the graph state stays, the model's cache may grow *)
    destruct Hg as (Hinv & Habs & Hlvl & Hrc).
    destruct (fuel_ok_exists s) as (F0 & HF0).
    assert (Hk : S (rkey_of a b d)) by (apply Hkeys; exists a, b, d; split; [left; reflexivity|reflexivity]).
    pose proof (rc_has_link_spec lvl M a b d Hrc) as (_ & Hrm & Hrc').
    destruct (IH s (fst (rc_has_link lvl M a b d))) as (F1 & HF1);
      [intros k Hk'; apply Hkeys, keys_of_tail, Hk'|split; [exact Hinv|split; [rewrite Hrm; exact Habs|split; [exact Hlvl|exact Hrc']]]|].
    exists (Nat.max F0 F1). intros fuel c Hf Hsub.
    assert (R : crel hfin S lvl s c M) by (split; [exact Hinv|split; [exact Habs|split; [exact Hlvl|split; [exact Hrc|exact Hsub]]]]).
    destruct (gen_c_has_link_refines hfin S lvl ord fuel s c M a b d Hinj Hk Hord (HF0 fuel ltac:(lia)) R) as (c' & Ec & Eu & R').
    apply crel_grel in R'. destruct R' as [_ Hsub'].
    destruct (HF1 fuel c' ltac:(lia) Hsub') as [H1 H2].
    cbn [map cop_of gen_c_run gen_c_step gen_u_run rc_run]. rewrite Ec, Eu, H1, H2.
    destruct (rc_has_link lvl M a b d) as [M' r]. cbn [fst snd]. split; reflexivity.
Qed.

(* END TO END.  From DefaultRoleManager::new(lvl) with the feature ON, along every history of add_link /
   delete_link / clear / has_link: no panic, and every output - in particular every has_link answer - is the
   one of the UNCACHED translation of part 11 on the same history, which is the uncached model's (rm_run).
   For every iteration order `ord`, every eviction schedule `sched` of the mini-moka cache, every fuel above
   some bound.  The ONE hypothesis about the hasher: `hfin` (DefaultHasher fed the three strings one after
   the other) does not collide on the keys (name1, name2, domain-or-DEFAULT) of the has_link calls of the
   history. *)
Theorem gen_c_history_ok : forall hfin ord sched lvl (h : list rcop), ord_ok ord -> hfin_inj_on hfin (keys_of h) ->
  exists F, forall fuel, F <= fuel ->
    gen_c_run hfin ord fuel (fst (gen_c_new sched lvl)) (snd (gen_c_new sched lvl)) (map cop_of h) = Some (rm_run lvl [] h) /\
    gen_u_run ord fuel (gen_new lvl) (map cop_of h) = Some (rm_run lvl [] h).
Proof.
  intros hfin ord sched lvl h Hord Hinj.
  pose proof (gen_c_new_refines hfin (keys_of h) sched lvl) as R. apply crel_grel in R. destruct R as [Hg Hsub].
  destruct (gen_c_run_refines hfin ord lvl (keys_of h) Hord Hinj h _ _ (fun k Hk => Hk) Hg) as (F & HF).
  exists F. intros fuel Hf. destruct (HF fuel _ Hf Hsub) as [H1 H2].
  rewrite <- (rc_same_answers lvl h). rewrite (proj1 (gen_c_new_ok sched lvl)) in H2. split; assumption.
Qed.

(* the same with the assumption on the hasher in its strongest form: injective on all sequences *)
Corollary gen_c_history_ok_inj : forall hfin ord sched lvl (h : list rcop), ord_ok ord ->
  (forall l1 l2, hfin l1 = hfin l2 -> l1 = l2) ->
  exists F, forall fuel, F <= fuel ->
    gen_c_run hfin ord fuel (fst (gen_c_new sched lvl)) (snd (gen_c_new sched lvl)) (map cop_of h) =
    gen_u_run ord fuel (gen_new lvl) (map cop_of h).
Proof.
  intros hfin ord sched lvl h Hord Hinj.
  destruct (gen_c_history_ok hfin ord sched lvl h Hord (hfin_inj_all hfin _ Hinj)) as (F & HF).
  exists F. intros fuel Hf. destruct (HF fuel Hf) as [H1 H2]. rewrite H1, H2. reflexivity.
Qed.

(* ... hence m_has_link (mrun _): the answer to a query after a history is the model's
   m_has_link on the state reached by the mutators of the history (part 11's gen_answers_ok,
   Proofs/RoleGraphMA.v conservative_has) *)
Definition writes_of (h : list rcop) : list lop :=
  flat_map (fun o => match o with RCWrite w => [w] | RCHas _ _ _ => [] end) h.

Lemma rm_run_snoc_has : forall lvl h m a b d,
  rm_run lvl m (h ++ [RCHas a b d]) =
  rm_run lvl m h ++ [has_link lvl (fold_left (fun m o => fst (lstep m o)) (writes_of h) m) a b d].
Proof.
  intros lvl. induction h as [|[w|x y z] h IH]; intros m a b d; cbn [app rm_run writes_of flat_map fold_left].
  - reflexivity.
  - destruct (lstep m w) as [m' r] eqn:E. cbn [app]. rewrite IH. cbn [fst]. reflexivity.
  - cbn [app]. rewrite IH. reflexivity.
Qed.

Corollary gen_c_answer_ok : forall hfin ord sched lvl (h : list rcop) a b d, ord_ok ord ->
  hfin_inj_on hfin (keys_of (h ++ [RCHas a b d])) ->
  exists F, forall fuel, F <= fuel ->
    gen_c_run hfin ord fuel (fst (gen_c_new sched lvl)) (snd (gen_c_new sched lvl)) (map cop_of (h ++ [RCHas a b d])) =
    Some (rm_run lvl [] h ++ [m_has_link lvl (mrun (map mop_of (writes_of h))) a b d]).
Proof.
  intros hfin ord sched lvl h a b d Hord Hinj.
  destruct (gen_c_history_ok hfin ord sched lvl _ Hord Hinj) as (F & HF).
  exists F. intros fuel Hf. destruct (HF fuel Hf) as [H1 _]. rewrite H1, rm_run_snoc_has, conservative_has. reflexivity.
Qed.

(* ------------------------------------------------------------------ *)
(* the hypotheses are satisfiable; hits, evictions and collisions are real *)
Definition ex_code (s : text) : nat :=
  if teqb s (T "a") then 1 else if teqb s (T "b") then 2 else if teqb s (T "c") then 3
  else if teqb s (T "DEFAULT") then 4 else 0.
(* a digest that separates the keys of the example (and is far from injective in general) *)
Definition ex_hfin (l : hasher) : nat := fold_left (fun acc s => acc * 5 + ex_code s) l 0.

Definition ex_c_history : list rcop :=
  [RCWrite (LAdd (T "a") (T "b") None); RCHas (T "a") (T "b") None; RCHas (T "a") (T "b") (Some (T "DEFAULT"));
   RCWrite (LAdd (T "b") (T "c") None); RCHas (T "a") (T "c") None; RCHas (T "a") (T "c") None;
   RCWrite (LDel (T "a") (T "b") None); RCHas (T "a") (T "c") None; RCHas (T "b") (T "c") None;
   RCWrite (LDel (T "a") (T "zz") None); RCHas (T "b") (T "c") None;
   RCWrite LClear; RCHas (T "b") (T "c") None; RCHas (T "b") (T "b") None].

Example ex_c_hfin_inj : hfin_inj_on ex_hfin (keys_of ex_c_history).
Proof.
  intros k1 k2 (a1 & b1 & d1 & H1 & ->) (a2 & b2 & d2 & H2 & ->) E.
  unfold ex_c_history in H1, H2. cbn [In] in H1, H2.
  repeat match goal with
         | H : _ \/ _ |- _ => destruct H as [H|H]
         | H : False |- _ => destruct H
         | H : RCWrite _ = RCHas _ _ _ |- _ => discriminate H
         | H : RCHas _ _ _ = RCHas _ _ _ |- _ => injection H as <- <- <-
         end; first [reflexivity | exfalso; vm_compute in E; discriminate E].
Qed.

(* the run of the example: with a schedule that forgets everything at the 3rd and 5th cache call and with
   none; the outputs are the uncached model's, and the translated cache really serves hits *)
Definition ex_sched : list (nat -> bool) := [fun _ => true; fun _ => true; fun _ => false; fun _ => true; fun _ => false].

Example ex_c_run :
  gen_c_run ex_hfin (@rev text) 10 (fst (gen_c_new ex_sched 3)) (snd (gen_c_new ex_sched 3)) (map cop_of ex_c_history)
    = Some (rm_run 3 [] ex_c_history) /\
  gen_c_run ex_hfin (fun l => l) 10 (fst (gen_c_new [] 3)) (snd (gen_c_new [] 3)) (map cop_of ex_c_history)
    = Some (rm_run 3 [] ex_c_history) /\
  gen_u_run (fun l => l) 10 (gen_new 3) (map cop_of ex_c_history) = Some (rm_run 3 [] ex_c_history) /\
  rm_run 3 [] ex_c_history = [true; true; true; true; true; true; true; false; true; false; true; true; false; true].
Proof. vm_compute. repeat split; reflexivity. Qed.

(* a hit: after the first query the entry is held (no eviction), and the second query - asked with the
   domain spelled out - is served from it without touching the graph: even on a state whose graphs are gone *)
Example ex_c_hit :
  match gen_c_add_link (gen_new 3) (snd (gen_c_new [] 3)) (T "a") (T "b") None with
  | Some (s, c) =>
      match gen_c_has_link ex_hfin (fun l => l) 10 s c (T "a") (T "b") None with
      | Some (c', r) =>
          r = true /\ mk_entries c' = [(ex_hfin [T "a"; T "b"; T "DEFAULT"], true)] /\
          gen_c_has_link ex_hfin (fun l => l) 10 (gen_new 3) c' (T "a") (T "b") (Some (T "DEFAULT")) = Some (c', true) /\
          gen_has_link (fun l => l) 10 (gen_new 3) (T "a") (T "b") (Some (T "DEFAULT")) = Some false
      | None => False
      end
  | None => False
  end.
Proof. vm_compute. repeat split; reflexivity. Qed.

(* the key: three strings fed one after the other are not their concatenation, and the default domain is
   "DEFAULT", not "" *)
Example ex_key_shapes :
  rs_hash_str (rs_hash_str (rs_hash_str rs_hasher_new (T "ab")) (T "c")) (T "d") <>
  rs_hash_str (rs_hash_str (rs_hash_str rs_hasher_new (T "a")) (T "bc")) (T "d") /\
  rs_hash_str rs_hasher_new (rs_concat [T "ab"; T "c"; T "d"]) = rs_hash_str rs_hasher_new (rs_concat [T "a"; T "bc"; T "d"]) /\
  rkey_of (T "a") (T "b") None = rkey_of (T "a") (T "b") (Some (T "DEFAULT")) /\
  rkey_of (T "a") (T "b") None <> rkey_of (T "a") (T "b") (Some (T "")).
Proof. vm_compute. repeat split; try reflexivity; intros H; discriminate H. Qed.

(* without the hypothesis on the hasher the theorem is false: a digest that collides on two keys in play
   makes the cached manager answer the second query with the answer of the first *)
Example ex_collision_refuted :
  let hbad := fun _ : hasher => 0 in
  let h := [RCWrite (LAdd (T "a") (T "b") None); RCHas (T "a") (T "b") None; RCHas (T "b") (T "a") None] in
  gen_c_run hbad (fun l => l) 10 (fst (gen_c_new [] 3)) (snd (gen_c_new [] 3)) (map cop_of h) = Some [true; true; true] /\
  gen_u_run (fun l => l) 10 (gen_new 3) (map cop_of h) = Some [true; true; false].
Proof. vm_compute. split; reflexivity. Qed.

Definition ex_all : mfun := fun _ _ => true.
(* get_or_create_role really clears: with a matching function that matches everything, creating "z" next to
   a -> b adds Match edges (the hypothesis of gen_c_get_or_create_role_clears), and a held entry is gone *)
Example ex_goc_clears :
  match option_map fst (gen_run (fun l => l) (gen_new 3) [MSetFns (Some ex_all) None; MAdd (T "a") (T "b") None]) with
  | Some s =>
      m_edges (m_create_node (rm_role_matching_fn s) (mgraph_of (rm_abs s) (dom_key None)) (T "z")) <>
      m_edges (mgraph_of (rm_abs s) (dom_key None)) /\
      let c := gen_cache_set nat bool Nat.eqb (snd (gen_c_new [] 3)) 7 true in
      mk_entries c = [(7, true)] /\
      option_map (fun r => mk_entries (snd (fst r))) (gen_c_get_or_create_role s c (T "z") None) = Some []
  | None => False
  end.
Proof. vm_compute. split; [intros H; discriminate H|split; reflexivity]. Qed.

Print Assumptions gen_c_get_or_create_role_sim.
Print Assumptions gen_c_clear_sim.
Print Assumptions gen_c_matching_fn_sim.
Print Assumptions gen_c_has_link_sim.
Print Assumptions gen_c_get_or_create_role_clears.
Print Assumptions gen_c_add_link_ok.
Print Assumptions gen_c_delete_link_ok.
Print Assumptions gen_c_new_refines.
Print Assumptions gen_c_add_link_refines.
Print Assumptions gen_c_delete_link_refines.
Print Assumptions gen_c_clear_refines.
Print Assumptions gen_c_has_link_refines.
Print Assumptions gen_c_run_refines.
Print Assumptions gen_c_history_ok.
Print Assumptions gen_c_history_ok_inj.
Print Assumptions gen_c_answer_ok.
