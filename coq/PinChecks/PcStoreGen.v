(* Obligations tying the TRANSLATED loops of the policy store (Gen/StoreGen.v,
   regenerated on every run by tools/rs2coq.py from
   /repo/src/model/default_model.rs) to the hand-written model
   (Model/Engine.v): get_filtered_policy = select_filtered,
   remove_filtered_policy = the selection / flag / removal of m_remove_filtered,
   has_policy = rmem, get_values_for_field_in_policy = column + distinct_last.
   The two coincide on every input (unbounded rule lists, rules and filters),
   panics included: the generated function is None exactly when the model is.

   Method.  No induction is done on a generated term.  Proofs/RustVecP.v
   characterises, once and by induction, four loop SHAPES (scan / select /
   fold / foldopt) from a pointwise description of the loop body, and shows
   that the model's recursive functions are instances of them.  Here each
   obligation names, for every loop of the source, its shape and the
   per-element test of the MODEL (e.g. `fcheck idx r` for the inner loop,
   `fun r => fmatch vals (skipn idx r)` for the outer one); the pointwise
   description of the generated body is then proved by one tactic, `finish`,
   that never looks at the shape of the generated term (it rewrites the
   RustVec operations into the model's vocabulary and splits on every
   scrutinee).  What a stopping iteration leaves behind (`break` with which
   flag value, or `return` of which value) is not named: it is inferred.  A
   rewrite of the Rust source that keeps its meaning (panics included) and
   stays in the translated subset keeps these proofs; a change of meaning
   leaves an unprovable leaf and the file no longer compiles. *)
From CV Require Import Model.Base Model.Enforce Model.Engine.
From CV Require Import Gen.RustStr Gen.RustVec Gen.StoreGen.
From CV Require Import Proofs.BaseP Proofs.C04SetP Proofs.RustVecP.
From Coq Require Import Lia.

Lemma gen_store_translated_ok : gen_store_translated = true.
Proof. reflexivity. Qed.

(* ------------------------------------------------------------------ *)
(* the tactic                                                          *)

(* the RustVec / RustStr operations in the model's vocabulary.  Plain
   abbreviations are unfolded (that works under binders); the others are
   rewritten wherever no binder is in the way, again after every split *)
Ltac norm :=
  cbv beta iota zeta;
  cbv delta [rs_eq rs_index rs_push rs_set_to_vec rs_set_new rs_fold is_nil rule];
  cbn [negb andb orb fst snd option_map flow_stop rs_fn app fold_left];
  rewrite ?rs_is_empty_nil, ?rs_vec_is_empty_nil, ?rs_vec_eq_reqb, ?rs_oset_remove_rremove,
          ?rs_set_insert_tset, ?rs_enumerate_enum_from, ?teqb_nil_r, ?rmem_existsb,
          ?fold_push, ?fold_flag_push, ?rs_for_nil.

(* booleans in the context become equations / disequations *)
Ltac bool_hyps :=
  repeat match goal with
         | H : teqb _ _ = true |- _ => apply teqb_eq in H
         | H : teqb _ _ = false |- _ => apply teqb_neq in H
         | H : reqb _ _ = true |- _ => apply reqb_eq in H
         | H : reqb _ _ = false |- _ => apply reqb_neq in H
         | H : negb _ = true |- _ => apply negb_true_iff in H
         | H : negb _ = false |- _ => apply negb_false_iff in H
         | H : andb _ _ = true |- _ => apply andb_true_iff in H; destruct H
         | H : orb _ _ = false |- _ => apply orb_false_iff in H; destruct H
         end.

(* split on every scrutinee, innermost first; a loop is never split on (it has
   to be rewritten by one of the loop_* tactics first) *)
Ltac split_all :=
  repeat (norm;
          match goal with
          | |- context [match ?x with _ => _ end] => is_var x; destruct x
          | |- context [match ?x with _ => _ end] =>
              lazymatch x with
              | context [match _ with _ => _ end] => fail
              | context [rs_for] => fail
              | _ => let E := fresh "E" in destruct x eqn:E
              end
          end).

(* comparisons left in a leaf (a == b against b == a): decide them *)
Ltac eqb_split :=
  repeat match goal with
         | |- context [teqb ?a ?b] =>
             let E := fresh "E" in
             destruct (teqb a b) eqn:E; [apply teqb_eq in E; subst | apply teqb_neq in E]
         | |- context [reqb ?a ?b] =>
             let E := fresh "E" in
             destruct (reqb a b) eqn:E; [apply reqb_eq in E; subst | apply reqb_neq in E]
         end.

(* a leaf: contradictory hypotheses first (so that an undetermined `stop` is
   never instantiated from an impossible case), then syntactic equality *)
Ltac leaf :=
  first [ discriminate
        | exfalso; bool_hyps; subst; congruence
        | reflexivity
        | congruence
        | bool_hyps; subst; eqb_split; norm; first [reflexivity | congruence | exfalso; congruence] ].

Ltac finish := split_all; norm; leaf.
(* the same when loops are still to be rewritten: `lt` rewrites the loop that the splits uncover *)
Ltac finish_loops lt := repeat (progress (split_all; try lt)); finish.

(* the loop shapes of Proofs/RustVecP.v; `tac` proves the pointwise
   description of the body of the (only closed) loop of the goal *)
Ltac loop_select chk upd tac :=
  norm;
  match goal with
  | |- context [rs_for ?b ?l ?s] =>
      let H := fresh "Hbody" in
      assert (H : forall x s0, b x s0 = match chk x with
                                         | Some true => LNext (upd s0 x)
                                         | Some false => LNext s0
                                         | None => LPanic
                                         end) by tac;
      rewrite (rs_for_select b chk upd H); clear H
  end.

Ltac loop_scan chk tac :=
  norm;
  match goal with
  | |- context [rs_for ?b ?l ?s] =>
      let H := fresh "Hbody" in
      let T := type of b in
      lazymatch T with
      | _ -> _ -> flow ?S ?R =>
          (* what a stopping iteration yields: not named, found while `tac` runs; it is
             created here, outside the binder, so it cannot depend on the element *)
          let stop := open_constr:(_ : flow S R) in
          assert (H : forall x, b x s = match chk x with
                                        | Some true => stop
                                        | Some false => LNext s
                                        | None => LPanic
                                        end) by tac;
          rewrite (rs_for_scan b chk s stop H) by reflexivity; clear H
      end
  end.

Ltac loop_fold f tac :=
  norm;
  match goal with
  | |- context [rs_for ?b ?l ?s] =>
      let H := fresh "Hbody" in
      assert (H : forall x s0, b x s0 = LNext (f s0 x)) by tac;
      rewrite (rs_for_fold b f H); clear H
  end.

Ltac loop_foldopt g f tac :=
  norm;
  match goal with
  | |- context [rs_for ?b ?l ?s] =>
      let H := fresh "Hbody" in
      assert (H : forall x s0, b x s0 = match g x with Some y => LNext (f s0 y) | None => LPanic end) by tac;
      rewrite (rs_for_foldopt b g f H); clear H
  end.

(* ------------------------------------------------------------------ *)
(* (a) get_filtered_policy                                             *)

(* the inner loop of the filter, for any rule: a scan with the model's fcheck *)
Ltac inner_filter_loop idx r :=
  loop_scan (fcheck idx r) ltac:(intros [i v]; unfold fcheck; finish);
  rewrite scan_fcheck0.

Theorem gen_get_filtered_ok : forall idx vals policy,
  gen_get_filtered idx vals policy = select_filtered idx vals policy.
Proof.
  intros idx vals policy. unfold gen_get_filtered.
  loop_select (fun r : rule => fmatch vals (skipn idx r)) (fun (s : list rule) (r : rule) => s ++ [r])
              ltac:(intros r acc; inner_filter_loop idx r; finish).
  rewrite <- select_filtered_select_opt. finish.
Qed.

Theorem gen_get_filtered_absent_ok : forall idx vals, gen_get_filtered_absent idx vals = Some [].
Proof. intros idx vals. unfold gen_get_filtered_absent. finish. Qed.

Theorem gen_get_filtered_model : forall md sec pt idx vals,
  m_get_filtered md sec pt idx vals =
  match get_ast md sec pt with
  | Some a => gen_get_filtered idx vals (a_policy a)
  | None => gen_get_filtered_absent idx vals
  end.
Proof.
  intros md sec pt idx vals. unfold m_get_filtered, m_get_policy.
  destruct (get_ast md sec pt) as [a|].
  - symmetry. apply gen_get_filtered_ok.
  - rewrite gen_get_filtered_absent_ok. reflexivity.
Qed.

(* ------------------------------------------------------------------ *)
(* (b) remove_filtered_policy                                          *)

(* remove_filtered_spec (Proofs/RustVecP.v): what m_remove_filtered does to the rule list of the
   assertion - early return on an empty filter, selection, flag, removal of the selected rules *)
Theorem gen_remove_filtered_ok : forall idx vals policy,
  gen_remove_filtered idx vals policy = remove_filtered_spec idx vals policy.
Proof.
  intros idx vals policy. unfold gen_remove_filtered, remove_filtered_spec.
  loop_select (fun r : rule => fmatch vals (skipn idx r))
              (fun (s : bool * list rule) (r : rule) => let (_, a) := s in (true, a ++ [r]))
              ltac:(intros r [b acc]; inner_filter_loop idx r; finish).
  rewrite <- select_filtered_select_opt.
  finish_loops ltac:(loop_fold (fun (l : list rule) (r : rule) => rremove r l) ltac:(intros x s0; finish)).
Qed.

Theorem gen_remove_filtered_absent_ok : forall idx vals,
  gen_remove_filtered_absent idx vals = Some (false, []).
Proof. intros idx vals. unfold gen_remove_filtered_absent. finish. Qed.

(* the selection and the flag, separately *)
Theorem gen_remove_filtered_select_ok : forall idx vals policy,
  gen_remove_filtered_select idx vals policy =
  match vals with [] => Some [] | _ :: _ => select_filtered idx vals policy end.
Proof.
  intros idx vals policy. unfold gen_remove_filtered_select.
  rewrite gen_remove_filtered_ok. unfold remove_filtered_spec.
  destruct vals as [|v vs]; [reflexivity|]. destruct (select_filtered idx (v :: vs) policy); reflexivity.
Qed.

Theorem gen_remove_filtered_flag_ok : forall idx vals policy,
  gen_remove_filtered_flag idx vals policy =
  match vals with
  | [] => Some false
  | _ :: _ => option_map (fun rem => negb (is_nil rem)) (select_filtered idx vals policy)
  end.
Proof.
  intros idx vals policy. unfold gen_remove_filtered_flag.
  rewrite gen_remove_filtered_ok. unfold remove_filtered_spec.
  destruct vals as [|v vs]; [reflexivity|]. destruct (select_filtered idx (v :: vs) policy); reflexivity.
Qed.

(* the whole model-level operation, from the translated function *)
Theorem gen_remove_filtered_model : forall md sec pt idx vals,
  m_remove_filtered md sec pt idx vals =
  match get_ast md sec pt with
  | Some a =>
    match gen_remove_filtered idx vals (a_policy a) with
    | Some (p', (flag, rem)) => Some (set_ast md sec pt (with_policy a p'), flag, rem)
    | None => None
    end
  | None =>
    match gen_remove_filtered_absent idx vals with
    | Some (flag, rem) => Some (md, flag, rem)
    | None => None
    end
  end.
Proof.
  intros md sec pt idx vals. unfold m_remove_filtered.
  rewrite gen_remove_filtered_absent_ok.
  destruct (get_ast md sec pt) as [a|] eqn:Ha.
  - rewrite gen_remove_filtered_ok. unfold remove_filtered_spec.
    assert (Hid : set_ast md sec pt (with_policy a (a_policy a)) = md).
    { pose proof (set_policy_id md sec pt a Ha) as X. unfold set_policy in X.
      rewrite Ha in X. exact X. }
    destruct vals as [|v vs]; [rewrite Hid; reflexivity|].
    destruct (select_filtered idx (v :: vs) (a_policy a)) as [[|r rem]|]; [|reflexivity|reflexivity].
    cbn [fold_left is_nil negb]. rewrite Hid. reflexivity.
  - destruct vals; reflexivity.
Qed.

(* ------------------------------------------------------------------ *)
(* (c) has_policy                                                      *)

Theorem gen_has_policy_ok : forall r policy, gen_has_policy r policy = Some (rmem r policy).
Proof.
  intros r policy. unfold gen_has_policy.
  loop_scan (fun x : rule => Some (reqb r x)) ltac:(intros x; finish).
  rewrite scan_total. finish.
Qed.

Theorem gen_has_policy_absent_ok : forall r, gen_has_policy_absent r = Some false.
Proof. intros r. unfold gen_has_policy_absent. finish. Qed.

Theorem gen_has_policy_model : forall md sec pt r,
  Some (m_has_policy md sec pt r) =
  match get_ast md sec pt with
  | Some a => gen_has_policy r (a_policy a)
  | None => gen_has_policy_absent r
  end.
Proof.
  intros md sec pt r. unfold m_has_policy, m_get_policy. destruct (get_ast md sec pt) as [a|].
  - symmetry. apply gen_has_policy_ok.
  - rewrite gen_has_policy_absent_ok. reflexivity.
Qed.

(* ------------------------------------------------------------------ *)
(* (d) get_values_for_field_in_policy                                  *)

Theorem gen_values_for_field_ok : forall idx policy,
  gen_values_for_field idx policy =
  match column idx policy with Some c => Some (distinct_last c) | None => None end.
Proof.
  intros idx policy. unfold gen_values_for_field, distinct_last.
  loop_foldopt (fun r : rule => nth_error r idx) tset_insert ltac:(intros x s0; finish).
  rewrite <- column_map_opt. finish.
Qed.

Theorem gen_values_for_field_absent_ok : forall idx, gen_values_for_field_absent idx = Some [].
Proof. intros idx. unfold gen_values_for_field_absent. finish. Qed.

Theorem gen_values_for_field_model : forall md sec pt idx,
  m_values md sec pt idx =
  match get_ast md sec pt with
  | Some a => gen_values_for_field idx (a_policy a)
  | None => gen_values_for_field_absent idx
  end.
Proof.
  intros md sec pt idx. unfold m_values, m_get_policy. destruct (get_ast md sec pt) as [a|].
  - symmetry. apply gen_values_for_field_ok.
  - rewrite gen_values_for_field_absent_ok. reflexivity.
Qed.

(* ------------------------------------------------------------------ *)
(* how panics correspond                                               *)

(* the inner loop panics on rule r: it reaches, without having met a mismatch
   (`fits`: every earlier non-empty filter value equals its field), a non-empty
   filter value whose field index idx + i is beyond the end of r *)
Definition rule_panics (idx : nat) (vals : list text) (r : rule) : Prop :=
  exists i v, nth_error vals i = Some v /\ v <> [] /\ nth_error r (idx + i) = None /\ fits idx vals r i.

Lemma fmatch_None_rule_panics : forall idx vals r,
  fmatch vals (skipn idx r) = None <-> rule_panics idx vals r.
Proof. intros idx vals r. rewrite fmatch_sp_match. apply sp_match_oob. Qed.

(* the translated get_filtered_policy (hence the Rust loop, which examines the
   rules in order and pushes the matching ones) panics exactly when there is a
   FIRST rule on which the inner loop panics: the rules before it were examined
   without a panic, the rules after it do not matter.  The model's None is the
   same set of inputs (gen_get_filtered_ok). *)
Theorem gen_get_filtered_panics : forall idx vals policy,
  gen_get_filtered idx vals policy = None <->
  exists l1 r l2, policy = l1 ++ r :: l2 /\ rule_panics idx vals r /\
                  (forall y, In y l1 -> ~ rule_panics idx vals y).
Proof.
  intros idx vals policy. rewrite gen_get_filtered_ok, select_filtered_select_opt, select_opt_None.
  split; intros [l1 [r [l2 [H1 [H2 H3]]]]]; exists l1, r, l2; (split; [exact H1|]); split.
  - apply fmatch_None_rule_panics, H2.
  - intros y Hy Hp. apply (H3 y Hy). apply fmatch_None_rule_panics, Hp.
  - apply fmatch_None_rule_panics, H2.
  - intros y Hy Hp. apply (H3 y Hy). apply fmatch_None_rule_panics, Hp.
Qed.

(* remove_filtered_policy panics on the same inputs, unless the filter is
   empty (early return); when it panics nothing has been removed yet (the
   removal loop comes after the selection loop: gen_remove_filtered_ok) *)
Theorem gen_remove_filtered_panics : forall idx vals policy,
  gen_remove_filtered idx vals policy = None <->
  vals <> [] /\ gen_get_filtered idx vals policy = None.
Proof.
  intros idx vals policy. rewrite gen_remove_filtered_ok, gen_get_filtered_ok. unfold remove_filtered_spec.
  destruct vals as [|v vs].
  - split; [discriminate|]. intros [H _]. exfalso. apply H. reflexivity.
  - destruct (select_filtered idx (v :: vs) policy) as [s|].
    + split; [discriminate|]. intros [_ H]. discriminate H.
    + split; [|reflexivity]. intros _. split; [discriminate|reflexivity].
Qed.

(* has_policy never panics; get_values_for_field_in_policy panics exactly when
   some rule is shorter than idx + 1 (at the first such rule) *)
Theorem gen_values_for_field_panics : forall idx policy,
  gen_values_for_field idx policy = None <-> exists r, In r policy /\ length r <= idx.
Proof.
  intros idx policy. rewrite gen_values_for_field_ok. induction policy as [|r l IH]; cbn [column].
  - split; [discriminate|]. intros [r [[] _]].
  - destruct (nth_error r idx) as [v|] eqn:E.
    + destruct (column idx l) as [c|].
      * split; [discriminate|]. intros [r' [[<-|Hr] Hl]].
        -- apply nth_error_None in Hl. rewrite Hl in E. discriminate.
        -- destruct IH as [_ IH]. discriminate IH. exists r'. split; assumption.
      * split; [|reflexivity]. intros _. destruct (proj1 IH eq_refl) as [r' [Hr Hl]].
        exists r'. split; [right; exact Hr|exact Hl].
    + split; [|reflexivity]. intros _. exists r. split; [left; reflexivity|]. apply nth_error_None, E.
Qed.

(* ------------------------------------------------------------------ *)
(* the statements are not vacuous: every branch of the translated code is taken *)
Definition ex_policy : list rule :=
  [[T "alice"; T "data1"; T "read"]; [T "bob"; T "data2"; T "write"]; [T "alice"; T "data2"; T "write"];
   [T "carol"]].

Example gen_get_filtered_ex :
  (* a match, a wildcard in the middle, the short rule is left by a mismatch before its missing field *)
  gen_get_filtered 0 [T "alice"; T ""; T "write"] ex_policy = Some [[T "alice"; T "data2"; T "write"]] /\
  (* an empty value does not look at the rule, even beyond its end *)
  gen_get_filtered 1 [T ""; T ""] [[T "carol"]] = Some [[T "carol"]] /\
  (* the short rule panics once the earlier rules were examined *)
  gen_get_filtered 1 [T "data2"] ex_policy = None /\
  (* ... but not when a mismatch comes first *)
  gen_get_filtered 0 [T "bob"; T "data2"] ex_policy = Some [[T "bob"; T "data2"; T "write"]] /\
  gen_get_filtered 5 [] ex_policy = Some ex_policy.
Proof. vm_compute. repeat split. Qed.

Example gen_remove_filtered_ex :
  gen_remove_filtered 1 [T "data2"] (firstn 3 ex_policy) =
    Some ([[T "alice"; T "data1"; T "read"]],
          (true, [[T "bob"; T "data2"; T "write"]; [T "alice"; T "data2"; T "write"]])) /\
  gen_remove_filtered 1 [T "data9"] (firstn 3 ex_policy) = Some (firstn 3 ex_policy, (false, [])) /\
  gen_remove_filtered 1 [] ex_policy = Some (ex_policy, (false, [])) /\
  gen_remove_filtered 1 [T "data2"] ex_policy = None /\
  gen_remove_filtered_select 1 [T "data1"] (firstn 3 ex_policy) = Some [[T "alice"; T "data1"; T "read"]] /\
  gen_remove_filtered_flag 1 [T "data1"] (firstn 3 ex_policy) = Some true.
Proof. vm_compute. repeat split. Qed.

Example gen_has_policy_ex :
  gen_has_policy [T "bob"; T "data2"; T "write"] ex_policy = Some true /\
  gen_has_policy [T "bob"; T "data2"] ex_policy = Some false /\
  gen_has_policy [T "carol"] [] = Some false.
Proof. vm_compute. repeat split. Qed.

Example gen_values_for_field_ex :
  (* ordered by LAST occurrence: LinkedHashSet::insert moves a repeated value to the back *)
  gen_values_for_field 0 ex_policy = Some [T "bob"; T "alice"; T "carol"] /\
  gen_values_for_field 1 (firstn 3 ex_policy) = Some [T "data1"; T "data2"] /\
  gen_values_for_field 1 ex_policy = None.
Proof. vm_compute. repeat split. Qed.

Example rule_panics_ex : rule_panics 1 [T "data2"] [T "carol"].
Proof.
  exists 0, (T "data2"). split; [reflexivity|]. split; [discriminate|]. split; [reflexivity|].
  intros i v Hi. inversion Hi.
Qed.

Example rs_vec_ops_ex :
  rs_enumerate [T "a"; T "b"] = [(0, T "a"); (1, T "b")] /\
  rs_set_insert [T "a"; T "b"; T "c"] (T "a") = [T "b"; T "c"; T "a"] /\
  rs_oset_remove [[T "a"]; [T "b"]; [T "c"]] [T "b"] = [[T "a"]; [T "c"]] /\
  rs_vec_eq [T "a"; T "b"] [T "a"; T "b"] = true /\ rs_vec_eq [T "a"; T "b"] [T "a"] = false /\
  rs_for (fun (x : nat) (s : nat) => if Nat.eqb x 3 then @LBreak nat unit (s + 100) else LNext (s + x)) [1; 2; 3; 4] 0
    = Done 103.
Proof. vm_compute. repeat split. Qed.

Print Assumptions gen_store_translated_ok.
Print Assumptions gen_get_filtered_ok.
Print Assumptions gen_get_filtered_model.
Print Assumptions gen_remove_filtered_ok.
Print Assumptions gen_remove_filtered_select_ok.
Print Assumptions gen_remove_filtered_flag_ok.
Print Assumptions gen_remove_filtered_model.
Print Assumptions gen_has_policy_ok.
Print Assumptions gen_has_policy_model.
Print Assumptions gen_values_for_field_ok.
Print Assumptions gen_values_for_field_model.
Print Assumptions gen_get_filtered_panics.
Print Assumptions gen_remove_filtered_panics.
Print Assumptions gen_values_for_field_panics.
