(* Obligations tying the TRANSLATED sequencing methods of `impl CoreApi for
   Enforcer` (Gen/EnforcerGen.v, regenerated on every run by tools/rs2coq_enf.py,
   rs2coq part 7, from /repo/src/enforcer.rs: is_filtered, build_role_links,
   load_policy, load_filtered_policy, save_policy, clear_policy,
   set_role_manager, set_model, set_adapter, enable_enforce, enable_auto_save,
   enable_auto_build_role_links, enable_auto_notify_watcher, add_function,
   set_effector; cfg resolved for incremental + watcher + cached) to the
   hand-written steps of Model/Engine.v.  The two coincide for EVERY state and
   EVERY argument.

   Method (as in PcInternalGen.v).  The generated programs follow the source:
   the backup of the model map, the clearing, the adapter call, the restore and
   `return Err(e)` of the error path, the rebuild of the role links under
   `if self.auto_build_role_links` with its `?`, the assertion of save_policy,
   the payload of SavePolicy assembled with `extend`, the position of the
   emits, the calls of the other translated methods (gen_load_policy,
   gen_build_role_links).  The hand-written steps factor the same behaviour
   differently (finish_load, lres_out, lerr_out, a let-bound adapter result,
   Engine.build_role_links in one piece, step_set_adapter handing on the
   answer of step_load).  The tactics `enforcer_eq0/1/2` close all obligations
   without looking at the shape of either side: they unfold both sides and
   split on every scrutinee that is left (the switches of the state, the
   adapter's answer, the outcome of the role-link rebuild, of
   register_g_functions) until both sides are syntactically equal.  The three
   differ only in which ALREADY PROVED equations of callees they may use
   (0: none; 1: build_role_links; 2: also load_policy), so that a callee is one
   opaque call of the model on both sides; `enforcer_eq_open`, the fallback of
   all three, uses none and opens every definition.  A rewrite of the Rust
   source that keeps its meaning inside the translated subset keeps these
   proofs; a change of meaning leaves an unprovable leaf
   `(state, outcome) = (state', outcome')` and the file no longer compiles
   (tools/rs2coq_demo.py, labels EP.. / EN..).

   Two semantic facts about the model are used:
   * its adapters never PANIC in a load (ad_load_no_panic,
     ad_load_filtered_no_panic).  finish_load gives a state to that impossible
     outcome (the untouched model) which is not the state the source would be
     in (the partially loaded model); the generated program has the latter,
     and the case is discharged as unreachable;
   * a load only ever succeeds with Ok true (step_load_ok_true): set_adapter
     answers Ok(()) after `self.load_policy().await?` where step_set_adapter
     hands on the answer of step_load.
   No source / model disagreement on a reachable path.

   Limits of the MODEL that the equalities cannot see (Gen/EnforcerPrims.v):
   the function map and the engine are one table (the translator insists on
   the pair of calls instead), the effector is not a component of the state
   (set_effector is the identity on it), conversions try_into_model /
   try_into_adapter are outside (the operation carries the converted value). *)
From CV Require Import Model.Base Model.Enforce Model.Engine.
From CV Require Import Gen.InternalPrims Gen.EnforcerPrims Gen.EnforcerGen Proofs.BaseP Proofs.ExModels.

Lemma gen_enforcer_translated_ok : gen_enforcer_translated = true.
Proof. reflexivity. Qed.

(* ------------------------------------------------------------------ *)
(* Part 0: loads do not panic                                          *)

Lemma ad0_load_ok : forall a md, snd (ad0_load a md) = LROk.
Proof. intros [| l f | l f | l f | i sc] md; reflexivity. Qed.

Lemma ad0_load_filtered_ok : forall a fp fg md, snd (ad0_load_filtered a fp fg md) = LROk.
Proof.
  intros [| l f | l f | l f | i sc] fp fg md; cbn [ad0_load_filtered]; try reflexivity.
  - destruct (mem_load_filtered fp fg md l) as [md' fl]. reflexivity.
  - destruct (str_load_filtered fp fg md l) as [md' fl]. reflexivity.
  - destruct (str_load_filtered fp fg md l) as [md' fl]. reflexivity.
Qed.

Lemma ad_load_no_panic : forall a md ad md', ad_load a md <> (ad, md', LRPanic).
Proof.
  intros a md ad md' H.
  assert (H0 : forall x, snd (ad0_load x md) = LROk) by (intro x; apply ad0_load_ok).
  destruct a as [| l f | l f | l f | i sc].
  - specialize (H0 ANull). change (ad0_load ANull md) with (ad_load ANull md) in H0.
    rewrite H in H0. discriminate H0.
  - specialize (H0 (AMemory l f)). change (ad0_load (AMemory l f) md) with (ad_load (AMemory l f) md) in H0.
    rewrite H in H0. discriminate H0.
  - specialize (H0 (AFile l f)). change (ad0_load (AFile l f) md) with (ad_load (AFile l f) md) in H0.
    rewrite H in H0. discriminate H0.
  - specialize (H0 (AString l f)). change (ad0_load (AString l f) md) with (ad_load (AString l f) md) in H0.
    rewrite H in H0. discriminate H0.
  - cbn [ad_load] in H.
    specialize (H0 i). destruct (ad0_load i md) as [[i' md1] r1]. cbn [snd] in H0. subst r1.
    destruct sc as [| [| | | |] sc]; inversion H.
Qed.

Lemma ad_load_filtered_no_panic : forall a fp fg md ad md', ad_load_filtered a fp fg md <> (ad, md', LRPanic).
Proof.
  intros a fp fg md ad md' H.
  assert (H0 : forall x, snd (ad0_load_filtered x fp fg md) = LROk) by (intro x; apply ad0_load_filtered_ok).
  destruct a as [| l f | l f | l f | i sc].
  - specialize (H0 ANull).
    change (ad0_load_filtered ANull fp fg md) with (ad_load_filtered ANull fp fg md) in H0.
    rewrite H in H0. discriminate H0.
  - specialize (H0 (AMemory l f)).
    change (ad0_load_filtered (AMemory l f) fp fg md) with (ad_load_filtered (AMemory l f) fp fg md) in H0.
    rewrite H in H0. discriminate H0.
  - specialize (H0 (AFile l f)).
    change (ad0_load_filtered (AFile l f) fp fg md) with (ad_load_filtered (AFile l f) fp fg md) in H0.
    rewrite H in H0. discriminate H0.
  - specialize (H0 (AString l f)).
    change (ad0_load_filtered (AString l f) fp fg md) with (ad_load_filtered (AString l f) fp fg md) in H0.
    rewrite H in H0. discriminate H0.
  - cbn [ad_load_filtered] in H.
    specialize (H0 i). destruct (ad0_load_filtered i fp fg md) as [[i' md1] r1]. cbn [snd] in H0. subst r1.
    destruct sc as [| [| | | |] sc]; inversion H.
Qed.

(* ------------------------------------------------------------------ *)
(* Part 1: the tactic                                                  *)

(* the translated methods, callers first *)
Ltac eg_unfold_gen :=
  unfold gen_is_filtered, gen_load_policy, gen_load_filtered_policy, gen_save_policy,
         gen_clear_policy, gen_set_role_manager, gen_enable_enforce,
         gen_enable_auto_save, gen_enable_auto_build_role_links, gen_enable_auto_notify_watcher,
         gen_add_function, gen_set_effector;
  unfold gen_is_filtered.

Ltac eg_unfold_glue :=
  unfold replace_rm, replace_model, replace_eft, off_policy_change, on_policy_change, add_user_function.

Ltac eg_unfold_model :=
  unfold step; unfold step_load, step_load_filtered, finish_load, step_save, step_clear,
         step_set_role_manager, emit, s_p, s_g.

(* the record updates and the boolean connectives are unfolded everywhere, and
   `step` where it meets an operation; a projection only where it meets a record *)
Ltac eg_simpl :=
  cbv beta iota zeta delta [upd_model upd_adapter upd_fs upd_wlog upd_flags set_rm negb orb andb
                            step lerr_out lres_out];
  (* fst / snd only where they meet a pair (they also occur under binders, in replace_rm) *)
  cbn [fst snd e_model e_mexprs e_adapter e_fs e_enabled e_auto_save e_auto_build e_auto_notify
       e_callbacks e_watcher e_wlog f_rm f_rm_max f_gfuns f_ufuns d_model d_mexprs].

Ltac eg_step :=
  match goal with
  | |- context [match ?x with _ => _ end] => is_var x; destruct x
  | |- context [if ?c then _ else _] =>
    match c with context [?b] => is_var b; lazymatch type of b with bool => destruct b end end
  | |- context [match ?x with _ => _ end] =>
    (* an innermost scrutinee only: a call of a primitive *)
    lazymatch x with context [match _ with _ => _ end] => fail | _ => idtac end;
    destruct x eqn:?
  end.

(* an outcome the adapters of the model cannot produce *)
Ltac eg_no_panic :=
  match goal with
  | H : ad_load _ _ = (_, _, LRPanic) |- _ => exact (False_ind _ (ad_load_no_panic _ _ _ _ H))
  | H : ad_load_filtered _ _ _ _ = (_, _, LRPanic) |- _ => exact (False_ind _ (ad_load_filtered_no_panic _ _ _ _ _ _ H))
  end.

(* rw: the equations of the methods that are CALLED (proved before), used as
   soon as the argument of a call is a closed term: the callee is then one
   opaque call of the model on both sides *)
Ltac eg_split rw :=
  match goal with s : estate |- _ => destruct s as [md0 mx0 ad0 fs0 en0 sv0 bl0 nt0 cb0 wt0 wl0] end;
  repeat (eg_simpl; rw; eg_simpl; try reflexivity; try eg_no_panic; eg_step);
  eg_simpl; reflexivity.

(* `self.rm.write().clear(); self.model.build_role_links(Arc::clone(&self.rm))` is the
   model's Engine.build_role_links *)
Theorem build_role_links_split : forall s,
  model_build_role_links (rm_clear s) = build_role_links s.
Proof.
  intros s. unfold model_build_role_links, rm_clear, build_role_links.
  destruct s as [md0 mx0 ad0 fs0 en0 sv0 bl0 nt0 cb0 wt0 wl0].
  repeat (eg_simpl; try reflexivity; eg_step).
Qed.

(* the fallback: nothing is folded, every definition is opened (slow; only
   needed for a source that inlines a callee or separates the two halves of
   build_role_links) *)
Ltac enforcer_eq_open :=
  repeat progress unfold gen_is_filtered, gen_build_role_links, gen_load_policy, gen_load_filtered_policy,
         gen_save_policy, gen_clear_policy, gen_set_role_manager, gen_set_model, gen_set_adapter,
         gen_enable_enforce, gen_enable_auto_save, gen_enable_auto_build_role_links,
         gen_enable_auto_notify_watcher, gen_add_function, gen_set_effector;
  eg_unfold_glue; unfold rm_clear, model_build_role_links;
  unfold step; unfold step_set_model, step_set_adapter; eg_unfold_model; unfold build_role_links;
  unfold s_p, s_g;
  eg_split idtac.

(* ------------------------------------------------------------------ *)
(* Part 2: the obligations                                             *)

Theorem gen_is_filtered_ok : forall ptab s, ask ptab s QIsFiltered = AnsBool (gen_is_filtered s).
Proof. intros ptab s. reflexivity. Qed.

Ltac enforcer_eq0 :=
  (unfold gen_build_role_links; eg_split ltac:(rewrite ?build_role_links_split)) || enforcer_eq_open.

Theorem gen_build_role_links_ok : forall s, gen_build_role_links s = step s OBuildRoleLinks.
Proof. intros s. enforcer_eq0. Qed.

(* the callers of build_role_links *)
Ltac enforcer_eq1 :=
  (eg_unfold_gen; eg_unfold_glue; eg_unfold_model;
   eg_split ltac:(rewrite ?gen_build_role_links_ok, ?build_role_links_split)) || enforcer_eq_open.

Theorem gen_load_policy_ok : forall s, gen_load_policy s = step s OLoad.
Proof. intros s. enforcer_eq1. Qed.

Theorem gen_load_filtered_policy_ok : forall s fp fg,
  gen_load_filtered_policy s (fp, fg) = step s (OLoadFiltered fp fg).
Proof. intros s fp fg. enforcer_eq1. Qed.

Theorem gen_save_policy_ok : forall s, gen_save_policy s = step s OSave.
Proof. intros s. enforcer_eq1. Qed.

Theorem gen_clear_policy_ok : forall s, gen_clear_policy s = step s OClear.
Proof. intros s. enforcer_eq1. Qed.

Theorem gen_set_role_manager_ok : forall s mx, gen_set_role_manager s mx = step s (OSetRoleManager mx).
Proof. intros s mx. enforcer_eq1. Qed.

Theorem gen_enable_enforce_ok : forall s b, gen_enable_enforce s b = step s (OEnableEnforce b).
Proof. intros s b. enforcer_eq1. Qed.

Theorem gen_enable_auto_save_ok : forall s b, gen_enable_auto_save s b = step s (OEnableAutoSave b).
Proof. intros s b. enforcer_eq1. Qed.

Theorem gen_enable_auto_build_role_links_ok : forall s b,
  gen_enable_auto_build_role_links s b = step s (OEnableAutoBuild b).
Proof. intros s b. enforcer_eq1. Qed.

Theorem gen_enable_auto_notify_watcher_ok : forall s b,
  gen_enable_auto_notify_watcher s b = step s (OEnableAutoNotify b).
Proof. intros s b. enforcer_eq1. Qed.

Theorem gen_add_function_ok : forall s n u, gen_add_function s n u = step s (OAddFunction n u).
Proof. intros s n u. enforcer_eq1. Qed.

Theorem gen_set_effector_ok : forall s e, gen_set_effector s e = step s OSetEffector.
Proof. intros s e. enforcer_eq1. Qed.

(* the callers of load_policy: a load is ONE opaque call on both sides, `step_load <state>`.
   set_adapter answers Ok(()) after a successful load where the model hands on
   the answer of step_load: the same, since a load only ever succeeds with Ok true *)
Lemma step_load_ok_true : forall s s' b, step_load s = (s', Ok b) -> b = true.
Proof.
  intros s s' b H. unfold step_load, finish_load in H.
  destruct (ad_load (e_adapter s) (m_clear_policy (e_model s))) as [[ad md] r].
  destruct r as [| e |]; try discriminate H.
  destruct (e_auto_build (upd_model (upd_adapter s ad) md)).
  - destruct (build_role_links (upd_model (upd_adapter s ad) md)) as [s2 [| e]]; cbn [lerr_out] in H.
    + inversion H. reflexivity.
    + discriminate H.
  - inversion H. reflexivity.
Qed.

Ltac eg_load_true :=
  match goal with
  | H : step_load _ = (_, Ok ?b) |- _ => is_var b; pose proof (step_load_ok_true _ _ _ H); subst b
  end.

Ltac enforcer_eq2 :=
  (unfold gen_set_model, gen_set_adapter; eg_unfold_glue;
   unfold step; unfold step_set_model, step_set_adapter, emit, s_p, s_g;
   eg_split ltac:(try eg_load_true;
                  rewrite ?gen_load_policy_ok, ?gen_build_role_links_ok, ?build_role_links_split))
  || enforcer_eq_open.

Theorem gen_set_model_ok : forall s d, gen_set_model s d = step s (OSetModel d).
Proof. intros s d. enforcer_eq2. Qed.

Theorem gen_set_adapter_ok : forall s a, gen_set_adapter s a = step s (OSetAdapter a).
Proof. intros s a. enforcer_eq2. Qed.

(* the steps by their own names *)
Theorem gen_steps_ok : forall s fp fg d a mx,
  gen_load_policy s = step_load s /\
  gen_load_filtered_policy s (fp, fg) = step_load_filtered s fp fg /\
  gen_save_policy s = step_save s /\
  gen_clear_policy s = step_clear s /\
  gen_set_model s d = step_set_model s d /\
  gen_set_adapter s a = step_set_adapter s a /\
  gen_set_role_manager s mx = step_set_role_manager s mx.
Proof.
  intros s fp fg d a mx.
  rewrite gen_load_policy_ok, gen_load_filtered_policy_ok, gen_save_policy_ok, gen_clear_policy_ok,
          gen_set_model_ok, gen_set_adapter_ok, gen_set_role_manager_ok.
  repeat split.
Qed.

(* ------------------------------------------------------------------ *)
(* Part 3: the statements are not vacuous                              *)

(* an RBAC enforcer with a watcher and one callback, all switches on, memory adapter *)
Definition eg_w : estate :=
  fst (new_enforcer rbac_def (mem [pl admin data1 read; gl alice admin]) true).
Definition eg_flags (s : estate) :=
  (e_enabled s, e_auto_save s, e_auto_build s, e_auto_notify s, e_watcher s, e_callbacks s).
Definition eg_scripted (s : estate) (sc : list resp) : estate := upd_adapter s (AScripted (e_adapter s) sc).

(* load_policy: the adapter delivers everything and THEN fails (RFailLate), or
   delivers the policy rules only (RFailPartial): the error comes back, the
   model is the one before the call (backup restored), the role links too *)
Example gen_load_policy_ex_restore :
  eg_flags eg_w = (true, true, true, true, true, 1) /\
  let s0 := upd_adapter eg_w (AScripted (mem [pl bob data2 write]) [RFailLate; RFailPartial; RPass]) in
  let (s1, r1) := gen_load_policy s0 in
  let (s2, r2) := gen_load_policy s1 in
  let (s3, r3) := gen_load_policy s2 in
  r1 = Err EAdapter /\ r2 = Err EAdapter /\ r3 = Ok true /\
  e_model s1 = e_model eg_w /\ e_model s2 = e_model eg_w /\
  roles_for_user s2 alice None = [admin] /\
  m_get_policy (e_model s3) s_p s_p = [[bob; data2; write]] /\ roles_for_user s3 alice None = [].
Proof. vm_compute. repeat split. Qed.

(* the `?` after build_role_links: a malformed grouping rule is loaded, then the call fails *)
Example gen_load_policy_ex_links_err :
  let s0 := upd_adapter eg_w (mem [[s_g; s_g; alice]]) in
  let (s1, r1) := gen_load_policy s0 in
  r1 = Err EPolicy /\ m_get_policy (e_model s1) s_g s_g = [[alice]] /\
  let (s2, r2) := gen_load_policy (fst (gen_enable_auto_build_role_links s0 false)) in
  r2 = Ok true /\ roles_for_user s2 alice None = [admin].
Proof. vm_compute. repeat split. Qed.

Example gen_load_filtered_policy_ex :
  let (s1, r1) := gen_load_filtered_policy eg_w ([bob], []) in
  r1 = Ok true /\ m_get_policy (e_model s1) s_p s_p = [] /\ gen_is_filtered s1 = true /\
  snd (gen_save_policy s1) = Panic /\
  let (s2, r2) := gen_load_filtered_policy (eg_scripted eg_w [RFailLate]) ([bob], []) in
  r2 = Err EAdapter /\ e_model s2 = e_model eg_w.
Proof. vm_compute. repeat split. Qed.

(* save_policy: the watcher receives the policy rules followed by the grouping rules *)
Example gen_save_policy_ex :
  let (s1, r1) := gen_save_policy eg_w in
  r1 = Ok true /\ e_wlog s1 = [EvSave [pl admin data1 read; gl alice admin]] /\
  let (s2, r2) := gen_save_policy (eg_scripted eg_w [RFail]) in
  r2 = Err EAdapter /\ e_wlog s2 = [].
Proof. vm_compute. repeat split. Qed.

(* clear_policy: adapter, model, role links, watcher; a failing adapter stops everything *)
Example gen_clear_policy_ex :
  let (s1, r1) := gen_clear_policy eg_w in
  r1 = Ok true /\ e_adapter s1 = mem [] /\ m_get_all (e_model s1) s_p = [] /\
  roles_for_user eg_w alice None = [admin] /\ roles_for_user s1 alice None = [] /\ e_wlog s1 = [EvClear] /\
  let (s2, r2) := gen_clear_policy (eg_scripted eg_w [RFail]) in
  r2 = Err EAdapter /\ e_model s2 = e_model eg_w /\ e_wlog s2 = [] /\
  let (s3, r3) := gen_clear_policy (fst (gen_enable_auto_build_role_links eg_w false)) in
  r3 = Ok true /\ roles_for_user s3 alice None = [admin].
Proof. vm_compute. repeat split. Qed.

Example gen_build_role_links_ex :
  let s0 := fst (gen_enable_auto_build_role_links eg_w false) in
  let s1 := fst (step s0 (OAdd s_g s_g [bob; admin])) in
  roles_for_user s1 bob None = [] /\
  let (s2, r2) := gen_build_role_links s1 in
  r2 = Ok true /\ roles_for_user s2 bob None = [admin] /\ roles_for_user s2 alice None = [admin].
Proof. vm_compute. repeat split. Qed.

(* set_role_manager: the new manager is filled (auto-build) and g is registered
   again, pointing to it; without auto-build the new manager stays empty *)
Example gen_set_role_manager_ex :
  let (s1, r1) := gen_set_role_manager eg_w 3 in
  r1 = Ok true /\ f_rm_max (e_fs s1) = 3 /\ roles_for_user s1 alice None = [admin] /\
  enforce no_ptab s1 (req alice data1 read) = Ok true /\
  let (s2, r2) := gen_set_role_manager (fst (gen_enable_auto_build_role_links eg_w false)) 3 in
  r2 = Ok true /\ f_rm (e_fs s2) = [] /\ enforce no_ptab s2 (req alice data1 read) = Ok false.
Proof. vm_compute. repeat split. Qed.

(* set_model: the policy is reloaded into the new model; the role function of
   the new definition g2 is registered *)
Example gen_set_model_ex :
  let s0 := upd_adapter (mk acl_def (mem [])) (mem [pl alice data1 read; gl alice admin; g2l data1 data2]) in
  let (s1, r1) := gen_set_model s0 rbac2_def in
  r1 = Ok true /\ m_get_policy (e_model s1) s_g (T "g2") = [[data1; data2]] /\
  map fst (f_gfuns (e_fs s0)) = [] /\ map fst (f_gfuns (e_fs s1)) = [(T "g2", 2); (s_g, 2)] /\
  let (s2, r2) := gen_set_model (eg_scripted s0 [RFail]) rbac2_def in
  r2 = Err EAdapter /\ f_gfuns (e_fs s2) = [].
Proof. vm_compute. repeat split. Qed.

Example gen_set_adapter_ex :
  let (s1, r1) := gen_set_adapter eg_w (mem [pl bob data2 write]) in
  r1 = Ok true /\ m_get_policy (e_model s1) s_p s_p = [[bob; data2; write]] /\ roles_for_user s1 alice None = [] /\
  let (s2, r2) := gen_set_adapter eg_w (AScripted (mem []) [RFail]) in
  r2 = Err EAdapter /\ e_model s2 = e_model eg_w /\ e_adapter s2 = AScripted (mem []) [].
Proof. vm_compute. repeat split. Qed.

(* enable_auto_notify_watcher: off removes the callbacks; on registers ONE, and
   only when switching from off to on *)
Example gen_enable_auto_notify_watcher_ex :
  let s1 := fst (gen_enable_auto_notify_watcher eg_w true) in
  let s2 := fst (gen_enable_auto_notify_watcher s1 false) in
  let s3 := fst (gen_enable_auto_notify_watcher s2 true) in
  let s4 := fst (gen_enable_auto_notify_watcher s3 true) in
  (e_callbacks s1, e_callbacks s2, e_callbacks s3, e_callbacks s4) = (1, 0, 1, 1) /\
  (e_auto_notify s1, e_auto_notify s2, e_auto_notify s3) = (true, false, true).
Proof. vm_compute. repeat split. Qed.

Example gen_enable_ex :
  eg_flags (fst (gen_enable_enforce eg_w false)) = (false, true, true, true, true, 1) /\
  eg_flags (fst (gen_enable_auto_save eg_w false)) = (true, false, true, true, true, 1) /\
  eg_flags (fst (gen_enable_auto_build_role_links eg_w false)) = (true, true, false, true, true, 1) /\
  enforce no_ptab (fst (gen_enable_enforce eg_w false)) (req bob data2 write) = Ok true.
Proof. vm_compute. repeat split. Qed.

Example gen_add_function_ex :
  let s1 := fst (gen_add_function eg_w (T "always") UTrue) in
  f_ufuns (e_fs s1) = [(T "always", UTrue)] /\ snd (gen_set_effector s1 tt) = Ok true.
Proof. vm_compute. repeat split. Qed.

Print Assumptions gen_enforcer_translated_ok.
Print Assumptions gen_is_filtered_ok.
Print Assumptions gen_build_role_links_ok.
Print Assumptions gen_load_policy_ok.
Print Assumptions gen_load_filtered_policy_ok.
Print Assumptions gen_save_policy_ok.
Print Assumptions gen_clear_policy_ok.
Print Assumptions gen_set_role_manager_ok.
Print Assumptions gen_set_model_ok.
Print Assumptions gen_set_adapter_ok.
Print Assumptions gen_enable_enforce_ok.
Print Assumptions gen_enable_auto_save_ok.
Print Assumptions gen_enable_auto_build_role_links_ok.
Print Assumptions gen_enable_auto_notify_watcher_ok.
Print Assumptions gen_add_function_ok.
Print Assumptions gen_set_effector_ok.
Print Assumptions gen_steps_ok.
Print Assumptions build_role_links_split.
