(* Pin obligation for C20: the lock protocol the theorems are about is the one
   the source follows. Every acquisition on the role-manager handle is a
   statement temporary (no guard is bound to a variable, so none is held across
   another acquisition), and the sites are where the thread programs of
   Model/Locks.v put them: the g-function closures (macros.rs), the RBAC query
   helpers (rbac_api.rs), link building (assertion.rs) and the rebuild's clear
   (enforcer.rs). *)
From CV Require Import Model.Base Pins.

Lemma pin_lock_sites_ok :
  pin_lock_sites =
  [(T "src/enforcer.rs", 1); (T "src/macros.rs", 2); (T "src/rbac_api.rs", 4);
   (T "src/model/assertion.rs", 6); (T "src/model/default_model.rs", 0);
   (T "src/internal_api.rs", 0); (T "src/management_api.rs", 0);
   (T "src/cached_enforcer.rs", 0); (T "src/rbac/default_role_manager.rs", 0)].
Proof. reflexivity. Qed.
Lemma pin_lock_guards_bound_ok : pin_lock_guards_bound = 0.
Proof. reflexivity. Qed.
