(* Obligations tying the TRANSLATED write side / file reading of the file adapter and the save / clear side of
   the string adapter (Gen/FsaveGen.v, regenerated on every run by tools/rs2coq.py - tools/rs2coq_fsave.py -
   from /repo/src/adapter/file_adapter.rs and string_adapter.rs; runtime: Gen/FsRt.v, TRUSTED) to

     Model/FileSave.v   save_policy_file = `save_spec` (Proofs/FsaveP.v: the protocol written once by hand over
                        the calls of FsRt.v), whose calls are `save_new (path ++ ".tmp") path bytes` and whose
                        file system under EVERY fault script (errors and kills at any call, any number of
                        bytes written, several faults) is a `run_cut` / `save_new_failed` state of it: the
                        C10 part-4 theorems (save_atomic, save_atomic_cleanup, save_new_complete) hold of the
                        translated function: gen_save_policy_file_atomic / _truthful / _cut / _calls / _ops /
                        _one_error / _rename_error / _killed
     Model/Csv.v,       save_policy: the text written is SpecC16.save_text_file md / save_text_string md =
     Model/SpecC16.v    one `render_line_file` / `render_line_string` line + line feed per rule of Engine.v's
                        text_lines md (sections p then g, assertions and rules in LinkedHashMap / LinkedHashSet
                        order, every value through csv_field): gen_file_save_policy_spec, gen_str_save_policy_spec
     Model/Engine.v     ad0_save / ad0_clear on AFile and AString (the adapter's lines = Csv.parsed_lines of the
                        text; on stores the format can carry: SpecC16.model_text_safe_r), ad0_load /
                        ad0_load_filtered on AFile (BufRead::lines + part 9's line handlers, composed with
                        part 9's file_filtered_loop_ok), ad0_add .. ad0_remove_filtered on AFile (Ok(true),
                        nothing touched) and AString (Err(AdapterError)), ad_is_filtered
   for ALL models, texts, paths and fault scripts.

   FINDINGS (source and model differ; `.._refuted` below)
     F17-1  a load of the FILE adapter that fails after delivering lines keeps `is_filtered` (file_adapter.rs:
            "only a load that succeeded delivered the full policy: a failed one must not unmark ..."); the
            model's only way to fail a load, the scripted wrapper (ad_load on AScripted (AFile l true)
            [RFailLate] / [RFailPartial]), returns the inner adapter of ad0_load, whose mark is RESET.  (For
            AMemory / AString inners the reset is right: their load_policy clears the mark first.)
   Observations (no disagreement, stated as theorems)
     O1  an error of the final rename returns at once: the complete temporary file `path.tmp` is left behind
         (the policy file is untouched): gen_save_policy_file_rename_error_leaves_tmp.  FileSave.v says the
         clean-up applies to n < 2 only, so the model does not claim otherwise.
     O2  FileAdapter::save_policy on an empty path is an io::Error before anything else; the model's AFile has
         no path (the case is outside it).  A missing policy file makes load_policy an Err(IoError) with nothing
         delivered; the model's AFile always has lines.
     O3  a read error delivers a PREFIX of the lines (gen_file_load_policy_any); the scripted faults of the
         model deliver nothing, everything, or the p rules only.

   Method: as in PinChecks/PcAdaptersGen.v (whose tactics are reused): no induction on a generated term.  A
   straight-line sequence of file-system calls is executed symbolically (`fs_exec`: each call becomes an
   arbitrary result, both sides of the equation run on it); a `for` loop is rewritten by a loop shape of
   Proofs/RustVecP.v, the `while let .. next_line()` loop by `rs_while_lines` (Proofs/FsaveP.v), each from a
   pointwise description of its body proved without looking at the shape of the generated term. *)
From CV Require Import Model.Base Model.Csv Model.Enforce Model.Engine Model.FileSave Model.SpecC16.
From CV Require Import Gen.RustStr Gen.RustVec Gen.StrFnGen Gen.AdaptersPrims Gen.AdaptersGen Gen.FsRt Gen.FsaveGen.
From CV Require Import Proofs.BaseP Proofs.C04SetP Proofs.RustVecP Proofs.AdaptersP Proofs.C10P Proofs.CsvQP Proofs.FsaveP.
From CV Require Import PinChecks.PcStrFnGen PinChecks.PcAdaptersGen.
From Coq Require Import Lia.

Lemma gen_fsave_translated_ok : gen_fsave_translated = true.
Proof. reflexivity. Qed.

(* symbolic execution of a straight-line sequence of file-system calls: each call whose arguments are known is
   replaced by an arbitrary (world, result); both sides of the goal then run on the same values *)
Ltac fs_red := cbv beta iota zeta delta [rs_fn io_err rs_os_push tmp_of].
Ltac fs_split1 :=
  match goal with
  | |- context [fs_create ?w ?p] => destruct (fs_create w p) as [?w [?h|?e]]
  | |- context [fs_open ?w ?p] => destruct (fs_open w p) as [?w [?h|?e]]
  | |- context [fs_write_all ?w ?h ?b] => destruct (fs_write_all w h b) as [?w [[]|?e]]
  | |- context [fs_flush ?w ?h] => destruct (fs_flush w h) as [?w [[]|?e]]
  | |- context [fs_rename ?w ?a ?b] => destruct (fs_rename w a b) as [?w [[]|?e]]
  | |- context [fs_remove_file ?w ?p] => destruct (fs_remove_file w p) as [?w [[]|?e]]
  end.
Ltac fs_exec := fs_red; repeat (fs_split1; fs_red).

Theorem gen_save_policy_file_spec : forall path flt w bytes,
  gen_save_policy_file path flt w bytes = Some (save_spec path w bytes).
Proof. intros path flt w bytes. unfold gen_save_policy_file, save_spec. fs_exec; reflexivity. Qed.

Theorem gen_file_clear_policy_spec : forall path flt w,
  gen_file_clear_policy path flt w = Some ((path, flt, fst (save_spec path w [])), snd (save_spec path w [])).
Proof.
  intros path flt w. unfold gen_file_clear_policy. rewrite gen_save_policy_file_spec.
  destruct (save_spec path w []) as [w' [[]|e]]; reflexivity.
Qed.

Definition missing_p : text := T "Missing policy definition in conf file".

(* one line of the file / of the string, as the format string and the join separator of the source build it *)
Lemma fmt_line_file : forall k r,
  render_line_file k r = rs_fmt [T ""; T ", "; T ""] [k; rs_join (map (fun v => gen_csv_field v) r) (T ",")].
Proof.
  intros k r. unfold render_line_file. rewrite rs_join_join. cbn [rs_fmt]. change (T "") with (@nil ascii).
  rewrite app_nil_r. cbn [app].
  replace (map (fun v => gen_csv_field v) r) with (map csv_field r) by (apply map_ext; intros v; symmetry; apply gen_csv_field_ok).
  reflexivity.
Qed.
Lemma fmt_line_string : forall k r,
  render_line_string k r = rs_fmt [T ""; T ", "; T ""] [k; rs_join (map (fun v => gen_csv_field v) r) (T ", ")].
Proof.
  intros k r. unfold render_line_string. rewrite rs_join_join. cbn [rs_fmt]. change (T "") with (@nil ascii).
  rewrite app_nil_r. cbn [app].
  replace (map (fun v => gen_csv_field v) r) with (map csv_field r) by (apply map_ext; intros v; symmetry; apply gen_csv_field_ok).
  reflexivity.
Qed.

(* the two nested loops of save_policy over one section: a fold of render_step *)
Ltac render_loops g fmt :=
  aloop_fold (render_step g)
             ltac:(intros [kk aa] ?; unfold render_step; cbn [fst snd];
                   aloop_fold (fun (b : text) (r : rule) => b ++ g kk r ++ [nl]) ltac:(intros ? ?; rewrite fmt; reflexivity);
                   reflexivity).

Theorem gen_file_save_policy_spec : forall path flt md w,
  gen_file_save_policy path flt md w =
  match path with
  | [] => Some ((path, flt, md, w), RErr (ErrIo (IoNew (T "Other") (T "save policy failed, file path is empty"))))
  | _ :: _ =>
    match assoc s_p md with
    | None => Some ((path, flt, md, w), RErr (ErrModel (ModelErrP missing_p)))
    | Some _ => Some ((path, flt, md, fst (save_spec path w (save_text_file md))), snd (save_spec path w (save_text_file md)))
    end
  end.
Proof.
  intros path flt md w. unfold gen_file_save_policy, rs_ok_or_else. rewrite rs_is_empty_nil.
  destruct path as [|c path]; [reflexivity|]. rewrite !rs_model_get_assoc. fold s_p. fold s_g.
  destruct (assoc s_p md) as [amp|] eqn:Ep; [|reflexivity]. rewrite (save_text_file_folds md amp Ep).
  render_loops render_line_file fmt_line_file.
  destruct (assoc (T "g") md) as [amg|]; [render_loops render_line_file fmt_line_file|];
    rewrite gen_save_policy_file_spec;
    match goal with |- context [save_spec ?p ?w0 ?b] => destruct (save_spec p w0 b) as [w' [[]|e]] end; reflexivity.
Qed.

(* ---- StringAdapter::save_policy / clear_policy ---- *)
Theorem gen_str_save_policy_spec : forall content flt md,
  gen_str_save_policy content flt md =
  match assoc s_p md with
  | None => Some ((content, flt, md), RErr (ErrModel (ModelErrP missing_p)))
  | Some _ => Some ((save_text_string md, flt, md), ROk tt)
  end.
Proof.
  intros content flt md. unfold gen_str_save_policy, rs_ok_or_else. rewrite !rs_model_get_assoc. fold s_p. fold s_g.
  destruct (assoc s_p md) as [amp|] eqn:Ep; [|reflexivity]. rewrite (save_text_string_folds md amp Ep).
  render_loops render_line_string fmt_line_string.
  destruct (assoc (T "g") md) as [amg|]; [render_loops render_line_string fmt_line_string|]; reflexivity.
Qed.

Theorem gen_str_clear_policy_spec : forall content flt,
  gen_str_clear_policy content flt = Some (([], false), ROk tt).
Proof. reflexivity. Qed.

(* ------------------------------------------------------------------ *)
(* reading: load_policy_file / load_filtered_policy_file               *)

(* the while-let loop over next_line: rewritten by the shape lemma rs_while_lines from a pointwise description
   of its scrutinee and of its body *)
Ltac aloop_lines mk step fail pick tac_c tac_b :=
  match goal with
  | |- context [rs_while_some _ ?c ?b ?s] =>
      let Hc := fresh "Hc" in let Hb := fresh "Hb" in
      assert (Hc : forall ls x w, c (mk ls x w) =
                   let '(w', ls', r) := fs_next_line w ls in
                   match r with ROk o => LNext (mk ls' x w', o) | RErr e => LReturn (fail x w' e) end) by tac_c;
      assert (Hb : forall l ls x w, b l (mk ls x w) = match step x l with Some x' => LNext (mk ls x' w) | None => LPanic end) by tac_b;
      let t := pick s in
      lazymatch t with
      | (?ls0, ?x0, ?w0) => rewrite (rs_while_lines mk step fail c b Hc Hb ls0 x0 w0 s _ eq_refl eq_refl)
      end;
      clear Hc Hb
  end.

Theorem gen_load_policy_file_spec : forall path flt md w (handler : model -> text -> option (model * unit)),
  gen_load_policy_file path flt md w handler =
  match load_spec (fun m l => option_map fst (handler m l)) path md w with
  | Some (md', w', r) => Some ((path, flt, md', w'), r)
  | None => None
  end.
Proof.
  intros path flt md w handler. unfold gen_load_policy_file, load_spec.
  fs_exec; [|reflexivity].
  aloop_lines (fun (ls : list text) (x : model) (w : world) => (ls, x, w))
              (fun m l => option_map fst (handler m l))
              (fun (x : model) (w : world) (e : io_error) => ((path, flt, x, w), @RErr casbin_error unit (ErrIo e)))
              ltac:(fun s => lazymatch s with (?ls0, ?m0, ?w0) => constr:((ls0, m0, w0)) end)
              ltac:(intros ls x w1; cbv beta; destruct (fs_next_line w1 ls) as [[w' ls'] [o|e]]; reflexivity)
              ltac:(intros l ls x w1; cbv beta; destruct (handler x l) as [[m' u]|]; reflexivity).
  destruct (read_lines _ _ _ _) as [[[x' w'] [|]]|]; reflexivity.
Qed.

(* the filtered variant: the loop also carries the flag; the handler says whether the line was left out *)
Definition filt_step (handler : model -> text -> list text -> list text -> option (model * bool)) (fp fg : list text)
    (x : bool * model) (l : text) : option (bool * model) :=
  match handler (snd x) l fp fg with
  | Some (m', out) => Some (if out then true else fst x, m')
  | None => None
  end.

Theorem gen_load_filtered_policy_file_spec : forall path flt md w fp fg handler,
  gen_load_filtered_policy_file path flt md w fp fg handler =
  match load_spec (filt_step handler fp fg) path (false, md) w with
  | Some ((b, md'), w', r) => Some ((md', w'), match r with ROk _ => ROk b | RErr e => RErr e end)
  | None => None
  end.
Proof.
  intros path flt md w fp fg handler. unfold gen_load_filtered_policy_file, load_spec.
  fs_exec; [|reflexivity].
  aloop_lines (fun (ls : list text) (x : bool * model) (w : world) => (fst x, ls, snd x, w))
              (filt_step handler fp fg)
              (fun (x : bool * model) (w : world) (e : io_error) => ((snd x, w), @RErr casbin_error bool (ErrIo e)))
              ltac:(fun s => lazymatch s with (?b0, ?ls0, ?m0, ?w0) => constr:((ls0, (b0, m0), w0)) end)
              ltac:(intros ls [b m] w1; cbv beta; cbn [fst snd]; destruct (fs_next_line w1 ls) as [[w' ls'] [o|e]]; reflexivity)
              ltac:(intros l ls [b m] w1; unfold filt_step; cbv beta; cbn [fst snd];
                    destruct (handler m l fp fg) as [[m' out]|]; reflexivity).
  destruct (read_lines _ _ _ _) as [[[[b x'] w'] [|]]|]; reflexivity.
Qed.

(* ---- FileAdapter::load_policy / load_filtered_policy: the handlers are part 9's ---- *)
Theorem gen_file_load_policy_spec : forall path flt md w,
  gen_file_load_policy path flt md w =
  match load_spec (fun m l => Some (raw_step load_line m l)) path md w with
  | Some (md', w', r) => Some ((path, match r with ROk _ => false | RErr _ => flt end, md', w'), r)
  | None => None
  end.
Proof.
  intros path flt md w. unfold gen_file_load_policy. rewrite gen_load_policy_file_spec.
  rewrite (load_spec_ext _ (fun m l => Some (raw_step load_line m l)))
    by (intros x l; rewrite gen_file_load_policy_line_ok; reflexivity).
  destruct (load_spec _ path md w) as [[[md' w'] [[]|e]]|]; reflexivity.
Qed.

Theorem gen_file_load_filtered_policy_spec : forall path flt md w fp fg,
  gen_file_load_filtered_policy path flt md w fp fg =
  match load_spec (fun x l => Some (file_filtered_loop fp fg x l)) path (false, md) w with
  | Some ((b, md'), w', r) => Some ((path, match r with ROk _ => b | RErr _ => flt end, md', w'), r)
  | None => None
  end.
Proof.
  intros path flt md w fp fg. unfold gen_file_load_filtered_policy. rewrite gen_load_filtered_policy_file_spec.
  rewrite (load_spec_ext _ (fun x l => Some (file_filtered_loop fp fg x l)))
    by (intros x l; unfold filt_step, file_filtered_loop; rewrite gen_file_load_filtered_policy_line_ok; reflexivity).
  destruct (load_spec _ path (false, md) w) as [[[[b md'] w'] [[]|e]]|]; reflexivity.
Qed.

(* ------------------------------------------------------------------ *)
(* the adapter model (Engine.v) and the file-save model (FileSave.v)   *)

(* ---- (1) save_policy_file: the C10 statements over the TRANSLATED function ---- *)
(* nothing fails: the calls are exactly FileSave.v's save_new (temporary file = path + ".tmp"), in order *)
Theorem gen_save_policy_file_calls : forall path flt fs ops sc bytes, all_ok sc = true ->
  gen_save_policy_file path flt (mkw fs ops sc false) bytes
  = Some (mkw (run_fops fs (save_new (tmp_of path) path bytes)) (ops ++ save_new (tmp_of path) path bytes) (skipn 4 sc) false,
          ROk tt).
Proof. intros. rewrite gen_save_policy_file_spec, save_spec_ok by assumption. reflexivity. Qed.

(* every fault script: the file system left behind is an interrupted run of save_new, or one followed by the
   removal of the temporary file *)
Theorem gen_save_policy_file_cut : forall path flt w bytes w' r,
  gen_save_policy_file path flt w bytes = Some (w', r) ->
  exists n k, w_fs w' = run_cut (save_new (tmp_of path) path bytes) n k (w_fs w)
           \/ w_fs w' = save_new_failed (tmp_of path) path bytes n k (w_fs w).
Proof.
  intros path flt w bytes w' r H. rewrite gen_save_policy_file_spec in H. inversion H as [E].
  pose proof (save_spec_cut path w bytes) as K. rewrite E in K. exact K.
Qed.

(* the headline of C10 part 4 (c10_save_atomic / c10_save_atomic_cleanup): whatever fails or is killed, and
   whenever, the policy file holds the complete old contents or the complete new contents *)
Theorem gen_save_policy_file_atomic : forall path flt w bytes w' r,
  gen_save_policy_file path flt w bytes = Some (w', r) ->
  content (w_fs w') path = content (w_fs w) path \/ content (w_fs w') path = Some bytes.
Proof.
  intros path flt w bytes w' r H. rewrite gen_save_policy_file_spec in H. inversion H as [E].
  pose proof (save_spec_atomic path w bytes) as K. cbv zeta in K. rewrite E in K. exact K.
Qed.

(* Ok is reported only for a completed save (c10_save_complete: new contents, no temporary file); anything
   else leaves the policy file as it was *)
Theorem gen_save_policy_file_truthful : forall path flt w bytes w' r,
  gen_save_policy_file path flt w bytes = Some (w', r) ->
  (r = ROk tt -> content (w_fs w') path = Some bytes /\ content (w_fs w') (tmp_of path) = None) /\
  (r <> ROk tt -> content (w_fs w') path = content (w_fs w) path).
Proof.
  intros path flt w bytes w' r H. rewrite gen_save_policy_file_spec in H. inversion H as [E].
  destruct (save_spec_truthful path w bytes) as [K1 K2]. rewrite E in K1, K2. cbn [fst snd] in K1, K2. split.
  - intros Hr. rewrite (K1 Hr). apply save_new_complete, tmp_of_neq.
  - exact K2.
Qed.

(* the calls it issues, under every script: a prefix of save_new, then possibly Remove of the temporary file *)
Theorem gen_save_policy_file_ops : forall path flt w bytes w' r,
  gen_save_policy_file path flt w bytes = Some (w', r) ->
  exists m, w_ops w' = w_ops w ++ firstn m (save_new (tmp_of path) path bytes)
         \/ w_ops w' = w_ops w ++ firstn m (save_new (tmp_of path) path bytes) ++ [Remove (tmp_of path)].
Proof.
  intros path flt w bytes w' r H. rewrite gen_save_policy_file_spec in H. inversion H as [E].
  pose proof (save_spec_ops path w bytes) as K. rewrite E in K. exact K.
Qed.

(* one reported error (create, write_all after k bytes, flush): FileSave.v's save_new_failed - cleaned up *)
Theorem gen_save_policy_file_one_error : forall path flt fs ops n k rest bytes, n <= 2 -> all_ok rest = true ->
  gen_save_policy_file path flt (mkw fs ops (repeat FOk n ++ FErr k :: rest) false) bytes
  = Some (mkw (save_new_failed (tmp_of path) path bytes n k fs)
              (ops ++ firstn (S n) [Create (tmp_of path); Append (tmp_of path) bytes] ++ [Remove (tmp_of path)])
              (tl rest) false, RErr (ErrIo IoOs)).
Proof. intros. rewrite gen_save_policy_file_spec, save_spec_one_error by assumption. reflexivity. Qed.

(* an error of the rename: `?` returns at once - the complete temporary file stays, the policy file is untouched *)
Theorem gen_save_policy_file_rename_error : forall path flt fs ops k rest bytes,
  gen_save_policy_file path flt (mkw fs ops (repeat FOk 3 ++ FErr k :: rest) false) bytes
  = Some (mkw (run_cut (save_new (tmp_of path) path bytes) 2 0 fs) (ops ++ save_new (tmp_of path) path bytes) rest false,
          RErr (ErrIo IoOs)).
Proof. intros. rewrite gen_save_policy_file_spec, save_spec_rename_error. reflexivity. Qed.

Corollary gen_save_policy_file_rename_error_leaves_tmp : forall path flt fs ops k rest bytes w' r,
  gen_save_policy_file path flt (mkw fs ops (repeat FOk 3 ++ FErr k :: rest) false) bytes = Some (w', r) ->
  content (w_fs w') (tmp_of path) = Some bytes /\ content (w_fs w') path = content fs path.
Proof.
  intros path flt fs ops k rest bytes w' r H. rewrite gen_save_policy_file_rename_error in H. inversion H; subst. cbn [w_fs mkw].
  unfold save_new. cbn [run_cut apply_fop]. unfold content. rewrite !assoc_set_same. cbn [app]. split.
  - rewrite ?assoc_set_same. reflexivity.
  - rewrite !assoc_set_other by apply tmp_of_neq. reflexivity.
Qed.

(* the process killed during call n: FileSave.v's run_cut, and nothing more happens *)
Theorem gen_save_policy_file_killed : forall path flt fs ops n k rest bytes w' r, n <= 3 ->
  gen_save_policy_file path flt (mkw fs ops (repeat FOk n ++ FCrash k :: rest) false) bytes = Some (w', r) ->
  w_fs w' = run_cut (save_new (tmp_of path) path bytes) (Nat.min n 2) k fs /\ w_dead w' = true.
Proof.
  intros path flt fs ops n k rest bytes w' r Hn H. rewrite gen_save_policy_file_spec in H. inversion H as [E].
  pose proof (save_spec_killed path fs ops n k rest bytes Hn) as K. rewrite E in K. exact K.
Qed.

(* ---- (2) save_policy / clear_policy of the file adapter ---- *)
(* a failed or interrupted save_policy changes nothing; a reported success installed the rendered model *)
Theorem gen_file_save_policy_atomic : forall path flt md w p' f' md' w' r,
  gen_file_save_policy path flt md w = Some ((p', f', md', w'), r) ->
  p' = path /\ f' = flt /\ md' = md /\
  (content (w_fs w') path = content (w_fs w) path \/ content (w_fs w') path = Some (save_text_file md)) /\
  (r = ROk tt -> content (w_fs w') path = Some (save_text_file md)) /\
  (r <> ROk tt -> content (w_fs w') path = content (w_fs w) path).
Proof.
  intros path flt md w p' f' md' w' r H. rewrite gen_file_save_policy_spec in H.
  destruct path as [|c path].
  { injection H as E1 E2 E3 E4 E5. subst p' f' md' w' r.
    repeat split; try (left; reflexivity); try reflexivity. intros K; discriminate K. }
  destruct (assoc s_p md) as [amp|].
  2:{ injection H as E1 E2 E3 E4 E5. subst p' f' md' w' r.
      repeat split; try (left; reflexivity); try reflexivity. intros K; discriminate K. }
  injection H as E1 E2 E3 E4 E5. subst p' f' md' w' r. split; [reflexivity|]. split; [reflexivity|]. split; [reflexivity|].
  pose proof (save_spec_atomic (c :: path) w (save_text_file md)) as A. cbv zeta in A.
  destruct (save_spec_truthful (c :: path) w (save_text_file md)) as [K1 K2].
  split; [exact A|]. split; [|exact K2].
  intros Hr. rewrite (K1 Hr). apply save_new_complete, tmp_of_neq.
Qed.

(* nothing fails: the file holds save_text_file md (SpecC16.v: one render_line_file line per rule of text_lines) *)
Theorem gen_file_save_policy_run : forall c path flt md fs ops sc amp, all_ok sc = true -> assoc s_p md = Some amp ->
  gen_file_save_policy (c :: path) flt md (mkw fs ops sc false)
  = Some ((c :: path, flt, md,
           mkw (run_fops fs (save_new (tmp_of (c :: path)) (c :: path) (save_text_file md)))
               (ops ++ save_new (tmp_of (c :: path)) (c :: path) (save_text_file md)) (skipn 4 sc) false), ROk tt).
Proof. intros c path flt md fs ops sc amp H E. rewrite gen_file_save_policy_spec, E, save_spec_ok by exact H. reflexivity. Qed.

(* the adapter model: what the file stands for (its parsed lines) and the flag *)
Definition file_view (x : option ((text * bool * model * world) * res casbin_error unit)) : option (adapter * lres) :=
  match x with
  | Some ((p, f, _, w), r) =>
      Some (AFile (match content (w_fs w) p with Some c => parsed_lines c | None => [] end) f, lres_of r)
  | None => None
  end.
Definition file_view3 (x : option ((text * bool * world) * res casbin_error unit)) : option (adapter * lres) :=
  match x with
  | Some ((p, f, w), r) =>
      Some (AFile (match content (w_fs w) p with Some c => parsed_lines c | None => [] end) f, lres_of r)
  | None => None
  end.

(* on a store whose values the format can carry (SpecC16.v: model_text_safe_r; Proofs/CsvQP.v) *)
Theorem gen_file_save_policy_ok : forall c path flt md fs ops sc old, all_ok sc = true ->
  content fs (c :: path) = Some old -> model_text_safe_r md = true ->
  file_view (gen_file_save_policy (c :: path) flt md (mkw fs ops sc false))
  = Some (ad0_save (AFile (parsed_lines old) flt) md).
Proof.
  intros c path flt md fs ops sc old H Hc Hs. unfold ad0_save. destruct (assoc s_p md) as [amp|] eqn:E.
  - rewrite (gen_file_save_policy_run c path flt md fs ops sc amp H E). unfold file_view. cbn [mkw w_fs].
    destruct (save_new_complete (tmp_of (c :: path)) (c :: path) (save_text_file md) fs (tmp_of_neq _)) as [K _].
    rewrite K, (save_file_parsed_q md Hs). reflexivity.
  - rewrite gen_file_save_policy_spec, E. unfold file_view. cbn [mkw w_fs]. rewrite Hc. reflexivity.
Qed.

Theorem gen_file_clear_policy_ok : forall path flt fs ops sc l, all_ok sc = true ->
  file_view3 (gen_file_clear_policy path flt (mkw fs ops sc false)) = Some (ad0_clear (AFile l flt)).
Proof.
  intros path flt fs ops sc l H. rewrite gen_file_clear_policy_spec, save_spec_ok by exact H. unfold file_view3. cbn [fst snd mkw w_fs].
  destruct (save_new_complete (tmp_of path) path [] fs (tmp_of_neq _)) as [K _]. rewrite K. reflexivity.
Qed.

Theorem gen_file_clear_policy_atomic : forall path flt w p' f' w' r,
  gen_file_clear_policy path flt w = Some ((p', f', w'), r) ->
  p' = path /\ f' = flt /\
  (content (w_fs w') path = content (w_fs w) path \/ content (w_fs w') path = Some []) /\
  (r <> ROk tt -> content (w_fs w') path = content (w_fs w) path).
Proof.
  intros path flt w p' f' w' r H. rewrite gen_file_clear_policy_spec in H.
  injection H as E1 E2 E3 E4. subst p' f' w' r.
  split; [reflexivity|]. split; [reflexivity|]. split.
  - apply (save_spec_atomic path w []).
  - apply (save_spec_truthful path w []).
Qed.

(* ---- (3) load_policy / load_filtered_policy of the file adapter ---- *)
Definition file_load_view (lines : list rule) (x : option ((text * bool * model * world) * res casbin_error unit))
  : option (adapter * model * lres) :=
  match x with Some ((_, f, md, _), r) => Some (AFile lines f, md, lres_of r) | None => None end.

Theorem gen_file_load_policy_run : forall path flt md fs ops sc bytes, all_ok sc = true -> content fs path = Some bytes ->
  gen_file_load_policy path flt md (mkw fs ops sc false)
  = Some ((path, false, fold_left load_line (parsed_lines bytes) md,
           mkw fs ops (skipn (2 + length (rs_buf_lines bytes)) sc) false), ROk tt).
Proof.
  intros path flt md fs ops sc bytes H Hc. rewrite gen_file_load_policy_spec.
  rewrite (load_spec_ok (raw_step load_line) _ (fun _ _ => eq_refl) path md fs ops sc bytes H Hc).
  rewrite fold_raw_step, <- tok_buf_lines. reflexivity.
Qed.

Theorem gen_file_load_policy_ok : forall path flt md fs ops sc bytes, all_ok sc = true -> content fs path = Some bytes ->
  file_load_view (parsed_lines bytes) (gen_file_load_policy path flt md (mkw fs ops sc false))
  = Some (ad0_load (AFile (parsed_lines bytes) flt) md).
Proof. intros. rewrite (gen_file_load_policy_run path flt md fs ops sc bytes) by assumption. reflexivity. Qed.

Theorem gen_file_load_filtered_policy_run : forall path flt md fs ops sc bytes fp fg, all_ok sc = true ->
  content fs path = Some bytes ->
  gen_file_load_filtered_policy path flt md (mkw fs ops sc false) fp fg
  = Some ((path, snd (str_load_filtered fp fg md (parsed_lines bytes)), fst (str_load_filtered fp fg md (parsed_lines bytes)),
           mkw fs ops (skipn (2 + length (rs_buf_lines bytes)) sc) false), ROk tt).
Proof.
  intros path flt md fs ops sc bytes fp fg H Hc. rewrite gen_file_load_filtered_policy_spec.
  rewrite (load_spec_ok (file_filtered_loop fp fg) _ (fun _ _ => eq_refl) path (false, md) fs ops sc bytes H Hc).
  rewrite file_filtered_loop_ok, <- tok_buf_lines. reflexivity.
Qed.

Theorem gen_file_load_filtered_policy_ok : forall path flt md fs ops sc bytes fp fg, all_ok sc = true ->
  content fs path = Some bytes ->
  file_load_view (parsed_lines bytes) (gen_file_load_filtered_policy path flt md (mkw fs ops sc false) fp fg)
  = Some (ad0_load_filtered (AFile (parsed_lines bytes) flt) fp fg md).
Proof.
  intros path flt md fs ops sc bytes fp fg H Hc.
  rewrite (gen_file_load_filtered_policy_run path flt md fs ops sc bytes fp fg) by assumption.
  unfold ad0_load_filtered, file_load_view. destruct (str_load_filtered fp fg md (parsed_lines bytes)); reflexivity.
Qed.

(* failures.  No such file: an error, nothing is delivered, the mark is kept *)
Theorem gen_file_load_policy_missing : forall path flt md w, content (w_fs w) path = None ->
  exists w', gen_file_load_policy path flt md w = Some ((path, flt, md, w'), RErr (ErrIo IoOs)) /\ w_fs w' = w_fs w.
Proof.
  intros path flt md w Hc. rewrite gen_file_load_policy_spec.
  destruct (load_spec_missing (fun m l => Some (raw_step load_line m l)) path md w Hc) as [w' [E F]].
  rewrite E. exists w'. split; [reflexivity|exact F].
Qed.

(* under ANY fault script: the rules of a prefix of the lines are delivered (all of them when Ok is reported);
   the mark is reset only by a load that reports Ok; no file is touched *)
Theorem gen_file_load_policy_any : forall path flt md w bytes, content (w_fs w) path = Some bytes ->
  exists j w' r,
    gen_file_load_policy path flt md w
    = Some ((path, match r with ROk _ => false | RErr _ => flt end,
             fold_left (raw_step load_line) (firstn j (rs_buf_lines bytes)) md, w'), r) /\
    (r = ROk tt -> j = length (rs_buf_lines bytes)) /\ w_fs w' = w_fs w /\ w_ops w' = w_ops w.
Proof.
  intros path flt md w bytes Hc. rewrite gen_file_load_policy_spec.
  destruct (load_spec_prefix (raw_step load_line) _ (fun _ _ => eq_refl) path md w bytes Hc) as [j [w' [r [E [Hj [F1 F2]]]]]].
  rewrite E. exists j, w', r. repeat split; assumption.
Qed.

Theorem gen_file_load_filtered_policy_any : forall path flt md w fp fg bytes, content (w_fs w) path = Some bytes ->
  exists j w' r,
    gen_file_load_filtered_policy path flt md w fp fg
    = Some ((path, match r with ROk _ => fst (fold_left (file_filtered_loop fp fg) (firstn j (rs_buf_lines bytes)) (false, md))
                                 | RErr _ => flt end,
             snd (fold_left (file_filtered_loop fp fg) (firstn j (rs_buf_lines bytes)) (false, md)), w'), r) /\
    (r = ROk tt -> j = length (rs_buf_lines bytes)) /\ w_fs w' = w_fs w /\ w_ops w' = w_ops w.
Proof.
  intros path flt md w fp fg bytes Hc. rewrite gen_file_load_filtered_policy_spec.
  destruct (load_spec_prefix (file_filtered_loop fp fg) _ (fun _ _ => eq_refl) path (false, md) w bytes Hc)
    as [j [w' [r [E [Hj [F1 F2]]]]]].
  rewrite E. exists j, w', r. destruct (fold_left _ _ _) as [b md']. cbn [fst snd].
  repeat split; try assumption.
Qed.

(* ---- (4) the incremental methods and is_filtered ---- *)
Definition inc_view {A} (mk : bool -> adapter) (x : option ((A * bool) * res casbin_error bool)) : option (adapter * outcome bool) :=
  match x with Some ((_, f), r) => Some (mk f, out_of r) | None => None end.

(* FileAdapter: Ok(true), neither the file (the methods are not even given the file system) nor the adapter changes *)
Theorem gen_file_incremental_ok : forall path l f sec pt r rs idx vals,
  inc_view (AFile l) (gen_file_add_policy path f sec pt r) = Some (ad0_add (AFile l f) sec pt r) /\
  inc_view (AFile l) (gen_file_add_policies path f sec pt rs) = Some (ad0_add_many (AFile l f) sec pt rs) /\
  inc_view (AFile l) (gen_file_remove_policy path f sec pt r) = Some (ad0_remove (AFile l f) sec pt r) /\
  inc_view (AFile l) (gen_file_remove_policies path f sec pt rs) = Some (ad0_remove_many (AFile l f) sec pt rs) /\
  inc_view (AFile l) (gen_file_remove_filtered_policy path f sec pt idx vals) = Some (ad0_remove_filtered (AFile l f) sec pt idx vals) /\
  gen_file_add_policy path f sec pt r = Some ((path, f), ROk true) /\
  gen_file_add_policies path f sec pt rs = Some ((path, f), ROk true) /\
  gen_file_remove_policy path f sec pt r = Some ((path, f), ROk true) /\
  gen_file_remove_policies path f sec pt rs = Some ((path, f), ROk true) /\
  gen_file_remove_filtered_policy path f sec pt idx vals = Some ((path, f), ROk true).
Proof. intros. repeat split. Qed.

(* StringAdapter: Err(AdapterError(..)) ("not implemented"), nothing changes *)
Definition not_implemented : casbin_error := ErrAdapter (AdapterErr (BoxAdapter (BoxStr (T "not implemented")))).
Theorem gen_str_incremental_ok : forall content l f sec pt r rs idx vals,
  inc_view (AString l) (gen_str_add_policy content f sec pt r) = Some (ad0_add (AString l f) sec pt r) /\
  inc_view (AString l) (gen_str_add_policies content f sec pt rs) = Some (ad0_add_many (AString l f) sec pt rs) /\
  inc_view (AString l) (gen_str_remove_policy content f sec pt r) = Some (ad0_remove (AString l f) sec pt r) /\
  inc_view (AString l) (gen_str_remove_policies content f sec pt rs) = Some (ad0_remove_many (AString l f) sec pt rs) /\
  inc_view (AString l) (gen_str_remove_filtered_policy content f sec pt idx vals) = Some (ad0_remove_filtered (AString l f) sec pt idx vals) /\
  gen_str_add_policy content f sec pt r = Some ((content, f), RErr not_implemented) /\
  gen_str_add_policies content f sec pt rs = Some ((content, f), RErr not_implemented) /\
  gen_str_remove_policy content f sec pt r = Some ((content, f), RErr not_implemented) /\
  gen_str_remove_policies content f sec pt rs = Some ((content, f), RErr not_implemented) /\
  gen_str_remove_filtered_policy content f sec pt idx vals = Some ((content, f), RErr not_implemented).
Proof. intros. repeat split. Qed.

Theorem gen_is_filtered_ok : forall path content l f,
  gen_file_is_filtered path f = Some (ad_is_filtered (AFile l f)) /\
  gen_str_is_filtered content f = Some (ad_is_filtered (AString l f)).
Proof. intros. split; reflexivity. Qed.

(* ---- (5) save_policy / clear_policy of the string adapter ---- *)
Definition str_view (x : option ((text * bool * model) * res casbin_error unit)) : option (adapter * lres) :=
  match x with Some ((c, f, _), r) => Some (AString (parsed_lines c) f, lres_of r) | None => None end.

Theorem gen_str_save_policy_ok : forall content flt md, model_text_safe_r md = true ->
  str_view (gen_str_save_policy content flt md) = Some (ad0_save (AString (parsed_lines content) flt) md) /\
  option_map (fun x => snd (fst x)) (gen_str_save_policy content flt md) = Some md.
Proof.
  intros content flt md Hs. rewrite gen_str_save_policy_spec. unfold ad0_save. destruct (assoc s_p md) as [amp|].
  - unfold str_view. rewrite (save_string_parsed_q md Hs). split; reflexivity.
  - split; reflexivity.
Qed.

(* the old text is replaced, not appended to *)
Theorem gen_str_save_policy_replaces : forall c1 c2 flt md,
  option_map (fun x => fst (fst (fst x))) (gen_str_save_policy c1 flt md)
  = match assoc s_p md with Some _ => Some (save_text_string md) | None => Some c1 end /\
  (assoc s_p md <> None -> gen_str_save_policy c1 flt md = gen_str_save_policy c2 flt md).
Proof.
  intros c1 c2 flt md. rewrite !gen_str_save_policy_spec. destruct (assoc s_p md); split; try reflexivity.
  intros H. exfalso. apply H. reflexivity.
Qed.

Theorem gen_str_clear_policy_ok : forall content l flt,
  option_map (fun x => (AString (parsed_lines (fst (fst x))) (snd (fst x)), lres_of (snd x))) (gen_str_clear_policy content flt)
  = Some (ad0_clear (AString l flt)).
Proof. intros. reflexivity. Qed.

(* ------------------------------------------------------------------ *)
(* FINDING F17-1: what a failed load does to the mark                   *)
Definition ex_path : text := T "policy.csv".
Definition ex_text : text :=
  T "p, alice, data1, read" ++ [ascii_of_nat 13; nl] ++ T "# note" ++ [nl] ++ [nl] ++ T "g, alice, admin" ++ [nl] ++ T "p2, ""x, y"", z".

(* the statement one would like: the scripted late failure of the model describes a failed load of the file adapter *)
Definition file_failed_load_mark_full : Prop := forall path flt md w bytes f' md' w' e,
  content (w_fs w) path = Some bytes ->
  gen_file_load_policy path flt md w = Some ((path, f', md', w'), RErr e) ->
  ad_is_filtered (fst (fst (ad_load (AScripted (AFile (parsed_lines bytes) flt) [RFailLate]) md))) = f'.

Lemma file_failed_load_mark_refuted :
  exists path flt md w bytes f' md' w' e,
    content (w_fs w) path = Some bytes /\
    gen_file_load_policy path flt md w = Some ((path, f', md', w'), RErr e) /\
    f' = true /\
    ad_is_filtered (fst (fst (ad_load (AScripted (AFile (parsed_lines bytes) flt) [RFailLate]) md))) = false.
Proof.
  exists ex_path, true, ex_store, (mk_world [(ex_path, ex_text)] [FOk; FOk; FOk; FOk; FOk; FOk; FErr 0]), ex_text.
  eexists. eexists. eexists. eexists. split; [reflexivity|]. split; [vm_compute; reflexivity|]. split; reflexivity.
Qed.

Lemma not_file_failed_load_mark_full : ~ file_failed_load_mark_full.
Proof.
  intros H. destruct file_failed_load_mark_refuted as [path [flt [md [w [bytes [f' [md' [w' [e [Hc [Hg [Hf Hm]]]]]]]]]]]].
  rewrite (H path flt md w bytes f' md' w' e Hc Hg) in Hm. rewrite Hf in Hm. discriminate Hm.
Qed.

(* the source, in general: the mark survives every failed load *)
Theorem gen_file_failed_load_keeps_mark : forall path flt md w f' md' w' e,
  gen_file_load_policy path flt md w = Some ((path, f', md', w'), RErr e) -> f' = flt.
Proof.
  intros path flt md w f' md' w' e H. rewrite gen_file_load_policy_spec in H.
  destruct (load_spec _ path md w) as [[[m2 w2] [[]|e2]]|]; [discriminate H| |discriminate H].
  injection H as E1 E2 E3 E4. symmetry. exact E1.
Qed.
Theorem gen_file_failed_filtered_load_keeps_mark : forall path flt md w fp fg f' md' w' e,
  gen_file_load_filtered_policy path flt md w fp fg = Some ((path, f', md', w'), RErr e) -> f' = flt.
Proof.
  intros path flt md w fp fg f' md' w' e H. rewrite gen_file_load_filtered_policy_spec in H.
  destruct (load_spec _ path (false, md) w) as [[[[b m2] w2] [[]|e2]]|]; [discriminate H| |discriminate H].
  injection H as E1 E2 E3 E4. symmetry. exact E1.
Qed.

(* the round trip outside the store class of SpecC16.v is the known limit of the text format (C09 / C16),
   not of this translation: a value with a line feed is written as is and read back as two lines *)
Definition nl_store : model :=
  [(T "p", [(T "p", {| a_value := []; a_tokens := []; a_handle := HOwn; a_policy := [[T "a" ++ [nl] ++ T "b"]] |})])].
Lemma gen_str_save_policy_unsafe_refuted :
  model_text_safe_r nl_store = false /\
  str_view (gen_str_save_policy [] false nl_store) <> Some (ad0_save (AString [] false) nl_store).
Proof. split; [reflexivity|]. vm_compute. intros H. discriminate H. Qed.

(* ------------------------------------------------------------------ *)
(* the statements are not vacuous: runs of the translated code          *)
Definition ex_md : model :=
  match gen_mem_load_policy (ex_lines ++ [[T "p"; T "p2"; T "x, y"; T "z"]]) false ex_store with
  | Some ((_, _, md), _) => md
  | None => ex_store
  end.
Definition ex_old : text := T "p, zed, data9, read" ++ [nl].
Definition ex_fs : fsys := [(ex_path, ex_old)].
Definition ex_new : text := T "p, alice,data1,read
p, bob,data2,write
p2, carol
p2, ""x, y"",z
g, alice,admin
".
Definition show (x : option ((text * bool * model * world) * res casbin_error unit)) :=
  option_map (fun x => (content (w_fs (snd (fst x))) ex_path, content (w_fs (snd (fst x))) (tmp_of ex_path),
                        w_ops (snd (fst x)), w_dead (snd (fst x)), snd x)) x.

Example ex_hyps : all_ok [FOk; FOk; FOk; FOk; FOk] = true /\ model_text_safe_r ex_md = true /\
                  content ex_fs ex_path = Some ex_old /\ assoc s_p ex_md <> None /\ save_text_file ex_md = ex_new.
Proof. vm_compute. repeat split. intros H; discriminate H. Qed.

Example gen_file_save_ex :
  (* nothing fails: p before g, a value with a comma in quotes, the three calls of save_new *)
  show (gen_file_save_policy ex_path false ex_md (mk_world ex_fs []))
  = Some (Some ex_new, None, save_new (tmp_of ex_path) ex_path ex_new, false, ROk tt) /\
  (* write_all fails after 9 bytes: the temporary file is removed, the policy file is the old one *)
  show (gen_file_save_policy ex_path false ex_md (mk_world ex_fs [FOk; FErr 9]))
  = Some (Some ex_old, None, [Create (tmp_of ex_path); Append (tmp_of ex_path) ex_new; Remove (tmp_of ex_path)], false,
          RErr (ErrIo IoOs)) /\
  (* ... and the removal fails too: a partial temporary file stays, the policy file is the old one *)
  show (gen_file_save_policy ex_path false ex_md (mk_world ex_fs [FOk; FErr 9; FErr 0]))
  = Some (Some ex_old, Some (T "p, alice,"), [Create (tmp_of ex_path); Append (tmp_of ex_path) ex_new; Remove (tmp_of ex_path)],
          false, RErr (ErrIo IoOs)) /\
  (* the rename fails: the complete temporary file stays (O1) *)
  show (gen_file_save_policy ex_path false ex_md (mk_world ex_fs [FOk; FOk; FOk; FErr 0]))
  = Some (Some ex_old, Some ex_new, save_new (tmp_of ex_path) ex_path ex_new, false, RErr (ErrIo IoOs)) /\
  (* killed during the write *)
  show (gen_file_save_policy ex_path false ex_md (mk_world ex_fs [FOk; FCrash 9]))
  = Some (Some ex_old, Some (T "p, alice,"), [Create (tmp_of ex_path); Append (tmp_of ex_path) ex_new], true, RErr (ErrIo IoOs)) /\
  (* an empty path, a model without section p: errors before any call *)
  option_map snd (show (gen_file_save_policy [] false ex_md (mk_world ex_fs [])))
  = Some (RErr (ErrIo (IoNew (T "Other") (T "save policy failed, file path is empty")))) /\
  show (gen_file_save_policy ex_path true [] (mk_world ex_fs []))
  = Some (Some ex_old, None, [], false, RErr (ErrModel (ModelErrP missing_p))) /\
  (* clear_policy: the same protocol with an empty text *)
  option_map (fun x => (content (w_fs (snd (fst x))) ex_path, snd x)) (gen_file_clear_policy ex_path true (mk_world ex_fs []))
  = Some (Some [], ROk tt).
Proof. vm_compute. repeat split. Qed.

Definition showl (x : option ((text * bool * model * world) * res casbin_error unit)) :=
  option_map (fun x => (snd (fst (fst (fst x))), m_get_policy (snd (fst (fst x))) (T "p") (T "p"),
                        m_get_policy (snd (fst (fst x))) (T "p") (T "p2"), m_get_policy (snd (fst (fst x))) (T "g") (T "g"), snd x)) x.

Example gen_file_load_ex :
  (* CRLF, a comment, an empty line, a last line without line feed, a quoted value; the mark is reset *)
  showl (gen_file_load_policy ex_path true ex_store (mk_world [(ex_path, ex_text)] []))
  = Some (false, [[T "alice"; T "data1"; T "read"]], [[T "x, y"; T "z"]], [[T "alice"; T "admin"]], ROk tt) /\
  (* the third next_line fails: the first line was delivered, the mark is kept *)
  showl (gen_file_load_policy ex_path true ex_store (mk_world [(ex_path, ex_text)] [FOk; FOk; FOk; FErr 0]))
  = Some (true, [[T "alice"; T "data1"; T "read"]], [], [], RErr (ErrIo IoOs)) /\
  (* no such file *)
  showl (gen_file_load_policy ex_path true ex_store (mk_world [] []))
  = Some (true, [], [], [], RErr (ErrIo IoOs)) /\
  (* filtered: the p filter leaves p lines out (a shorter line too) and sets the mark; a g filter that matches does not *)
  showl (gen_file_load_filtered_policy ex_path false ex_store (mk_world [(ex_path, ex_text)] []) [T "bob"] [])
  = Some (true, [], [], [[T "alice"; T "admin"]], ROk tt) /\
  showl (gen_file_load_filtered_policy ex_path true ex_store (mk_world [(ex_path, ex_text)] []) [] [T "alice"])
  = Some (false, [[T "alice"; T "data1"; T "read"]], [[T "x, y"; T "z"]], [[T "alice"; T "admin"]], ROk tt).
Proof. vm_compute. repeat split. Qed.

Example gen_str_save_ex :
  gen_str_save_policy (T "old text") true ex_md
  = Some ((T "p, alice, data1, read
p, bob, data2, write
p2, carol
p2, ""x, y"", z
g, alice, admin
", true, ex_md), ROk tt) /\
  gen_str_save_policy (T "old text") true [] = Some ((T "old text", true, []), RErr (ErrModel (ModelErrP missing_p))) /\
  gen_str_clear_policy (T "old text") true = Some (([], false), ROk tt) /\
  gen_str_add_policy (T "old text") true (T "p") (T "p") [T "a"] = Some ((T "old text", true), RErr not_implemented) /\
  gen_file_remove_filtered_policy ex_path true (T "p") (T "p") 0 [T "a"] = Some ((ex_path, true), ROk true).
Proof. vm_compute. repeat split. Qed.

Print Assumptions gen_fsave_translated_ok.
Print Assumptions gen_save_policy_file_spec.
Print Assumptions gen_save_policy_file_calls.
Print Assumptions gen_save_policy_file_cut.
Print Assumptions gen_save_policy_file_atomic.
Print Assumptions gen_save_policy_file_truthful.
Print Assumptions gen_save_policy_file_ops.
Print Assumptions gen_save_policy_file_one_error.
Print Assumptions gen_save_policy_file_rename_error.
Print Assumptions gen_save_policy_file_rename_error_leaves_tmp.
Print Assumptions gen_save_policy_file_killed.
Print Assumptions gen_file_save_policy_spec.
Print Assumptions gen_file_save_policy_atomic.
Print Assumptions gen_file_save_policy_run.
Print Assumptions gen_file_save_policy_ok.
Print Assumptions gen_file_clear_policy_spec.
Print Assumptions gen_file_clear_policy_ok.
Print Assumptions gen_file_clear_policy_atomic.
Print Assumptions gen_load_policy_file_spec.
Print Assumptions gen_load_filtered_policy_file_spec.
Print Assumptions gen_file_load_policy_spec.
Print Assumptions gen_file_load_filtered_policy_spec.
Print Assumptions gen_file_load_policy_run.
Print Assumptions gen_file_load_policy_ok.
Print Assumptions gen_file_load_filtered_policy_run.
Print Assumptions gen_file_load_filtered_policy_ok.
Print Assumptions gen_file_load_policy_missing.
Print Assumptions gen_file_load_policy_any.
Print Assumptions gen_file_load_filtered_policy_any.
Print Assumptions gen_file_incremental_ok.
Print Assumptions gen_str_incremental_ok.
Print Assumptions gen_is_filtered_ok.
Print Assumptions gen_str_save_policy_spec.
Print Assumptions gen_str_save_policy_ok.
Print Assumptions gen_str_save_policy_replaces.
Print Assumptions gen_str_clear_policy_spec.
Print Assumptions gen_str_clear_policy_ok.
Print Assumptions file_failed_load_mark_refuted.
Print Assumptions not_file_failed_load_mark_full.
Print Assumptions gen_file_failed_load_keeps_mark.
Print Assumptions gen_file_failed_filtered_load_keeps_mark.
Print Assumptions gen_str_save_policy_unsafe_refuted.
