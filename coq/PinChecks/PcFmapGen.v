(* rs2coq part 16: the functions of src/model/function_map.rs translated COMPLETELY (Gen/FmapGen.v: gen_regex_match,
   gen_key_match2/3/4/5, gen_key_get2/3 - the run-time Regex::new is Gen/RegexSyntax.v rx_compile) against the hand
   model Model/PathMatch.v.
     - wherever the MODEL answers (`key_match2 k p = Some b` ..: the rewritten text is in the model's class) the
       generated function returns the same value, for ALL keys and ALL patterns;  [Gen/Regex.v restates the crate on
       ASCII haystacks: that is the scope in which the statements speak about the real code]
     - key_match4: the model answers None exactly where the source PANICS on its token count ("number of tokens is not
       equal to number of values": the rewritten text has another number of capture groups than there are {name}
       tokens, and the key matches), so on the whole class gen_key_match4 = key_match4 (fm_key_match4_model);
     - regex_match = the model regex_match_words wherever it answers (alternatives of literal words, bare or in
       parentheses, unanchored; one word or one parenthesised alternation between anchors);
     - where the model answers None: a `{` that does not start a counted repetition after a prefix of the class makes
       the crate refuse the text: key_match2 / key_match3 / key_match5 / key_get3 PANIC (unwrap), key_get2 returns ""
       and key_match4 returns false (`if let Ok` / `match .. Err(_) => return false`);
     - on the documented grammar (render2 / render3 of `grammar p`) the generated functions equal the segment-wise
       specification spec_km / spec_km4 / spec_km5 / spec_get (through Properties/C15.v's theorems about the model). *)
From CV Require Import Model.Base Model.Csv Model.PathMatch Model.SpecC15.
From CV Require Import Gen.RustStr Gen.RustVec Gen.RustIter Gen.Regex Gen.RegexRt Gen.RegexSyntax Gen.FmapRt.
From CV Require Import Proofs.BaseP Proofs.RegexP Proofs.C15P Proofs.FmapP.
From CV Require Gen.RegexGen PinChecks.PcRegexFmGen.
From CV Require Import Gen.FmapGen.
From Coq Require Import Lia.

Lemma gen_fmap_translated_ok : gen_fmap_translated = true.
Proof. reflexivity. Qed.

(* the translator's parser of regex LITERALS (tools/rs2coq_regex.py) and Gen/RegexSyntax.v agree on every literal of the file *)
Lemma gen_fmap_literals_ok :
  map (fun p => rx_parse (fst p)) gen_fmap_literals = map (fun p => Some (snd p)) gen_fmap_literals.
Proof. vm_compute. reflexivity. Qed.

(* the expressions the source compiles from literals are the ones Proofs/FmapP.v (and part 14) reason about *)
Lemma fm_mat_b_eq : gen_fm_mat_b = RegexGen.gen_mat_b. Proof. reflexivity. Qed.
Lemma fm_mat_p_eq : gen_fm_mat_p = RegexGen.gen_mat_p. Proof. reflexivity. Qed.
Lemma fm_kg2_rx : gen_key_get2_rx1 = rx_colon. Proof. reflexivity. Qed.
Lemma fm_kg3_rx1 : gen_key_get3_rx1 = rx_brace. Proof. reflexivity. Qed.
Lemma fm_kg3_rx2 : gen_key_get3_rx2 = rx_lbrace. Proof. reflexivity. Qed.
Lemma fm_km4_rx : gen_key_match4_rx1 = rx_brace. Proof. reflexivity. Qed.
Lemma fm_km5_rx : gen_key_match5_rx1 = rx_brace_g. Proof. reflexivity. Qed.

Lemma format_anchor : forall t, rs_format1 (T "^") (T "$") t = anchor t.
Proof. reflexivity. Qed.

(* ------------------------------------------------------------------ *)
(* regex_match                                                          *)
(* on a text of the model's class: the anchored match of its atoms *)
Theorem fm_regex_match_class : forall k t atoms, parse_regex t = Some atoms ->
  gen_regex_match_r k t = FRet (is_some (amatch atoms k)).
Proof.
  intros k t atoms H. unfold gen_regex_match_r, rx_new_unwrap. rewrite (rx_compile_atoms _ _ H).
  rewrite rx_is_match_whole. reflexivity.
Qed.
(* a text the crate refuses: Regex::new(..).unwrap() panics *)
Theorem fm_regex_match_reject : forall k t, rx_compile t = RxBad RxReject -> gen_regex_match_r k t = FPanic.
Proof. intros k t H. unfold gen_regex_match_r, rx_new_unwrap. rewrite H. reflexivity. Qed.
(* any text the parser accepts *)
Theorem fm_regex_match_ok : forall k t r, rx_compile t = RxOk r -> gen_regex_match_r k t = FRet (rx_is_match r k).
Proof. intros k t r H. unfold gen_regex_match_r, rx_new_unwrap. rewrite H. reflexivity. Qed.

(* ------------------------------------------------------------------ *)
(* the rewriting pipelines, for ALL patterns                            *)
Theorem fm_key_match2_pipeline : forall k1 k2, gen_key_match2_r k1 k2 = gen_regex_match_r k1 (rewrite_km2 k2).
Proof.
  intros k1 k2. unfold gen_key_match2_r, rewrite_km2. cbv zeta.
  rewrite ?PcRegexFmGen.slash_star_step, ?PcRegexFmGen.str_replace_slash_star. rewrite rx_replace_all_repl, fm_mat_b_eq.
  rewrite (PcRegexFmGen.mat_b_repl [TLit (T "[^/]+")] (fun _ _ _ => eq_refl) (length (slash_star k2))) by lia.
  reflexivity.
Qed.
Theorem fm_key_match3_pipeline : forall k1 k2, gen_key_match3_r k1 k2 = gen_regex_match_r k1 (rewrite_km3 k2).
Proof.
  intros k1 k2. unfold gen_key_match3_r, rewrite_km3. cbv zeta.
  rewrite ?PcRegexFmGen.slash_star_step, ?PcRegexFmGen.str_replace_slash_star. rewrite rx_replace_all_repl, fm_mat_p_eq.
  rewrite (PcRegexFmGen.mat_p_repl [TLit (T "[^/]+")] (fun _ _ _ => eq_refl) (length (slash_star k2))) by lia.
  reflexivity.
Qed.

(* key_match5 cuts the key at its FIRST `?`; the slice cannot panic *)
Lemma rs_slice_0 : forall s i, rs_slice s 0 i = if Nat.leb i (length s) then Some (firstn i s) else None.
Proof. intros s i. unfold rs_slice. cbn [Nat.leb andb skipn]. rewrite Nat.sub_0_r. reflexivity. Qed.
Lemma find_cut : forall k,
  match rs_find_char "?"%char k with
  | Some i => rs_slice k 0 i = Some (cut_query k)
  | None => cut_query k = k
  end.
Proof.
  induction k as [|c k IH]; [reflexivity|]. cbn [rs_find_char cut_query]. change "?"%char with qmark in *.
  destruct (Ascii.eqb c qmark); [reflexivity|].
  destruct (rs_find_char qmark k) as [i|].
  - rewrite rs_slice_0 in *. cbn [length Nat.leb firstn].
    destruct (Nat.leb i (length k)); [|discriminate]. injection IH as IH. rewrite IH. reflexivity.
  - rewrite IH. reflexivity.
Qed.
Theorem fm_key_match5_pipeline : forall k1 k2, gen_key_match5_r k1 k2 = gen_regex_match_r (cut_query k1) (rewrite_km5 k2).
Proof.
  intros k1 k2. unfold gen_key_match5_r, rewrite_km5. pose proof (find_cut k1) as Hc.
  destruct (rs_find_char "?"%char k1) as [i|].
  - rewrite Hc. cbv zeta. rewrite ?PcRegexFmGen.slash_star_step, ?PcRegexFmGen.str_replace_slash_star. rewrite fm_km5_rx, brace_g_replace. reflexivity.
  - rewrite Hc. cbv zeta. rewrite ?PcRegexFmGen.slash_star_step, ?PcRegexFmGen.str_replace_slash_star. rewrite fm_km5_rx, brace_g_replace. reflexivity.
Qed.

(* ------------------------------------------------------------------ *)
(* key_match2 / key_match3 / key_match5 = the model, wherever it answers *)
Theorem fm_key_match2_ok : forall k1 k2 b, key_match2 k1 k2 = Some b -> gen_key_match2_r k1 k2 = FRet b.
Proof.
  intros k1 k2 b H. rewrite fm_key_match2_pipeline. unfold key_match2 in H.
  destruct (parse_regex (rewrite_km2 k2)) as [atoms|] eqn:E; [|discriminate]. injection H as <-.
  apply fm_regex_match_class, E.
Qed.
Theorem fm_key_match3_ok : forall k1 k2 b, key_match3 k1 k2 = Some b -> gen_key_match3_r k1 k2 = FRet b.
Proof.
  intros k1 k2 b H. rewrite fm_key_match3_pipeline. unfold key_match3 in H.
  destruct (parse_regex (rewrite_km3 k2)) as [atoms|] eqn:E; [|discriminate]. injection H as <-.
  apply fm_regex_match_class, E.
Qed.
Theorem fm_key_match5_ok : forall k1 k2 b, key_match5 k1 k2 = Some b -> gen_key_match5_r k1 k2 = FRet b.
Proof.
  intros k1 k2 b H. rewrite fm_key_match5_pipeline. unfold key_match5 in H.
  destruct (parse_regex (rewrite_km5 k2)) as [atoms|] eqn:E; [|discriminate]. injection H as <-.
  apply fm_regex_match_class, E.
Qed.

(* ------------------------------------------------------------------ *)
(* key_get2 / key_get3                                                  *)
Lemma enumerate_combine : forall {A} (l : list A), rs_enumerate l = combine (seq 0 (length l)) l.
Proof. reflexivity. Qed.
Lemma map_or_nth : forall k ts j,
  rs_map_or (rx_caps_get {| c_len := S (length ts); c_match := whole_match k ts |} (j + 1)) (T "") (fun m : text => m) =
  match nth_error ts j with Some t => t | None => [] end.
Proof. intros k ts j. rewrite Nat.add_1_r, caps_get_whole. destruct (nth_error ts j); reflexivity. Qed.

(* what the function does in terms of the model's rewriting, for ALL patterns whose rewritten text is accepted
   with the atoms of the class / refused *)
Lemma fm_key_get2_class : forall k1 k2 v atoms, parse_regex (fst (rewrite_kg2 k2)) = Some atoms ->
  gen_key_get2_r k1 k2 v =
  FRet (match amatch atoms k1 with Some cs => cap_for v (snd (rewrite_kg2 k2)) cs | None => [] end).
Proof.
  intros k1 k2 v atoms H. unfold gen_key_get2_r. cbv zeta.
  rewrite ?PcRegexFmGen.slash_star_step, ?PcRegexFmGen.str_replace_slash_star. rewrite fm_kg2_rx, colon_replace, format_anchor.
  unfold rewrite_kg2 in *. fold (colon_text (slash_star k2)) (colon_keys (slash_star k2)) in *.
  assert (Hr : colon_names false (slash_star k2) = (colon_text (slash_star k2), colon_keys (slash_star k2))).
  { unfold colon_text, colon_keys. destruct (colon_names false (slash_star k2)); reflexivity. }
  rewrite Hr in *. cbn [fst snd] in *.
  unfold rx_new_result. rewrite (rx_compile_atoms _ _ H), rx_captures_whole.
  destruct (amatch atoms k1) as [ts|]; [|reflexivity].
  rewrite enumerate_combine.
  rewrite (kg_loop text (fun key => rs_slice_from (rx_as_str key) 1) v
             (fun i => rs_map_or (rx_caps_get {| c_len := S (length ts); c_match := whole_match k1 ts |} (i + 1)) (T "") (fun m : text => m))
             _ (fun i key u => eq_refl) _ (colon_keys (slash_star k2)) 0 (colon_find_iter_slices (slash_star k2))).
  rewrite cap_for_idx. destruct (find_idx v (colon_keys (slash_star k2))) as [j|]; [|reflexivity].
  cbn [Nat.add]. rewrite map_or_nth. reflexivity.
Qed.
Theorem fm_key_get2_ok : forall k1 k2 v t, key_get2 k1 k2 v = Some t -> gen_key_get2_r k1 k2 v = FRet t.
Proof.
  intros k1 k2 v t H. unfold key_get2 in H. destruct (rewrite_kg2 k2) as [tx ns] eqn:Er.
  destruct (parse_regex tx) as [atoms|] eqn:E; [|discriminate]. injection H as <-.
  rewrite (fm_key_get2_class k1 k2 v atoms) by (rewrite Er; exact E). rewrite Er. reflexivity.
Qed.
(* a rewritten text the crate refuses: `if let Ok(re2) = Regex::new(..)` fails, the function returns "" *)
Theorem fm_key_get2_reject : forall k1 k2 v, rx_compile (fst (rewrite_kg2 k2)) = RxBad RxReject ->
  gen_key_get2_r k1 k2 v = FRet [].
Proof.
  intros k1 k2 v H. unfold gen_key_get2_r. cbv zeta.
  rewrite ?PcRegexFmGen.slash_star_step, ?PcRegexFmGen.str_replace_slash_star. rewrite fm_kg2_rx, colon_replace, format_anchor.
  unfold rewrite_kg2 in H. fold (colon_text (slash_star k2)) in *.
  assert (Hr : fst (let (t, ns) := colon_names false (slash_star k2) in (anchor t, ns)) = anchor (colon_text (slash_star k2))).
  { unfold colon_text. destruct (colon_names false (slash_star k2)); reflexivity. }
  rewrite Hr in H. unfold rx_new_result. rewrite H. reflexivity.
Qed.

Lemma kg3_text : forall k2, fst (rewrite_kg3 k2) = anchor (escape_lbrace (brace_text ns_plus_cap_lazy (slash_star k2))).
Proof. intros k2. unfold rewrite_kg3, brace_text. destruct (brace_lazy ns_plus_cap_lazy 0 (slash_star k2)); reflexivity. Qed.
Lemma kg3_names : forall k2, snd (rewrite_kg3 k2) = brace_names ns_plus_cap_lazy (slash_star k2).
Proof. intros k2. unfold rewrite_kg3, brace_names. destruct (brace_lazy ns_plus_cap_lazy 0 (slash_star k2)); reflexivity. Qed.

Lemma fm_key_get3_class : forall k1 k2 v atoms, parse_regex (fst (rewrite_kg3 k2)) = Some atoms ->
  gen_key_get3_r k1 k2 v =
  FRet (match amatch atoms k1 with Some cs => cap_for v (snd (rewrite_kg3 k2)) cs | None => [] end).
Proof.
  intros k1 k2 v atoms H. unfold gen_key_get3_r. cbv zeta.
  rewrite ?PcRegexFmGen.slash_star_step, ?PcRegexFmGen.str_replace_slash_star. rewrite fm_kg3_rx1, fm_kg3_rx2.
  rewrite (brace_replace ns_plus_cap_lazy), lbrace_replace, format_anchor.
  rewrite kg3_text in H. rewrite kg3_names.
  unfold rx_new_unwrap. rewrite (rx_compile_atoms _ _ H), rx_captures_whole.
  destruct (amatch atoms k1) as [ts|]; [|reflexivity].
  rewrite enumerate_combine.
  match goal with |- context [rs_for ?b _ tt] =>
    assert (Hb : forall i key u, b (i, key) u =
              match slice_name (rx_as_str key) with
              | Some t => if rs_eq v t
                          then LReturn (rs_map_or (rx_caps_get {| c_len := S (length ts); c_match := whole_match k1 ts |} (i + 1))
                                                  (T "") (fun m : text => m))
                          else LNext tt
              | None => LPanic
              end)
      by (intros i key u; unfold slice_name; destruct (rs_usize_sub (rs_len (rx_as_str key)) 1); reflexivity);
    rewrite (kg_loop text _ v _ b Hb _ (brace_names ns_plus_cap_lazy (slash_star k2)) 0
               (brace_find_iter_slices ns_plus_cap_lazy (slash_star k2)))
  end.
  rewrite cap_for_idx. destruct (find_idx v (brace_names ns_plus_cap_lazy (slash_star k2))) as [j|]; [|reflexivity].
  cbn [Nat.add]. rewrite map_or_nth. reflexivity.
Qed.
Theorem fm_key_get3_ok : forall k1 k2 v t, key_get3 k1 k2 v = Some t -> gen_key_get3_r k1 k2 v = FRet t.
Proof.
  intros k1 k2 v t H. unfold key_get3 in H. destruct (rewrite_kg3 k2) as [tx ns] eqn:Er.
  destruct (parse_regex tx) as [atoms|] eqn:E; [|discriminate]. injection H as <-.
  rewrite (fm_key_get3_class k1 k2 v atoms) by (rewrite Er; exact E). rewrite Er. reflexivity.
Qed.
(* a rewritten text the crate refuses: Regex::new(&key2).unwrap() panics *)
Theorem fm_key_get3_reject : forall k1 k2 v, rx_compile (fst (rewrite_kg3 k2)) = RxBad RxReject ->
  gen_key_get3_r k1 k2 v = FPanic.
Proof.
  intros k1 k2 v H. unfold gen_key_get3_r. cbv zeta.
  rewrite ?PcRegexFmGen.slash_star_step, ?PcRegexFmGen.str_replace_slash_star. rewrite fm_kg3_rx1, fm_kg3_rx2.
  rewrite (brace_replace ns_plus_cap_lazy), lbrace_replace, format_anchor.
  rewrite kg3_text in H. unfold rx_new_unwrap. rewrite H. reflexivity.
Qed.

(* ------------------------------------------------------------------ *)
(* key_match4                                                           *)
Lemma km4_text : forall k2, fst (rewrite_km4 k2) = anchor (brace_text ns_plus_cap (slash_star k2)).
Proof. intros k2. unfold rewrite_km4, brace_text. destruct (brace_lazy ns_plus_cap 0 (slash_star k2)); reflexivity. Qed.
Lemma km4_names : forall k2, snd (rewrite_km4 k2) = brace_names ns_plus_cap (slash_star k2).
Proof. intros k2. unfold rewrite_km4, brace_names. destruct (brace_lazy ns_plus_cap 0 (slash_star k2)); reflexivity. Qed.

(* with the atoms of the rewritten text: no match = false; a match with as many captures as tokens = the
   consistency of the bindings; a match with another number of captures = the panic! of the source *)
Lemma fm_key_match4_class : forall k1 k2 atoms, parse_regex (fst (rewrite_km4 k2)) = Some atoms ->
  gen_key_match4_r k1 k2 =
  match amatch atoms k1 with
  | Some cs => if Nat.eqb (length (snd (rewrite_km4 k2))) (length cs)
               then FRet (consistent (snd (rewrite_km4 k2)) cs []) else FPanic
  | None => FRet false
  end.
Proof.
  intros k1 k2 atoms H. unfold gen_key_match4_r. cbv zeta.
  rewrite ?PcRegexFmGen.slash_star_step, ?PcRegexFmGen.str_replace_slash_star. rewrite fm_km4_rx.
  change (fun (v_caps : rcaps) (v_tokens : list text) => _) with (km4_closure ns_plus_cap).
  rewrite brace_replace_with. cbn [app]. rewrite format_anchor.
  rewrite km4_text in H. rewrite km4_names.
  unfold rx_new_result. rewrite (rx_compile_atoms _ _ H), rx_captures_whole.
  destruct (amatch atoms k1) as [ts|]; [|reflexivity].
  rewrite caps_iter_whole. unfold rs_iter_skip. cbn [skipn]. rewrite map_opt_some.
  unfold rs_vec_len. destruct (Nat.eqb (length (brace_names ns_plus_cap (slash_star k2))) (length ts)); cbn [negb]; [|reflexivity].
  unfold rs_iter_zip. apply (km4_loop _ (fun tok v vals => eq_refl)).
Qed.
(* the model answers None exactly where the source panics on its token count, so on the whole class the `option`
   view of the generated function IS the model *)
Theorem fm_key_match4_model : forall k1 k2 atoms, parse_regex (fst (rewrite_km4 k2)) = Some atoms ->
  gen_key_match4 k1 k2 = key_match4 k1 k2.
Proof.
  intros k1 k2 atoms H. unfold gen_key_match4. rewrite (fm_key_match4_class k1 k2 atoms H).
  unfold key_match4. destruct (rewrite_km4 k2) as [tx ns]. cbn [fst snd] in *. rewrite H.
  destruct (amatch atoms k1) as [cs|]; [|reflexivity].
  destruct (Nat.eqb (length ns) (length cs)); reflexivity.
Qed.
Theorem fm_key_match4_ok : forall k1 k2 b, key_match4 k1 k2 = Some b -> gen_key_match4_r k1 k2 = FRet b.
Proof.
  intros k1 k2 b H. unfold key_match4 in H. destruct (rewrite_km4 k2) as [tx ns] eqn:Er.
  destruct (parse_regex tx) as [atoms|] eqn:E; [|discriminate].
  assert (E' : parse_regex (fst (rewrite_km4 k2)) = Some atoms) by (rewrite Er; exact E).
  rewrite (fm_key_match4_class k1 k2 atoms E'). rewrite Er. cbn [fst snd].
  destruct (amatch atoms k1) as [cs|]; [|injection H as <-; reflexivity].
  destruct (Nat.eqb (length ns) (length cs)); [injection H as <-; reflexivity|discriminate].
Qed.
(* precisely: whenever the counts differ and the key matches, the source panics *)
Theorem fm_key_match4_panics : forall k1 k2 atoms cs,
  parse_regex (fst (rewrite_km4 k2)) = Some atoms -> amatch atoms k1 = Some cs ->
  length (snd (rewrite_km4 k2)) <> ncaps atoms -> gen_key_match4_r k1 k2 = FPanic.
Proof.
  intros k1 k2 atoms cs H Ha Hn. rewrite (fm_key_match4_class k1 k2 atoms H), Ha.
  rewrite (amatch_length _ _ _ Ha). apply Nat.eqb_neq in Hn. rewrite Hn. reflexivity.
Qed.
(* a rewritten text the crate refuses: `Err(_) => return false` *)
Theorem fm_key_match4_reject : forall k1 k2, rx_compile (fst (rewrite_km4 k2)) = RxBad RxReject ->
  gen_key_match4_r k1 k2 = FRet false.
Proof.
  intros k1 k2 H. unfold gen_key_match4_r. cbv zeta.
  rewrite ?PcRegexFmGen.slash_star_step, ?PcRegexFmGen.str_replace_slash_star. rewrite fm_km4_rx.
  change (fun (v_caps : rcaps) (v_tokens : list text) => _) with (km4_closure ns_plus_cap).
  rewrite brace_replace_with. cbn [app]. rewrite format_anchor.
  rewrite km4_text in H. unfold rx_new_result. rewrite H. reflexivity.
Qed.

(* ------------------------------------------------------------------ *)
(* where the model answers None: a `{` the crate refuses                *)
(* key_match2: braces are not rewritten; `/foo/{id}` is handed to the crate as it is *)
Theorem fm_key_match2_lbrace : forall k1 k2 f pre atoms tl,
  mat_b false (slash_star k2) = pre ++ lbrace :: tl -> parse_atoms f pre = Some atoms ->
  lex_lbrace (hd_error tl) = RxReject -> gen_key_match2_r k1 k2 = FPanic.
Proof.
  intros k1 k2 f pre atoms tl Ht Hp Hl. rewrite fm_key_match2_pipeline. apply fm_regex_match_reject.
  unfold rewrite_km2, anchor. rewrite Ht, <- app_assoc. cbn [app]. apply (rx_compile_lbrace f pre atoms _ Hp).
  destruct tl; exact Hl.
Qed.
(* key_match3 / key_match5: a brace that MAT_P / the lazy brace expression leaves in place (`/{id`: no closing brace
   in the segment) *)
Theorem fm_key_match3_lbrace : forall k1 k2 f pre atoms tl,
  mat_p 0 (slash_star k2) = pre ++ lbrace :: tl -> parse_atoms f pre = Some atoms ->
  lex_lbrace (hd_error tl) = RxReject -> gen_key_match3_r k1 k2 = FPanic.
Proof.
  intros k1 k2 f pre atoms tl Ht Hp Hl. rewrite fm_key_match3_pipeline. apply fm_regex_match_reject.
  unfold rewrite_km3, anchor. rewrite Ht, <- app_assoc. cbn [app]. apply (rx_compile_lbrace f pre atoms _ Hp).
  destruct tl; exact Hl.
Qed.
Theorem fm_key_match5_lbrace : forall k1 k2 f pre atoms tl,
  fst (brace_lazy ns_plus 0 (slash_star k2)) = pre ++ lbrace :: tl -> parse_atoms f pre = Some atoms ->
  lex_lbrace (hd_error tl) = RxReject -> gen_key_match5_r k1 k2 = FPanic.
Proof.
  intros k1 k2 f pre atoms tl Ht Hp Hl. rewrite fm_key_match5_pipeline. apply fm_regex_match_reject.
  unfold rewrite_km5, anchor. rewrite Ht, <- app_assoc. cbn [app]. apply (rx_compile_lbrace f pre atoms _ Hp).
  destruct tl; exact Hl.
Qed.

(* ------------------------------------------------------------------ *)
(* on the documented grammar: the segment-wise specification            *)
Lemma ncaps_compile : forall lz p, ncaps (compile true lz p) = length (names p).
Proof.
  intros lz. induction p as [|s p IH]; [reflexivity|]. unfold compile in *. cbn [flat_map].
  assert (Happ : forall a b, ncaps (a ++ b) = ncaps a + ncaps b).
  { induction a as [|x a IHa]; intros b; [reflexivity|]. cbn [app ncaps]. rewrite IHa. lia. }
  rewrite Happ, IH. destruct s as [w|n|]; cbn [compile_seg names ncaps ncap length Nat.add]; try reflexivity.
  assert (Hw : ncaps (map AByte w) = 0) by (induction w as [|c w IHw]; [reflexivity|exact IHw]).
  rewrite Hw. reflexivity.
Qed.
Theorem fm_key_match2_spec : forall k p, grammar p = true -> gen_key_match2_r k (render2 p) = FRet (spec_km p k).
Proof. intros k p Hg. apply fm_key_match2_ok, km2_spec, Hg. Qed.
Theorem fm_key_match3_spec : forall k p, grammar p = true -> gen_key_match3_r k (render3 p) = FRet (spec_km p k).
Proof. intros k p Hg. apply fm_key_match3_ok, km3_spec, Hg. Qed.
Theorem fm_key_match5_spec : forall k p, grammar p = true -> gen_key_match5_r k (render3 p) = FRet (spec_km5 p k).
Proof. intros k p Hg. apply fm_key_match5_ok, km5_spec, Hg. Qed.
Theorem fm_key_get2_spec : forall k p v, grammar p = true -> gen_key_get2_r k (render2 p) v = FRet (spec_get p k v).
Proof. intros k p v Hg. apply fm_key_get2_ok, kg2_spec, Hg. Qed.
Theorem fm_key_get3_spec : forall k p v, grammar p = true -> gen_key_get3_r k (render3 p) v = FRet (spec_get p k v).
Proof. intros k p v Hg. apply fm_key_get3_ok, kg3_spec, Hg. Qed.
Theorem fm_key_match4_spec : forall k p, grammar p = true -> gen_key_match4_r k (render3 p) = FRet (spec_km4 p k).
Proof. intros k p Hg. apply fm_key_match4_ok, km4_spec, Hg. Qed.

(* the `option` views *)
Lemma fres_opt_ret : forall {A} (x : fres A) (a : A), x = FRet a -> fres_opt x = Some a.
Proof. intros A x a ->. reflexivity. Qed.

(* ------------------------------------------------------------------ *)
(* regex_match against the model's regex_match_words (alternatives of literal words, optionally anchored):
   whenever the model answers, the generated function returns the same value.  (An anchored BARE alternation,
   `^GET|POST$`, is outside the model's class: the crate reads it as `(^GET)|(POST$)`.) *)
Definition rmw_core (k : text) (a_start a_end : bool) (body : text) : option bool :=
  if (a_start || a_end) && teqb (strip_parens body) body && Nat.ltb 1 (length (split_bar body []))
  then None else
  let body := if a_start || a_end then strip_parens body else body in
  let words := map strip_parens (split_bar body []) in
  if forallb safe_word words then
    Some (existsb (fun w =>
                     match a_start, a_end with
                     | true, true => teqb w k
                     | true, false => is_prefix w k
                     | false, true => is_prefix (rev w) (rev k)
                     | false, false => is_infix w k
                     end) words)
  else None.
Lemma rmw_end : forall (F : text -> bool -> option bool) body1,
  exists (a_end : bool) (body : text), body1 = body ++ (if a_end then ["$"%char] else []) /\
  (let (body, a_end) := match rev body1 with
                        | d :: m => if Ascii.eqb d "$"%char then (rev m, true) else (body1, false)
                        | [] => (body1, false) end in F body a_end) = F body a_end.
Proof.
  intros F body1. destruct (rev body1) as [|d m] eqn:Er.
  - exists false, body1. split; [rewrite app_nil_r; reflexivity|reflexivity].
  - destruct (Ascii.eqb d "$"%char) eqn:Ed.
    + apply Ascii.eqb_eq in Ed. subst d. exists true, (rev m). split; [|reflexivity].
      rewrite <- (rev_involutive body1), Er. reflexivity.
    + exists false, body1. split; [rewrite app_nil_r; reflexivity|reflexivity].
Qed.
Lemma rmw_shape : forall k pat, exists (a_start a_end : bool) (body : text),
  pat = (if a_start then ["^"%char] else []) ++ body ++ (if a_end then ["$"%char] else []) /\
  regex_match_words k pat = rmw_core k a_start a_end body.
Proof.
  intros k pat. unfold regex_match_words. destruct pat as [|c r].
  - destruct (rmw_end (fun body a_end => rmw_core k false a_end body) []) as [a_end [body [E H]]].
    exists false, a_end, body. split; [exact E|exact H].
  - destruct (Ascii.eqb c "^"%char) eqn:Ec.
    + apply Ascii.eqb_eq in Ec. subst c.
      destruct (rmw_end (fun body a_end => rmw_core k true a_end body) r) as [a_end [body [E H]]].
      exists true, a_end, body. split; [cbn [app]; rewrite <- E; reflexivity|exact H].
    + destruct (rmw_end (fun body a_end => rmw_core k false a_end body) (c :: r)) as [a_end [body [E H]]].
      exists false, a_end, body. split; [exact E|exact H].
Qed.

Theorem fm_regex_match_words_ok : forall k pat b,
  regex_match_words k pat = Some b -> gen_regex_match_r k pat = FRet b.
Proof.
  intros k pat b H. destruct (rmw_shape k pat) as [a_start [a_end [body [Hpat Hc]]]]. rewrite Hc in H. clear Hc. subst pat.
  unfold rmw_core in H. destruct (a_start || a_end) eqn:Ean.
  - cbn [andb] in H. destruct (teqb (strip_parens body) body) eqn:Es.
    + (* one bare word between the anchors *)
      cbn [andb] in H. destruct (Nat.ltb 1 (length (split_bar body []))) eqn:El; [discriminate|].
      apply teqb_eq in Es. rewrite Es in H.
      assert (Hsb : split_bar body [] = [body]).
      { pose proof (split_bar_join body []) as Hj. pose proof (split_bar_nonempty body []) as Hn. apply Nat.ltb_ge in El.
        destruct (split_bar body []) as [|x [|y l]]; [contradiction| |cbn [length] in El; lia].
        cbn [join_bar rev app] in Hj. subst x. reflexivity. }
      rewrite Hsb in H. cbn [map forallb] in H. rewrite Es in H. destruct (safe_word body) eqn:Hw; [|discriminate].
      cbn [andb] in H. injection H as <-. destruct (safe_word_safe body Hw) as [Hne Hs].
      destruct (rx_compile_anchored a_start a_end body (word_toks body) [body]
                  (fun rest => lex_word body rest Hs) (core_word body Hne)) as [Y [Hy Ht]].
      rewrite (fm_regex_match_ok k _ _ Hy). f_equal. exact (model_reading a_start a_end Y [body] k Ht).
    + (* an alternation in one pair of parentheses between the anchors *)
      cbn [andb] in H. destruct (strip_parens_cases body) as [Hx|Hx]; [rewrite Hx, teqb_refl in Es; discriminate|].
      set (inner := strip_parens body) in *.
      destruct (forallb safe_word (map strip_parens (split_bar inner []))) eqn:Hf; [|discriminate]. injection H as <-.
      set (items := map mkitem (split_bar inner [])).
      assert (Hne : items <> []).
      { unfold items. pose proof (split_bar_nonempty inner []) as Hn. destruct (split_bar inner []); [contradiction|discriminate]. }
      assert (Hok : Forall item_ok items) by (apply mkitems_ok, Hf).
      assert (Hb : body = paren (alt_text items)).
      { unfold items. rewrite alt_text_mkitems, split_bar_join. exact Hx. }
      destruct (rx_compile_anchored a_start a_end (paren (alt_text items)) (KOpen true :: alt_toks items ++ [KClose])
                  (map snd items) (fun rest => lex_paren_alt items rest Hne Hok) (core_paren items Hne Hok)) as [Y [Hy Ht]].
      rewrite Hb, (fm_regex_match_ok k _ _ Hy). f_equal. unfold items in *. rewrite mkitems_words in Ht.
      apply model_reading, Ht.
  - (* no anchor: an alternation of words, each bare or in parentheses; a search *)
    apply orb_false_iff in Ean. destruct Ean as [-> ->]. cbn [andb app] in *. rewrite app_nil_r.
    destruct (forallb safe_word (map strip_parens (split_bar body []))) eqn:Hf; [|discriminate]. injection H as <-.
    set (items := map mkitem (split_bar body [])).
    assert (Hne : items <> []).
    { unfold items. pose proof (split_bar_nonempty body []) as Hn. destruct (split_bar body []); [contradiction|discriminate]. }
    assert (Hok : Forall item_ok items) by (apply mkitems_ok, Hf).
    assert (Hb : body = alt_text items) by (unfold items; rewrite alt_text_mkitems, split_bar_join; reflexivity).
    destruct (rx_compile_alt items Hne Hok) as [Y [Hy Hw]].
    rewrite Hb at 1. rewrite (fm_regex_match_ok k _ _ Hy). f_equal. unfold items in *. rewrite mkitems_words in Hw.
    apply (model_reading false false Y _ k), words_tail_all, Hw.
Qed.
Theorem fm_regex_match_words_opt : forall k pat b, regex_match_words k pat = Some b -> gen_regex_match k pat = Some b.
Proof. intros k pat b H. apply fres_opt_ret, fm_regex_match_words_ok, H. Qed.

(* ------------------------------------------------------------------ *)
(* the `option` views: the model answers Some b -> the generated function answers Some b *)
Theorem fm_key_match2_opt : forall k1 k2 b, key_match2 k1 k2 = Some b -> gen_key_match2 k1 k2 = Some b.
Proof. intros k1 k2 b H. apply fres_opt_ret, fm_key_match2_ok, H. Qed.
Theorem fm_key_match3_opt : forall k1 k2 b, key_match3 k1 k2 = Some b -> gen_key_match3 k1 k2 = Some b.
Proof. intros k1 k2 b H. apply fres_opt_ret, fm_key_match3_ok, H. Qed.
Theorem fm_key_match5_opt : forall k1 k2 b, key_match5 k1 k2 = Some b -> gen_key_match5 k1 k2 = Some b.
Proof. intros k1 k2 b H. apply fres_opt_ret, fm_key_match5_ok, H. Qed.
Theorem fm_key_get2_opt : forall k1 k2 v t, key_get2 k1 k2 v = Some t -> gen_key_get2 k1 k2 v = Some t.
Proof. intros k1 k2 v t H. apply fres_opt_ret, fm_key_get2_ok, H. Qed.
Theorem fm_key_get3_opt : forall k1 k2 v t, key_get3 k1 k2 v = Some t -> gen_key_get3 k1 k2 v = Some t.
Proof. intros k1 k2 v t H. apply fres_opt_ret, fm_key_get3_ok, H. Qed.
Theorem fm_key_match4_opt : forall k1 k2 b, key_match4 k1 k2 = Some b -> gen_key_match4 k1 k2 = Some b.
Proof. intros k1 k2 b H. apply fres_opt_ret, fm_key_match4_ok, H. Qed.
Theorem fm_regex_match_opt : forall k t atoms, parse_regex t = Some atoms ->
  gen_regex_match k t = Some (is_some (amatch atoms k)).
Proof. intros k t atoms H. apply fres_opt_ret, fm_regex_match_class, H. Qed.

(* ------------------------------------------------------------------ *)
(* directly on the PATTERN: plain bytes without a colon, then a `{` followed by a byte that cannot start a counted
   repetition (`/foo/{id}` given to keyMatch2): the crate refuses the text, key_match2 panics *)
Definition km2_plain (c : ascii) : bool := is_plain c && negb (Ascii.eqb c colon).
Lemma slash_star_head : forall d r, exists r2, slash_star (d :: r) = d :: r2.
Proof.
  intros d [|e r]; [exists []; reflexivity|]. rewrite PcRegexFmGen.slash_star_unfold.
  destruct (Ascii.eqb d slash && Ascii.eqb e star) eqn:E.
  - apply andb_true_iff in E. destruct E as [E _]. apply Ascii.eqb_eq in E. subst d. eexists. reflexivity.
  - eexists. reflexivity.
Qed.
Lemma slash_star_plain_app : forall w y, forallb km2_plain w = true ->
  match y with c :: _ => Ascii.eqb c star = false | [] => True end -> slash_star (w ++ y) = w ++ slash_star y.
Proof.
  induction w as [|c w IH]; intros y Hw Hy; [reflexivity|]. cbn [forallb] in Hw. apply andb_true_iff in Hw.
  destruct Hw as [Hc Hw]. cbn [app]. destruct (w ++ y) as [|d t] eqn:E.
  - destruct w; [|discriminate]. cbn [app] in E. subst y. reflexivity.
  - rewrite PcRegexFmGen.slash_star_unfold.
    assert (Hd : Ascii.eqb d star = false).
    { destruct w as [|c' w'].
      - cbn [app] in E. subst y. exact Hy.
      - cbn [app] in E. injection E as <- _. cbn [forallb] in Hw. apply andb_true_iff in Hw. destruct Hw as [Hc' _].
        unfold km2_plain in Hc'. apply andb_true_iff in Hc'. destruct Hc' as [Hp _]. apply plain_neq; [exact Hp|reflexivity]. }
    rewrite Hd, andb_false_r, <- E, IH by assumption. reflexivity.
Qed.
Lemma mat_b_plain_app : forall w y, forallb km2_plain w = true -> mat_b false (w ++ y) = w ++ mat_b false y.
Proof.
  induction w as [|c w IH]; intros y Hw; [reflexivity|]. cbn [forallb] in Hw. apply andb_true_iff in Hw.
  destruct Hw as [Hc Hw]. unfold km2_plain in Hc. apply andb_true_iff in Hc. destruct Hc as [_ Hc].
  apply negb_true_iff in Hc. cbn [app mat_b]. rewrite Hc, IH by exact Hw. reflexivity.
Qed.
Lemma km2_plain_plainw : forall w, forallb km2_plain w = true -> plainw w.
Proof.
  induction w as [|c w IH]; intros H; [constructor|]. cbn [forallb] in H. apply andb_true_iff in H. destruct H as [Hc Hw].
  unfold km2_plain in Hc. apply andb_true_iff in Hc. constructor; [apply Hc|apply IH, Hw].
Qed.
Theorem fm_key_match2_brace_panics : forall k1 w d r, forallb km2_plain w = true -> Ascii.eqb d colon = false ->
  lex_lbrace (Some d) = RxReject -> gen_key_match2_r k1 (w ++ lbrace :: d :: r) = FPanic.
Proof.
  intros k1 w d r Hw Hd Hl. destruct (slash_star_head d r) as [r2 Hr2].
  apply (fm_key_match2_lbrace k1 _ (S (S (length w))) w (map AByte w) (d :: mat_b false r2)).
  - rewrite slash_star_plain_app by (exact Hw || reflexivity).
    rewrite PcRegexFmGen.slash_star_unfold. change (Ascii.eqb lbrace slash) with false. cbn [andb]. rewrite Hr2.
    rewrite mat_b_plain_app by exact Hw. cbn [mat_b]. change (Ascii.eqb lbrace colon) with false. cbv iota. rewrite Hd. reflexivity.
  - replace (parse_atoms (S (S (length w))) w) with (parse_atoms (S (S (length w))) (w ++ []))
      by (rewrite app_nil_r; reflexivity).
    rewrite parse_word by (apply km2_plain_plainw, Hw || (rewrite app_nil_r; lia)).
    replace (S (S (length w)) - length w) with 2 by lia. cbn [parse_atoms option_map]. rewrite app_nil_r. reflexivity.
  - exact Hl.
Qed.

