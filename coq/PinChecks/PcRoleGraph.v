(* Pin obligations for src/rbac/default_role_manager.rs *)
From CV Require Import Model.Base Model.RoleGraph Pins PinChecks.Frozen.

Lemma pin_default_domain_ok : pin_default_domain = DEFAULT_DOMAIN.
Proof. reflexivity. Qed.
(* Enforcer::new_raw builds DefaultRoleManager::new(10) *)
Definition HIERARCHY_LIMIT : nat := 10.
Lemma pin_hierarchy_limit_ok : pin_hierarchy_limit = HIERARCHY_LIMIT.
Proof. reflexivity. Qed.
Lemma pin_body_rm_ok :
  pin_body_rm_get_or_create_role = frozen_rm_get_or_create_role /\
  pin_body_rm_matched_domains = frozen_rm_matched_domains /\
  pin_body_rm_domain_has_role = frozen_rm_domain_has_role /\
  pin_body_rm_clear = frozen_rm_clear /\
  pin_body_rm_add_link = frozen_rm_add_link /\
  pin_body_rm_delete_link = frozen_rm_delete_link /\
  pin_body_rm_has_link = frozen_rm_has_link /\
  pin_body_rm_get_roles = frozen_rm_get_roles /\
  pin_body_rm_get_users = frozen_rm_get_users /\
  pin_body_rm_bfs_new = frozen_rm_bfs_new /\
  pin_body_rm_bfs_next = frozen_rm_bfs_next /\
  pin_body_rm_bfs_update_depth = frozen_rm_bfs_update_depth /\
  pin_body_rm_bfs_iterator = frozen_rm_bfs_iterator.
Proof. repeat split; reflexivity. Qed.
(* the matching-function part (Model/RoleGraphM.v) *)
Lemma pin_body_rm_matching_ok :
  pin_body_rm_link_if_matches = frozen_rm_link_if_matches /\
  pin_body_rm_matching_fn = frozen_rm_matching_fn /\
  pin_body_rm_new = frozen_rm_new.
Proof. repeat split; reflexivity. Qed.
