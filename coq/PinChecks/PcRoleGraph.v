(* Pin obligations for src/rbac/default_role_manager.rs *)
From CV Require Import Model.Base Model.RoleGraph Pins PinChecks.Frozen.

Lemma pin_default_domain_ok : pin_default_domain = DEFAULT_DOMAIN.
Proof. reflexivity. Qed.
(* Enforcer::new_raw builds DefaultRoleManager::new(10) *)
Definition HIERARCHY_LIMIT : nat := 10.
Lemma pin_hierarchy_limit_ok : pin_hierarchy_limit = HIERARCHY_LIMIT.
Proof. reflexivity. Qed.
(* the function bodies of the file are not hash-pinned any more: they are translated every run
   (tools/rs2coq_rm.py -> Gen/RoleManagerGen.v) and proved equal to the model in PcRoleManagerGen.v *)
