(* Obligations tying the TRANSLATED string functions (Gen/StrFnGen.v, regenerated
   on every run by tools/rs2coq.py from /repo/src/model/function_map.rs and
   /repo/src/util.rs) to the hand-written model: key_match / key_get
   (Model/PathMatch.v), csv_field (Model/Csv.v), remove_comment (Model/Ini.v).
   The two coincide on every input (unbounded strings).

   Method.  Part 1 proves, once and for all and by induction, what each
   operation of Gen/RustStr.v is in terms of the model's helpers
   (before_star, is_prefix, strip_prefix, span_not, memb).  Part 2 closes the four
   obligations with ONE tactic, `str_fn_eq`, which never looks at the shape of
   the generated term: it rewrites the RustStr operations into the model's
   vocabulary, records what every `find` in the goal says about the model's
   scanners, and then splits on every remaining scrutinee.  A rewrite of the
   Rust source that keeps its meaning and stays in the translated subset keeps
   these proofs; a change of meaning leaves an unprovable leaf and the file no
   longer compiles. *)
From CV Require Import Model.Base Model.PathMatch Model.Csv Model.Ini.
From CV Require Import Gen.RustStr Gen.StrFnGen Proofs.BaseP.
From Coq Require Import Lia.

Lemma gen_str_translated_ok : gen_str_translated = true.
Proof. reflexivity. Qed.

(* ------------------------------------------------------------------ *)
(* Part 1: the RustStr operations in the model's vocabulary            *)

(* ---- find ---- *)
Lemma rs_find_char_lt : forall c s i, rs_find_char c s = Some i -> i < length s.
Proof.
  intros c s. induction s as [|d r IH]; intros i H; cbn [rs_find_char] in H.
  - discriminate.
  - destruct (Ascii.eqb d c) eqn:E.
    + inversion H; subst. cbn [length]. lia.
    + destruct (rs_find_char c r) as [j|] eqn:F; [|discriminate].
      inversion H; subst. specialize (IH j eq_refl). cbn [length]. lia.
Qed.

(* the byte at the index is c and no earlier byte is *)
Lemma rs_find_char_Some : forall c s i,
  rs_find_char c s = Some i <->
  (exists r, s = firstn i s ++ c :: r) /\ ~ In c (firstn i s) /\ i < length s.
Proof.
  intros c s. induction s as [|d r IH]; intros i; cbn [rs_find_char].
  - split; [discriminate|]. intros [_ [_ H]]. cbn [length] in H. lia.
  - destruct (Ascii.eqb d c) eqn:E.
    + apply Ascii.eqb_eq in E. subst d. split.
      * intros H. inversion H; subst. cbn [firstn app length]. split; [exists r; reflexivity|].
        split; [intros []|lia].
      * intros [_ [Hn _]]. destruct i as [|i]; [reflexivity|].
        exfalso. apply Hn. cbn [firstn]. left. reflexivity.
    + assert (Hdc : d <> c) by (intros ->; rewrite Ascii.eqb_refl in E; discriminate).
      split.
      * destruct (rs_find_char c r) as [j|] eqn:F; [|discriminate].
        intros H. inversion H; subst. destruct (proj1 (IH j) eq_refl) as [[r' Hr] [Hn Hl]].
        cbn [firstn app length]. split; [exists r'; rewrite <- Hr; reflexivity|].
        split; [|lia]. intros [H1|H1]; [exact (Hdc H1)|exact (Hn H1)].
      * intros [[r' Hr] [Hn Hl]]. destruct i as [|i].
        { cbn [firstn app] in Hr. injection Hr as Hd _. contradiction. }
        cbn [firstn app] in Hr. injection Hr as Hr'.
        assert (Hi : rs_find_char c r = Some i).
        { apply IH. split; [exists r'; exact Hr'|]. split.
          - intros H1. apply Hn. cbn [firstn]. right. exact H1.
          - cbn [length] in Hl. lia. }
        rewrite Hi. reflexivity.
Qed.

Lemma rs_find_char_None : forall c s, rs_find_char c s = None <-> ~ In c s.
Proof.
  intros c s. induction s as [|d r IH]; cbn [rs_find_char].
  - split; [intros _ []|reflexivity].
  - destruct (Ascii.eqb d c) eqn:E.
    + apply Ascii.eqb_eq in E. subst d. split; [discriminate|].
      intros H. exfalso. apply H. left. reflexivity.
    + assert (Hdc : d <> c) by (intros ->; rewrite Ascii.eqb_refl in E; discriminate).
      destruct (rs_find_char c r) as [j|] eqn:F.
      * split; [discriminate|]. intros H. exfalso.
        assert (Hn : ~ In c r) by (intros H1; apply H; right; exact H1).
        apply IH in Hn. discriminate.
      * split; [|reflexivity]. intros _ [H1|H1]; [exact (Hdc H1)|].
        exact (proj1 IH eq_refl H1).
Qed.

(* find vs the model's scanner for '*' (PathMatch.before_star) *)
Lemma rs_find_char_before_star : forall s,
  before_star s = match rs_find_char star s with
                  | Some i => (firstn i s, true)
                  | None => (s, false)
                  end.
Proof.
  induction s as [|d r IH]; [reflexivity|].
  cbn [before_star rs_find_char]. destruct (Ascii.eqb d star) eqn:E; [reflexivity|].
  rewrite IH. destruct (rs_find_char star r) as [j|]; reflexivity.
Qed.

Lemma rs_find_char_star_iff : forall s i,
  rs_find_char star s = Some i <-> before_star s = (firstn i s, true).
Proof.
  intros s i. rewrite rs_find_char_before_star. split.
  - intros H. rewrite H. reflexivity.
  - destruct (rs_find_char star s) as [j|] eqn:F; [|discriminate].
    intros H. inversion H as [H1]. apply rs_find_char_lt in F.
    assert (L : length (firstn j s) = length (firstn i s)) by (rewrite H1; reflexivity).
    rewrite !firstn_length in L. f_equal. lia.
Qed.

Lemma rs_find_char_star_None_iff : forall s,
  rs_find_char star s = None <-> before_star s = (s, false).
Proof.
  intros s. rewrite rs_find_char_before_star.
  destruct (rs_find_char star s) as [j|]; split; intros H; try reflexivity; discriminate.
Qed.

(* find vs the model's scanner for an arbitrary byte (Csv.span_not) *)
Lemma rs_find_char_span_not : forall c s,
  fst (span_not c s) = match rs_find_char c s with
                       | Some i => firstn i s
                       | None => s
                       end.
Proof.
  intros c s. induction s as [|d r IH]; [reflexivity|].
  cbn [span_not rs_find_char]. destruct (Ascii.eqb d c) eqn:E; [reflexivity|].
  destruct (span_not c r) as [a b] eqn:S. cbn [fst] in IH |- *. rewrite IH.
  destruct (rs_find_char c r) as [j|]; reflexivity.
Qed.

(* contains vs the model's membership test *)
Lemma rs_contains_char_memb : forall c s, rs_contains_char c s = memb Ascii.eqb c s.
Proof.
  intros c s. unfold rs_contains_char, memb. induction s as [|d r IH]; [reflexivity|].
  cbn [rs_find_char existsb]. rewrite (Ascii.eqb_sym c d).
  destruct (Ascii.eqb d c) eqn:E; [reflexivity|]. cbn [orb]. rewrite <- IH.
  destruct (rs_find_char c r); reflexivity.
Qed.

(* ---- starts_with / strip_prefix ---- *)
Lemma rs_starts_with_is_prefix : forall p s, rs_starts_with s p = is_prefix p s.
Proof.
  unfold rs_starts_with. induction p as [|c p IH]; intros s.
  - reflexivity.
  - destruct s as [|d s]; [reflexivity|].
    cbn [length firstn teqb is_prefix]. rewrite IH. rewrite (Ascii.eqb_sym d c). reflexivity.
Qed.

Lemma rs_strip_prefix_strip_prefix : forall p s, rs_strip_prefix s p = strip_prefix p s.
Proof.
  unfold rs_strip_prefix. intros p s. rewrite rs_starts_with_is_prefix. revert s.
  induction p as [|c p IH]; intros s.
  - destruct s; reflexivity.
  - destruct s as [|d s]; [reflexivity|].
    cbn [length skipn is_prefix strip_prefix]. destruct (Ascii.eqb c d); [|reflexivity].
    cbn [andb]. apply IH.
Qed.

(* what strip_prefix means, for the Example below and for readers *)
Lemma rs_strip_prefix_Some : forall s p r, rs_strip_prefix s p = Some r <-> s = p ++ r.
Proof.
  intros s p r. rewrite rs_strip_prefix_strip_prefix. revert s.
  induction p as [|c p IH]; intros s.
  - cbn [strip_prefix app]. split; intros H; [inversion H; reflexivity|subst; reflexivity].
  - destruct s as [|d s]; cbn [strip_prefix app]; [split; discriminate|].
    destruct (Ascii.eqb c d) eqn:E.
    + apply Ascii.eqb_eq in E. subst d. rewrite IH. split; intros H; [subst; reflexivity|].
      inversion H. reflexivity.
    + split; [discriminate|]. intros H. inversion H; subst. rewrite Ascii.eqb_refl in E. discriminate.
Qed.

(* ---- the one-liners ---- *)
Lemma rs_is_empty_nil : forall s : text, rs_is_empty s = match s with [] => true | _ :: _ => false end.
Proof. intros [|c s]; reflexivity. Qed.
Lemma rs_trim_end_eq : forall s, rs_trim_end s = trim_end s.
Proof. reflexivity. Qed.
Lemma rs_eq_teqb : forall a b, rs_eq a b = teqb a b.
Proof. reflexivity. Qed.
Lemma rs_slice_to_firstn : forall s i, rs_slice_to s i = firstn i s.
Proof. reflexivity. Qed.
Lemma rs_format1_app : forall pre post v, rs_format1 pre post v = pre ++ v ++ post.
Proof. reflexivity. Qed.

(* ------------------------------------------------------------------ *)
(* Part 2: the tactic and the obligations                              *)

(* everything a `find` in the goal says about the model's scanners; stated for
   a byte c that is CONVERTIBLE to the scanner's own (star) so that it applies
   however the translator prints the character *)
Lemma find_star_fact : forall c s, c = star ->
  before_star s = match rs_find_char c s with Some i => (firstn i s, true) | None => (s, false) end.
Proof. intros c s ->. apply rs_find_char_before_star. Qed.

Ltac rs_to_model :=
  rewrite ?rs_starts_with_is_prefix, ?rs_strip_prefix_strip_prefix, ?rs_contains_char_memb,
          ?rs_is_empty_nil, ?rs_trim_end_eq, ?rs_eq_teqb, ?rs_slice_to_firstn, ?rs_format1_app in *.

(* replace the model's scanners by what `find` returns, then split on `find` *)
Ltac find_split :=
  repeat match goal with
         | |- context [rs_find_char ?c ?s] =>
             try rewrite (find_star_fact c s eq_refl);
             try rewrite (rs_find_char_span_not c s);
             let F := fresh "F" in destruct (rs_find_char c s) as [?i|] eqn:F
         end.

(* booleans in the context become equations / disequations *)
Ltac bool_hyps :=
  repeat match goal with
         | H : teqb _ _ = true |- _ => apply teqb_eq in H
         | H : teqb _ _ = false |- _ => apply teqb_neq in H
         | H : negb _ = true |- _ => apply negb_true_iff in H
         | H : negb _ = false |- _ => apply negb_false_iff in H
         | H : andb _ _ = true |- _ => apply andb_true_iff in H; destruct H
         | H : orb _ _ = false |- _ => apply orb_false_iff in H; destruct H
         end.

(* split on every scrutinee, innermost first (a scrutinee that itself contains a
   match is left for a later round), re-normalising after each split because
   operations under a binder only become rewritable once the binder is gone *)
Ltac norm :=
  cbv beta iota zeta; cbn [negb andb orb fst snd Bool.eqb T list_ascii_of_string app]; rs_to_model.
Ltac split_all :=
  repeat (norm;
          match goal with
          | |- context [match ?x with _ => _ end] => is_var x; destruct x
          | |- context [match ?x with _ => _ end] =>
              lazymatch x with
              | context [match _ with _ => _ end] => fail
              | _ => let E := fresh "E" in destruct x eqn:E
              end
          end).

(* string comparisons left in a leaf (e.g. a == b against b == a): decide them *)
Ltac teqb_split :=
  repeat match goal with
         | |- context [teqb ?a ?b] =>
             let E := fresh "E" in
             destruct (teqb a b) eqn:E; [apply teqb_eq in E; subst | apply teqb_neq in E]
         end.

Ltac str_fn_eq :=
  (* the model names its bytes (star, comma, ..); the translator prints them *)
  cbv delta [star hash comma dquote] in *;
  norm; find_split; split_all; norm;
  first [ reflexivity
        | discriminate
        | congruence
        | bool_hyps; subst; teqb_split; first [reflexivity | congruence | exfalso; congruence] ].

Theorem gen_key_match_ok : forall k1 k2, gen_key_match k1 k2 = PathMatch.key_match k1 k2.
Proof. intros k1 k2. unfold gen_key_match, key_match. str_fn_eq. Qed.

Theorem gen_key_get_ok : forall k1 k2, gen_key_get k1 k2 = PathMatch.key_get k1 k2.
Proof. intros k1 k2. unfold gen_key_get, key_get. str_fn_eq. Qed.

Theorem gen_csv_field_ok : forall v, gen_csv_field v = Csv.csv_field v.
Proof. intros v. unfold gen_csv_field, csv_field. str_fn_eq. Qed.

Theorem gen_remove_comment_ok : forall s, gen_remove_comment s = Ini.remove_comment s.
Proof. intros s. unfold gen_remove_comment, remove_comment. str_fn_eq. Qed.

(* the statements are not vacuous: every branch of the translated code is taken *)
Example gen_key_match_ex :
  gen_key_match (T "/foo/bar") (T "/foo/*") = true /\ gen_key_match (T "/fo") (T "/foo/*") = false /\
  gen_key_match (T "/a") (T "/a") = true /\ gen_key_match (T "/a") (T "/b") = false.
Proof. vm_compute. repeat split. Qed.
Example gen_key_get_ex :
  gen_key_get (T "/foo/bar/foo") (T "/foo/*") = T "bar/foo" /\ gen_key_get (T "/foo/") (T "/foo/*") = [] /\
  gen_key_get (T "/fo") (T "/foo/*") = [] /\ gen_key_get (T "/foo/bar") (T "/foo/bar") = [].
Proof. vm_compute. repeat split. Qed.
Example gen_csv_field_ex :
  gen_csv_field (T "a,b") = T """a,b""" /\ gen_csv_field (T "ab") = T "ab".
Proof. vm_compute. repeat split. Qed.
Example gen_remove_comment_ex :
  gen_remove_comment (T "r = sub, obj  # request") = T "r = sub, obj" /\
  gen_remove_comment (T "m = a == b   ") = T "m = a == b".
Proof. vm_compute. repeat split. Qed.
Example rs_ops_ex :
  rs_find_char star (T "/foo/*/x*") = Some 5 /\ rs_find_char star (T "/foo") = None /\
  rs_strip_prefix (T "/foo/bar") (T "/foo/") = Some (T "bar") /\ rs_strip_prefix (T "/fo") (T "/foo/") = None /\
  rs_starts_with (T "/foo/bar") (T "/foo/") = true /\ rs_starts_with (T "/foo") (T "/foo/") = false.
Proof. vm_compute. repeat split. Qed.

Print Assumptions gen_str_translated_ok.
Print Assumptions gen_key_match_ok.
Print Assumptions gen_key_get_ok.
Print Assumptions gen_csv_field_ok.
Print Assumptions gen_remove_comment_ok.
Print Assumptions rs_find_char_star_iff.
Print Assumptions rs_find_char_Some.
Print Assumptions rs_strip_prefix_Some.
