(* Pin obligations for literals the hand-written model depends on. *)
From CV Require Import Model.Base Model.Effector Model.Expr Model.Enforce Pins.

(* private_enforce: section names, the effect-column token and the two effect
   values it compares with *)
Lemma pin_enforce_literals_ok :
  pin_enforce_literals =
  [s_r; T "request"; s_p; T "policy"; s_m; T "matcher"; s_e; T "effector";
   tok s_p s_eft; s_deny; s_allow; T "explain"; T "explain"].
Proof. reflexivity. Qed.
(* private_enforce_with_context: the effect-column token is built from the
   context's policy type ("{}_eft") *)
Lemma pin_enforce_ctx_literals_ok :
  pin_enforce_ctx_literals =
  [s_r; T "request"; s_p; T "policy"; s_m; T "matcher"; s_e; T "effector";
   T "{}_eft"; s_deny; s_allow; T "explain"; T "explain"].
Proof. reflexivity. Qed.

(* the regular expressions whose behaviour Model/Expr.v (escape_assertion) and
   Model/Csv.v, Model/PathMatch.v restate by hand *)
Definition re_ESC_A : text := T "\b(r\d*|p\d*)\.".
Definition re_ESC_C : text := T "(\s*""[^""]*""?\s*|\s*[^,]*)".
Definition re_ESC_E : text := T "\beval\(([^)]*)\)".
Definition re_MAT_B : text := T ":[^/]*".
Definition re_MAT_P : text := T "\{[^/]*\}".
Lemma pin_regexes_ok :
  pin_re_ESC_A = re_ESC_A /\ pin_re_ESC_C = re_ESC_C /\ pin_re_ESC_E = re_ESC_E /\
  pin_re_MAT_B = re_MAT_B /\ pin_re_MAT_P = re_MAT_P.
Proof. repeat split; reflexivity. Qed.

Lemma pin_cache_capacity_ok : pin_cache_capacity = 200.
Proof. reflexivity. Qed.
