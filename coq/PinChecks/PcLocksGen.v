(* Obligations for rs2coq part 19 (Gen/LocksGen.v, generated from the Rust text
   by tools/rs2coq_locks.py): the lock discipline the C20 theorems assume is the
   one the source follows.
   (0) the translation is complete, accounts for every `.read()` / `.write()`
       site of the crate, and every skeleton is "one block repeated";
   (a) for every covered function, the complete executions of its skeleton issue
       EXACTLY the role-manager part of Model/Locks.v's enforce_prog k /
       mgmt_prog k / handle_read_prog k (all k of the stated range, nothing else);
   (b) every run of every generated skeleton is flat (flat_locks);
   (c) the C20 theorems for threads whose programs are the generated ones.
   All proofs here are computations of the verified analysis of
   Proofs/LocksGenP.v on the generated skeletons plus rewriting. *)
From Coq Require Import Lia.
From CV Require Import Model.Base Model.Locks Model.SpecC20 Gen.LocksRt Gen.LocksGen Proofs.C20P Proofs.LocksGenP.

(* ------------------------------------------------------------------ *)
(* (0) completeness of the translation                                 *)
(* ------------------------------------------------------------------ *)
Lemma gen_locks_translated_ok : gen_locks_translated = true.
Proof. reflexivity. Qed.
(* every row of the generated table: the analysis succeeds with the block and
   the bounds the file states, and the skeleton is statically flat *)
Lemma gen_locks_table_ok : forallb row_ok gen_locks_table = true.
Proof. vm_compute. reflexivity. Qed.

Theorem pc_table_exact : forall name p B lo hi, In (name, p, B, lo, hi) gen_locks_table ->
  forall t, lk_fn p t <-> exists k, in_range lo hi k = true /\ t = repeat_prog k B.
Proof. intros name p B lo hi Hin. exact (proj1 (rows_ok_spec _ gen_locks_table_ok name p B lo hi Hin)). Qed.
Theorem pc_table_flat : forall name p B lo hi, In (name, p, B, lo, hi) gen_locks_table ->
  forall t, lk_fn p t -> flat_locks t = true.
Proof. intros name p B lo hi Hin. exact (proj2 (rows_ok_spec _ gen_locks_table_ok name p B lo hi Hin)). Qed.

(* ------------------------------------------------------------------ *)
(* (a) the generated programs are the role-manager parts of Locks.v's   *)
(* ------------------------------------------------------------------ *)
(* the g-function closures of register_g_function!: one read section each *)
Theorem pc_g_closure_1 : forall t, lk_fn gen_lk_g_closure_1 t <-> t = [Acq RM MR; Read; Rel RM].
Proof. apply (exact_once RBk). vm_compute. reflexivity. Qed.
Theorem pc_g_closure_2 : forall t, lk_fn gen_lk_g_closure_2 t <-> t = [Acq RM MR; Read; Rel RM].
Proof. apply (exact_once RBk). vm_compute. reflexivity. Qed.
Theorem pc_registered : forall t, lk_fn gen_lk_registered t <-> t = [Acq RM MR; Read; Rel RM].
Proof. apply (exact_once RBk). vm_compute. reflexivity. Qed.
(* registering the closures issues nothing *)
Theorem pc_register_g_functions : forall t, lk_fn gen_lk_register_g_functions t <-> t = [].
Proof.
  intros t. rewrite (exact_upto [] gen_lk_register_g_functions 0); [|vm_compute; reflexivity]. split.
  - intros [k [_ ->]]. apply repeat_prog_nil_block.
  - intros ->. exists 0. split; [apply Nat.le_refl|reflexivity].
Qed.

(* enforcement: k = number of g(..) calls evaluated *)
Ltac enforce_eq := intros k; rewrite rm_part_enforce; reflexivity.
Ltac enforce_exact p :=
  intros t; rewrite (exact_unbounded RBk p); [|vm_compute; reflexivity];
  split; intros [k ->]; exists k; [symmetry|]; apply rm_part_enforce.

Theorem pc_private_enforce_eq : forall k, gen_locks_private_enforce k = rm_part (enforce_prog k).
Proof. enforce_eq. Qed.
Theorem pc_private_enforce_exact : forall t,
  lk_fn gen_lk_private_enforce t <-> exists k, t = rm_part (enforce_prog k).
Proof. enforce_exact gen_lk_private_enforce. Qed.
Theorem pc_private_enforce_with_context_eq : forall k,
  gen_locks_private_enforce_with_context k = rm_part (enforce_prog k).
Proof. enforce_eq. Qed.
Theorem pc_private_enforce_with_context_exact : forall t,
  lk_fn gen_lk_private_enforce_with_context t <-> exists k, t = rm_part (enforce_prog k).
Proof. enforce_exact gen_lk_private_enforce_with_context. Qed.
Theorem pc_enforce_eq : forall k, gen_locks_enforce k = rm_part (enforce_prog k).
Proof. enforce_eq. Qed.
Theorem pc_enforce_exact : forall t, lk_fn gen_lk_enforce t <-> exists k, t = rm_part (enforce_prog k).
Proof. enforce_exact gen_lk_enforce. Qed.
Theorem pc_enforce_with_context_eq : forall k, gen_locks_enforce_with_context k = rm_part (enforce_prog k).
Proof. enforce_eq. Qed.
Theorem pc_enforce_with_context_exact : forall t,
  lk_fn gen_lk_enforce_with_context t <-> exists k, t = rm_part (enforce_prog k).
Proof. enforce_exact gen_lk_enforce_with_context. Qed.
(* CachedEnforcer::enforce takes &self and no lock of its own (the cache is a
   mini-moka concurrent map behind &self methods): a hit issues nothing, a miss
   what Enforcer::private_enforce issues *)
Theorem pc_cached_enforce_eq : forall k, gen_locks_cached_enforce k = rm_part (enforce_prog k).
Proof. enforce_eq. Qed.
Theorem pc_cached_enforce_exact : forall t,
  lk_fn gen_lk_cached_enforce t <-> exists k, t = rm_part (enforce_prog k).
Proof. enforce_exact gen_lk_cached_enforce. Qed.

(* management: k = number of links added / removed (+ 1 for the clear of a rebuild) *)
Ltac mgmt_eq := intros k; rewrite rm_part_mgmt; reflexivity.
Ltac mgmt_exact p :=
  intros t; rewrite (exact_unbounded WBk p); [|vm_compute; reflexivity];
  split; intros [k ->]; exists k; [symmetry|]; apply rm_part_mgmt.

Theorem pc_assertion_build_role_links_eq : forall k, gen_locks_assertion_build_role_links k = rm_part (mgmt_prog k).
Proof. mgmt_eq. Qed.
Theorem pc_assertion_build_role_links_exact : forall t,
  lk_fn gen_lk_assertion_build_role_links t <-> exists k, t = rm_part (mgmt_prog k).
Proof. mgmt_exact gen_lk_assertion_build_role_links. Qed.
Theorem pc_assertion_build_incremental_role_links_eq : forall k,
  gen_locks_assertion_build_incremental_role_links k = rm_part (mgmt_prog k).
Proof. mgmt_eq. Qed.
Theorem pc_assertion_build_incremental_role_links_exact : forall t,
  lk_fn gen_lk_assertion_build_incremental_role_links t <-> exists k, t = rm_part (mgmt_prog k).
Proof. mgmt_exact gen_lk_assertion_build_incremental_role_links. Qed.
Theorem pc_model_build_role_links_eq : forall k, gen_locks_model_build_role_links k = rm_part (mgmt_prog k).
Proof. mgmt_eq. Qed.
Theorem pc_model_build_role_links_exact : forall t,
  lk_fn gen_lk_model_build_role_links t <-> exists k, t = rm_part (mgmt_prog k).
Proof. mgmt_exact gen_lk_model_build_role_links. Qed.
Theorem pc_model_build_incremental_role_links_eq : forall k,
  gen_locks_model_build_incremental_role_links k = rm_part (mgmt_prog k).
Proof. mgmt_eq. Qed.
Theorem pc_model_build_incremental_role_links_exact : forall t,
  lk_fn gen_lk_model_build_incremental_role_links t <-> exists k, t = rm_part (mgmt_prog k).
Proof. mgmt_exact gen_lk_model_build_incremental_role_links. Qed.
Theorem pc_enforcer_build_incremental_role_links_eq : forall k,
  gen_locks_enforcer_build_incremental_role_links k = rm_part (mgmt_prog k).
Proof. mgmt_eq. Qed.
Theorem pc_enforcer_build_incremental_role_links_exact : forall t,
  lk_fn gen_lk_enforcer_build_incremental_role_links t <-> exists k, t = rm_part (mgmt_prog k).
Proof. mgmt_exact gen_lk_enforcer_build_incremental_role_links. Qed.
(* the rebuild always clears first: at least one write section *)
Theorem pc_enforcer_build_role_links_eq : forall k, gen_locks_enforcer_build_role_links k = rm_part (mgmt_prog k).
Proof. mgmt_eq. Qed.
Theorem pc_enforcer_build_role_links_exact : forall t,
  lk_fn gen_lk_enforcer_build_role_links t <-> exists k, 1 <= k /\ t = rm_part (mgmt_prog k).
Proof.
  intros t. rewrite (exact_from WBk gen_lk_enforcer_build_role_links 1); [|vm_compute; reflexivity].
  split; intros [k [Hk ->]]; exists k; (split; [exact Hk|]); [symmetry|]; apply rm_part_mgmt.
Qed.
(* the five *_internal functions reach the role manager only through
   build_incremental_role_links (feature "incremental") of Enforcer /
   CachedEnforcer -> the model -> the assertion *)
Theorem pc_add_policy_internal_eq : forall k, gen_locks_add_policy_internal k = rm_part (mgmt_prog k).
Proof. mgmt_eq. Qed.
Theorem pc_add_policy_internal_exact : forall t,
  lk_fn gen_lk_add_policy_internal t <-> exists k, t = rm_part (mgmt_prog k).
Proof. mgmt_exact gen_lk_add_policy_internal. Qed.
Theorem pc_add_policies_internal_eq : forall k, gen_locks_add_policies_internal k = rm_part (mgmt_prog k).
Proof. mgmt_eq. Qed.
Theorem pc_add_policies_internal_exact : forall t,
  lk_fn gen_lk_add_policies_internal t <-> exists k, t = rm_part (mgmt_prog k).
Proof. mgmt_exact gen_lk_add_policies_internal. Qed.
Theorem pc_remove_policy_internal_eq : forall k, gen_locks_remove_policy_internal k = rm_part (mgmt_prog k).
Proof. mgmt_eq. Qed.
Theorem pc_remove_policy_internal_exact : forall t,
  lk_fn gen_lk_remove_policy_internal t <-> exists k, t = rm_part (mgmt_prog k).
Proof. mgmt_exact gen_lk_remove_policy_internal. Qed.
Theorem pc_remove_policies_internal_eq : forall k, gen_locks_remove_policies_internal k = rm_part (mgmt_prog k).
Proof. mgmt_eq. Qed.
Theorem pc_remove_policies_internal_exact : forall t,
  lk_fn gen_lk_remove_policies_internal t <-> exists k, t = rm_part (mgmt_prog k).
Proof. mgmt_exact gen_lk_remove_policies_internal. Qed.
Theorem pc_remove_filtered_policy_internal_eq : forall k,
  gen_locks_remove_filtered_policy_internal k = rm_part (mgmt_prog k).
Proof. mgmt_eq. Qed.
Theorem pc_remove_filtered_policy_internal_exact : forall t,
  lk_fn gen_lk_remove_filtered_policy_internal t <-> exists k, t = rm_part (mgmt_prog k).
Proof. mgmt_exact gen_lk_remove_filtered_policy_internal. Qed.

(* role queries: k = number of role-manager lookups *)
Theorem pc_get_roles_for_user_eq : forall k, gen_locks_get_roles_for_user k = handle_read_prog k.
Proof. reflexivity. Qed.
Theorem pc_get_roles_for_user_exact : forall t,
  lk_fn gen_lk_get_roles_for_user t <-> exists k, k <= 1 /\ t = handle_read_prog k.
Proof. apply (exact_upto RBk). vm_compute. reflexivity. Qed.
Theorem pc_get_users_for_role_eq : forall k, gen_locks_get_users_for_role k = handle_read_prog k.
Proof. reflexivity. Qed.
Theorem pc_get_users_for_role_exact : forall t,
  lk_fn gen_lk_get_users_for_role t <-> exists k, k <= 1 /\ t = handle_read_prog k.
Proof. apply (exact_upto RBk). vm_compute. reflexivity. Qed.
Theorem pc_get_implicit_roles_for_user_eq : forall k, gen_locks_get_implicit_roles_for_user k = handle_read_prog k.
Proof. reflexivity. Qed.
Theorem pc_get_implicit_roles_for_user_exact : forall t,
  lk_fn gen_lk_get_implicit_roles_for_user t <-> exists k, t = handle_read_prog k.
Proof. apply (exact_unbounded RBk). vm_compute. reflexivity. Qed.
(* get_implicit_users_for_permission: the role lookups, then one enforce per user *)
Theorem pc_get_implicit_users_for_permission_eq : forall k,
  gen_locks_get_implicit_users_for_permission k = handle_read_prog k.
Proof. reflexivity. Qed.
Theorem pc_get_implicit_users_for_permission_exact : forall t,
  lk_fn gen_lk_get_implicit_users_for_permission t <-> exists k, t = handle_read_prog k.
Proof. apply (exact_unbounded RBk). vm_compute. reflexivity. Qed.

(* the whole table (the covered set AND every other function of the crate that can
   reach a lock site and could be translated: the public management / RBAC API):
   the block is empty, the read section or the write section, so every complete
   execution of every such function issues the role-manager part of some call
   program of Model/Locks.v *)
Definition row_kind_ok (r : text * lk * list instr * nat * option nat) : bool :=
  match r with (_, _, B, _, _) =>
    list_eqb instr_eqb B [] || list_eqb instr_eqb B RBk || list_eqb instr_eqb B WBk end.
Lemma gen_locks_table_kinds : forallb row_kind_ok gen_locks_table = true.
Proof. vm_compute. reflexivity. Qed.
Theorem pc_table_calls : forall name p B lo hi, In (name, p, B, lo, hi) gen_locks_table ->
  forall t, lk_fn p t -> exists c, t = rm_part (call_prog c).
Proof.
  intros name p B lo hi Hin t Ht.
  apply (pc_table_exact name p B lo hi Hin) in Ht. destruct Ht as [k [_ ->]].
  pose proof gen_locks_table_kinds as HK. rewrite forallb_forall in HK. specialize (HK _ Hin).
  cbn [row_kind_ok] in HK. apply orb_true_iff in HK. destruct HK as [HK|HK]; [apply orb_true_iff in HK; destruct HK as [HK|HK]|].
  - apply instrs_eqb_eq in HK. subst B. exists (CHandle 0). apply repeat_prog_nil_block.
  - apply instrs_eqb_eq in HK. subst B. exists (CEnforce k). symmetry. apply rm_part_enforce.
  - apply instrs_eqb_eq in HK. subst B. exists (CMgmt k). symmetry. apply rm_part_mgmt.
Qed.
(* what is not translated: construction and model replacement (TryIntoModel for
   Option<T> is polymorphically recursive) and the slog logger; no lock site is in
   them (gen_locks_sites_ok below) *)
Lemma gen_locks_uncovered_ok : gen_locks_uncovered =
  [T "CachedEnforcer::new_raw"; T "CachedEnforcer::new"; T "CachedEnforcer::set_model"; T "Option::try_into_model";
   T "Enforcer::new_raw"; T "Enforcer::new"; T "Enforcer::set_model"; T "DefaultLogger::default"].
Proof. reflexivity. Qed.

(* ------------------------------------------------------------------ *)
(* (b) flatness                                                        *)
(* ------------------------------------------------------------------ *)
Theorem pc_flat_enforce_prog : forall k, flat_locks (rm_part (enforce_prog k)) = true.
Proof. intros k. rewrite rm_part_enforce. apply flat_repeat_block. left. reflexivity. Qed.
Theorem pc_flat_mgmt_prog : forall k, flat_locks (rm_part (mgmt_prog k)) = true.
Proof. intros k. rewrite rm_part_mgmt. apply flat_repeat_block. right. reflexivity. Qed.
Theorem pc_flat_handle_prog : forall k, flat_locks (handle_read_prog k) = true.
Proof. intros k. apply flat_repeat_block. left. reflexivity. Qed.

(* what flatness excludes: holding the read guard across the evaluation (as in
   `let rm = self.rm.read();` at the top of private_enforce) has a run that is
   exactly the program of C20P.nested_reader, which deadlocks with a queued
   writer (C20P.nested_read_deadlocks) *)
Definition held_across_eval : lk := LHold MR (LLoop (LCall gen_lk_registered)).
Lemma held_across_eval_not_flat : lk_flat false held_across_eval = false.
Proof. vm_compute. reflexivity. Qed.
Lemma held_across_eval_run : lk_fn held_across_eval (prog nested_reader).
Proof.
  unfold lk_fn. apply (R_call _ _ ON); [|left; reflexivity].
  apply (R_hold MR _ [Acq RM MR; Read; Rel RM] ON).
  rewrite <- (app_nil_r [Acq RM MR; Read; Rel RM]).
  apply (R_loop_iter _ _ ON [] ON); [|left; reflexivity|apply R_loop_end].
  apply pc_registered. reflexivity.
Qed.
Lemma held_across_eval_unflat_run : flat_locks (prog nested_reader) = false.
Proof. reflexivity. Qed.

(* ------------------------------------------------------------------ *)
(* (c) C20 for threads that run the generated programs                 *)
(* ------------------------------------------------------------------ *)
Inductive gfun_enf := GPrivateEnforce | GPrivateEnforceCtx | GEnforce | GEnforceCtx | GCachedEnforce.
Inductive gfun_mgmt := GAddPolicy | GAddPolicies | GRemovePolicy | GRemovePolicies | GRemoveFilteredPolicy
                     | GBuildRoleLinks | GBuildIncrementalRoleLinks.
Inductive gfun_query := GRolesForUser | GUsersForRole | GImplicitRolesForUser | GImplicitUsersForPermission.

Definition gen_enf_prog (f : gfun_enf) : nat -> list instr :=
  match f with
  | GPrivateEnforce => gen_locks_private_enforce
  | GPrivateEnforceCtx => gen_locks_private_enforce_with_context
  | GEnforce => gen_locks_enforce
  | GEnforceCtx => gen_locks_enforce_with_context
  | GCachedEnforce => gen_locks_cached_enforce
  end.
Definition gen_mgmt_prog (f : gfun_mgmt) : nat -> list instr :=
  match f with
  | GAddPolicy => gen_locks_add_policy_internal
  | GAddPolicies => gen_locks_add_policies_internal
  | GRemovePolicy => gen_locks_remove_policy_internal
  | GRemovePolicies => gen_locks_remove_policies_internal
  | GRemoveFilteredPolicy => gen_locks_remove_filtered_policy_internal
  | GBuildRoleLinks => gen_locks_enforcer_build_role_links
  | GBuildIncrementalRoleLinks => gen_locks_enforcer_build_incremental_role_links
  end.
Definition gen_query_prog (f : gfun_query) : nat -> list instr :=
  match f with
  | GRolesForUser => gen_locks_get_roles_for_user
  | GUsersForRole => gen_locks_get_users_for_role
  | GImplicitRolesForUser => gen_locks_get_implicit_roles_for_user
  | GImplicitUsersForPermission => gen_locks_get_implicit_users_for_permission
  end.
Definition gen_enf_lk (f : gfun_enf) : lk :=
  match f with
  | GPrivateEnforce => gen_lk_private_enforce
  | GPrivateEnforceCtx => gen_lk_private_enforce_with_context
  | GEnforce => gen_lk_enforce
  | GEnforceCtx => gen_lk_enforce_with_context
  | GCachedEnforce => gen_lk_cached_enforce
  end.
Definition gen_mgmt_lk (f : gfun_mgmt) : lk :=
  match f with
  | GAddPolicy => gen_lk_add_policy_internal
  | GAddPolicies => gen_lk_add_policies_internal
  | GRemovePolicy => gen_lk_remove_policy_internal
  | GRemovePolicies => gen_lk_remove_policies_internal
  | GRemoveFilteredPolicy => gen_lk_remove_filtered_policy_internal
  | GBuildRoleLinks => gen_lk_enforcer_build_role_links
  | GBuildIncrementalRoleLinks => gen_lk_enforcer_build_incremental_role_links
  end.
Definition gen_query_lk (f : gfun_query) : lk :=
  match f with
  | GRolesForUser => gen_lk_get_roles_for_user
  | GUsersForRole => gen_lk_get_users_for_role
  | GImplicitRolesForUser => gen_lk_get_implicit_roles_for_user
  | GImplicitUsersForPermission => gen_lk_get_implicit_users_for_permission
  end.

(* a call of the application: which function, and its shape parameter.  The
   application takes its own lock around the enforcer: read for an enforce call
   (&self), write for a management call (&mut self; Begin / End bracket the
   call); a role query through a cloned role-manager handle takes none *)
Inductive gcall := GE (f : gfun_enf) (k : nat) | GM (f : gfun_mgmt) (k : nat) | GQ (f : gfun_query) (k : nat).
Definition gen_call_prog (c : gcall) : list instr :=
  match c with
  | GE f k => with_outer_read (gen_enf_prog f k)
  | GM f k => with_outer_write (gen_mgmt_prog f k)
  | GQ f k => gen_query_prog f k
  end.
Definition to_call (c : gcall) : call :=
  match c with GE _ k => CEnforce k | GM _ k => CMgmt k | GQ _ k => CHandle k end.
Definition gen_thread_of (cs : list gcall) : thread :=
  {| prog := flat_map gen_call_prog cs; held := []; queued := false; seen := [] |}.
Definition gen_init_sys (gtss : list (list gcall)) : sys :=
  {| l_outer := free_lock; l_rm := free_lock;
     dat := {| version := 0; in_call := false; writes := 0 |};
     threads := map gen_thread_of gtss |}.
Definition to_calls (gtss : list (list gcall)) : list (list call) := map (map to_call) gtss.

Lemma gen_call_prog_eq : forall c, gen_call_prog c = call_prog (to_call c).
Proof. intros [f k|f k|f k]; destruct f; reflexivity. Qed.
Lemma gen_thread_of_eq : forall cs, gen_thread_of cs = thread_of (map to_call cs).
Proof.
  intros cs. unfold gen_thread_of, thread_of. f_equal.
  induction cs as [|c cs IH]; [reflexivity|]. cbn [flat_map map]. rewrite IH, gen_call_prog_eq. reflexivity.
Qed.
Theorem pc_gen_init_sys : forall gtss, gen_init_sys gtss = init_sys (to_calls gtss).
Proof.
  intros gtss. unfold gen_init_sys, init_sys, to_calls. f_equal.
  rewrite map_map. apply map_ext. intros cs. apply gen_thread_of_eq.
Qed.

(* threads given by RUNS of the skeletons (not by a shape parameter) *)
Inductive grun := RE (f : gfun_enf) (t : list instr) | RMg (f : gfun_mgmt) (t : list instr)
                | RQ (f : gfun_query) (t : list instr).
Definition grun_ok (r : grun) : Prop :=
  match r with
  | RE f t => lk_fn (gen_enf_lk f) t
  | RMg f t => lk_fn (gen_mgmt_lk f) t
  | RQ f t => lk_fn (gen_query_lk f) t
  end.
Definition grun_prog (r : grun) : list instr :=
  match r with
  | RE _ t => with_outer_read t
  | RMg _ t => with_outer_write t
  | RQ _ t => t
  end.
Definition run_thread_of (rs : list grun) : thread :=
  {| prog := flat_map grun_prog rs; held := []; queued := false; seen := [] |}.
Definition run_init_sys (rss : list (list grun)) : sys :=
  {| l_outer := free_lock; l_rm := free_lock;
     dat := {| version := 0; in_call := false; writes := 0 |};
     threads := map run_thread_of rss |}.

Lemma grun_is_call : forall r, grun_ok r -> exists c, grun_prog r = call_prog c.
Proof.
  intros [f t|f t|f t] H; cbn [grun_ok grun_prog] in *.
  - assert (Hk : exists k, t = rm_part (enforce_prog k)).
    { destruct f; cbn [gen_enf_lk] in H.
      - apply pc_private_enforce_exact. exact H.
      - apply pc_private_enforce_with_context_exact. exact H.
      - apply pc_enforce_exact. exact H.
      - apply pc_enforce_with_context_exact. exact H.
      - apply pc_cached_enforce_exact. exact H. }
    destruct Hk as [k ->]. exists (CEnforce k). rewrite rm_part_enforce. reflexivity.
  - assert (Hk : exists k, t = rm_part (mgmt_prog k)).
    { destruct f; cbn [gen_mgmt_lk] in H.
      - apply pc_add_policy_internal_exact. exact H.
      - apply pc_add_policies_internal_exact. exact H.
      - apply pc_remove_policy_internal_exact. exact H.
      - apply pc_remove_policies_internal_exact. exact H.
      - apply pc_remove_filtered_policy_internal_exact. exact H.
      - apply pc_enforcer_build_role_links_exact in H. destruct H as [k [_ Hk]]. exists k. exact Hk.
      - apply pc_enforcer_build_incremental_role_links_exact. exact H. }
    destruct Hk as [k ->]. exists (CMgmt k). rewrite rm_part_mgmt. reflexivity.
  - assert (Hk : exists k, t = handle_read_prog k).
    { destruct f; cbn [gen_query_lk] in H.
      - apply pc_get_roles_for_user_exact in H. destruct H as [k [_ Hk]]. exists k. exact Hk.
      - apply pc_get_users_for_role_exact in H. destruct H as [k [_ Hk]]. exists k. exact Hk.
      - apply pc_get_implicit_roles_for_user_exact. exact H.
      - apply pc_get_implicit_users_for_permission_exact. exact H. }
    destruct Hk as [k ->]. exists (CHandle k). reflexivity.
Qed.
Lemma run_thread_is_calls : forall rs, Forall grun_ok rs -> exists cs, run_thread_of rs = thread_of cs.
Proof.
  intros rs H. induction H as [|r rs Hr _ IH].
  - exists []. reflexivity.
  - destruct IH as [cs IH]. destruct (grun_is_call r Hr) as [c Hc]. exists (c :: cs).
    unfold run_thread_of, thread_of in *. cbn [flat_map]. f_equal.
    rewrite Hc. f_equal. injection IH as IH. exact IH.
Qed.
Theorem pc_run_init_sys : forall rss, Forall (Forall grun_ok) rss -> exists tss, run_init_sys rss = init_sys tss.
Proof.
  intros rss H. induction H as [|rs rss Hrs _ IH].
  - exists []. reflexivity.
  - destruct IH as [tss IH]. destruct (run_thread_is_calls rs Hrs) as [cs Hcs]. exists (cs :: tss).
    unfold run_init_sys, init_sys in *. cbn [map]. f_equal. rewrite Hcs. f_equal.
    injection IH as IH. exact IH.
Qed.

(* the headline theorems of Properties/C20.v, for the generated programs *)
Theorem pc_c20_inv : forall gtss s, sreach (gen_init_sys gtss) s -> ProtoInv s.
Proof. intros gtss s. rewrite pc_gen_init_sys. apply proto_inv_reachable. Qed.
Theorem pc_c20_progress : forall gtss s, sreach (gen_init_sys gtss) s -> all_done s = false ->
  exists i, step_thread s i <> None.
Proof. intros gtss s. rewrite pc_gen_init_sys. apply progress. Qed.
Theorem pc_c20_stuck_is_done : forall gtss s, sreach (gen_init_sys gtss) s ->
  (forall i, step_thread s i = None) -> all_done s = true.
Proof. intros gtss s. rewrite pc_gen_init_sys. apply stuck_is_done. Qed.
Theorem pc_c20_fair_completes : forall gtss segs,
  Forall (covers (length gtss)) segs -> smeasure (gen_init_sys gtss) <= length segs ->
  all_done (run_schedule (gen_init_sys gtss) (concat segs)) = true.
Proof.
  intros gtss segs Hc Hm. rewrite pc_gen_init_sys in *. apply fair_schedule_completes; [|exact Hm].
  unfold to_calls. rewrite map_length. exact Hc.
Qed.
Theorem pc_c20_final_counters : forall gtss s, sreach (gen_init_sys gtss) s -> all_done s = true ->
  version (dat s) = sumf n_mgmt (to_calls gtss) /\ writes (dat s) = sumf n_writes (to_calls gtss) /\
  in_call (dat s) = false.
Proof. intros gtss s. rewrite pc_gen_init_sys. apply final_counters. Qed.
(* every decision is a serial one: what the reads of a finished run observed
   satisfies the executable predicate of Model/SpecC20.v *)
Theorem pc_c20_pred_holds : forall gtss s, sreach (gen_init_sys gtss) s -> all_done s = true ->
  c20_pred (to_calls gtss) (seen_of s) = true.
Proof. intros gtss s. rewrite pc_gen_init_sys. apply c20_pred_model. Qed.
(* determinism of enforcement: a thread that only enforces never observes a
   management call half applied, and each of its calls sees ONE version *)
Theorem pc_c20_enforce_quiescent : forall gtss s i cs t, sreach (gen_init_sys gtss) s ->
  nth_error (to_calls gtss) i = Some cs -> nth_error (threads s) i = Some t ->
  Forall is_enforce cs -> forall x, In x (seen t) -> snd x = false.
Proof. intros gtss s i cs t. rewrite pc_gen_init_sys. apply enforce_reads_quiescent. Qed.
Theorem pc_c20_seen_final : forall gtss s i cs t, sreach (gen_init_sys gtss) s ->
  nth_error (to_calls gtss) i = Some cs -> nth_error (threads s) i = Some t -> prog t = [] ->
  exists bs, Forall2 block_full cs bs /\ seen t = concat bs.
Proof. intros gtss s i cs t. rewrite pc_gen_init_sys. apply seen_blocks_final. Qed.
Theorem pc_c20_no_writer_single_thread : forall gtss s i t, sumf n_mgmt (to_calls gtss) = 0 ->
  sreach (gen_init_sys gtss) s -> nth_error (threads s) i = Some t ->
  forall x, In x (seen t) -> x = (0, false).
Proof. intros gtss s i t. rewrite pc_gen_init_sys. apply no_mgmt_reads_initial. Qed.

(* the same for threads given by arbitrary runs of the skeletons *)
Theorem pc_c20_runs_inv : forall rss s, Forall (Forall grun_ok) rss -> sreach (run_init_sys rss) s -> ProtoInv s.
Proof.
  intros rss s H Hr. destruct (pc_run_init_sys rss H) as [tss E]. rewrite E in Hr.
  exact (proto_inv_reachable tss s Hr).
Qed.
Theorem pc_c20_runs_progress : forall rss s, Forall (Forall grun_ok) rss ->
  sreach (run_init_sys rss) s -> all_done s = false -> exists i, step_thread s i <> None.
Proof.
  intros rss s H Hr. destruct (pc_run_init_sys rss H) as [tss E]. rewrite E in Hr.
  exact (progress tss s Hr).
Qed.
Theorem pc_c20_runs_stuck_is_done : forall rss s, Forall (Forall grun_ok) rss ->
  sreach (run_init_sys rss) s -> (forall i, step_thread s i = None) -> all_done s = true.
Proof.
  intros rss s H Hr. destruct (pc_run_init_sys rss H) as [tss E]. rewrite E in Hr.
  exact (stuck_is_done tss s Hr).
Qed.
Theorem pc_c20_runs_can_complete : forall rss s, Forall (Forall grun_ok) rss ->
  sreach (run_init_sys rss) s -> exists sched, all_done (run_schedule s sched) = true.
Proof.
  intros rss s H Hr. apply can_complete_inv. exact (pc_c20_runs_inv rss s H Hr).
Qed.

(* ------------------------------------------------------------------ *)
(* non-vacuity                                                         *)
(* ------------------------------------------------------------------ *)
Definition ex_gtss : list (list gcall) :=
  [[GE GEnforce 2; GQ GImplicitRolesForUser 1]; [GM GAddPolicies 2]; [GE GCachedEnforce 1; GM GBuildRoleLinks 3]].
Lemma ex_gtss_runs :
  let s := run_schedule (gen_init_sys ex_gtss) (ex_rr 3 40) in
  all_done s = true /\ version (dat s) = 2 /\ writes (dat s) = 5 /\
  c20_pred (to_calls ex_gtss) (seen_of s) = true.
Proof. vm_compute. repeat split; reflexivity. Qed.
Lemma ex_table_row : In (T "private_enforce", gen_lk_private_enforce, RBk, 0, None) gen_locks_table /\
                     In (T "enforcer_build_role_links", gen_lk_enforcer_build_role_links, WBk, 1, None) gen_locks_table.
Proof. split; unfold gen_locks_table; repeat (first [left; reflexivity | right]). Qed.
Lemma ex_private_enforce_run : lk_fn gen_lk_private_enforce (repeat_prog 3 [Acq RM MR; Read; Rel RM]).
Proof. apply pc_private_enforce_exact. exists 3. reflexivity. Qed.
Lemma ex_build_role_links_needs_clear : ~ lk_fn gen_lk_enforcer_build_role_links [].
Proof.
  intros H. apply pc_enforcer_build_role_links_exact in H. destruct H as [k [Hk Ht]].
  rewrite rm_part_mgmt in Ht. destruct k as [|k]; [lia|discriminate Ht].
Qed.
Lemma ex_get_roles_at_most_one : ~ lk_fn gen_lk_get_roles_for_user (handle_read_prog 2).
Proof.
  intros H. apply pc_get_roles_for_user_exact in H. destruct H as [k [Hk Ht]].
  destruct k as [|[|k]]; [discriminate Ht|discriminate Ht|lia].
Qed.
Lemma ex_grun_ok : Forall (Forall grun_ok)
  [[RE GPrivateEnforce (repeat_prog 2 RBk); RQ GRolesForUser RBk]; [RMg GBuildRoleLinks (repeat_prog 2 WBk)]].
Proof.
  repeat constructor; cbn [grun_ok gen_enf_lk gen_mgmt_lk gen_query_lk].
  - apply pc_private_enforce_exact. exists 2. rewrite rm_part_enforce. reflexivity.
  - apply pc_get_roles_for_user_exact. exists 1. split; [lia|reflexivity].
  - apply pc_enforcer_build_role_links_exact. exists 2. split; [lia|]. rewrite rm_part_mgmt. reflexivity.
Qed.

(* ------------------------------------------------------------------ *)
(* inventory pins                                                      *)
(* ------------------------------------------------------------------ *)
(* every `.read()` / `.write()` of the crate's non-test code is an acquisition
   of the role-manager lock inside a translated function *)
Lemma gen_locks_sites_ok : gen_locks_sites_covered = gen_locks_sites_total.
Proof. reflexivity. Qed.
Lemma gen_locks_irregular_ok : gen_locks_irregular = [].
Proof. reflexivity. Qed.
(* the closures handed to rhai::Engine::register_fn that capture a handle: the
   2- and the 3-argument role function of register_g_function! *)
Lemma gen_locks_registered_ok : gen_locks_registered_closures = 2.
Proof. reflexivity. Qed.
(* 13 sites: enforcer.rs 1, macros.rs 2, rbac_api.rs 4, model/assertion.rs 6
   (the syntactic count of PinChecks/PcLocks.v, now each one translated) *)
Lemma gen_locks_sites_pin : gen_locks_sites_total = 13.
Proof. reflexivity. Qed.
