(* Pin obligation: which CoreApi methods of CachedEnforcer touch the cache (a
   syntactic scan of src/cached_enforcer.rs) equals the table Model/Cached.v
   (clears_after) encodes: the delegating mutators clear, enforce paths use it,
   everything else does not. *)
From CV Require Import Model.Base Pins.

Definition cached_inventory_expected : list (text * bool) :=
  [(T "new_raw", false); (T "new", false); (T "add_function", true); (T "get_model", false);
   (T "get_mut_model", false); (T "get_adapter", false); (T "get_mut_adapter", false);
   (T "set_watcher", false); (T "get_watcher", false); (T "get_mut_watcher", false);
   (T "get_role_manager", false); (T "set_role_manager", true); (T "set_model", true);
   (T "set_adapter", true); (T "get_logger", false); (T "set_logger", false); (T "set_effector", true); (T "enforce", true);
   (T "enforce_with_context", true); (T "enforce_mut", false); (T "enforce_ex", true); (T "build_role_links", true);
   (T "build_incremental_role_links", false); (T "load_policy", true);
   (T "load_filtered_policy", true); (T "is_filtered", false); (T "is_enabled", false);
   (T "save_policy", false); (T "clear_policy", true); (T "enable_log", false); (T "enable_enforce", true);
   (T "enable_auto_save", false); (T "enable_auto_build_role_links", false);
   (T "enable_auto_notify_watcher", false); (T "has_auto_save_enabled", false);
   (T "has_auto_notify_watcher_enabled", false); (T "has_auto_build_role_links_enabled", false)].
Lemma pin_cached_inventory_ok : pin_cached_inventory = cached_inventory_expected.
Proof. reflexivity. Qed.
