(* Pin obligations for src/effector.rs: the literals the source contains are
   the ones the model uses. *)
From CV Require Import Model.Base Model.Effector Pins.

(* The SYNTACTIC pins of round 1 (the order of the expression literals compared in push_effect, the arms of the
   initial-value match) were dropped: a harmless reordering of branches would have broken them, and everything they
   guarded is now covered semantically by PinChecks/PcEffectorGen.v, which proves the function TRANSLATED from
   src/effector.rs on every run equal to the model for every state, effect, expression text and capacity.
   What stays: the two assertions of the source are present (a missing `assert!` would turn a panic into a value). *)
Lemma pin_eff_asserts_ok : pin_eff_cap_assert = true /\ pin_eff_next_assert = true.
Proof. split; reflexivity. Qed.
