(* Pin obligations for src/effector.rs: the literals the source contains are
   the ones the model uses. *)
From CV Require Import Model.Base Model.Effector Pins.

Lemma pin_eff_init_false_ok :
  pin_eff_init_false = [s_allow_override; s_allow_and_deny; s_priority].
Proof. reflexivity. Qed.
Lemma pin_eff_init_true_ok : pin_eff_init_true = [s_deny_override].
Proof. reflexivity. Qed.
Lemma pin_eff_init_other_ok : pin_eff_init_other = [].
Proof. reflexivity. Qed.
Lemma pin_eff_push_exprs_ok :
  pin_eff_push_exprs = [s_allow_override; s_allow_and_deny; s_deny_override; s_priority].
Proof. reflexivity. Qed.
Lemma pin_eff_asserts_ok : pin_eff_cap_assert = true /\ pin_eff_next_assert = true.
Proof. split; reflexivity. Qed.
(* init_res agrees with the pinned table *)
Lemma pin_eff_init_res_ok :
  forall r, init_res r = existsb (teqb (erule_text r)) pin_eff_init_true.
Proof. destruct r; vm_compute; reflexivity. Qed.

(* (no body-hash pins for effector.rs: its functions are TRANSLATED on every run and proved equal to the
   model in PcEffectorGen.v, which a meaning-preserving rewrite keeps) *)
