(* Frozen body hashes of the modelled functions: written by `tools/pins.py --freeze`
   after the model was last aligned with /repo. Committed; checks never rewrite it. *)
From CV Require Import Model.Base.

Definition frozen_fmgmtapi_all : text := (T "531585651af18068").
Definition frozen_frbacapi_all : text := (T "e7aefe767c6b1197").
Definition frozen_femitter_all : text := (T "ecddd892771c5928").
Definition frozen_fcachedenforcer_all : text := (T "236765f061ee1aa8").
Definition frozen_frolemanager_all : text := (T "c66e3c40509a85a3").
Definition frozen_ferror_all : text := (T "965bce3477fa978f").
Definition frozen_fadaptermod_all : text := (T "cb8aa7dab4622b86").
Definition frozen_fwatcher_all : text := (T "e7778636322df05a").
Definition frozen_ffrontend_all : text := (T "2cd17dd38f84f75d").
Definition frozen_fenforcer_all : text := (T "515f526ee3e31d16").
Definition frozen_fdefaultmodel_all : text := (T "0a6e59405dffe1bf").
Definition frozen_ffileadapter_all : text := (T "9ac5951a3d804755").
Definition frozen_fstringadapter_all : text := (T "c400b1757ca4ab16").
Definition frozen_fconfig_all : text := (T "e8bfefde4d28228f").
Definition frozen_ffunctionmap_all : text := (T "179e129a03afc4c3").
Definition frozen_fassertion_all : text := (T "27213cdf0ef212fd").
Definition frozen_finternalapi_all : text := (T "285ed96ab9bf48f2").
