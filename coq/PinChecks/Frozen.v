(* Frozen body hashes of the modelled functions: written by `tools/pins.py --freeze`
   after the model was last aligned with /repo. Committed; checks never rewrite it. *)
From CV Require Import Model.Base.

Definition frozen_model_add_policy : text := (T "8492594d8b9ee1b7").
Definition frozen_model_add_policies : text := (T "859173f43a5306da").
Definition frozen_model_get_policy : text := (T "aba432131c617ecf").
Definition frozen_model_get_filtered_policy : text := (T "d8dd0797558f1a96").
Definition frozen_model_has_policy : text := (T "144afbd536fba156").
Definition frozen_model_get_values_for_field_in_policy : text := (T "8b17eb7db04fd742").
Definition frozen_model_remove_policy : text := (T "f99bf6dd11a6c891").
Definition frozen_model_remove_policies : text := (T "133d83e2d57cdbaf").
Definition frozen_model_remove_filtered_policy : text := (T "6ea2c18b99958b21").
Definition frozen_fmacros_all : text := (T "1c0b65402f5cf2e7").
Definition frozen_fmgmtapi_all : text := (T "531585651af18068").
Definition frozen_frbacapi_all : text := (T "e7aefe767c6b1197").
Definition frozen_femitter_all : text := (T "ecddd892771c5928").
Definition frozen_fconvert_all : text := (T "7e7aac52276c0d2c").
Definition frozen_fcachedenforcer_all : text := (T "236765f061ee1aa8").
Definition frozen_fdefaultcache_all : text := (T "1d91c993075fd87d").
Definition frozen_frolemanager_all : text := (T "c66e3c40509a85a3").
Definition frozen_ferror_all : text := (T "965bce3477fa978f").
Definition frozen_fadaptermod_all : text := (T "cb8aa7dab4622b86").
Definition frozen_fwatcher_all : text := (T "e7778636322df05a").
Definition frozen_ffrontend_all : text := (T "2cd17dd38f84f75d").
