(* Frozen body hashes of the modelled functions: written by `tools/pins.py --freeze`
   after the model was last aligned with /repo. Committed; checks never rewrite it. *)
From CV Require Import Model.Base.

Definition frozen_fmgmtapi_all : text := (T "531585651af18068").
Definition frozen_frbacapi_all : text := (T "e7aefe767c6b1197").
Definition frozen_femitter_all : text := (T "ecddd892771c5928").
Definition frozen_fcachedenforcer_all : text := (T "236765f061ee1aa8").
Definition frozen_frolemanager_all : text := (T "c66e3c40509a85a3").
Definition frozen_ferror_all : text := (T "965bce3477fa978f").
Definition frozen_fadaptermod_all : text := (T "cb8aa7dab4622b86").
Definition frozen_fwatcher_all : text := (T "e7778636322df05a").
Definition frozen_ffrontend_all : text := (T "2cd17dd38f84f75d").
