(* Frozen body hashes of the modelled functions: written by `tools/pins.py --freeze`
   after the model was last aligned with /repo. Committed; checks never rewrite it. *)
From CV Require Import Model.Base.

Definition frozen_eff_new_stream : text := (T "d2073d5542cc256e").
Definition frozen_eff_next : text := (T "c6ef8a350708eba3").
Definition frozen_eff_push_effect : text := (T "04333b1716c662e2").
Definition frozen_rm_get_or_create_role : text := (T "82254d250dd94a47").
Definition frozen_rm_matched_domains : text := (T "c8f52fae98168756").
Definition frozen_rm_domain_has_role : text := (T "0067364d3d56a9ad").
Definition frozen_rm_clear : text := (T "cb2bf4a44e0d251e").
Definition frozen_rm_add_link : text := (T "5bdb1c365dd37ef8").
Definition frozen_rm_delete_link : text := (T "f403ac8b305a569b").
Definition frozen_rm_has_link : text := (T "20bebb1adc06159d").
Definition frozen_rm_get_roles : text := (T "bada963e9c5e03e8").
Definition frozen_rm_get_users : text := (T "3a045ba99a98efd7").
Definition frozen_rm_bfs_new : text := (T "60a9f0b13a62a6b9").
Definition frozen_rm_bfs_next : text := (T "af97b22f384130d8").
Definition frozen_rm_bfs_update_depth : text := (T "9e004cb62700bd22").
Definition frozen_rm_bfs_iterator : text := (T "88a2892de110c2d8").
