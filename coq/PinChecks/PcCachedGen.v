(* Obligations tying the TRANSLATED CachedEnforcer (Gen/CachedGen.v, regenerated on
   every run by tools/rs2coq_cached.py from /repo/src/cached_enforcer.rs and the
   clear_cache callback of /repo/src/emitter.rs) to the hand-written model
   Model/Cached.v, for all states and arguments:

   (a) every delegating method that is an operation of the model:
         gen_cstep_<method> c args = cstep_prim c (<Op> args)   (= cstep c ..)
       so the POSITION of `self.cache.clear()` in the source (before the
       delegated call / after it / after it only behind a `?` / nowhere) agrees
       with Model.Cached.clears_after on every outcome of the inner call, the
       failing ones included.  A `set_model` that clears only after a
       successful inner call (`self.enforcer.set_model(m).await?;
       self.cache.clear(); Ok(())`) leaves the Err case of gen_cstep_set_model_ok
       unprovable: "a failed set_model leaves a stale cache".
       The inventory `gen_cached_methods` (where each `&mut self` delegating
       method clears) is pinned, and related to clears_after as a table too.
   (b) gen_cenforce ptab c k = cenforce ptab c k for every parse table:
       lookup first; a hit answers from the cache; a miss decides with the inner
       enforcer, and only an Ok decision is stored (the `?` precedes the set);
       the context-qualified path files under a key that includes the context.
   (c) gen_clear_cache_registered = true.
   Part 4 is a remark on EnforceContext::get_cache_key (translated as
   gen_ctx_cache_key): the string determines the context only when the names
   contain no '-' (partial statement proved, the full one refuted by a witness).

   Method.  The tactics never look at the shape of the generated terms: they
   unfold the vocabulary of Gen/CachedRt.v and the model, split on the result of
   the single inner call (`Engine.step`, `Engine.enforce`, `cache_get`) and ask
   for syntactic equality of what is left.  Two facts about Engine.step are
   proved once: a configuration call that succeeds answers `Ok true`
   (step_ok_true), which is what a source-level `Ok(())` is translated to.
   A rewrite of the Rust source that keeps its meaning and stays in the
   translated subset keeps these proofs. *)
From CV Require Import Model.Base Model.Expr Model.Enforce Model.Engine Model.Cached.
From CV Require Import Gen.CachedRt Gen.CachedGen Proofs.BaseP Proofs.ExModels.

Lemma gen_cached_translated_ok : gen_cached_translated = true.
Proof. reflexivity. Qed.

(* ------------------------------------------------------------------ *)
(* Part 0: splitting on scrutinees, innermost first                    *)

Ltac brk :=
  match goal with
  | |- context [match ?x with _ => _ end] =>
    lazymatch x with
    | context [match _ with _ => _ end] => fail
    | _ => destruct x eqn:?
    end
  | H : context [match ?x with _ => _ end] |- _ =>
    lazymatch x with
    | context [match _ with _ => _ end] => fail
    | _ => destruct x eqn:?
    end
  end.

Definition cfg_op (o : op) : bool :=
  match o with
  | OClear | OLoad | OLoadFiltered _ _ | OSave | OBuildRoleLinks | OSetModel _ | OSetAdapter _
  | OSetRoleManager _ | OSetEffector | OAddFunction _ _ | OEnableEnforce _ | OEnableAutoSave _
  | OEnableAutoBuild _ | OEnableAutoNotify _ => true
  | _ => false
  end.

Lemma lerr_out_ok : forall e b b', lerr_out e b = Ok b' -> b' = b.
Proof. intros [|c] b b' H; cbn [lerr_out] in H; congruence. Qed.
Lemma lres_out_ok : forall r b, lres_out r = Ok b -> b = true.
Proof. intros [|c|] b H; cbn [lres_out] in H; congruence. Qed.

Lemma finish_load_ok : forall s ad md r s' b, finish_load s ad md r = (s', Ok b) -> b = true.
Proof.
  intros s ad md r s' b H. unfold finish_load in H.
  repeat brk; inversion H; subst; try reflexivity; eapply lerr_out_ok; eauto.
Qed.

Ltac ok_fin H :=
  first [ eapply finish_load_ok; exact H
        | inversion H; subst;
          first [ reflexivity | eapply lerr_out_ok; eassumption | eapply lres_out_ok; eassumption ] ].

Lemma step_ok_true : forall s o s' b, cfg_op o = true -> step s o = (s', Ok b) -> b = true.
Proof.
  intros s o s' b Hc H. destruct o; try discriminate Hc; cbn [step] in H;
    unfold step_clear, step_load, step_load_filtered, step_save, step_set_model, step_set_adapter,
      step_set_role_manager, step_load in H;
    repeat brk; ok_fin H.
Qed.

(* ------------------------------------------------------------------ *)
(* Part 1 (a): the delegating methods                                   *)

(* One tactic for the fourteen obligations.  After unfolding, both sides contain
   the same `step (c_inner c) o`; split on its result.
   - first  : the two sides are syntactically equal;
   - second : the source answers `Ok(())` itself after a `?`: the model's answer
              is `Ok true` as well (step_ok_true);
   - third  : an infallible call (`()` in the source) - the model's step
              computes to `(_, Ok true)`. *)
Ltac cstep_eq f :=
  intros; unfold f, cstep_prim, cg_call, cg_clear; cbn [c_inner c_cache clears_after];
  match goal with
  | |- context [step ?s ?o] =>
    let s' := fresh "s'" in let r := fresh "r" in let E := fresh "E" in
    destruct (step s o) as [s' r] eqn:E;
    let b := fresh "b" in let e := fresh "e" in
    destruct r as [b|e|]; cbn [c_inner c_cache];
    first [ reflexivity
          | apply step_ok_true in E; [subst b; reflexivity | reflexivity]
          | cbn [step] in E; first [discriminate E | inversion E; subst; reflexivity] ]
  end.

Theorem gen_cstep_set_model_ok : forall c d, gen_cstep_set_model c d = cstep_prim c (OSetModel d).
Proof. cstep_eq gen_cstep_set_model. Qed.
Theorem gen_cstep_set_adapter_ok : forall c a, gen_cstep_set_adapter c a = cstep_prim c (OSetAdapter a).
Proof. cstep_eq gen_cstep_set_adapter. Qed.
Theorem gen_cstep_set_role_manager_ok : forall c mx,
  gen_cstep_set_role_manager c mx = cstep_prim c (OSetRoleManager mx).
Proof. cstep_eq gen_cstep_set_role_manager. Qed.
Theorem gen_cstep_set_effector_ok : forall c, gen_cstep_set_effector c = cstep_prim c OSetEffector.
Proof. cstep_eq gen_cstep_set_effector. Qed.
Theorem gen_cstep_add_function_ok : forall c n u, gen_cstep_add_function c n u = cstep_prim c (OAddFunction n u).
Proof. cstep_eq gen_cstep_add_function. Qed.
Theorem gen_cstep_build_role_links_ok : forall c, gen_cstep_build_role_links c = cstep_prim c OBuildRoleLinks.
Proof. cstep_eq gen_cstep_build_role_links. Qed.
Theorem gen_cstep_load_policy_ok : forall c, gen_cstep_load_policy c = cstep_prim c OLoad.
Proof. cstep_eq gen_cstep_load_policy. Qed.
Theorem gen_cstep_load_filtered_policy_ok : forall c fp fg,
  gen_cstep_load_filtered_policy c fp fg = cstep_prim c (OLoadFiltered fp fg).
Proof. cstep_eq gen_cstep_load_filtered_policy. Qed.
Theorem gen_cstep_save_policy_ok : forall c, gen_cstep_save_policy c = cstep_prim c OSave.
Proof. cstep_eq gen_cstep_save_policy. Qed.
Theorem gen_cstep_clear_policy_ok : forall c, gen_cstep_clear_policy c = cstep_prim c OClear.
Proof. cstep_eq gen_cstep_clear_policy. Qed.
Theorem gen_cstep_enable_enforce_ok : forall c b, gen_cstep_enable_enforce c b = cstep_prim c (OEnableEnforce b).
Proof. cstep_eq gen_cstep_enable_enforce. Qed.
Theorem gen_cstep_enable_auto_save_ok : forall c b, gen_cstep_enable_auto_save c b = cstep_prim c (OEnableAutoSave b).
Proof. cstep_eq gen_cstep_enable_auto_save. Qed.
Theorem gen_cstep_enable_auto_build_role_links_ok : forall c b,
  gen_cstep_enable_auto_build_role_links c b = cstep_prim c (OEnableAutoBuild b).
Proof. cstep_eq gen_cstep_enable_auto_build_role_links. Qed.
Theorem gen_cstep_enable_auto_notify_watcher_ok : forall c b,
  gen_cstep_enable_auto_notify_watcher c b = cstep_prim c (OEnableAutoNotify b).
Proof. cstep_eq gen_cstep_enable_auto_notify_watcher. Qed.

(* all of them at once, against the top-level `cstep` of the model: the
   translated method that stands for a configuration operation *)
Definition gen_cstep_op (c : cstate) (o : op) : option (cstate * outcome bool) :=
  match o with
  | OSetModel d => Some (gen_cstep_set_model c d)
  | OSetAdapter a => Some (gen_cstep_set_adapter c a)
  | OSetRoleManager mx => Some (gen_cstep_set_role_manager c mx)
  | OSetEffector => Some (gen_cstep_set_effector c)
  | OAddFunction n u => Some (gen_cstep_add_function c n u)
  | OBuildRoleLinks => Some (gen_cstep_build_role_links c)
  | OLoad => Some (gen_cstep_load_policy c)
  | OLoadFiltered fp fg => Some (gen_cstep_load_filtered_policy c fp fg)
  | OSave => Some (gen_cstep_save_policy c)
  | OClear => Some (gen_cstep_clear_policy c)
  | OEnableEnforce b => Some (gen_cstep_enable_enforce c b)
  | OEnableAutoSave b => Some (gen_cstep_enable_auto_save c b)
  | OEnableAutoBuild b => Some (gen_cstep_enable_auto_build_role_links c b)
  | OEnableAutoNotify b => Some (gen_cstep_enable_auto_notify_watcher c b)
  | _ => None      (* management / RBAC calls: internal_api.rs emits ClearCache, not this file *)
  end.

Theorem gen_cstep_op_ok : forall c o, cfg_op o = true -> gen_cstep_op c o = Some (cstep c o).
Proof.
  intros c o H. destruct o; try discriminate H; cbn [gen_cstep_op cstep]; apply f_equal;
    auto using gen_cstep_clear_policy_ok, gen_cstep_load_policy_ok, gen_cstep_load_filtered_policy_ok,
      gen_cstep_save_policy_ok, gen_cstep_build_role_links_ok, gen_cstep_set_model_ok,
      gen_cstep_set_adapter_ok, gen_cstep_set_role_manager_ok, gen_cstep_set_effector_ok,
      gen_cstep_add_function_ok, gen_cstep_enable_enforce_ok, gen_cstep_enable_auto_save_ok,
      gen_cstep_enable_auto_build_role_links_ok, gen_cstep_enable_auto_notify_watcher_ok.
Qed.
Print Assumptions gen_cstep_op_ok.

(* ---- the inventory ---- *)
(* which `&mut self` methods delegate to the same method of the wrapped
   enforcer, and whether they clear the cache AT ALL.  The position of the
   clear() is deliberately not pinned here: what it has to be follows from the
   model (gen_clear_position_agrees and the fourteen equations above), so moving
   the clear() of an infallible method across the delegated call keeps this
   file green, while moving the one of set_model behind the `?` does not. *)
Definition clears_at_all (k : clear_kind) : bool :=
  match k with ClearNever => false | _ => true end.
Definition cached_methods_expected : list (text * bool) :=
  [(T "add_function", true); (T "get_mut_model", false); (T "get_mut_adapter", false);
   (T "set_watcher", false); (T "get_mut_watcher", false); (T "set_role_manager", true);
   (T "set_model", true); (T "set_adapter", true); (T "set_effector", true);
   (T "build_role_links", true); (T "build_incremental_role_links", false);
   (T "load_policy", true); (T "load_filtered_policy", true); (T "save_policy", false);
   (T "clear_policy", true); (T "enable_enforce", true); (T "enable_auto_save", false);
   (T "enable_auto_build_role_links", false); (T "enable_auto_notify_watcher", false)].
Lemma gen_cached_methods_ok :
  map (fun mk => (fst mk, clears_at_all (snd mk))) gen_cached_methods = cached_methods_expected.
Proof. reflexivity. Qed.

(* what a clearing position means for the cache after a call whose inner
   outcome is r (a panic unwinds past a clear() that follows the call) *)
Definition kind_clears (k : clear_kind) (r : outcome bool) : bool :=
  match k with
  | ClearBefore => true
  | ClearAfter => match r with Panic => false | _ => true end
  | ClearAfterOk => match r with Ok _ => true | _ => false end
  | ClearNever => false
  end.

Definition op_method (o : op) : option text :=
  match o with
  | OSetModel _ => Some (T "set_model")
  | OSetAdapter _ => Some (T "set_adapter")
  | OSetRoleManager _ => Some (T "set_role_manager")
  | OSetEffector => Some (T "set_effector")
  | OAddFunction _ _ => Some (T "add_function")
  | OBuildRoleLinks => Some (T "build_role_links")
  | OLoad => Some (T "load_policy")
  | OLoadFiltered _ _ => Some (T "load_filtered_policy")
  | OSave => Some (T "save_policy")
  | OClear => Some (T "clear_policy")
  | OEnableEnforce _ => Some (T "enable_enforce")
  | OEnableAutoSave _ => Some (T "enable_auto_save")
  | OEnableAutoBuild _ => Some (T "enable_auto_build_role_links")
  | OEnableAutoNotify _ => Some (T "enable_auto_notify_watcher")
  | _ => None
  end.

(* every configuration operation of the model has its method in the table *)
Lemma gen_cached_methods_covers : forall o m,
  op_method o = Some m -> assoc m gen_cached_methods <> None.
Proof.
  intros o m Hm. destruct o; cbn [op_method] in Hm; try discriminate Hm; inversion Hm; subst m;
    vm_compute; discriminate.
Qed.

(* the table alone already agrees with clears_after, on every outcome the inner
   call can have *)
Theorem gen_clear_position_agrees : forall s o m k,
  op_method o = Some m -> assoc m gen_cached_methods = Some k ->
  kind_clears k (snd (step s o)) = clears_after o (snd (step s o)).
Proof.
  intros s o m k Hm Hk.
  destruct o; cbn [op_method] in Hm; try discriminate Hm; inversion Hm; subst m;
    vm_compute in Hk; inversion Hk; subst k; cbn [kind_clears clears_after step snd]; reflexivity.
Qed.
Print Assumptions gen_clear_position_agrees.

(* ------------------------------------------------------------------ *)
(* Part 2 (b): the cached decision path                                 *)

Section CachedEnforceGen.
  Variable ptab : text -> option expr.

  (* unfold the translated functions and the model down to the three
     scrutinees (cache_get, the inner decision, the request key), split on them,
     innermost first, and compare *)
  Ltac cenf_eq :=
    unfold gen_cenforce, gen_enforce_mut, gen_enforce, gen_enforce_with_context,
      gen_private_enforce, gen_private_enforce_with_context,
      cenforce, decide, cg_get, cg_set, cg_inner_enforce, cg_inner_enforce_ctx, cg_hash;
    cbn [hp_ctx hp_rv hp_field cfield_eqb x_r x_p x_e x_m c_inner c_cache];
    repeat (brk; cbn [hp_ctx hp_rv hp_field cfield_eqb x_r x_p x_e x_m c_inner c_cache] in *);
    try reflexivity; try congruence.

  Theorem gen_cenforce_ok : forall c k, gen_cenforce ptab c k = cenforce ptab c k.
  Proof. intros c k. destruct k as [rv|rk pk ek mk rv]; cenf_eq. Qed.

  (* enforce_mut is enforce *)
  Theorem gen_enforce_mut_ok : forall c rv, gen_enforce_mut ptab c rv = cenforce ptab c (CKPlain rv).
  Proof. intros c rv. cenf_eq. Qed.

  (* the two public entry points separately (EnforceContext::new(k) is the
     special case CKCtx of the four-name context) *)
  Corollary gen_enforce_ok : forall c rv, gen_enforce ptab c rv = cenforce ptab c (CKPlain rv).
  Proof. intros c rv. exact (gen_cenforce_ok c (CKPlain rv)). Qed.
  Corollary gen_enforce_with_context_ok : forall c x rv,
    gen_enforce_with_context ptab c x rv = cenforce ptab c (CKCtx4 (x_r x) (x_p x) (x_e x) (x_m x) rv).
  Proof. intros c [r p e m] rv. exact (gen_cenforce_ok c (CKCtx4 r p e m rv)). Qed.
End CachedEnforceGen.
Print Assumptions gen_cenforce_ok.
Print Assumptions gen_enforce_mut_ok.

Lemma gen_ctx_key_includes_context_ok : gen_ctx_key_includes_context = true.
Proof. reflexivity. Qed.

(* ------------------------------------------------------------------ *)
(* Part 3 (c): the ClearCache event                                     *)
Lemma gen_clear_cache_registered_ok : gen_clear_cache_registered = true.
Proof. reflexivity. Qed.
Lemma gen_clear_cache_clears_ok : gen_clear_cache_clears = true.
Proof. reflexivity. Qed.

(* ------------------------------------------------------------------ *)
(* Examples: the translated functions on a concrete enforcer            *)
Definition pg_w : estate := mk acl_def (mem [pl alice data1 read; pl bob data2 write]).
Definition pg_k1 : ckey := CKPlain (req alice data1 read).
Definition pg_k2 : ckey := CKPlain (req alice data1 write).
(* two requests through the translated path: both decisions are stored *)
Definition pg_c : cstate := fst (gen_cenforce no_ptab (fst (gen_cenforce no_ptab (cinit pg_w) pg_k1)) pg_k2).

Example pg_requests_fill_the_cache :
  c_cache pg_c = [(pg_k2, false); (pg_k1, true)] /\
  gen_cenforce no_ptab pg_c pg_k1 = (pg_c, Ok true).
Proof. split; vm_compute; reflexivity. Qed.
(* an error is not stored: four request values against three tokens *)
Example pg_error_not_cached :
  let k := CKPlain [VStr alice; VStr data1; VStr read; VStr read] in
  gen_cenforce no_ptab pg_c k = (pg_c, Err ERequest).
Proof. vm_compute. reflexivity. Qed.
(* the plain and the context-qualified request with equal values use different slots *)
Example pg_context_slot :
  let k := CKCtx4 s_r s_p s_e s_m (req alice data1 read) in
  c_cache (fst (gen_cenforce no_ptab pg_c k)) = [(k, true); (pg_k2, false); (pg_k1, true)].
Proof. vm_compute. reflexivity. Qed.
(* a set_adapter whose load FAILS has cleared the cache all the same *)
Example pg_failed_set_adapter_clears :
  let r := gen_cstep_set_adapter pg_c (AScripted (mem []) [RFail]) in
  snd r = Err EAdapter /\ c_cache (fst r) = [] /\
  r = cstep pg_c (OSetAdapter (AScripted (mem []) [RFail])).
Proof. vm_compute. repeat split; reflexivity. Qed.
Example pg_enable_enforce_clears_save_does_not :
  c_cache (fst (gen_cstep_enable_enforce pg_c false)) = [] /\
  e_enabled (c_inner (fst (gen_cstep_enable_enforce pg_c false))) = false /\
  c_cache (fst (gen_cstep_save_policy pg_c)) = c_cache pg_c /\
  snd (gen_cstep_save_policy pg_c) = Ok true.
Proof. vm_compute. repeat split; reflexivity. Qed.

(* ------------------------------------------------------------------ *)
(* Part 4: a remark on EnforceContext::get_cache_key (src/enforcer.rs)  *)

(* Model/Cached.v files a context-qualified request under the four section
   names themselves (CKCtx4), and Gen/CachedRt.v follows it (HCtx carries the
   context).  What the source feeds the hasher is the STRING built by
   get_cache_key, translated as gen_ctx_cache_key: the four names joined by '-'.
   That string determines the context when the first three names contain no
   '-' (always the case for EnforceContext::new(suffix) over definitions read
   from a model text, whose keys are r, r2, .. / p, p2, ..), but NOT in general:
   two hand-assembled contexts whose names contain '-' can share it (names with
   '-' can only come from Model::add_def called with such a key). *)
Definition dash : ascii := "-"%char.

Lemma split_at_sep : forall (c : ascii) (a a' b b' : text),
  ~ In c a -> ~ In c a' -> a ++ c :: b = a' ++ c :: b' -> a = a' /\ b = b'.
Proof.
  intros c a. induction a as [|x a IH]; intros a' b b' Ha Ha' H; destruct a' as [|y a'].
  - cbn [app] in H. inversion H. split; reflexivity.
  - cbn [app] in H. inversion H; subst. exfalso. apply Ha'. left. reflexivity.
  - cbn [app] in H. inversion H; subst. exfalso. apply Ha. left. reflexivity.
  - cbn [app] in H. inversion H; subst.
    destruct (IH a' b b') as [E1 E2]; auto.
    + intros Hi. apply Ha. right. exact Hi.
    + intros Hi. apply Ha'. right. exact Hi.
    + subst. split; reflexivity.
Qed.

Definition gen_ctx_cache_key_injective : Prop :=
  forall x y, gen_ctx_cache_key x = gen_ctx_cache_key y -> x = y.

(* what holds: MISSING for the full statement - names containing '-' *)
Theorem gen_ctx_cache_key_injective_partial : forall x y,
  ~ In dash (x_r x) -> ~ In dash (x_p x) -> ~ In dash (x_e x) ->
  ~ In dash (x_r y) -> ~ In dash (x_p y) -> ~ In dash (x_e y) ->
  gen_ctx_cache_key x = gen_ctx_cache_key y -> x = y.
Proof.
  intros [r p e m] [r' p' e' m'] Hr Hp He Hr' Hp' He' H.
  cbn [x_r x_p x_e x_m] in *. unfold gen_ctx_cache_key in H. cbn [x_r x_p x_e x_m] in H.
  apply app_inv_head in H.
  change (T "-") with [dash] in H. cbn [app] in H.
  apply split_at_sep in H; [|assumption|assumption]. destruct H as [E1 H]. subst r'.
  apply split_at_sep in H; [|assumption|assumption]. destruct H as [E2 H]. subst p'.
  apply split_at_sep in H; [|assumption|assumption]. destruct H as [E3 H]. subst e'.
  apply app_inv_tail in H. subst m'. reflexivity.
Qed.
Print Assumptions gen_ctx_cache_key_injective_partial.

Lemma gen_ctx_cache_key_injective_refuted :
  exists x y, gen_ctx_cache_key x = gen_ctx_cache_key y /\ x <> y.
Proof.
  exists {| x_r := T "r-a"; x_p := T "p"; x_e := T "e"; x_m := T "m" |},
         {| x_r := T "r"; x_p := T "a-p"; x_e := T "e"; x_m := T "m" |}.
  split; [vm_compute; reflexivity | intros H; inversion H].
Qed.

(* the hypotheses of the partial statement on a concrete context pair *)
Example pg_ctx_key_example :
  let x := {| x_r := T "r2"; x_p := T "p2"; x_e := T "e2"; x_m := T "m2" |} in
  gen_ctx_cache_key x = T "EnforceContext{r2-p2-e2-m2}" /\
  ~ In dash (x_r x) /\ ~ In dash (x_p x) /\ ~ In dash (x_e x).
Proof.
  cbn zeta. split; [vm_compute; reflexivity|].
  repeat split; intros H; vm_compute in H; repeat (destruct H as [H|H]; [discriminate H|]); exact H.
Qed.
