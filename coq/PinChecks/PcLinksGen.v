(* Obligations tying the TRANSLATED role-link building of src/model/assertion.rs
   and the translated store mutators / link builders of
   src/model/default_model.rs (Gen/LinksGen.v, regenerated on every run by
   tools/rs2coq_links.py, rs2coq part 8) to the hand-written model
   (Model/Engine.v).  For ALL inputs (unbounded rule lists, rules, models):

   Assertion::build_role_links                = ast_links_spec h true (stored rules)
        i.e. count_us < 2 -> model error, else link_rules cnt true m (a_policy a);
        self.rm := h only on success; on an error the links made so far stay
   Assertion::build_incremental_role_links    = ast_incremental_spec h d
        i.e. the same with link_rules cnt ins m rs, (ins, rs) = event_rules d
   DefaultModel::build_role_links             = build_links_am on the "g" section (h = HCur),
        and Engine.build_role_links s is it on (e_model s, []) (the enforcer clears first)
   DefaultModel::build_incremental_role_links = model_incremental_spec, and the hand-written dispatcher
        of part 4 (InternalPrims.build_incremental_role_links, hence incremental_links) is it on
        (e_model s, f_rm (e_fs s))
   add_policy / add_policies / remove_policy / remove_policies
                                              = m_add_policy .. m_remove_policies on the rule list of the
        addressed assertion (flag and resulting list), `_absent` when a lookup fails
   clear_policy                               = m_clear_policy
   None of them panics (every generated function is `Some ..`).

   Method: as in PcStoreGen.v.  No induction on a generated term; every loop
   is rewritten by a loop-SHAPE lemma (Proofs/RustVecP.v: scan, fold;
   Proofs/RustLinksP.v: errfold, valuesmap, valueserr) from a pointwise
   description of its body that is proved by splitting on every scrutinee
   (`lfinish`), with linear arithmetic on the `_` count and the rule length for
   the link loops (the indexings rule[0..2] cannot panic because
   rule.len() >= count was tested). *)
From CV Require Import Model.Base Model.RoleGraph Model.Expr Model.Enforce Model.Engine.
From CV Require Import Gen.InternalPrims.
From CV Require Import Gen.RustStr Gen.RustVec Gen.LinksPrims Gen.LinksGen.
From CV Require Import Proofs.BaseP Proofs.C04SetP Proofs.RustVecP Proofs.RustLinksP.
From Coq Require Import Lia.

Lemma gen_links_translated_ok : gen_links_translated = true.
Proof. reflexivity. Qed.

(* ------------------------------------------------------------------ *)
(* the tactic                                                          *)

(* rewrites with obligations proved further down (the translated Assertion
   methods, called by the translated DefaultModel methods) *)
Ltac callee_rw := idtac.

Ltac lnorm :=
  cbv beta iota zeta;
  cbv delta [rs_eq rs_index rs_push rs_len rs_rm_add_link rs_rm_delete_link rs_oset_clear
             rs_model_get_mut rs_model_set is_nil rule amap model s_g s_p];
  cbn [negb andb orb fst snd option_map flow_stop rs_fn app fold_left];
  rewrite ?rs_count_char_us, ?rs_is_empty_nil, ?rs_vec_is_empty_nil, ?rs_vec_eq_reqb, ?rs_oset_remove_rremove,
          ?rs_oset_contains_rmem, ?rs_oset_insert_oset, ?rs_ast_set_rm_with, ?rs_ast_set_policy_with,
          ?rs_ast_borrow_get, ?rs_for_nil, ?teqb_nil_r;
  callee_rw.

Ltac bool_hyps :=
  repeat match goal with
         | H : teqb _ _ = true |- _ => apply teqb_eq in H
         | H : teqb _ _ = false |- _ => apply teqb_neq in H
         | H : reqb _ _ = true |- _ => apply reqb_eq in H
         | H : reqb _ _ = false |- _ => apply reqb_neq in H
         | H : negb _ = true |- _ => apply negb_true_iff in H
         | H : negb _ = false |- _ => apply negb_false_iff in H
         | H : andb _ _ = true |- _ => apply andb_true_iff in H; destruct H
         | H : orb _ _ = false |- _ => apply orb_false_iff in H; destruct H
         end.

Ltac nat_hyps :=
  repeat match goal with
         | H : Nat.ltb _ _ = true |- _ => apply Nat.ltb_lt in H
         | H : Nat.ltb _ _ = false |- _ => apply Nat.ltb_ge in H
         | H : Nat.leb _ _ = true |- _ => apply Nat.leb_le in H
         | H : Nat.leb _ _ = false |- _ => apply Nat.leb_gt in H
         | H : Nat.eqb _ _ = true |- _ => apply Nat.eqb_eq in H
         | H : Nat.eqb _ _ = false |- _ => apply Nat.eqb_neq in H
         end.

(* split on every scrutinee, innermost first; never on a loop *)
Ltac lsplit_all :=
  repeat (lnorm;
          match goal with
          | |- context [match ?x with _ => _ end] => is_var x; destruct x
          | |- context [match ?x with _ => _ end] =>
              lazymatch x with
              | context [match _ with _ => _ end] => fail
              | context [rs_for] => fail
              | _ => let E := fresh "E" in destruct x eqn:E
              end
          end).

Ltac lleaf :=
  first [ discriminate
        | reflexivity
        | congruence
        | exfalso; bool_hyps; nat_hyps; cbn [length] in *; first [congruence | lia]
        | bool_hyps; subst; lnorm; first [reflexivity | congruence] ].

Ltac lfinish := lsplit_all; lnorm; lleaf.
(* the same when loops are still to be rewritten: `lt` rewrites the loop that the splits uncover *)
Ltac lfinish_loops lt := repeat (progress (lsplit_all; try lt)); lfinish.

(* the loop shapes; `tac` proves the pointwise description of the body *)
Ltac loop_errfold step ret tac :=
  lnorm;
  match goal with
  | |- context [rs_for ?b ?l ?s] =>
      let H := fresh "Hbody" in
      assert (H : forall x s0, b x s0 = match step s0 x with
                                         | (s', LOk) => LNext s'
                                         | (s', LErr e) => LReturn (ret s' e)
                                         end) by tac;
      rewrite (rs_for_errfold b step ret H); clear H
  end.

Ltac loop_scan chk tac :=
  lnorm;
  match goal with
  | |- context [rs_for ?b ?l ?s] =>
      let H := fresh "Hbody" in
      let T := type of b in
      lazymatch T with
      | _ -> _ -> flow ?S ?R =>
          let stop := open_constr:(_ : flow S R) in
          assert (H : forall x, b x s = match chk x with
                                        | Some true => stop
                                        | Some false => LNext s
                                        | None => LPanic
                                        end) by tac;
          rewrite (rs_for_scan b chk s stop H) by reflexivity; clear H
      end
  end.

Ltac loop_fold f tac :=
  lnorm;
  match goal with
  | |- context [rs_for ?b ?l ?s] =>
      let H := fresh "Hbody" in
      assert (H : forall x s0, b x s0 = LNext (f s0 x)) by tac;
      rewrite (rs_for_fold b f H); clear H
  end.

Ltac loop_valuesmap f tac :=
  lnorm;
  match goal with
  | |- context [rs_for ?b (rs_values_mut ?am) ?am] =>
      let H := fresh "Hbody" in
      assert (H : forall i a am0, b (i, a) am0 = LNext (rs_value_set am0 i (f a))) by tac;
      rewrite (rs_for_valuesmap b f H); clear H; unfold map_values
  end.

Ltac loop_valueserr step ret tac :=
  lnorm;
  match goal with
  | |- context [rs_for ?b (rs_values_mut ?am) (?m, ?am)] =>
      let H := fresh "Hbody" in
      assert (H : forall i a m0 am0, b (i, a) (m0, am0) =
                    match step a m0 with
                    | Some (a', m', LOk) => LNext (m', rs_value_set am0 i a')
                    | Some (a', m', LErr e) => LReturn (ret (rs_value_set am0 i a') m' e)
                    | None => LPanic
                    end) by tac;
      rewrite (rs_for_valueserr b step ret H); clear H
  end.

(* the body of a link loop against the model's link_rule: the first three
   fields of the rule are named, the rest is arithmetic on the `_` count
   (Ec : it is at least 2, from the test before the loop) and the rule length *)
Ltac link_body :=
  let r := fresh "r" in let m0 := fresh "m0" in
  intros r m0; unfold link_rule; lnorm;
  destruct r as [|? [|? [|? r]]]; cbn [length nth nth_error]; lfinish.

(* ------------------------------------------------------------------ *)
(* (A1) Assertion::build_role_links                                    *)

Theorem gen_ast_build_role_links_ok : forall h a m,
  gen_ast_build_role_links h a m = Some (ast_links_spec h true (a_policy a) a m).
Proof.
  intros h a m. unfold gen_ast_build_role_links, ast_links_spec. lnorm.
  destruct (Nat.ltb (count_us (a_value a)) 2) eqn:Ec; [reflexivity|].
  loop_errfold (link_rule (count_us (a_value a)) true) (fun (m0 : rmgr) (e : errc) => (a, m0, LErr e)) ltac:(link_body).
  rewrite <- link_rules_fold_err. lfinish.
Qed.

(* (A2) Assertion::build_incremental_role_links *)
Theorem gen_ast_build_incremental_role_links_ok : forall h d a m,
  gen_ast_build_incremental_role_links h d a m = Some (ast_incremental_spec h d a m).
Proof.
  intros h d a m. unfold gen_ast_build_incremental_role_links, ast_incremental_spec, ast_links_spec. lnorm.
  destruct (Nat.ltb (count_us (a_value a)) 2) eqn:Ec; [reflexivity|].
  destruct d as [sec pt r|sec pt rs|sec pt r|sec pt rs|sec pt rs|rs|]; cbn [event_rules]; lnorm; try reflexivity.
  - loop_errfold (link_rule (count_us (a_value a)) true) (fun (m0 : rmgr) (e : errc) => (a, m0, LErr e)) ltac:(link_body).
    rewrite <- link_rules_fold_err. lfinish.
  - loop_errfold (link_rule (count_us (a_value a)) true) (fun (m0 : rmgr) (e : errc) => (a, m0, LErr e)) ltac:(link_body).
    rewrite <- link_rules_fold_err. lfinish.
  - loop_errfold (link_rule (count_us (a_value a)) false) (fun (m0 : rmgr) (e : errc) => (a, m0, LErr e)) ltac:(link_body).
    rewrite <- link_rules_fold_err. lfinish.
  - loop_errfold (link_rule (count_us (a_value a)) false) (fun (m0 : rmgr) (e : errc) => (a, m0, LErr e)) ltac:(link_body).
    rewrite <- link_rules_fold_err. lfinish.
  - loop_errfold (link_rule (count_us (a_value a)) false) (fun (m0 : rmgr) (e : errc) => (a, m0, LErr e)) ltac:(link_body).
    rewrite <- link_rules_fold_err. lfinish.
Qed.

Ltac callee_rw ::= rewrite ?gen_ast_build_role_links_ok, ?gen_ast_build_incremental_role_links_ok.

(* ------------------------------------------------------------------ *)
(* (A3) DefaultModel::build_role_links                                 *)

Theorem gen_model_build_role_links_ok : forall h md m,
  gen_model_build_role_links h md m = model_links_spec h md m.
Proof.
  intros h md m. unfold gen_model_build_role_links, model_links_spec.
  lfinish_loops ltac:(loop_valueserr (fun (a : assertion) (m0 : rmgr) => Some (ast_links_spec h true (a_policy a) a m0))
                                     (fun (am' : list (text * assertion)) (m' : rmgr) (e : errc) => (assoc_set (T "g") am' md, m', LErr e))
                                     ltac:(intros; lfinish)).
Qed.

(* with the enforcer's handle it is the model's build_links_am on the "g" section *)
Theorem gen_model_build_role_links_model : forall md m,
  gen_model_build_role_links HCur md m =
  Some (match assoc s_g md with
        | None => (md, m, LOk)
        | Some am => match build_links_am am m with (am', m', e) => (assoc_set s_g am' md, m', e) end
        end).
Proof.
  intros md m. rewrite gen_model_build_role_links_ok. unfold model_links_spec.
  destruct (assoc s_g md) as [am|]; [|reflexivity].
  rewrite build_links_am_values_err. destruct (build_links_am am m) as [[am' m'] e]. reflexivity.
Qed.

(* Enforcer::build_role_links of the model = clear the manager, then the translated function *)
Theorem gen_model_build_role_links_enforcer : forall s,
  match gen_model_build_role_links HCur (e_model s) [] with
  | Some (md', m', e) => build_role_links s = (upd_fs (upd_model s md') (set_rm (e_fs s) m'), e)
  | None => False
  end.
Proof.
  intros s. rewrite gen_model_build_role_links_model. unfold build_role_links.
  destruct (assoc s_g (e_model s)) as [am|].
  - destruct (build_links_am am []) as [[am' m'] e]. reflexivity.
  - rewrite upd_model_id. reflexivity.
Qed.

(* (A4) DefaultModel::build_incremental_role_links *)
Theorem gen_model_build_incremental_role_links_ok : forall h d md m,
  gen_model_build_incremental_role_links h d md m = Some (model_incremental_spec h d md m).
Proof.
  intros h d md m. unfold gen_model_build_incremental_role_links, model_incremental_spec.
  destruct d as [sec pt r|sec pt rs|sec pt r|sec pt rs|sec pt rs|rs|]; cbn [event_target]; lfinish.
Qed.

(* the dispatcher that part 4 took as a hand-written primitive (Gen/InternalPrims.v), hence
   incremental_links of the model, is the translated function on the model and the manager of the state *)
Theorem gen_model_build_incremental_role_links_model : forall s d,
  match gen_model_build_incremental_role_links HCur d (e_model s) (f_rm (e_fs s)) with
  | Some (md', m', e) => build_incremental_role_links s d = (upd_fs (upd_model s md') (set_rm (e_fs s) m'), e)
  | None => False
  end.
Proof.
  intros s d. rewrite gen_model_build_incremental_role_links_ok, build_incremental_role_links_spec.
  destruct (model_incremental_spec HCur d (e_model s) (f_rm (e_fs s))) as [[md' m'] e]. reflexivity.
Qed.

(* incremental_links itself: a "g" event for pt with the rules rs *)
Theorem gen_model_incremental_links : forall s pt rs,
  match gen_model_build_incremental_role_links HCur (EvAddMany s_g pt rs) (e_model s) (f_rm (e_fs s)) with
  | Some (md', m', e) => incremental_links s pt true rs = (upd_fs (upd_model s md') (set_rm (e_fs s) m'), e)
  | None => False
  end /\
  match gen_model_build_incremental_role_links HCur (EvRemoveMany s_g pt rs) (e_model s) (f_rm (e_fs s)) with
  | Some (md', m', e) => incremental_links s pt false rs = (upd_fs (upd_model s md') (set_rm (e_fs s) m'), e)
  | None => False
  end.
Proof.
  intros s pt rs. split.
  - pose proof (gen_model_build_incremental_role_links_model s (EvAddMany s_g pt rs)) as H.
    cbn [build_incremental_role_links] in H. rewrite teqb_refl in H. exact H.
  - pose proof (gen_model_build_incremental_role_links_model s (EvRemoveMany s_g pt rs)) as H.
    cbn [build_incremental_role_links] in H. rewrite teqb_refl in H. exact H.
Qed.

(* ------------------------------------------------------------------ *)
(* (B) the store mutators, on the rule list of the addressed assertion  *)

(* add_policy_spec .. remove_policies_spec (Proofs/RustLinksP.v): what m_add_policy .. m_remove_policies do to the
   rule list of the addressed assertion, with the returned flag *)
Theorem gen_add_policy_ok : forall r l, gen_add_policy r l = Some (add_policy_spec r l).
Proof. intros r l. unfold gen_add_policy, add_policy_spec. lfinish. Qed.

Theorem gen_add_policy_absent_ok : forall r, gen_add_policy_absent r = Some false.
Proof. intros r. unfold gen_add_policy_absent. lfinish. Qed.

Theorem gen_add_policies_ok : forall rs l, gen_add_policies rs l = Some (add_policies_spec rs l).
Proof.
  intros rs l. unfold gen_add_policies, add_policies_spec. lnorm.
  destruct rs as [|r0 rs]; [reflexivity|]. cbn [is_nil].
  loop_scan (fun r : rule => Some (rmem r l)) ltac:(intros; lfinish).
  rewrite scan_total.
  loop_fold ins_new ltac:(intros; unfold ins_new; lfinish).
  lfinish.
Qed.

Theorem gen_add_policies_absent_ok : forall rs, gen_add_policies_absent rs = Some false.
Proof. intros rs. unfold gen_add_policies_absent. lfinish. Qed.

Theorem gen_remove_policy_ok : forall r l, gen_remove_policy r l = Some (remove_policy_spec r l).
Proof.
  intros r l. unfold gen_remove_policy, remove_policy_spec. lnorm.
  destruct (rmem r l) eqn:E; [reflexivity|]. rewrite (rmem_false_rremove r l E). reflexivity.
Qed.

Theorem gen_remove_policy_absent_ok : forall r, gen_remove_policy_absent r = Some false.
Proof. intros r. unfold gen_remove_policy_absent. lfinish. Qed.

Theorem gen_remove_policies_ok : forall rs l, gen_remove_policies rs l = Some (remove_policies_spec rs l).
Proof.
  intros rs l. unfold gen_remove_policies, remove_policies_spec. lnorm.
  destruct rs as [|r0 rs]; [reflexivity|]. cbn [is_nil].
  loop_scan (fun r : rule => Some (negb (rmem r l))) ltac:(intros; lfinish).
  rewrite scan_total, (existsb_negb (fun r => rmem r l)).
  loop_fold (fun (l0 : list rule) (r : rule) => rremove r l0) ltac:(intros; lfinish).
  lfinish.
Qed.

Theorem gen_remove_policies_absent_ok : forall rs, gen_remove_policies_absent rs = Some false.
Proof. intros rs. unfold gen_remove_policies_absent. lfinish. Qed.

(* the whole model-level operations, from the translated functions *)
Lemma set_same_policy : forall md sec pt a, get_ast md sec pt = Some a ->
  set_ast md sec pt (with_policy a (a_policy a)) = md.
Proof. intros md sec pt a Ha. rewrite with_policy_id. apply set_ast_id, Ha. Qed.

Theorem gen_add_policy_model : forall md sec pt r,
  Some (m_add_policy md sec pt r) =
  match get_ast md sec pt with
  | Some a => option_map (fun x => (set_ast md sec pt (with_policy a (fst x)), snd x)) (gen_add_policy r (a_policy a))
  | None => option_map (fun b => (md, b)) (gen_add_policy_absent r)
  end.
Proof.
  intros md sec pt r. unfold m_add_policy. rewrite gen_add_policy_absent_ok.
  destruct (get_ast md sec pt) as [a|] eqn:Ha; [|reflexivity].
  rewrite gen_add_policy_ok. unfold add_policy_spec. destruct (rmem r (a_policy a)); cbn [option_map fst snd].
  - rewrite (set_same_policy _ _ _ _ Ha). reflexivity.
  - reflexivity.
Qed.

Theorem gen_add_policies_model : forall md sec pt rs,
  Some (m_add_policies md sec pt rs) =
  match get_ast md sec pt with
  | Some a => option_map (fun x => (set_ast md sec pt (with_policy a (fst x)), snd x)) (gen_add_policies rs (a_policy a))
  | None => option_map (fun b => (md, b)) (gen_add_policies_absent rs)
  end.
Proof.
  intros md sec pt rs. unfold m_add_policies. rewrite gen_add_policies_absent_ok.
  destruct (get_ast md sec pt) as [a|] eqn:Ha; [|destruct rs; reflexivity].
  rewrite gen_add_policies_ok. unfold add_policies_spec. destruct rs as [|r0 rs]; cbn [option_map fst snd].
  - rewrite (set_same_policy _ _ _ _ Ha). reflexivity.
  - destruct (existsb (fun r => rmem r (a_policy a)) (r0 :: rs)); cbn [fst snd]; [|reflexivity].
    rewrite (set_same_policy _ _ _ _ Ha). reflexivity.
Qed.

Theorem gen_remove_policy_model : forall md sec pt r,
  Some (m_remove_policy md sec pt r) =
  match get_ast md sec pt with
  | Some a => option_map (fun x => (set_ast md sec pt (with_policy a (fst x)), snd x)) (gen_remove_policy r (a_policy a))
  | None => option_map (fun b => (md, b)) (gen_remove_policy_absent r)
  end.
Proof.
  intros md sec pt r. unfold m_remove_policy. rewrite gen_remove_policy_absent_ok.
  destruct (get_ast md sec pt) as [a|] eqn:Ha; [|reflexivity].
  rewrite gen_remove_policy_ok. unfold remove_policy_spec. destruct (rmem r (a_policy a)); cbn [option_map fst snd].
  - reflexivity.
  - rewrite (set_same_policy _ _ _ _ Ha). reflexivity.
Qed.

Theorem gen_remove_policies_model : forall md sec pt rs,
  Some (m_remove_policies md sec pt rs) =
  match get_ast md sec pt with
  | Some a => option_map (fun x => (set_ast md sec pt (with_policy a (fst x)), snd x)) (gen_remove_policies rs (a_policy a))
  | None => option_map (fun b => (md, b)) (gen_remove_policies_absent rs)
  end.
Proof.
  intros md sec pt rs. unfold m_remove_policies. rewrite gen_remove_policies_absent_ok.
  destruct (get_ast md sec pt) as [a|] eqn:Ha; [|destruct rs; reflexivity].
  rewrite gen_remove_policies_ok. unfold remove_policies_spec. destruct rs as [|r0 rs]; cbn [option_map fst snd].
  - rewrite (set_same_policy _ _ _ _ Ha). reflexivity.
  - destruct (forallb (fun r => rmem r (a_policy a)) (r0 :: rs)); cbn [fst snd]; [reflexivity|].
    rewrite (set_same_policy _ _ _ _ Ha). reflexivity.
Qed.

(* clear_policy: the rule lists of every p and every g definition, nothing else *)
Theorem gen_clear_policy_ok : forall md, gen_clear_policy md = Some (m_clear_policy md).
Proof.
  intros md. unfold gen_clear_policy, m_clear_policy, clear_sec.
  lfinish_loops ltac:(loop_valuesmap (fun a : assertion => with_policy a []) ltac:(intros; lfinish)).
Qed.

(* ------------------------------------------------------------------ *)
(* what is kept on an error, spelled out on the translated functions    *)

(* an error of the link loop leaves the assertion as it was (self.rm is not
   redirected) and the manager as the failing rule left it; success redirects self.rm *)
Theorem gen_ast_links_error_keeps : forall h a m,
  Nat.ltb (count_us (a_value a)) 2 = false ->
  gen_ast_build_role_links h a m =
  Some (match link_rules (count_us (a_value a)) true m (a_policy a) with
        | (m', LOk) => (with_handle a h, m', LOk)
        | (m', LErr e) => (a, m', LErr e)
        end).
Proof. intros h a m H. rewrite gen_ast_build_role_links_ok. unfold ast_links_spec. rewrite H. reflexivity. Qed.

Theorem gen_ast_incremental_dispatch : forall h d a m,
  Nat.ltb (count_us (a_value a)) 2 = false ->
  gen_ast_build_incremental_role_links h d a m =
  Some (match d with
        | EvAdd _ _ r => ast_links_spec h true [r] a m
        | EvAddMany _ _ rs => ast_links_spec h true rs a m
        | EvRemove _ _ r => ast_links_spec h false [r] a m
        | EvRemoveMany _ _ rs => ast_links_spec h false rs a m
        | EvRemoveFiltered _ _ rs => ast_links_spec h false rs a m
        | EvSave _ | EvClear => (a, m, LOk)
        end).
Proof.
  intros h d a m H. rewrite gen_ast_build_incremental_role_links_ok. unfold ast_incremental_spec. rewrite H.
  destruct d; reflexivity.
Qed.

(* the manager and the outcome of the translated loops ARE link_rules (two or more `_`) *)
Theorem gen_ast_links_link_rules : forall h a m,
  Nat.ltb (count_us (a_value a)) 2 = false ->
  option_map (fun x => (snd (fst x), snd x)) (gen_ast_build_role_links h a m) =
  Some (link_rules (count_us (a_value a)) true m (a_policy a)).
Proof.
  intros h a m H. rewrite (gen_ast_links_error_keeps h a m H).
  destruct (link_rules (count_us (a_value a)) true m (a_policy a)) as [m' [|e]]; reflexivity.
Qed.

Theorem gen_ast_incremental_link_rules : forall h d a m ins rs,
  Nat.ltb (count_us (a_value a)) 2 = false -> event_rules d = Some (ins, rs) ->
  option_map (fun x => (snd (fst x), snd x)) (gen_ast_build_incremental_role_links h d a m) =
  Some (link_rules (count_us (a_value a)) ins m rs).
Proof.
  intros h d a m ins rs H Hd. rewrite gen_ast_build_incremental_role_links_ok.
  unfold ast_incremental_spec, ast_links_spec. rewrite H, Hd.
  destruct (link_rules (count_us (a_value a)) ins m rs) as [m' [|e]]; reflexivity.
Qed.

(* the per-assertion part of build_links_am is the translated Assertion::build_role_links *)
Theorem gen_ast_build_links_am_step : forall k a am m,
  match gen_ast_build_role_links HCur a m with
  | Some (a', m', LOk) =>
      build_links_am ((k, a) :: am) m = match build_links_am am m' with (am'', m'', e) => ((k, a') :: am'', m'', e) end
  | Some (a', m', LErr e) => build_links_am ((k, a) :: am) m = ((k, a') :: am, m', LErr e) /\ a' = a
  | None => False
  end.
Proof.
  intros k a am m. rewrite gen_ast_build_role_links_ok. unfold ast_links_spec. cbn [build_links_am].
  destruct (Nat.ltb (count_us (a_value a)) 2); [split; reflexivity|].
  destruct (link_rules (count_us (a_value a)) true m (a_policy a)) as [m' [|e]]; [reflexivity|split; reflexivity].
Qed.

(* ------------------------------------------------------------------ *)
(* the statements are not vacuous: every branch of the translated code is taken *)
Definition ex_g (v : string) (p : list rule) : assertion :=
  {| a_value := T v; a_tokens := []; a_policy := p; a_handle := HOwn |}.
Definition ex_rm : rmgr := snd (fst (ast_links_spec HCur true [[T "alice"; T "admin"]; [T "bob"; T "admin"]] (ex_g "_, _" []) [])).

Example gen_ast_build_role_links_ex :
  (* two rules linked, self.rm redirected *)
  gen_ast_build_role_links HCur (ex_g "_, _" [[T "alice"; T "admin"]; [T "bob"; T "admin"]]) [] =
    Some (with_handle (ex_g "_, _" [[T "alice"; T "admin"]; [T "bob"; T "admin"]]) HCur,
          [(T "DEFAULT", {| nodes := [T "alice"; T "admin"; T "bob"]; edges := [(T "bob", T "admin"); (T "alice", T "admin")] |})], LOk) /\
  (* a short rule: policy error, the first link stays, self.rm is not redirected *)
  gen_ast_build_role_links HCur (ex_g "_, _" [[T "alice"; T "admin"]; [T "bob"]]) [] =
    Some (ex_g "_, _" [[T "alice"; T "admin"]; [T "bob"]],
          [(T "DEFAULT", {| nodes := [T "alice"; T "admin"]; edges := [(T "alice", T "admin")] |})], LErr EPolicy) /\
  (* one `_`: model error before anything else *)
  gen_ast_build_role_links HCur (ex_g "_" [[T "alice"; T "admin"]]) [] = Some (ex_g "_" [[T "alice"; T "admin"]], [], LErr EModel) /\
  (* three `_`: the third field is the domain *)
  gen_ast_build_role_links HCur (ex_g "_, _, _" [[T "alice"; T "admin"; T "dom1"]]) [] =
    Some (with_handle (ex_g "_, _, _" [[T "alice"; T "admin"; T "dom1"]]) HCur,
          [(T "dom1", {| nodes := [T "alice"; T "admin"]; edges := [(T "alice", T "admin")] |})], LOk) /\
  (* four `_`: model error at the first rule, but NOT when there is no rule *)
  gen_ast_build_role_links HCur (ex_g "_, _, _, _" [[T "a"; T "b"; T "c"; T "d"]]) [] =
    Some (ex_g "_, _, _, _" [[T "a"; T "b"; T "c"; T "d"]], [], LErr EModel) /\
  gen_ast_build_role_links HCur (ex_g "_, _, _, _" []) [] = Some (with_handle (ex_g "_, _, _, _" []) HCur, [], LOk).
Proof. vm_compute. repeat split. Qed.

Example gen_ast_build_incremental_role_links_ex :
  (* deletion of two links, the second names an unknown role: rbac error, the first deletion stays *)
  gen_ast_build_incremental_role_links HCur (EvRemoveMany (T "g") (T "g") [[T "alice"; T "admin"]; [T "zed"; T "admin"]])
      (ex_g "_, _" []) ex_rm =
    Some (ex_g "_, _" [], [(T "DEFAULT", {| nodes := [T "alice"; T "admin"; T "bob"]; edges := [(T "bob", T "admin")] |})], LErr ERbac) /\
  (* a single rule inserts *)
  gen_ast_build_incremental_role_links HCur (EvAdd (T "g") (T "g") [T "carol"; T "admin"]) (ex_g "_, _" []) [] =
    Some (with_handle (ex_g "_, _" []) HCur,
          [(T "DEFAULT", {| nodes := [T "carol"; T "admin"]; edges := [(T "carol", T "admin")] |})], LOk) /\
  (* the rules come from the event, not from the stored list; RemoveFilteredPolicy deletes *)
  gen_ast_build_incremental_role_links HCur (EvRemoveFiltered (T "g") (T "g") [[T "bob"; T "admin"]])
      (ex_g "_, _" [[T "alice"; T "admin"]]) ex_rm =
    Some (with_handle (ex_g "_, _" [[T "alice"; T "admin"]]) HCur,
          [(T "DEFAULT", {| nodes := [T "alice"; T "admin"; T "bob"]; edges := [(T "alice", T "admin")] |})], LOk) /\
  (* other events: nothing, self.rm is not redirected *)
  gen_ast_build_incremental_role_links HCur EvClear (ex_g "_, _" []) ex_rm = Some (ex_g "_, _" [], ex_rm, LOk).
Proof. vm_compute. repeat split. Qed.

Definition ex_md : model :=
  [(T "p", [(T "p", ex_g "sub, obj, act" [[T "alice"; T "data1"; T "read"]])]);
   (T "g", [(T "g", ex_g "_, _" [[T "alice"; T "admin"]]); (T "g2", ex_g "_" [[T "x"; T "y"]]);
            (T "g3", ex_g "_, _" [[T "bob"; T "admin"]])])].

Example gen_model_build_role_links_ex :
  (* g is linked and redirected, g2 fails (one `_`): g3 is not reached *)
  gen_model_build_role_links HCur ex_md [] =
    Some ([(T "p", [(T "p", ex_g "sub, obj, act" [[T "alice"; T "data1"; T "read"]])]);
           (T "g", [(T "g", with_handle (ex_g "_, _" [[T "alice"; T "admin"]]) HCur); (T "g2", ex_g "_" [[T "x"; T "y"]]);
                    (T "g3", ex_g "_, _" [[T "bob"; T "admin"]])])],
          [(T "DEFAULT", {| nodes := [T "alice"; T "admin"]; edges := [(T "alice", T "admin")] |})], LErr EModel) /\
  gen_model_build_role_links HCur [(T "p", [])] [] = Some ([(T "p", [])], [], LOk).
Proof. vm_compute. repeat split. Qed.

Example gen_model_build_incremental_role_links_ex :
  (* a g event for a known definition *)
  gen_model_build_incremental_role_links HCur (EvAdd (T "g") (T "g3") [T "carol"; T "admin"]) ex_md [] =
    Some ([(T "p", [(T "p", ex_g "sub, obj, act" [[T "alice"; T "data1"; T "read"]])]);
           (T "g", [(T "g", ex_g "_, _" [[T "alice"; T "admin"]]); (T "g2", ex_g "_" [[T "x"; T "y"]]);
                    (T "g3", with_handle (ex_g "_, _" [[T "bob"; T "admin"]]) HCur)])],
          [(T "DEFAULT", {| nodes := [T "carol"; T "admin"]; edges := [(T "carol", T "admin")] |})], LOk) /\
  (* a p event, an unknown definition: nothing *)
  gen_model_build_incremental_role_links HCur (EvAdd (T "p") (T "p") [T "carol"; T "admin"]) ex_md [] = Some (ex_md, [], LOk) /\
  gen_model_build_incremental_role_links HCur (EvAdd (T "g") (T "g9") [T "carol"; T "admin"]) ex_md [] = Some (ex_md, [], LOk) /\
  (* the definition with one `_` *)
  gen_model_build_incremental_role_links HCur (EvRemove (T "g") (T "g2") [T "x"; T "y"]) ex_md [] = Some (ex_md, [], LErr EModel).
Proof. vm_compute. repeat split. Qed.

Definition ex_policy : list rule := [[T "alice"; T "data1"; T "read"]; [T "bob"; T "data2"; T "write"]].

Example gen_store_mutators_ex :
  gen_add_policy [T "carol"] ex_policy = Some (ex_policy ++ [[T "carol"]], true) /\
  (* re-adding a stored rule does not move it to the back *)
  gen_add_policy [T "alice"; T "data1"; T "read"] ex_policy = Some (ex_policy, false) /\
  (* a rule repeated inside the batch is stored once, the call succeeds *)
  gen_add_policies [[T "carol"]; [T "dave"]; [T "carol"]] ex_policy = Some (ex_policy ++ [[T "carol"]; [T "dave"]], true) /\
  (* all-or-nothing *)
  gen_add_policies [[T "carol"]; [T "bob"; T "data2"; T "write"]] ex_policy = Some (ex_policy, false) /\
  gen_add_policies [] ex_policy = Some (ex_policy, false) /\
  gen_remove_policy [T "alice"; T "data1"; T "read"] ex_policy = Some ([[T "bob"; T "data2"; T "write"]], true) /\
  gen_remove_policy [T "zed"] ex_policy = Some (ex_policy, false) /\
  gen_remove_policies [[T "bob"; T "data2"; T "write"]; [T "alice"; T "data1"; T "read"]] ex_policy = Some ([], true) /\
  gen_remove_policies [[T "bob"; T "data2"; T "write"]; [T "zed"]] ex_policy = Some (ex_policy, false) /\
  gen_remove_policies [] ex_policy = Some (ex_policy, false) /\
  gen_clear_policy ex_md =
    Some [(T "p", [(T "p", ex_g "sub, obj, act" [])]);
          (T "g", [(T "g", ex_g "_, _" []); (T "g2", ex_g "_" []); (T "g3", ex_g "_, _" [])])].
Proof. vm_compute. repeat split. Qed.

Example rs_links_ops_ex :
  rs_count_char "_"%char (T "_, _, _") = 3 /\
  rs_oset_insert [[T "a"]; [T "b"]; [T "c"]] [T "a"] = [[T "b"]; [T "c"]; [T "a"]] /\
  rs_oset_contains [[T "a"]; [T "b"]] [T "b"] = true /\
  rs_values_mut [(T "g", 10); (T "g2", 20)] = [(0, 10); (1, 20)] /\
  rs_value_set [(T "g", 10); (T "g2", 20)] 1 7 = [(T "g", 10); (T "g2", 7)] /\
  rs_rm_delete_link [] (T "a") (T "b") None = ([], LErr ERbac).
Proof. vm_compute. repeat split. Qed.

Print Assumptions gen_links_translated_ok.
Print Assumptions gen_ast_build_role_links_ok.
Print Assumptions gen_ast_build_incremental_role_links_ok.
Print Assumptions gen_ast_links_error_keeps.
Print Assumptions gen_ast_incremental_dispatch.
Print Assumptions gen_ast_links_link_rules.
Print Assumptions gen_ast_incremental_link_rules.
Print Assumptions gen_ast_build_links_am_step.
Print Assumptions gen_model_build_role_links_ok.
Print Assumptions gen_model_build_role_links_model.
Print Assumptions gen_model_build_role_links_enforcer.
Print Assumptions gen_model_build_incremental_role_links_ok.
Print Assumptions gen_model_build_incremental_role_links_model.
Print Assumptions gen_model_incremental_links.
Print Assumptions gen_add_policy_ok.
Print Assumptions gen_add_policy_model.
Print Assumptions gen_add_policies_ok.
Print Assumptions gen_add_policies_model.
Print Assumptions gen_remove_policy_ok.
Print Assumptions gen_remove_policy_model.
Print Assumptions gen_remove_policies_ok.
Print Assumptions gen_remove_policies_model.
Print Assumptions gen_clear_policy_ok.
