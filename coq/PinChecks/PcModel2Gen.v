(* Obligations tying the units TRANSLATED by tools/rs2coq_model2.py (rs2coq part 18: Gen/Model2Gen.v, regenerated on
   every run from /repo/src/model/default_model.rs, src/macros.rs, src/convert.rs, src/cache/default_cache.rs and
   src/error.rs) to the hand-written model.

   (A) the nine policy-store methods of `impl Model for DefaultModel`, as WHOLE functions on the model map: for ALL maps
       and arguments each one equals the model's m_* function of Model/Engine.v - the new map AND the returned value;
       None (the panic of an index out of range inside the filter / the column loops) on exactly the inputs on which the
       model is None; a missing section or policy type gives what the source returns (get_policy: the empty vector).
       The loops are parts 3 / 8 (PcStoreGen.v, PcLinksGen.v); what is proved HERE is the part those left to a
       hand-written `match get_ast md sec pt`: which map is looked up with which key, in which order, what
       `self.get_policy(a, b)` is called with, and that the `&mut` borrow is written back where it was taken.
   (B) get_or_err! / get_or_err_with_context!: the model's get_ast and the error class EModel; every macro of macros.rs is
       accounted for (register_g_function!: part 15, PcEnforcer2Gen.v; push_index_if_explain!: empty, feature explain off).
   (C) convert.rs: an already built model / adapter is passed through unchanged; None is the default model / the null
       adapter; a tuple of n <= 20 values becomes its n values, IN ORDER, each through to_dynamic, the first failure being
       the error; a longer tuple has no impl; the cache key feeds the same values in the same order.
   (D) DefaultCache over mini-moka (Gen/MokaRt.v: may forget anything at any call): get answers from a sub-cache of what
       was stored, set is the model's cons up to forgetting, clear leaves nothing; the cached enforcer of Model/Cached.v
       run on THIS cache - for every eviction schedule - returns the decisions of the uncached enforcer.
   (E) error.rs: every variant of crate::Error has the class the model gives it; `#[from]` lands in the right variant.

   A rewrite of the Rust source that keeps its meaning and stays in the translated subset keeps these proofs; a change of
   meaning leaves an unprovable goal and the file no longer compiles. *)
From CV Require Import Model.Base Model.Expr Model.Enforce Model.Engine Model.Cached Model.SpecC11.
From CV Require Import Gen.RustStr Gen.RustVec Gen.RustIter Gen.Petgraph Gen.IniRt Gen.LinksPrims Gen.StoreGen Gen.LinksGen.
From CV Require Import Gen.Model2Rt Gen.MokaRt Gen.Model2Gen Gen.Enforcer2Gen.
From CV Require Import Proofs.BaseP Proofs.RustVecP Proofs.RustLinksP Proofs.C11P Proofs.Model2P.
From CV Require Import PinChecks.PcStoreGen PinChecks.PcLinksGen.
From Coq Require Import Lia.

Lemma gen_model2_translated_ok : gen_model2_translated = true.
Proof. reflexivity. Qed.

(* the lookups in the model's vocabulary; rewritten in every obligation of (A) and (B) *)
Ltac lookups :=
  rewrite ?rs_smap_get_assoc, ?rs_smap_get_mut_assoc, ?rs_amap_get_assoc, ?rs_amap_get_mut_assoc.

(* ------------------------------------------------------------------ *)
(* (A) the policy store                                                *)

(* get_model / get_mut_model: references to self.model *)
Theorem gen_dm_get_model_ok : forall md, gen_dm_get_model md = md /\ gen_dm_get_mut_model md = md.
Proof. intros md. split; reflexivity. Qed.

(* get_policy: translated completely.  The rule list of the addressed assertion; of a missing section or a missing policy
   type: the empty vector (the trailing `vec![]` of the source); never a panic *)
(* whatever shape the lookups of the source have (nested `if let`, `match`, and_then / map / unwrap_or chains): the
   Option plumbing is unfolded and every lookup is split on *)
Ltac store_norm :=
  unfold rs_and_then, rs_opt_map, rs_unwrap_or, rs_is_some, rs_fn; cbv beta iota zeta; lookups.
Ltac store_split :=
  repeat (store_norm;
          match goal with
          | |- context [match @assoc ?A ?k ?m with _ => _ end] => let E := fresh "E" in destruct (@assoc A k m) eqn:E
          end);
  store_norm.

Theorem gen_m_get_policy_ok : forall md sec pt, gen_m_get_policy md sec pt = Some (m_get_policy md sec pt).
Proof.
  intros md sec pt. unfold gen_m_get_policy, m_get_policy, get_ast. store_split; first [reflexivity|congruence].
Qed.

Theorem gen_m_get_policy_missing : forall md sec pt, get_ast md sec pt = None -> gen_m_get_policy md sec pt = Some [].
Proof. intros md sec pt H. rewrite gen_m_get_policy_ok. unfold m_get_policy. rewrite H. reflexivity. Qed.

(* has_policy / get_values_for_field_in_policy: built on self.get_policy(sec, ptype) *)
Theorem gen_m_has_policy_ok : forall md sec pt r, gen_m_has_policy md sec pt r = Some (m_has_policy md sec pt r).
Proof.
  intros md sec pt r. unfold gen_m_has_policy, m_has_policy. rewrite gen_m_get_policy_ok. apply gen_has_policy_ok.
Qed.

Theorem gen_m_get_values_for_field_in_policy_ok : forall md sec pt idx,
  gen_m_get_values_for_field_in_policy md sec pt idx = m_values md sec pt idx.
Proof.
  intros md sec pt idx. unfold gen_m_get_values_for_field_in_policy, m_values. rewrite gen_m_get_policy_ok.
  apply gen_values_for_field_ok.
Qed.

(* get_filtered_policy: the lookups, then the loop of part 3 *)
Theorem gen_m_get_filtered_policy_ok : forall md sec pt idx vals,
  gen_m_get_filtered_policy md sec pt idx vals = m_get_filtered md sec pt idx vals.
Proof.
  intros md sec pt idx vals. rewrite gen_get_filtered_model. unfold gen_m_get_filtered_policy, get_ast.
  store_split; first [reflexivity|congruence].
Qed.

(* the four mutators and remove_filtered_policy: the `&mut` lookups, the vector function of parts 3 / 8 on the rule list
   of the borrowed assertion, the write-back into the section and of the section into the map *)
Tactic Notation "mutator" hyp(Hmodel) ident(am) ident(a) ident(Hs) ident(Hp) :=
  unfold get_ast in Hmodel |- *; lookups;
  match goal with
  | |- context [assoc ?sec ?md] =>
      destruct (assoc sec md) as [am|] eqn:Hs; [|symmetry; exact Hmodel]
  end;
  lookups;
  match goal with
  | |- context [@assoc assertion ?pt ?m] =>
      destruct (@assoc assertion pt m) as [a|] eqn:Hp; [|symmetry; exact Hmodel]
  end.

Theorem gen_m_add_policy_ok : forall md sec pt r, gen_m_add_policy md sec pt r = Some (m_add_policy md sec pt r).
Proof.
  intros md sec pt r. pose proof (gen_add_policy_model md sec pt r) as Hm. unfold gen_m_add_policy.
  mutator Hm am a Hs Hp. rewrite Hm. destruct (gen_add_policy r (a_policy a)) as [[p b]|]; [|reflexivity].
  cbn [option_map fst snd]. rewrite rs_ast_set_policy_with, (write_back_set_ast md sec pt am a _ Hs Hp). reflexivity.
Qed.

Theorem gen_m_add_policies_ok : forall md sec pt rs, gen_m_add_policies md sec pt rs = Some (m_add_policies md sec pt rs).
Proof.
  intros md sec pt rs. pose proof (gen_add_policies_model md sec pt rs) as Hm. unfold gen_m_add_policies.
  mutator Hm am a Hs Hp. rewrite Hm. destruct (gen_add_policies rs (a_policy a)) as [[p b]|]; [|reflexivity].
  cbn [option_map fst snd]. rewrite rs_ast_set_policy_with, (write_back_set_ast md sec pt am a _ Hs Hp). reflexivity.
Qed.

Theorem gen_m_remove_policy_ok : forall md sec pt r, gen_m_remove_policy md sec pt r = Some (m_remove_policy md sec pt r).
Proof.
  intros md sec pt r. pose proof (gen_remove_policy_model md sec pt r) as Hm. unfold gen_m_remove_policy.
  mutator Hm am a Hs Hp. rewrite Hm. destruct (gen_remove_policy r (a_policy a)) as [[p b]|]; [|reflexivity].
  cbn [option_map fst snd]. rewrite rs_ast_set_policy_with, (write_back_set_ast md sec pt am a _ Hs Hp). reflexivity.
Qed.

Theorem gen_m_remove_policies_ok : forall md sec pt rs,
  gen_m_remove_policies md sec pt rs = Some (m_remove_policies md sec pt rs).
Proof.
  intros md sec pt rs. pose proof (gen_remove_policies_model md sec pt rs) as Hm. unfold gen_m_remove_policies.
  mutator Hm am a Hs Hp. rewrite Hm. destruct (gen_remove_policies rs (a_policy a)) as [[p b]|]; [|reflexivity].
  cbn [option_map fst snd]. rewrite rs_ast_set_policy_with, (write_back_set_ast md sec pt am a _ Hs Hp). reflexivity.
Qed.

(* the source returns (bool, Vec<..>) next to the new map; the model the triple (map, flag, removed rules) *)
Definition rf_shape (x : model * bool * list rule) : model * (bool * list rule) := (fst (fst x), (snd (fst x), snd x)).

Theorem gen_m_remove_filtered_policy_ok : forall md sec pt idx vals,
  gen_m_remove_filtered_policy md sec pt idx vals = option_map rf_shape (m_remove_filtered md sec pt idx vals).
Proof.
  intros md sec pt idx vals. rewrite gen_remove_filtered_model. unfold gen_m_remove_filtered_policy, get_ast. lookups.
  destruct (assoc sec md) as [am|] eqn:Hs.
  - lookups. destruct (assoc pt am) as [a|] eqn:Hp.
    + destruct (gen_remove_filtered idx vals (a_policy a)) as [[p [flag rem]]|]; [|reflexivity].
      rewrite rs_ast_set_policy_with, (write_back_set_ast md sec pt am a _ Hs Hp). reflexivity.
    + destruct (gen_remove_filtered_absent idx vals) as [[flag rem]|]; reflexivity.
  - destruct (gen_remove_filtered_absent idx vals) as [[flag rem]|]; reflexivity.
Qed.

(* what the source returns when the section or the policy type is missing: nothing is stored, created or removed *)
Theorem gen_m_missing_assertion : forall md sec pt, get_ast md sec pt = None ->
  (forall r, gen_m_add_policy md sec pt r = Some (md, false)) /\
  (forall rs, gen_m_add_policies md sec pt rs = Some (md, false)) /\
  (forall r, gen_m_remove_policy md sec pt r = Some (md, false)) /\
  (forall rs, gen_m_remove_policies md sec pt rs = Some (md, false)) /\
  (forall idx vals, gen_m_remove_filtered_policy md sec pt idx vals = Some (md, (false, []))) /\
  gen_m_get_policy md sec pt = Some [] /\
  (forall idx vals, gen_m_get_filtered_policy md sec pt idx vals = Some []) /\
  (forall r, gen_m_has_policy md sec pt r = Some false) /\
  (forall idx, gen_m_get_values_for_field_in_policy md sec pt idx = Some []).
Proof.
  intros md sec pt H. repeat split; intros.
  - rewrite gen_m_add_policy_ok. unfold m_add_policy. rewrite H. reflexivity.
  - rewrite gen_m_add_policies_ok. unfold m_add_policies. rewrite H. destruct rs; reflexivity.
  - rewrite gen_m_remove_policy_ok. unfold m_remove_policy. rewrite H. reflexivity.
  - rewrite gen_m_remove_policies_ok. unfold m_remove_policies. rewrite H. destruct rs; reflexivity.
  - rewrite gen_m_remove_filtered_policy_ok. unfold m_remove_filtered. rewrite H. destruct vals; reflexivity.
  - apply gen_m_get_policy_missing, H.
  - rewrite gen_m_get_filtered_policy_ok. unfold m_get_filtered, m_get_policy. rewrite H. reflexivity.
  - rewrite gen_m_has_policy_ok. unfold m_has_policy, m_get_policy. rewrite H. reflexivity.
  - rewrite gen_m_get_values_for_field_in_policy_ok. unfold m_values, m_get_policy. rewrite H. reflexivity.
Qed.

(* where the source can panic.  Six of the nine functions never do; the other three only inside the loops of part 3,
   on an existing assertion: an index `rule[field_index + i]` / `x[field_index]` beyond the end of a stored rule *)
Theorem gen_m_never_panics : forall md sec pt,
  gen_m_get_policy md sec pt <> None /\
  (forall r, gen_m_has_policy md sec pt r <> None) /\
  (forall r, gen_m_add_policy md sec pt r <> None) /\
  (forall rs, gen_m_add_policies md sec pt rs <> None) /\
  (forall r, gen_m_remove_policy md sec pt r <> None) /\
  (forall rs, gen_m_remove_policies md sec pt rs <> None).
Proof.
  intros md sec pt. repeat split; intros;
    rewrite ?gen_m_get_policy_ok, ?gen_m_has_policy_ok, ?gen_m_add_policy_ok, ?gen_m_add_policies_ok,
            ?gen_m_remove_policy_ok, ?gen_m_remove_policies_ok; discriminate.
Qed.

Theorem gen_m_get_filtered_policy_panics : forall md sec pt idx vals,
  gen_m_get_filtered_policy md sec pt idx vals = None <->
  exists a l1 r l2, get_ast md sec pt = Some a /\ a_policy a = l1 ++ r :: l2 /\ rule_panics idx vals r /\
                    (forall y, In y l1 -> ~ rule_panics idx vals y).
Proof.
  intros md sec pt idx vals. rewrite gen_m_get_filtered_policy_ok, gen_get_filtered_model.
  destruct (get_ast md sec pt) as [a|].
  - rewrite gen_get_filtered_panics. split.
    + intros (l1 & r & l2 & H1 & H2 & H3). exists a, l1, r, l2. repeat split; assumption.
    + intros (a' & l1 & r & l2 & Ha & H1 & H2 & H3). inversion Ha; subst a'. exists l1, r, l2. repeat split; assumption.
  - rewrite gen_get_filtered_absent_ok. split; [discriminate|]. intros (a' & _ & _ & _ & Ha & _). discriminate Ha.
Qed.

Theorem gen_m_remove_filtered_policy_panics : forall md sec pt idx vals,
  gen_m_remove_filtered_policy md sec pt idx vals = None <->
  vals <> [] /\ gen_m_get_filtered_policy md sec pt idx vals = None.
Proof.
  intros md sec pt idx vals. rewrite gen_m_remove_filtered_policy_ok, gen_m_get_filtered_policy_ok.
  unfold m_remove_filtered, m_get_filtered, m_get_policy.
  destruct vals as [|v vs].
  - cbn [option_map]. split; [discriminate|]. intros [H _]. exfalso. apply H. reflexivity.
  - destruct (get_ast md sec pt) as [a|].
    + destruct (select_filtered idx (v :: vs) (a_policy a)) as [[|r0 rem]|]; cbn [option_map].
      * split; [discriminate|]. intros [_ H]. discriminate H.
      * split; [discriminate|]. intros [_ H]. discriminate H.
      * split; [|reflexivity]. intros _. split; [discriminate|reflexivity].
    + cbn [option_map select_filtered]. split; [discriminate|]. intros [_ H]. discriminate H.
Qed.

Theorem gen_m_get_values_panics : forall md sec pt idx,
  gen_m_get_values_for_field_in_policy md sec pt idx = None <->
  exists a r, get_ast md sec pt = Some a /\ In r (a_policy a) /\ length r <= idx.
Proof.
  intros md sec pt idx. rewrite gen_m_get_values_for_field_in_policy_ok, gen_values_for_field_model.
  destruct (get_ast md sec pt) as [a|].
  - rewrite gen_values_for_field_panics. split.
    + intros (r & H1 & H2). exists a, r. repeat split; assumption.
    + intros (a' & r & Ha & H1 & H2). inversion Ha; subst a'. exists r. split; assumption.
  - rewrite gen_values_for_field_absent_ok. split; [discriminate|]. intros (a' & r & Ha & _). discriminate Ha.
Qed.

(* non-vacuity: a model with two policy types and a role definition; every branch of the lookups is taken *)
Definition ex_ast (v : text) (p : list rule) : assertion :=
  {| a_value := v; a_tokens := []; a_policy := p; a_handle := HOwn |}.
Definition ex_md : model :=
  [(T "p", [(T "p", ex_ast (T "sub, obj, act") [[T "alice"; T "data1"; T "read"]; [T "bob"; T "data2"; T "write"]]);
            (T "p2", ex_ast (T "sub, act") [[T "carol"]])]);
   (T "g", [(T "g", ex_ast (T "_, _") [[T "alice"; T "admin"]])])].

Example gen_m_store_ex :
  (* get_policy: found / missing type / missing section *)
  gen_m_get_policy ex_md (T "p") (T "p2") = Some [[T "carol"]] /\
  gen_m_get_policy ex_md (T "p") (T "p9") = Some [] /\
  gen_m_get_policy ex_md (T "x") (T "p") = Some [] /\
  (* the keys are not interchangeable *)
  gen_m_get_policy ex_md (T "g") (T "g") = Some [[T "alice"; T "admin"]] /\
  gen_m_get_policy ex_md (T "g") (T "p") = Some [] /\
  gen_m_has_policy ex_md (T "p") (T "p") [T "bob"; T "data2"; T "write"] = Some true /\
  gen_m_has_policy ex_md (T "p") (T "p2") [T "bob"; T "data2"; T "write"] = Some false /\
  gen_m_get_filtered_policy ex_md (T "p") (T "p") 1 [T "data2"] = Some [[T "bob"; T "data2"; T "write"]] /\
  gen_m_get_filtered_policy ex_md (T "p") (T "p2") 1 [T "data2"] = None /\
  gen_m_get_values_for_field_in_policy ex_md (T "p") (T "p") 0 = Some [T "alice"; T "bob"] /\
  gen_m_get_values_for_field_in_policy ex_md (T "p") (T "p2") 1 = None.
Proof. vm_compute. repeat split. Qed.

Example gen_m_mutators_ex :
  (* the rule goes to the addressed assertion only, at the back; the other entries keep their place *)
  option_map (fun x => (m_get_policy (fst x) (T "p") (T "p2"), m_get_policy (fst x) (T "p") (T "p"), map fst (fst x), snd x))
             (gen_m_add_policy ex_md (T "p") (T "p2") [T "dave"]) =
    Some ([[T "carol"]; [T "dave"]], [[T "alice"; T "data1"; T "read"]; [T "bob"; T "data2"; T "write"]], [T "p"; T "g"], true) /\
  gen_m_add_policy ex_md (T "p") (T "p2") [T "carol"] = Some (ex_md, false) /\
  (* a missing policy type is NOT created *)
  gen_m_add_policy ex_md (T "p") (T "p3") [T "dave"] = Some (ex_md, false) /\
  gen_m_add_policies ex_md (T "q") (T "p") [[T "dave"]] = Some (ex_md, false) /\
  option_map (fun x => (m_get_policy (fst x) (T "p") (T "p"), snd x)) (gen_m_remove_policy ex_md (T "p") (T "p") [T "alice"; T "data1"; T "read"]) =
    Some ([[T "bob"; T "data2"; T "write"]], true) /\
  option_map (fun x => (m_get_policy (fst x) (T "p") (T "p"), snd x)) (gen_m_remove_filtered_policy ex_md (T "p") (T "p") 2 [T "write"]) =
    Some ([[T "alice"; T "data1"; T "read"]], (true, [[T "bob"; T "data2"; T "write"]])) /\
  gen_m_remove_filtered_policy ex_md (T "p") (T "p3") 2 [T "write"] = Some (ex_md, (false, [])) /\
  gen_m_remove_filtered_policy ex_md (T "p") (T "p2") 1 [T "x"] = None.
Proof. vm_compute. repeat split. Qed.

(* ------------------------------------------------------------------ *)
(* (E) src/error.rs                                                    *)

(* every variant of crate::Error has a class, the one the model uses for it *)
Theorem gen_error_class_ok : forall e,
  gen_error_class e = Some match e with
                           | GError_IoError _ => EIo
                           | GError_ModelError _ => EModel
                           | GError_PolicyError _ => EPolicy
                           | GError_RbacError _ => ERbac
                           | GError_RhaiError _ => EEvalc
                           | GError_RhaiParseError _ => EEvalc
                           | GError_RequestError _ => ERequest
                           | GError_AdapterError _ => EAdapter
                           end.
Proof. intros e. destruct e; reflexivity. Qed.

(* `?` / `.into()` / Error::from on one of the crate's error enums keeps its class *)
Theorem gen_error_from_class :
  (forall e, gen_error_class (gen_Error_from_ModelError e) = Some EModel) /\
  (forall e, gen_error_class (gen_Error_from_PolicyError e) = Some EPolicy) /\
  (forall e, gen_error_class (gen_Error_from_RbacError e) = Some ERbac) /\
  (forall e, gen_error_class (gen_Error_from_RequestError e) = Some ERequest) /\
  (forall e, gen_error_class (gen_Error_from_AdapterError e) = Some EAdapter) /\
  (forall e, gen_error_class (gen_Error_from_IoError e) = Some EIo) /\
  (forall e, gen_error_class (gen_Error_from_BoxEvalAltResult e) = Some EEvalc) /\
  (forall e, gen_error_class (gen_Error_from_ParseError e) = Some EEvalc).
Proof. repeat split; intros e; reflexivity. Qed.

Example gen_error_variants_ex : length gen_error_variants = 8 /\
  map errc_of_variant gen_error_variants =
  [Some EIo; Some EModel; Some EPolicy; Some ERbac; Some EEvalc; Some EEvalc; Some ERequest; Some EAdapter].
Proof. vm_compute. split; reflexivity. Qed.

(* ------------------------------------------------------------------ *)
(* (B) src/macros.rs                                                   *)

(* a Result of the source as an outcome of the model: the value, or the class of the error *)
Definition res_outcome {A} (r : rs_result A gen_Error) : outcome A :=
  match r with
  | ROk a => Ok a
  | RErr e => match gen_error_class e with Some c => Err c | None => Panic end
  end.

(* get_or_err!(this, key, err, msg): BOTH lookups use `key` - the section named key, then its entry named key.  The
   first `ok_or_else` gives "Missing <msg> definition in conf file", the second "Missing <msg> section in conf file" *)
Theorem gen_get_or_err_ok : forall (X : Type) (from_X : X -> gen_Error) md key (err : text -> X) msg,
  gen_get_or_err from_X md key err msg =
  match assoc key md with
  | None => RErr (from_X (err (T "Missing " ++ msg ++ T " definition in conf file")))
  | Some am => match assoc key am with
               | None => RErr (from_X (err (T "Missing " ++ msg ++ T " section in conf file")))
               | Some a => ROk a
               end
  end.
Proof.
  intros X from_X md key err msg. unfold gen_get_or_err, rs_ok_or_else, rs_format1. lookups.
  destruct (assoc key md) as [am|]; [|reflexivity]. lookups. destruct (assoc key am); reflexivity.
Qed.

Theorem gen_get_or_err_with_context_ok : forall (X : Type) (from_X : X -> gen_Error) md key ctx (err : text -> X) msg,
  gen_get_or_err_with_context from_X md key ctx err msg =
  match assoc key md with
  | None => RErr (from_X (err (T "Missing " ++ msg ++ T " definition in conf file")))
  | Some am => match assoc ctx am with
               | None => RErr (from_X (err (T "Missing " ++ msg ++ T " section in conf file")))
               | Some a => ROk a
               end
  end.
Proof.
  intros X from_X md key ctx err msg. unfold gen_get_or_err_with_context, rs_ok_or_else, rs_format1. lookups.
  destruct (assoc key md) as [am|]; [|reflexivity]. lookups. destruct (assoc ctx am); reflexivity.
Qed.

(* against the model: the lookups are get_ast, and with any constructor of ModelError (R, P, E, M, Other: what every
   call site passes) a failed lookup is an error of class EModel - what part 10 (Gen/EnforceGen.v) and part 6
   (Gen/CachedGen.v) assume when they read `get_or_err!(self, "p", ModelError::P, "policy")` as
   `match get_ast md (T "p") (T "p") with Some a => .. | None => Err EModel end` *)
Theorem gen_get_or_err_model : forall md key (err : text -> gen_ModelError) msg,
  res_outcome (gen_get_or_err gen_Error_from_ModelError md key err msg) =
  match get_ast md key key with Some a => Ok a | None => Err EModel end.
Proof.
  intros md key err msg. rewrite gen_get_or_err_ok. unfold get_ast.
  destruct (assoc key md) as [am|]; [|reflexivity]. destruct (assoc key am); reflexivity.
Qed.

Theorem gen_get_or_err_with_context_model : forall md key ctx (err : text -> gen_ModelError) msg,
  res_outcome (gen_get_or_err_with_context gen_Error_from_ModelError md key ctx err msg) =
  match get_ast md key ctx with Some a => Ok a | None => Err EModel end.
Proof.
  intros md key ctx err msg. rewrite gen_get_or_err_with_context_ok. unfold get_ast.
  destruct (assoc key md) as [am|]; [|reflexivity]. destruct (assoc ctx am); reflexivity.
Qed.

(* the plain macro is the context macro with the key as the context *)
Theorem gen_get_or_err_is_context : forall (X : Type) (from_X : X -> gen_Error) md key (err : text -> X) msg,
  gen_get_or_err from_X md key err msg = gen_get_or_err_with_context from_X md key key err msg.
Proof. intros. rewrite gen_get_or_err_ok, gen_get_or_err_with_context_ok. reflexivity. Qed.

(* every macro of macros.rs is accounted for: the two lookup macros here, register_g_function! expanded and translated
   by part 15 (PinChecks/PcEnforcer2Gen.v: gen_enf_register_g_functions_ok), push_index_if_explain! empty (feature off) *)
Theorem gen_macros_inventory_ok :
  gen_macros_inventory = [(T "get_or_err", T "here"); (T "get_or_err_with_context", T "here");
                          (T "register_g_function", T "elsewhere"); (T "push_index_if_explain", T "empty")] /\
  gen_enforcer2_translated = true.
Proof. split; reflexivity. Qed.

Example gen_get_or_err_ex :
  gen_get_or_err gen_Error_from_ModelError ex_md (T "p") GModelError_P (T "policy") = ROk (ex_ast (T "sub, obj, act") [[T "alice"; T "data1"; T "read"]; [T "bob"; T "data2"; T "write"]]) /\
  gen_get_or_err gen_Error_from_ModelError ex_md (T "m") GModelError_M (T "matcher") =
    RErr (GError_ModelError (GModelError_M (T "Missing matcher definition in conf file"))) /\
  gen_get_or_err gen_Error_from_ModelError [(T "m", [(T "m2", ex_ast [] [])])] (T "m") GModelError_M (T "matcher") =
    RErr (GError_ModelError (GModelError_M (T "Missing matcher section in conf file"))) /\
  gen_get_or_err_with_context gen_Error_from_ModelError ex_md (T "p") (T "p2") GModelError_P (T "policy") = ROk (ex_ast (T "sub, act") [[T "carol"]]).
Proof. vm_compute. repeat split. Qed.

(* ------------------------------------------------------------------ *)
(* (C) src/convert.rs                                                  *)

(* what the harness relies on: an already built model / adapter is passed through unchanged (Box::new only) *)
Theorem gen_try_into_built_ok :
  (forall (M : Type) (m : M), gen_try_into_model_built M m = ROk m) /\
  (forall (A : Type) (a : A), gen_try_into_adapter_built A a = ROk a).
Proof. split; reflexivity. Qed.

(* Option<T>: Some(x) converts x, None is the default model / the null adapter; (): the null adapter *)
Theorem gen_try_into_option_ok :
  (forall (M T : Type) (dflt : M) (inner : T -> rs_result M gen_Error) o,
     gen_try_into_model_option M T dflt inner o = match o with Some x => inner x | None => ROk dflt end) /\
  (forall (A T : Type) (null : A) (inner : T -> rs_result A gen_Error) o,
     gen_try_into_adapter_option A T null inner o = match o with Some x => inner x | None => ROk null end) /\
  (forall (A : Type) (null : A) u, gen_try_into_adapter_unit A null u = ROk null).
Proof. repeat split; intros; reflexivity. Qed.

(* &'static str (not wasm32): the model read from that file - its error, if any, unchanged -; the file adapter of that path *)
Theorem gen_try_into_str_ok :
  (forall (M : Type) (from_file : text -> rs_result M gen_Error) p, gen_try_into_model_str M from_file p = from_file p) /\
  (forall (A : Type) (file_adapter : text -> A) p, gen_try_into_adapter_str A file_adapter p = ROk (file_adapter p)).
Proof.
  split; intros.
  - unfold gen_try_into_model_str. destruct (from_file p); reflexivity.
  - reflexivity.
Qed.

(* Vec<T>: every value through Into<Dynamic>, in order; no error *)
Theorem gen_vec_try_into_vec_ok : forall (S D : Type) (into : S -> D) v,
  gen_vec_try_into_vec S D into v = ROk (map into v).
Proof. reflexivity. Qed.

(* to_dynamic followed by `?`: the evaluation error becomes Error::RhaiError *)
Definition to_dynamic_q {S D} (f : S -> rs_result D ext_eval_error) (x : S) : rs_result D gen_Error :=
  match f x with ROk d => ROk d | RErr e => RErr (gen_Error_from_BoxEvalAltResult e) end.

Ltac tuple_case f :=
  cbv;
  lazymatch goal with
  | |- match f ?x with _ => _ end = _ => destruct (f x); [tuple_case f|reflexivity]
  | |- _ => reflexivity
  end.

(* a tuple of n values: there is an impl exactly for n <= 20; the n values are converted IN ORDER (res_mapM: left to
   right, the first failure is the result) *)
Theorem gen_tuple_try_into_vec_ok : forall (S D : Type) (f : S -> rs_result D ext_eval_error) vals,
  gen_tuple_try_into_vec S D f vals =
  if Nat.leb (length vals) 20 then Some (res_mapM (to_dynamic_q f) vals) else None.
Proof.
  intros S D f vals.
  do 21 (destruct vals as [|? vals]; [cbv; apply f_equal; tuple_case f|]).
  reflexivity.
Qed.

(* ... so when every value converts, the result is the n converted values in the order of the tuple *)
Theorem gen_tuple_try_into_vec_in_order : forall (S D : Type) (f : S -> rs_result D ext_eval_error) (g : S -> D) vals,
  length vals <= 20 -> (forall x, In x vals -> f x = ROk (g x)) ->
  gen_tuple_try_into_vec S D f vals = Some (ROk (map g vals)).
Proof.
  intros S D f g vals Hn Hok. rewrite gen_tuple_try_into_vec_ok.
  destruct (Nat.leb (length vals) 20) eqn:E; [|apply PeanoNat.Nat.leb_gt in E; lia].
  f_equal. apply res_mapM_all_ok. intros x Hx. unfold to_dynamic_q. rewrite (Hok x Hx). reflexivity.
Qed.

Theorem gen_tuple_arities_ok : gen_tuple_arities = seq 0 21.
Proof. reflexivity. Qed.

(* cache_key: the hasher is fed the same values in the same order (a Vec: its length first); equal digests - under the
   model's assumption that the digest determines what was fed - mean equal request values *)
Theorem gen_tuple_cache_key_ok : forall (S : Type) (vals : list S),
  gen_tuple_cache_key S vals = if Nat.leb (length vals) 20 then Some (map HOne vals) else None.
Proof.
  intros S vals. do 21 (destruct vals as [|? vals]; [reflexivity|]). reflexivity.
Qed.

Theorem gen_vec_cache_key_ok : forall (S : Type) (v : list S), gen_vec_cache_key S v = HLen (length v) :: map HOne v.
Proof. reflexivity. Qed.

Theorem gen_cache_key_injective : forall (S : Type) (a b : list S),
  (gen_vec_cache_key S a = gen_vec_cache_key S b -> a = b) /\
  (length a <= 20 -> length b <= 20 -> gen_tuple_cache_key S a = gen_tuple_cache_key S b -> a = b).
Proof.
  intros S a b. split.
  - rewrite !gen_vec_cache_key_ok. intros H. inversion H. apply map_HOne_inj. assumption.
  - intros Ha Hb. rewrite !gen_tuple_cache_key_ok.
    destruct (Nat.leb (length a) 20) eqn:Ea; [|apply PeanoNat.Nat.leb_gt in Ea; lia].
    destruct (Nat.leb (length b) 20) eqn:Eb; [|apply PeanoNat.Nat.leb_gt in Eb; lia].
    intros H. inversion H. apply map_HOne_inj. assumption.
Qed.

Example gen_convert_ex :
  let f := fun n : nat => if Nat.eqb n 7 then RErr ExtEvalError else ROk (n * 10) in
  gen_tuple_try_into_vec nat nat f [1; 2; 3] = Some (ROk [10; 20; 30]) /\
  gen_tuple_try_into_vec nat nat f [3; 2; 1] = Some (ROk [30; 20; 10]) /\
  gen_tuple_try_into_vec nat nat f [1; 7; 3] = Some (RErr (GError_RhaiError ExtEvalError)) /\
  gen_tuple_try_into_vec nat nat f [] = Some (ROk []) /\
  gen_tuple_try_into_vec nat nat f (seq 1 20) <> None /\
  gen_tuple_try_into_vec nat nat f (seq 10 21) = None /\
  gen_tuple_cache_key nat [4; 5] = Some [HOne 4; HOne 5] /\
  gen_vec_cache_key nat [4; 5] = [HLen 2; HOne 4; HOne 5] /\
  gen_vec_try_into_vec nat nat (fun n => n + 1) [4; 5] = ROk [5; 6] /\
  gen_try_into_model_option nat nat 0 (fun n => ROk (n + 1)) (Some 4) = ROk 5 /\
  gen_try_into_model_option nat nat 0 (fun n => ROk (n + 1)) None = ROk 0.
Proof. vm_compute. repeat split. discriminate. Qed.

(* the hypotheses of gen_tuple_try_into_vec_in_order are satisfiable; the order and the first failure are visible *)
Example gen_tuple_in_order_ex :
  let f := fun n : nat => if Nat.eqb n 7 then RErr ExtEvalError else ROk (n * 10) in
  length [1; 2; 3] <= 20 /\ (forall x, In x [1; 2; 3] -> f x = ROk (x * 10)) /\
  gen_tuple_try_into_vec nat nat f [3; 2; 1] = Some (ROk [30; 20; 10]) /\
  gen_tuple_try_into_vec nat nat f [1; 7; 3] = Some (RErr (GError_RhaiError ExtEvalError)) /\
  gen_tuple_try_into_vec nat nat f (seq 10 21) = None.
Proof.
  cbv zeta. split; [cbn; repeat constructor|]. split.
  - intros x [<-|[<-|[<-|[]]]]; reflexivity.
  - vm_compute. repeat split.
Qed.

(* ------------------------------------------------------------------ *)
(* (D) src/cache/default_cache.rs                                      *)

Section CacheObligations.
  Notation mcache := (moka ckey bool).

  (* new: nothing held, the capacity of the argument *)
  Theorem gen_cache_new_ok : forall sched cap,
    mk_entries (gen_cache_new ckey bool sched cap) = [] /\ mk_cap (gen_cache_new ckey bool sched cap) = cap.
  Proof. intros. split; reflexivity. Qed.

  (* get: the call may first forget (the state afterwards is a sub-cache of the state before); the answer is the model's
     cache_get on what is held afterwards - so it is a value stored for that key, or None *)
  Theorem gen_cache_get_ok : forall (m : mcache) k,
    let (m', r) := gen_cache_get ckey bool ckey_eqb m k in
    sub_cache (mk_entries m') (mk_entries m) /\ r = cache_get k (mk_entries m').
  Proof.
    intros m k. unfold gen_cache_get, rs_moka_get. split; [apply moka_tick_sub|apply moka_lookup_cache_get].
  Qed.

  Theorem gen_cache_get_sound : forall (m : mcache) k b,
    snd (gen_cache_get ckey bool ckey_eqb m k) = Some b -> cache_get k (mk_entries m) = Some b.
  Proof.
    intros m k b H. pose proof (gen_cache_get_ok m k) as G.
    destruct (gen_cache_get ckey bool ckey_eqb m k) as [m' r]. cbn [snd] in H. destruct G as [G1 G2]. rewrite G2 in H.
    apply G1. exact H.
  Qed.

  (* has: the same question as get, asked with is_some *)
  Theorem gen_cache_has_ok : forall (m : mcache) k,
    gen_cache_has ckey bool ckey_eqb m k =
    (fst (gen_cache_get ckey bool ckey_eqb m k), rs_is_some (snd (gen_cache_get ckey bool ckey_eqb m k))).
  Proof.
    intros m k. unfold gen_cache_has, gen_cache_get, rs_moka_contains_key, rs_moka_get. cbn [fst snd].
    destruct (moka_lookup ckey_eqb (mk_entries (moka_tick m)) k); reflexivity.
  Qed.

  (* set: up to forgetting, the model's cons; without forgetting every key reads as in the model's cons *)
  Theorem gen_cache_set_ok : forall (m : mcache) k v,
    sub_cache (mk_entries (gen_cache_set ckey bool ckey_eqb m k v)) ((k, v) :: mk_entries m) /\
    (mk_sched m = [] -> forall k', cache_get k' (mk_entries (gen_cache_set ckey bool ckey_eqb m k v)) = cache_get k' ((k, v) :: mk_entries m)) /\
    cache_get k (mk_entries (gen_cache_set ckey bool ckey_eqb m k v)) = Some v.
  Proof.
    intros m k v. unfold gen_cache_set, rs_moka_insert. cbn [mk_entries]. repeat split.
    - intros k' b. rewrite cache_get_insert. apply sub_cache_cons, moka_tick_sub.
    - intros Hs k'. rewrite (moka_tick_nosched m Hs). apply cache_get_insert.
    - cbn [cache_get]. rewrite (proj2 (ckey_eqb_eq k k) eq_refl). reflexivity.
  Qed.

  (* clear: nothing is held any more, whatever the schedule *)
  Theorem gen_cache_clear_ok : forall (m : mcache), mk_entries (gen_cache_clear ckey bool ckey_eqb m) = [].
  Proof. reflexivity. Qed.

  (* ---- the cached enforcer of Model/Cached.v on THIS cache ----
     cenforce / cstep_prim with `cache_get`, cons and [] replaced by the translated get / set / clear *)
  Record mstate := { ms_inner : estate; ms_cache : mcache }.
  Definition ms_view (c : mstate) : cstate := {| c_inner := ms_inner c; c_cache := mk_entries (ms_cache c) |}.

  Variable ptab : text -> option expr.

  Definition menforce (c : mstate) (k : ckey) : mstate * outcome bool :=
    let (m1, hit) := gen_cache_get ckey bool ckey_eqb (ms_cache c) k in
    match hit with
    | Some b => ({| ms_inner := ms_inner c; ms_cache := m1 |}, Ok b)
    | None =>
      match decide ptab (ms_inner c) k with
      | Ok b => ({| ms_inner := ms_inner c; ms_cache := gen_cache_set ckey bool ckey_eqb m1 k b |}, Ok b)
      | other => ({| ms_inner := ms_inner c; ms_cache := m1 |}, other)
      end
    end.

  Definition mstep_prim (c : mstate) (o : op) : mstate * outcome bool :=
    let (s', r) := step (ms_inner c) o in
    ({| ms_inner := s'; ms_cache := if clears_after o r then gen_cache_clear ckey bool ckey_eqb (ms_cache c) else ms_cache c |}, r).

  Definition mstep (c : mstate) (o : op) : mstate * outcome bool :=
    match o with
    | ORbac r =>
      let (o1, o2) := rbac_prims r in
      match mstep_prim c o1 with
      | (c1, Ok a) =>
        match o2 with
        | None => (c1, Ok a)
        | Some o2' => match mstep_prim c1 o2' with
                      | (c2, Ok b) => (c2, Ok (a || b))
                      | other => other
                      end
        end
      | other => other
      end
    | _ => mstep_prim c o
    end.

  Fixpoint mrun (c : mstate) (h : list citem) : list (outcome bool) :=
    match h with
    | [] => []
    | CIOp o :: h' => let (c', r) := mstep c o in r :: mrun c' h'
    | CIReq k :: h' => let (c', r) := menforce c k in r :: mrun c' h'
    end.

  Lemma menforce_spec : forall c k, CacheCoherent ptab (ms_view c) ->
    snd (menforce c k) = decide ptab (ms_inner c) k /\
    ms_inner (fst (menforce c k)) = ms_inner c /\
    CacheCoherent ptab (ms_view (fst (menforce c k))).
  Proof.
    intros c k Hc. unfold menforce, gen_cache_get, rs_moka_get.
    set (m1 := moka_tick (ms_cache c)).
    assert (H1 : CacheCoherent ptab {| c_inner := ms_inner c; c_cache := mk_entries m1 |}).
    { apply (sub_cache_coherent ptab (ms_view c) (mk_entries m1)); [apply moka_tick_sub|exact Hc]. }
    rewrite moka_lookup_cache_get.
    pose proof (cenforce_spec ptab _ k H1) as (S1 & S2 & S3). unfold cenforce in S1, S2, S3. cbn [c_cache c_inner] in S1, S2, S3.
    destruct (cache_get k (mk_entries m1)) as [b|] eqn:Hg; cbn [fst snd] in *.
    - split; [exact S1|]. split; [reflexivity|exact H1].
    - destruct (decide ptab (ms_inner c) k) as [b|e|] eqn:Hd; cbn [fst snd ms_inner] in *;
        (split; [reflexivity|]); (split; [reflexivity|]); try exact H1.
      unfold ms_view. cbn [ms_inner ms_cache].
      apply (sub_cache_coherent ptab {| c_inner := ms_inner c; c_cache := (k, b) :: mk_entries m1 |});
        [apply gen_cache_set_ok|exact S3].
  Qed.

  Lemma mstep_prim_spec : forall c o, is_rbac o = false -> CacheCoherent ptab (ms_view c) ->
    snd (mstep_prim c o) = snd (step (ms_inner c) o) /\
    ms_inner (fst (mstep_prim c o)) = fst (step (ms_inner c) o) /\
    CacheCoherent ptab (ms_view (fst (mstep_prim c o))).
  Proof.
    intros c o Hr Hc. pose proof (cstep_prim_coherent ptab (ms_view c) o Hr Hc) as H.
    unfold mstep_prim. unfold cstep_prim in H. cbn [ms_view c_inner c_cache] in H.
    destruct (step (ms_inner c) o) as [s' r]. cbn [fst snd ms_inner] in *.
    split; [reflexivity|]. split; [reflexivity|].
    unfold ms_view. cbn [ms_inner ms_cache]. destruct (clears_after o r); [|exact H].
    rewrite gen_cache_clear_ok. exact H.
  Qed.

  Lemma mstep_spec : forall c o, CacheCoherent ptab (ms_view c) ->
    snd (mstep c o) = snd (step (ms_inner c) o) /\
    ms_inner (fst (mstep c o)) = fst (step (ms_inner c) o) /\
    CacheCoherent ptab (ms_view (fst (mstep c o))).
  Proof.
    intros c o Hc.
    destruct o; try (apply mstep_prim_spec; [reflexivity|exact Hc]).
    unfold mstep. rewrite step_rbac_expand. pose proof (rbac_prims_prim r) as [Hp1 Hp2].
    destruct (rbac_prims r) as [o1 o2]. cbn [fst snd] in Hp1, Hp2.
    pose proof (mstep_prim_spec c o1 Hp1 Hc) as (A1 & A2 & A3).
    destruct (mstep_prim c o1) as [c1 r1]. destruct (step (ms_inner c) o1) as [s1 r1']. cbn [fst snd] in *. subst r1' s1.
    destruct r1 as [a|e|]; destruct o2 as [o2'|]; unfold seq_or; cbn [fst snd];
      try (split; [reflexivity|]; split; [reflexivity|exact A3]).
    pose proof (mstep_prim_spec c1 o2' Hp2 A3) as (B1 & B2 & B3).
    destruct (mstep_prim c1 o2') as [c2 r2]. destruct (step (ms_inner c1) o2') as [s2 r2']. cbn [fst snd] in *. subst r2' s2.
    destruct r2 as [b|e|]; cbn [fst snd]; (split; [reflexivity|]; split; [reflexivity|exact B3]).
  Qed.

  Lemma mrun_prun_gen : forall h c, CacheCoherent ptab (ms_view c) -> mrun c h = prun ptab (ms_inner c) h.
  Proof.
    induction h as [|[o|k] h IH]; intros c Hc; cbn [mrun prun]; [reflexivity| |].
    - pose proof (mstep_spec c o Hc) as (H1 & H2 & H3).
      destruct (mstep c o) as [c' r]. destruct (step (ms_inner c) o) as [s' r']. cbn [fst snd] in *. subst.
      f_equal. apply IH, H3.
    - pose proof (menforce_spec c k Hc) as (H1 & H2 & H3).
      destruct (menforce c k) as [c' r]. cbn [fst snd] in *. subst r. f_equal. rewrite <- H2. apply IH, H3.
  Qed.

  (* MAIN of (D): for every history of calls and requests, every capacity and EVERY eviction schedule, the cached
     enforcer on the translated cache returns exactly the decisions of the uncached enforcer *)
  Theorem gen_cache_same_decisions : forall h s sched cap,
    mrun {| ms_inner := s; ms_cache := gen_cache_new ckey bool sched cap |} h = prun ptab s h.
  Proof.
    intros h s sched cap. apply (mrun_prun_gen h). unfold ms_view. cbn [ms_inner ms_cache].
    rewrite (proj1 (gen_cache_new_ok sched cap)). apply coherent_init.
  Qed.

  (* ... and with a schedule that never forgets it IS the model's run *)
  Theorem gen_cache_refines_crun_step : forall c k, mk_sched (ms_cache c) = [] ->
    snd (menforce c k) = snd (cenforce ptab (ms_view c) k) /\
    (forall k', cache_get k' (mk_entries (ms_cache (fst (menforce c k)))) = cache_get k' (c_cache (fst (cenforce ptab (ms_view c) k)))).
  Proof.
    intros c k Hs. unfold menforce, cenforce, gen_cache_get, rs_moka_get. rewrite (moka_tick_nosched _ Hs).
    rewrite moka_lookup_cache_get. cbn [ms_view c_cache c_inner].
    destruct (cache_get k (mk_entries (ms_cache c))) as [b|]; cbn [fst snd ms_cache c_cache]; [split; reflexivity|].
    destruct (decide ptab (ms_inner c) k) as [b|e|]; cbn [fst snd ms_cache c_cache]; try (split; reflexivity).
    split; [reflexivity|]. intros k'. apply gen_cache_set_ok, Hs.
  Qed.
End CacheObligations.

Example gen_cache_ex :
  let k1 := CKPlain [VStr (T "alice")] in let k2 := CKPlain [VStr (T "bob")] in
  let m0 := gen_cache_new ckey bool [] 200 in
  let m1 := gen_cache_set ckey bool ckey_eqb m0 k1 true in
  let m2 := gen_cache_set ckey bool ckey_eqb m1 k2 false in
  snd (gen_cache_get ckey bool ckey_eqb m2 k1) = Some true /\
  snd (gen_cache_get ckey bool ckey_eqb m2 k2) = Some false /\
  snd (gen_cache_has ckey bool ckey_eqb m2 k2) = true /\
  (* replacing *)
  snd (gen_cache_get ckey bool ckey_eqb (gen_cache_set ckey bool ckey_eqb m2 k1 false) k1) = Some false /\
  (* clear *)
  snd (gen_cache_has ckey bool ckey_eqb (gen_cache_clear ckey bool ckey_eqb m2) k1) = false /\
  (* a schedule that drops k1 at the next call *)
  let forgetful := {| mk_cap := 200; mk_entries := mk_entries m2; mk_sched := [fun k => negb (ckey_eqb k k1)] |} in
  snd (gen_cache_get ckey bool ckey_eqb forgetful k1) = None /\
  snd (gen_cache_get ckey bool ckey_eqb forgetful k2) = Some false.
Proof. vm_compute. repeat split. Qed.

Print Assumptions gen_model2_translated_ok.
Print Assumptions gen_m_get_policy_ok.
Print Assumptions gen_m_has_policy_ok.
Print Assumptions gen_m_get_values_for_field_in_policy_ok.
Print Assumptions gen_m_get_filtered_policy_ok.
Print Assumptions gen_m_add_policy_ok.
Print Assumptions gen_m_add_policies_ok.
Print Assumptions gen_m_remove_policy_ok.
Print Assumptions gen_m_remove_policies_ok.
Print Assumptions gen_m_remove_filtered_policy_ok.
Print Assumptions gen_m_missing_assertion.
Print Assumptions gen_m_never_panics.
Print Assumptions gen_m_get_filtered_policy_panics.
Print Assumptions gen_m_remove_filtered_policy_panics.
Print Assumptions gen_m_get_values_panics.
Print Assumptions gen_error_class_ok.
Print Assumptions gen_error_from_class.
Print Assumptions gen_get_or_err_ok.
Print Assumptions gen_get_or_err_with_context_ok.
Print Assumptions gen_get_or_err_model.
Print Assumptions gen_get_or_err_with_context_model.
Print Assumptions gen_macros_inventory_ok.
Print Assumptions gen_try_into_built_ok.
Print Assumptions gen_try_into_option_ok.
Print Assumptions gen_try_into_str_ok.
Print Assumptions gen_vec_try_into_vec_ok.
Print Assumptions gen_tuple_try_into_vec_ok.
Print Assumptions gen_tuple_try_into_vec_in_order.
Print Assumptions gen_tuple_cache_key_ok.
Print Assumptions gen_cache_key_injective.
Print Assumptions gen_cache_get_ok.
Print Assumptions gen_cache_get_sound.
Print Assumptions gen_cache_has_ok.
Print Assumptions gen_cache_set_ok.
Print Assumptions gen_cache_clear_ok.
Print Assumptions gen_cache_same_decisions.
Print Assumptions gen_cache_refines_crun_step.
