(* Obligations tying the TRANSLATED effector (Gen/EffectorGen.v, regenerated from
   /repo/src/effector.rs on every run by tools/rs2coq.py) to the hand-written
   model (Model/Effector.v) that the C02 theorems are about: the two coincide
   on every state, effect, expression text and capacity.  A rewrite of
   effector.rs that keeps its meaning keeps these proofs; a change of meaning
   breaks them. *)
From CV Require Import Model.Base Model.Effector Gen.EffectorGen Proofs.BaseP.
From Coq Require Import Lia.

Lemma gen_translated_ok : gen_translated = true.
Proof. reflexivity. Qed.

(* the Rust struct that a model stream stands for *)
Definition embed (s : stream) : gstate :=
  {| g_done := done s; g_res := res s; g_expr := erule_text (srule s); g_idx := idx s; g_cap := cap s |}.

(* push_effect: new state and returned flag, for every stream state and effect *)
Theorem gen_push_effect_ok : forall s e,
  gen_push_effect (embed s) e = (embed (push s e), done (push s e)).
Proof.
  intros [d r i c rl] e.
  unfold gen_push_effect, embed, push, push_core.
  destruct rl, e; cbv -[Nat.eqb Nat.add];
    (* whatever numeric tests the source performs, in whatever order and polarity *)
    repeat match goal with
           | |- context [Nat.eqb ?a ?b] => let E := fresh "E" in destruct (Nat.eqb a b) eqn:E
           end;
    repeat match goal with
           | H : Nat.eqb _ _ = true |- _ => apply Nat.eqb_eq in H
           | H : Nat.eqb _ _ = false |- _ => apply Nat.eqb_neq in H
           end;
    first [ reflexivity | exfalso; lia | subst; reflexivity | repeat f_equal; lia ].
Qed.

(* next: the assertion `done` is the model's None *)
Theorem gen_next_ok : forall s, gen_next (embed s) = next s.
Proof. intros s. reflexivity. Qed.
Lemma gen_next_asserts_ok : gen_next_asserts = true.
Proof. reflexivity. Qed.

(* new_stream: same acceptance (capacity > 0, one of the four texts) and same initial state *)
Lemma parse_erule_text : forall e r, parse_erule e = Some r -> e = erule_text r.
Proof.
  intros e r. unfold parse_erule.
  destruct (teqb e s_allow_override) eqn:E1; [intros H; inversion H; subst; apply teqb_eq in E1; exact E1|].
  destruct (teqb e s_allow_and_deny) eqn:E2; [intros H; inversion H; subst; apply teqb_eq in E2; exact E2|].
  destruct (teqb e s_priority) eqn:E3; [intros H; inversion H; subst; apply teqb_eq in E3; exact E3|].
  destruct (teqb e s_deny_override) eqn:E4; [intros H; inversion H; subst; apply teqb_eq in E4; exact E4|].
  discriminate.
Qed.

Theorem gen_new_stream_ok : forall e c,
  gen_new_stream e c = option_map embed (new_stream e c).
Proof.
  intros e c. unfold gen_new_stream, new_stream.
  destruct c as [|c]; [reflexivity|].
  cbn [Nat.ltb Nat.leb Nat.eqb].
  unfold gen_init_res, parse_erule.
  change (T "some(where (p_eft == allow))") with s_allow_override.
  change (T "some(where (p_eft == allow)) && !some(where (p_eft == deny))") with s_allow_and_deny.
  change (T "priority(p_eft) || deny") with s_priority.
  change (T "!some(where (p_eft == deny))") with s_deny_override.
  destruct (teqb e s_allow_override) eqn:E1.
  { apply teqb_eq in E1. subst e. reflexivity. }
  destruct (teqb e s_allow_and_deny) eqn:E2.
  { apply teqb_eq in E2. subst e. reflexivity. }
  destruct (teqb e s_priority) eqn:E3.
  { apply teqb_eq in E3. subst e. reflexivity. }
  destruct (teqb e s_deny_override) eqn:E4.
  { apply teqb_eq in E4. subst e. reflexivity. }
  reflexivity.
Qed.

(* hence a whole run of the translated code is the model's run *)
Fixpoint gen_push_all (s : gstate) (l : list eff) : gstate * list bool :=
  match l with
  | [] => (s, [])
  | e :: l' => let (s', fl) := gen_push_effect s e in
               let (s'', fls) := gen_push_all s' l' in (s'', fl :: fls)
  end.
Theorem gen_push_all_ok : forall l s,
  gen_push_all (embed s) l = (embed (fst (push_all s l)), snd (push_all s l)).
Proof.
  induction l as [|e l IH]; intros s; [reflexivity|].
  cbn [gen_push_all push_all]. rewrite gen_push_effect_ok. rewrite IH.
  destruct (push_all (push s e) l) as [s'' fl]. reflexivity.
Qed.
