(* Obligations tying the TRANSLATED query helpers (Gen/QueryGen.v, regenerated
   on every run by tools/rs2coq_query.py from /repo/src/rbac_api.rs and
   /repo/src/management_api.rs) to the hand-written model (Model/Engine.v):
   for ALL states and arguments every generated function gives the model's
   answer `ask ptab s (<query>)` to the corresponding query.

     ordered listings / booleans   equal (ans_rules / ans_names / ans_bool .. = ask ..)
     set-valued listings           equal as SETS, for every iteration order `ord`
                                   of the hash containers (q_ord_ok ord)
     get_implicit_permissions      equal as MULTISETS (Permutation), same panics
     panics                        the generated function is None exactly when
                                   the model answers AnsPanic

   get_implicit_roles_for_user: the source is a work list with `swap_remove(0)`
   (NOT a queue) over a HashSet result, the model a FIFO closure.  Both are
   shown to compute the transitive closure of the role links (Proofs/QueryP.v,
   section D, for ANY way of taking an element out of the work list and any
   order of the successors; Proofs/C13P.v for the model), and the translated
   `while` loop is Done within the fuel the model uses, S (S (graph_size ..)).
   This needs the role manager to be well formed (`wf`, an invariant of every
   reachable state: Properties/C13.v c13_wf_new / c13_wf_step); without it the
   MODEL's loop can run out of its own fuel (see the remark at the theorem).

   get_implicit_users_for_permission: the source calls `self.enforce(req)`; an
   Err is ignored (`if let Ok(r)`), a panic inside it (e.g. `unsupported
   effect`, effector.rs) unwinds through the helper.  The model's
   `implicit_users` answers None (AnsPanic) exactly then (it used to count a
   panicking candidate as "not permitted": the finding of this part, repaired in
   Model/Engine.v); bad1_both_panic is the state on which they used to differ.

   has_permission_for_user has no query of its own: it is specified as
   QHasPolicy "p" "p" (user :: permission).

   Method.  No induction on a generated term: the loops are rewritten by their
   shape (fold / scan / foldopt of Proofs/RustVecP.v, the work list of
   Proofs/QueryP.v) from a pointwise description of the body that one tactic
   proves without looking at the shape of the generated term. *)
From CV Require Import Model.Base Model.RoleGraph Model.Expr Model.Enforce Model.Engine Model.SpecC13.
From CV Require Import Gen.RustStr Gen.RustVec Gen.RustIter Gen.QueryRt Gen.QueryGen.
From CV Require Import Proofs.ListAux Proofs.BaseP Proofs.RoleGraphP Proofs.RustVecP Proofs.C13P
     Proofs.C18P Proofs.QueryP.
From Coq Require Import Lia Permutation Relations.

Lemma gen_query_translated_ok : gen_query_translated = true.
Proof. reflexivity. Qed.

(* ------------------------------------------------------------------ *)
(* Part 1: results as answers                                          *)
Definition ans_rules (o : option (list rule)) : answer :=
  match o with Some l => AnsRules l | None => AnsPanic end.
Definition ans_bag (o : option (list rule)) : answer :=
  match o with Some l => AnsRuleBag l | None => AnsPanic end.
Definition ans_names (o : option (list text)) : answer :=
  match o with Some l => AnsNames l | None => AnsPanic end.
Definition ans_nameset (o : option (list text)) : answer :=
  match o with Some l => AnsNameSet l | None => AnsPanic end.
Definition ans_bool (o : option bool) : answer :=
  match o with Some b => AnsBool b | None => AnsPanic end.

(* the function returned l' with the members of l *)
Definition set_result (o : option (list text)) (l : list text) : Prop :=
  exists l', o = Some l' /\ forall y, In y l' <-> In y l.

Lemma set_result_answer : forall o l, set_result o l -> answer_equiv (ans_nameset o) (AnsNameSet l).
Proof. intros o l (l' & -> & H). exact H. Qed.

Lemma opt_perm_answer : forall a b, opt_perm a b -> answer_equiv (ans_bag a) (ans_bag b).
Proof. intros [x|] [y|] H; cbn in *; try contradiction; [exact H|reflexivity]. Qed.

(* ------------------------------------------------------------------ *)
(* Part 2: tactics                                                     *)
Ltac q_unfold :=
  cbv beta iota zeta delta
    [genq_get_named_policy genq_get_all_policy genq_get_filtered_named_policy genq_has_named_policy
     genq_get_named_grouping_policy genq_get_all_grouping_policy genq_get_filtered_named_grouping_policy
     genq_has_grouping_named_policy genq_get_all_named_subjects genq_get_all_named_objects
     genq_get_all_named_actions genq_get_all_named_roles
     genq_get_policy genq_get_filtered_policy genq_has_policy genq_get_grouping_policy
     genq_get_filtered_grouping_policy genq_has_grouping_policy
     genq_get_all_subjects genq_get_all_objects genq_get_all_actions genq_get_all_roles
     genq_get_roles_for_user genq_get_users_for_role genq_get_permissions_for_user
     genq_has_permission_for_user
     ans_rules ans_bag ans_names ans_nameset ans_bool
     rs_fn rs_iter_map rs_iter_filter rs_iter_flat_map rs_iter_chain rs_iter_any rs_iter_all
     rs_extend rs_push rs_unwrap_or hs_new hs_to_vec cur_role_manager
     hm_get_section amap_get s_p s_g s_r s_e s_m];
  rewrite ?mdl_get_policy_model, ?mdl_get_filtered_policy_model, ?mdl_has_policy_model,
          ?mdl_values_for_field_model;
  cbn [map app fst snd negb andb orb].

(* split on every scrutinee, innermost first, re-normalising after each split;
   a loop is never split on *)
Ltac q_split :=
  repeat (q_unfold;
          match goal with
          | |- context [match ?x with _ => _ end] => is_var x; destruct x
          | |- context [match ?x with _ => _ end] =>
              lazymatch x with
              | context [match _ with _ => _ end] => fail
              | context [rs_for] => fail
              | context [rs_while] => fail
              | _ => destruct x
              end
          end).

Ltac q_eq := intros; cbv delta [ask perms_for_user roles_for_user users_for_role get_ast m_get_all];
             q_split; q_unfold; reflexivity.

(* the loop shapes of Proofs/RustVecP.v; `tac` proves the pointwise description
   of the body of the first loop of the goal *)
Ltac loop_fold f tac :=
  match goal with
  | |- context [rs_for ?b ?l ?s] =>
      let H := fresh "Hbody" in
      assert (H : forall x s0, b x s0 = LNext (f s0 x)) by tac;
      rewrite (rs_for_fold b f H); clear H
  end.

Ltac loop_foldopt g f tac :=
  match goal with
  | |- context [rs_for ?b ?l ?s] =>
      let H := fresh "Hbody" in
      assert (H : forall x s0, b x s0 = match g x with Some y => LNext (f s0 y) | None => LPanic end) by tac;
      rewrite (rs_for_foldopt b g f H); clear H
  end.

Ltac loop_scan chk tac :=
  match goal with
  | |- context [rs_for ?b ?l ?s] =>
      let H := fresh "Hbody" in
      let T := type of b in
      lazymatch T with
      | _ -> _ -> flow ?S ?R =>
          let stop := open_constr:(_ : flow S R) in
          assert (H : forall x, b x s = match chk x with
                                        | Some true => stop
                                        | Some false => LNext s
                                        | None => LPanic
                                        end) by tac;
          rewrite (rs_for_scan b chk s stop H) by reflexivity; clear H
      end
  end.

(* a pointwise description: compute, split on whatever is scrutinised, compare *)
Ltac q_body :=
  intros; q_split; q_unfold;
  first [ reflexivity
        | repeat match goal with b : bool |- _ => destruct b end; reflexivity ].

(* ------------------------------------------------------------------ *)
(* Part 3: management API = the model's read views                     *)

(* the blanket impl: named forms -> the model store *)
Theorem genq_get_named_policy_ok : forall ptab s pt,
  ans_rules (genq_get_named_policy s pt) = ask ptab s (QGetPolicy s_p pt).
Proof. q_eq. Qed.
Theorem genq_get_named_grouping_policy_ok : forall ptab s pt,
  ans_rules (genq_get_named_grouping_policy s pt) = ask ptab s (QGetPolicy s_g pt).
Proof. q_eq. Qed.
Theorem genq_get_filtered_named_policy_ok : forall ptab s pt i v,
  ans_rules (genq_get_filtered_named_policy s pt i v) = ask ptab s (QGetFiltered s_p pt i v).
Proof. q_eq. Qed.
Theorem genq_get_filtered_named_grouping_policy_ok : forall ptab s pt i v,
  ans_rules (genq_get_filtered_named_grouping_policy s pt i v) = ask ptab s (QGetFiltered s_g pt i v).
Proof. q_eq. Qed.
Theorem genq_has_named_policy_ok : forall ptab s pt r,
  ans_bool (genq_has_named_policy s pt r) = ask ptab s (QHasPolicy s_p pt r).
Proof. q_eq. Qed.
Theorem genq_has_grouping_named_policy_ok : forall ptab s pt r,
  ans_bool (genq_has_grouping_named_policy s pt r) = ask ptab s (QHasPolicy s_g pt r).
Proof. q_eq. Qed.
Theorem genq_get_all_named_subjects_ok : forall ptab s pt,
  ans_names (genq_get_all_named_subjects s pt) = ask ptab s (QValues s_p pt 0).
Proof. q_eq. Qed.
Theorem genq_get_all_named_objects_ok : forall ptab s pt,
  ans_names (genq_get_all_named_objects s pt) = ask ptab s (QValues s_p pt 1).
Proof. q_eq. Qed.
Theorem genq_get_all_named_actions_ok : forall ptab s pt,
  ans_names (genq_get_all_named_actions s pt) = ask ptab s (QValues s_p pt 2).
Proof. q_eq. Qed.
Theorem genq_get_all_named_roles_ok : forall ptab s pt,
  ans_names (genq_get_all_named_roles s pt) = ask ptab s (QValues s_g pt 1).
Proof. q_eq. Qed.

(* the default methods: un-named forms, default policy type = the section name *)
Theorem genq_get_policy_ok : forall ptab s, ans_rules (genq_get_policy s) = ask ptab s (QGetPolicy s_p s_p).
Proof. q_eq. Qed.
Theorem genq_get_grouping_policy_ok : forall ptab s,
  ans_rules (genq_get_grouping_policy s) = ask ptab s (QGetPolicy s_g s_g).
Proof. q_eq. Qed.
Theorem genq_get_filtered_policy_ok : forall ptab s i v,
  ans_rules (genq_get_filtered_policy s i v) = ask ptab s (QGetFiltered s_p s_p i v).
Proof. q_eq. Qed.
Theorem genq_get_filtered_grouping_policy_ok : forall ptab s i v,
  ans_rules (genq_get_filtered_grouping_policy s i v) = ask ptab s (QGetFiltered s_g s_g i v).
Proof. q_eq. Qed.
Theorem genq_has_policy_ok : forall ptab s r, ans_bool (genq_has_policy s r) = ask ptab s (QHasPolicy s_p s_p r).
Proof. q_eq. Qed.
Theorem genq_has_grouping_policy_ok : forall ptab s r,
  ans_bool (genq_has_grouping_policy s r) = ask ptab s (QHasPolicy s_g s_g r).
Proof. q_eq. Qed.
Theorem genq_get_all_subjects_ok : forall ptab s, ans_names (genq_get_all_subjects s) = ask ptab s (QValues s_p s_p 0).
Proof. q_eq. Qed.
Theorem genq_get_all_objects_ok : forall ptab s, ans_names (genq_get_all_objects s) = ask ptab s (QValues s_p s_p 1).
Proof. q_eq. Qed.
Theorem genq_get_all_actions_ok : forall ptab s, ans_names (genq_get_all_actions s) = ask ptab s (QValues s_p s_p 2).
Proof. q_eq. Qed.
Theorem genq_get_all_roles_ok : forall ptab s, ans_names (genq_get_all_roles s) = ask ptab s (QValues s_g s_g 1).
Proof. q_eq. Qed.

(* get_all_policy / get_all_grouping_policy: every rule of every assertion of
   the section, prefixed by the section and the policy type, in the order of
   the LinkedHashMap *)
Ltac q_get_all sec :=
  intros; cbv delta [ask m_get_all]; q_unfold;
  match goal with |- context [assoc ?k ?md] => destruct (assoc k md) as [am|] end; [|reflexivity];
  loop_fold (fun (acc : list rule) (ka : text * assertion) =>
               acc ++ map (fun r => sec :: fst ka :: r) (a_policy (snd ka)))
            ltac:(intros [k a] acc; reflexivity);
  rewrite fold_extend_flat_map; reflexivity.

Theorem genq_get_all_policy_ok : forall ptab s, ans_rules (genq_get_all_policy s) = ask ptab s (QGetAll s_p).
Proof. q_get_all (T "p"). Qed.
Theorem genq_get_all_grouping_policy_ok : forall ptab s,
  ans_rules (genq_get_all_grouping_policy s) = ask ptab s (QGetAll s_g).
Proof. q_get_all (T "g"). Qed.

(* ------------------------------------------------------------------ *)
(* Part 4: RBAC API, direct listings                                   *)

(* a set-valued leaf: the list returned, up to the iteration order *)
Ltac set_leaf Hord :=
  eexists; split; [reflexivity|]; intros y; unfold rm_get_roles, rm_get_users;
  rewrite ?(q_ord_In _ _ _ Hord); reflexivity.

(* get_roles_for_user reads the manager of the ASSERTION g/g (`t2.rm`), as the
   model's roles_for_user does (handle_get_roles .. (a_handle a)), not the
   enforcer's current manager *)
Theorem genq_get_roles_for_user_spec : forall ord s n d, q_ord_ok ord ->
  set_result (genq_get_roles_for_user ord s n d) (roles_for_user s n d).
Proof.
  intros ord s n d Hord. unfold set_result. cbv delta [roles_for_user get_ast].
  q_split; q_unfold; set_leaf Hord.
Qed.

Theorem genq_get_users_for_role_spec : forall ord s n d, q_ord_ok ord ->
  set_result (genq_get_users_for_role ord s n d) (users_for_role s n d).
Proof.
  intros ord s n d Hord. unfold set_result. cbv delta [users_for_role get_ast].
  q_split; q_unfold; set_leaf Hord.
Qed.

(* has_role_for_user: a search of the listing, in whatever order it comes *)
Theorem genq_has_role_for_user_spec : forall ord s n r d, q_ord_ok ord ->
  genq_has_role_for_user ord s n r d = Some (memb teqb r (roles_for_user s n d)).
Proof.
  intros ord s n r d Hord. unfold genq_has_role_for_user.
  destruct (genq_get_roles_for_user_spec ord s n d Hord) as (l & Hl & Hin). rewrite Hl.
  assert (E : forall p, (forall x, p x = teqb x r) -> existsb p l = memb teqb r (roles_for_user s n d)).
  { intros p Hp. unfold memb. apply existsb_same; [exact Hin|]. intros x. rewrite Hp. apply teqb_sym. }
  cbv beta iota zeta.
  try (loop_scan (fun x : text => Some (rs_eq x r)) ltac:(intros x; q_body); rewrite scan_total).
  q_unfold; unfold rs_vec_contains.
  erewrite E; [|intros x; unfold rs_eq; first [reflexivity|apply teqb_sym]].
  destruct (memb teqb r (roles_for_user s n d)); reflexivity.
Qed.

Theorem genq_get_permissions_for_user_eq : forall s u d,
  genq_get_permissions_for_user s u d = perms_for_user s u d.
Proof. intros s u d. cbv delta [perms_for_user]. q_split; q_unfold; reflexivity. Qed.

(* no query of its own: has_policy of the vector with the user in FRONT *)
Theorem genq_has_permission_for_user_eq : forall s u p,
  genq_has_permission_for_user s u p = Some (m_has_policy (e_model s) s_p s_p (u :: p)).
Proof. intros s u p. q_split; q_unfold; reflexivity. Qed.

(* ------------------------------------------------------------------ *)
(* Part 5: get_implicit_roles_for_user                                 *)

(* how the element is taken out of the work list: swap_remove(0) / remove(0) /
   pop() all give SOME element and leave the others *)
Ltac take_one q Hq :=
  let x := fresh "x" in let q1 := fresh "q1" in let Hrem := fresh "Hrem" in let Hperm := fresh "Hperm" in
  match goal with
  | |- context [rs_swap_remove q 0] => destruct (rs_swap_remove_0 q Hq) as (x & q1 & Hrem & Hperm)
  | |- context [rs_vec_remove q 0] => destruct (rs_vec_remove_0 q Hq) as (x & q1 & Hrem & Hperm)
  | |- context [rs_vec_pop q] => destruct (rs_vec_pop_ne q Hq) as (x & q1 & Hrem & Hperm)
  end;
  exists x, q1; split; [exact Hperm|]; rewrite Hrem; cbv beta iota zeta.

(* the visit of one successor *)
Ltac wl_body :=
  intros; cbv beta iota zeta;
  repeat match goal with p : (_ * _)%type |- _ => destruct p end;
  cbv beta iota zeta; unfold wl_visit, rs_push, hs_contains, hs_insert_new, hs_insert;
  first [ reflexivity
        | match goal with |- context [existsb ?p ?l] => destruct (existsb p l) end; reflexivity ].

(* the two obligations of the work-list theorems (Proofs/QueryP.v, D) about the
   condition and the body of the translated `while` *)
Ltac wl_cond := intros q res; destruct q; reflexivity.
Ltac wl_step :=
  let q := fresh "q" in let res := fresh "res" in let Hq := fresh "Hq" in
  intros q res Hq; cbv beta iota; take_one q Hq;
  unfold rm_get_roles, handle_get_roles;
  loop_fold wl_visit ltac:(wl_body);
  repeat match goal with |- context [let (_, _) := ?p in _] => destruct p end; reflexivity.

(* for ALL states (no invariant needed): the source terminates and returns the
   transitive closure of the direct-role listing of the enforcer's CURRENT
   manager (`get_role_manager()`), each name once *)
Theorem genq_get_implicit_roles_for_user_closure : forall ord fuel s n d,
  q_ord_ok ord -> length (edge_targets (f_rm (e_fs s)) d) + 2 <= fuel ->
  exists l, genq_get_implicit_roles_for_user ord fuel s n d = Some l /\ NoDup l /\
            forall y, In y l <-> clos_trans text (fun a b => In b (get_roles (f_rm (e_fs s)) a d)) n y.
Proof.
  intros ord fuel s n d Hord Hfuel. unfold genq_get_implicit_roles_for_user. q_unfold.
  match goal with
  | |- context [rs_while fuel ?c ?b ?s0] =>
      destruct (worklist_roles_any ord (f_rm (e_fs s)) d c b n fuel Hord) as (res & Hrun & Hnd & Hres)
  end.
  - wl_cond.
  - wl_step.
  - exact Hfuel.
  - rewrite Hrun. cbv beta iota. eexists. split; [reflexivity|]. split.
    + apply q_ord_NoDup; assumption.
    + intros y. rewrite (q_ord_In _ _ _ Hord). apply Hres.
Qed.

(* against the MODEL, within the MODEL's fuel.  `wf` (every link joins two nodes of
   the graph; an invariant of the reachable states) is needed: see wf_needed below *)
Theorem genq_get_implicit_roles_for_user_spec : forall ord fuel s n d,
  q_ord_ok ord -> wf (f_rm (e_fs s)) -> S (S (graph_size (f_rm (e_fs s)) d)) <= fuel ->
  exists l, genq_get_implicit_roles_for_user ord fuel s n d = Some l /\ NoDup l /\
            forall y, In y l <-> In y (implicit_roles s n d).
Proof.
  intros ord fuel s n d Hord Hwf Hfuel. unfold genq_get_implicit_roles_for_user. q_unfold.
  match goal with
  | |- context [rs_while fuel ?c ?b ?s0] =>
      destruct (worklist_roles ord (f_rm (e_fs s)) d c b n fuel Hord Hwf) as (res & Hrun & Hnd & Hres)
  end.
  - wl_cond.
  - wl_step.
  - exact Hfuel.
  - rewrite Hrun. cbv beta iota. eexists. split; [reflexivity|]. split.
    + apply q_ord_NoDup; assumption.
    + intros y. rewrite (q_ord_In _ _ _ Hord), Hres. symmetry. apply implicit_roles_spec, Hwf.
Qed.

(* without wf the MODEL's loop can run out of its own fuel: a manager (not reachable
   through the API) whose graph has the nodes a, z and the links a->b, a->c, a->e,
   a->z, z->y.  The model's fuel S (S 2) is spent before z is expanded and
   implicit_roles misses y, which the source returns *)
Definition odd_rm : rmgr :=
  [(DEFAULT_DOMAIN, {| nodes := [T "a"; T "z"];
                       edges := [(T "a", T "b"); (T "a", T "c"); (T "a", T "e"); (T "a", T "z"); (T "z", T "y")] |})].
Definition odd_state : estate :=
  upd_fs ex0 {| f_rm := odd_rm; f_rm_max := 10; f_gfuns := f_gfuns (e_fs ex0); f_ufuns := [] |}.
Example wf_needed :
  implicit_roles odd_state (T "a") None = [T "b"; T "c"; T "e"; T "z"] /\
  genq_get_implicit_roles_for_user (fun l => l) 7 odd_state (T "a") None =
    Some [T "b"; T "c"; T "e"; T "z"; T "y"] /\
  length (edge_targets (f_rm (e_fs odd_state)) None) + 2 = 7.
Proof. vm_compute. repeat split; reflexivity. Qed.

(* ------------------------------------------------------------------ *)
(* Part 6: get_implicit_permissions_for_user                           *)

(* the permissions of the user FIRST (roles.insert(0, user)), then those of
   every implicit role: the model's concatenation over u :: implicit_roles,
   visited in another order - the same multiset, the same panics *)
Theorem genq_get_implicit_permissions_for_user_spec : forall ord fuel s u d,
  q_ord_ok ord -> wf (f_rm (e_fs s)) -> S (S (graph_size (f_rm (e_fs s)) d)) <= fuel ->
  opt_perm (genq_get_implicit_permissions_for_user ord fuel s u d) (implicit_perms s u d).
Proof.
  intros ord fuel s u d Hord Hwf Hfuel. unfold genq_get_implicit_permissions_for_user.
  destruct (genq_get_implicit_roles_for_user_spec ord fuel s u d Hord Hwf Hfuel) as (l & Hl & Hnd & Hin).
  rewrite Hl. cbv beta iota zeta. unfold rs_extend, rs_push. cbn [app].
  loop_foldopt (fun r : text => genq_get_permissions_for_user s r d)
               (fun (acc : list rule) (y : list rule) => acc ++ y) ltac:(q_body).
  rewrite (map_opt_ext _ (fun r => perms_for_user s r d)) by (intros x; apply genq_get_permissions_for_user_eq).
  assert (Hp : Permutation (u :: l) (u :: implicit_roles s u d)).
  { apply perm_skip, NoDup_Permutation; [exact Hnd|apply implicit_roles_NoDup, Hwf|exact Hin]. }
  pose proof (concat_opt_perm (fun r => perms_for_user s r d) _ _ Hp) as HP.
  change (concat_opt (map (fun r => perms_for_user s r d) (u :: implicit_roles s u d)))
    with (implicit_perms s u d) in HP.
  rewrite concat_opt_map_opt in HP.
  destruct (map_opt (fun r => perms_for_user s r d) (u :: l)) as [ys|]; cbv beta iota.
  - rewrite fold_app_concat. exact HP.
  - exact HP.
Qed.

(* ------------------------------------------------------------------ *)
(* Part 7: get_implicit_users_for_permission                           *)

Theorem genq_get_all_subjects_eq : forall s, genq_get_all_subjects s = m_values (e_model s) s_p s_p 0.
Proof. intros s. q_split; q_unfold; reflexivity. Qed.
Theorem genq_get_all_roles_eq : forall s, genq_get_all_roles s = m_values (e_model s) s_g s_g 1.
Proof. intros s. q_split; q_unfold; reflexivity. Qed.

(* the candidates the model examines: the subjects of p/p and the users of every
   role of g/g (current manager, default domain) that are not role names *)
Definition iu_candidates (s : estate) : option (list text) :=
  match m_values (e_model s) s_p s_p 0, m_values (e_model s) s_g s_g 1 with
  | Some subjects, Some roles =>
    Some (filter (fun u => negb (memb teqb u roles))
                 (subjects ++ flat_map (fun r => get_users (f_rm (e_fs s)) r None) roles))
  | _, _ => None
  end.
Definition enf_panics (ptab : text -> option expr) (s : estate) (perm : rule) (u : text) : bool :=
  match enforce ptab s (map VStr (u :: perm)) with Panic => true | _ => false end.
Definition enf_grants (ptab : text -> option expr) (s : estate) (perm : rule) (u : text) : bool :=
  match enforce ptab s (map VStr (u :: perm)) with Ok true => true | _ => false end.

(* one candidate: the decision paired with the name, None = enforce panicked *)
Definition iu_check (ptab : text -> option expr) (s : estate) (perm : rule) (x : text) : option (text * bool) :=
  match enf_enforce ptab s (x :: perm) with
  | Ok r => Some (x, r)
  | Err _ => Some (x, false)
  | Panic => None
  end.

Lemma iu_check_ok : forall ptab s perm x, enf_panics ptab s perm x = false ->
  iu_check ptab s perm x = Some (x, enf_grants ptab s perm x).
Proof.
  intros ptab s perm x. unfold enf_panics, enf_grants, iu_check, enf_enforce.
  destruct (enforce ptab s (map VStr (x :: perm))) as [[|]|e|]; intros H; try reflexivity. discriminate H.
Qed.
Lemma iu_check_panic : forall ptab s perm x, enf_panics ptab s perm x = true -> iu_check ptab s perm x = None.
Proof.
  intros ptab s perm x. unfold enf_panics, iu_check, enf_enforce.
  destruct (enforce ptab s (map VStr (x :: perm))) as [[|]|e|]; intros H; try discriminate H. reflexivity.
Qed.

(* for ALL states: the source panics exactly when the model answers None (a
   listing panics, or enforce panics on some candidate); otherwise it returns
   the model's set, without duplicates *)
Theorem genq_get_implicit_users_for_permission_spec : forall ptab ord s perm, q_ord_ok ord ->
  match implicit_users ptab s perm with
  | None => genq_get_implicit_users_for_permission ptab ord s perm = None
  | Some l => exists l', genq_get_implicit_users_for_permission ptab ord s perm = Some l' /\
                         NoDup l' /\ forall y, In y l' <-> In y l
  end.
Proof.
  intros ptab ord s perm Hord. unfold genq_get_implicit_users_for_permission, implicit_users.
  rewrite genq_get_all_subjects_eq, genq_get_all_roles_eq.
  destruct (m_values (e_model s) s_p s_p 0) as [subjects|]; [|reflexivity].
  destruct (m_values (e_model s) s_g s_g 1) as [roles|]; [|reflexivity].
  cbv beta iota zeta. q_unfold. unfold rm_get_users, handle_get_users.
  loop_foldopt (iu_check ptab s perm) uf_step
               ltac:(intros x res; cbv beta iota zeta; unfold iu_check, uf_step, rs_push;
                     destruct (enf_enforce ptab s (x :: perm)) as [[|]|e|]; reflexivity).
  match goal with |- context [map_opt _ ?l] => set (users := l) end.
  set (cands := filter (fun u => negb (memb teqb u roles))
                       (subjects ++ flat_map (fun r => get_users (f_rm (e_fs s)) r None) roles)).
  assert (Hmem : forall x, In x users <-> In x cands).
  { subst users cands. apply filter_same_members.
    - intros x. rewrite !in_app_iff, !in_flat_map. split.
      + intros [H|[r [Hr Hx]]]; [left; exact H|right]. exists r. split; [exact Hr|].
        apply (q_ord_In _ _ _ Hord), Hx.
      + intros [H|[r [Hr Hx]]]; [left; exact H|right]. exists r. split; [exact Hr|].
        apply (q_ord_In _ _ _ Hord), Hx.
    - intros x. f_equal. unfold rs_vec_contains, memb. apply existsb_same; [reflexivity|].
      intros y. unfold rs_eq. apply teqb_sym. }
  match goal with
  | |- context [if ?c then None else _] => change c with (existsb (enf_panics ptab s perm) cands)
  end.
  destruct (existsb (enf_panics ptab s perm) cands) eqn:Epan; cbv beta iota.
  - apply existsb_exists in Epan. destruct Epan as [x [Hx Hp]].
    rewrite (map_opt_none _ users x (proj2 (Hmem x) Hx) (iu_check_panic _ _ _ _ Hp)). reflexivity.
  - assert (Hnp : forall x, In x users -> enf_panics ptab s perm x = false).
    { intros x Hx. destruct (enf_panics ptab s perm x) eqn:E; [|reflexivity].
      assert (C : existsb (enf_panics ptab s perm) cands = true).
      { apply existsb_exists. exists x. split; [apply Hmem, Hx|exact E]. }
      congruence. }
    rewrite (map_opt_total _ (fun x => (x, enf_grants ptab s perm x)) users)
      by (intros x Hx; apply iu_check_ok, Hnp, Hx).
    cbv beta iota.
    destruct (uf_fold (map (fun x => (x, enf_grants ptab s perm x)) users) [] (NoDup_nil _)) as [Hnd Hin].
    eexists. split; [reflexivity|]. split; [exact Hnd|].
    intros y. rewrite Hin, dedup_In, filter_In, in_map_iff. cbn [In]. split.
    + intros [[]|[x [E Hx]]]. injection E as Ex Hg. subst x. split; [|tauto].
      split; [apply Hmem, Hx|]. unfold enf_grants in Hg. exact Hg.
    + intros [[Hy Hg] _]. right. exists y. split; [|apply Hmem, Hy].
      f_equal. unfold enf_grants. exact Hg.
Qed.

(* ------------------------------------------------------------------ *)
(* Part 8: the RBAC API against `ask`                                  *)
Theorem genq_get_roles_for_user_ok : forall ptab ord s n d, q_ord_ok ord ->
  answer_equiv (ans_nameset (genq_get_roles_for_user ord s n d)) (ask ptab s (QRolesFor n d)).
Proof. intros ptab ord s n d H. apply set_result_answer, genq_get_roles_for_user_spec, H. Qed.

Theorem genq_get_users_for_role_ok : forall ptab ord s n d, q_ord_ok ord ->
  answer_equiv (ans_nameset (genq_get_users_for_role ord s n d)) (ask ptab s (QUsersFor n d)).
Proof. intros ptab ord s n d H. apply set_result_answer, genq_get_users_for_role_spec, H. Qed.

Theorem genq_has_role_for_user_ok : forall ptab ord s n r d, q_ord_ok ord ->
  ans_bool (genq_has_role_for_user ord s n r d) = ask ptab s (QHasRole n r d).
Proof. intros ptab ord s n r d H. rewrite (genq_has_role_for_user_spec ord s n r d H). reflexivity. Qed.

Theorem genq_get_permissions_for_user_ok : forall ptab s u d,
  ans_rules (genq_get_permissions_for_user s u d) = ask ptab s (QPermsFor u d).
Proof. intros ptab s u d. rewrite genq_get_permissions_for_user_eq. reflexivity. Qed.

Theorem genq_has_permission_for_user_ok : forall ptab s u p,
  ans_bool (genq_has_permission_for_user s u p) = ask ptab s (QHasPolicy s_p s_p (u :: p)).
Proof. intros ptab s u p. rewrite genq_has_permission_for_user_eq. reflexivity. Qed.

Theorem genq_get_implicit_roles_for_user_ok : forall ptab ord fuel s n d,
  q_ord_ok ord -> wf (f_rm (e_fs s)) -> S (S (graph_size (f_rm (e_fs s)) d)) <= fuel ->
  answer_equiv (ans_nameset (genq_get_implicit_roles_for_user ord fuel s n d)) (ask ptab s (QImplicitRoles n d)).
Proof.
  intros ptab ord fuel s n d Hord Hwf Hfuel. apply set_result_answer.
  destruct (genq_get_implicit_roles_for_user_spec ord fuel s n d Hord Hwf Hfuel) as (l & Hl & _ & Hin).
  exists l. split; assumption.
Qed.

Theorem genq_get_implicit_permissions_for_user_ok : forall ptab ord fuel s u d,
  q_ord_ok ord -> wf (f_rm (e_fs s)) -> S (S (graph_size (f_rm (e_fs s)) d)) <= fuel ->
  answer_equiv (ans_bag (genq_get_implicit_permissions_for_user ord fuel s u d))
               (ask ptab s (QImplicitPerms u d)).
Proof.
  intros ptab ord fuel s u d Hord Hwf Hfuel.
  apply (opt_perm_answer _ (implicit_perms s u d)), genq_get_implicit_permissions_for_user_spec; assumption.
Qed.

Theorem genq_get_implicit_users_for_permission_ok : forall ptab ord s perm, q_ord_ok ord ->
  answer_equiv (ans_nameset (genq_get_implicit_users_for_permission ptab ord s perm))
               (ask ptab s (QImplicitUsers perm)).
Proof.
  intros ptab ord s perm Hord.
  pose proof (genq_get_implicit_users_for_permission_spec ptab ord s perm Hord) as H.
  cbv delta [ask]. cbv beta iota.
  destruct (implicit_users ptab s perm) as [l|].
  - destruct H as (l' & Hg & _ & Hin). rewrite Hg. exact Hin.
  - rewrite H. reflexivity.
Qed.

(* the state of the finding: the casbin RBAC example model with an effect
   expression that DefaultEffector::new_stream does not know
   (`panic!("unsupported effect")`), one stored permission; alice is a candidate,
   enforce panics on her: the source panics, and so does the (repaired) model *)
Definition bad_model : model :=
  [ (s_r, [(s_r, mk_ast (T "sub, obj, act") r_toks3)]);
    (s_p, [(s_p, mk_ast (T "sub, obj, act") p_toks3)]);
    (s_g, [(s_g, mk_ast (T "_, _") [])]);
    (s_e, [(s_e, mk_ast (T "some(where (p_eft == maybe))") [])]);
    (s_m, [(s_m, mk_ast (T "g(r_sub, p_sub) && r_obj == p_obj && r_act == p_act") [])]) ].
Definition bad_def : modeldef := {| d_model := bad_model; d_mexprs := [(s_m, rbac_matcher)] |}.
Definition bad1 : estate :=
  run_ops (fst (new_enforcer bad_def ANull false))
          [ORbac (RAddPermission (T "alice") [T "data"; T "read"])].

Example bad1_both_panic :
  iu_candidates bad1 = Some [T "alice"] /\
  enforce ptab0 bad1 (map VStr [T "alice"; T "data"; T "read"]) = Panic /\
  ask ptab0 bad1 (QImplicitUsers [T "data"; T "read"]) = AnsPanic /\
  genq_get_implicit_users_for_permission ptab0 (fun l => l) bad1 [T "data"; T "read"] = None.
Proof. vm_compute. repeat split; reflexivity. Qed.

(* ------------------------------------------------------------------ *)
(* Part 9: the hypotheses are satisfiable, every function computes     *)
Example ex_ord_ok : q_ord_ok (@rev text).
Proof. exact q_ord_ok_rev. Qed.
Example ex_wf : wf (f_rm (e_fs ex1)).
Proof. exact ex1_wf. Qed.
Example ex_fuel : S (S (graph_size (f_rm (e_fs ex1)) None)) <= 6.
Proof. apply Nat.leb_le. vm_compute. reflexivity. Qed.

(* ex1 (Proofs/C13P.v): alice -> r1, r2 -> r3 -> r1 and four permissions *)
Example ex_mgmt :
  genq_get_policy ex1 = Some [[T "r3"; T "data"; T "read"]; [T "alice"; T "data"; T "own"];
                              [T "bob"; T "data2"; T "write"]; [T "r1"; T "x"; T "y"]] /\
  genq_get_filtered_policy ex1 1 [T "data"] =
    Some [[T "r3"; T "data"; T "read"]; [T "alice"; T "data"; T "own"]] /\
  genq_get_filtered_policy ex1 3 [T "data"] = None /\
  genq_has_policy ex1 [T "bob"; T "data2"; T "write"] = Some true /\
  genq_has_grouping_policy ex1 [T "alice"; T "r1"] = Some true /\
  genq_has_grouping_policy ex1 [T "r1"; T "alice"] = Some false /\
  genq_get_all_subjects ex1 = Some [T "r3"; T "alice"; T "bob"; T "r1"] /\
  genq_get_all_objects ex1 = Some [T "data"; T "data2"; T "x"] /\
  genq_get_all_actions ex1 = Some [T "read"; T "own"; T "write"; T "y"] /\
  genq_get_all_roles ex1 = Some [T "r2"; T "r3"; T "r1"] /\
  genq_get_all_named_roles ex1 (T "g2") = Some [] /\
  genq_get_filtered_grouping_policy ex1 1 [T "r3"] = Some [[T "r1"; T "r3"]; [T "r2"; T "r3"]] /\
  genq_get_all_grouping_policy ex1 =
    Some [[T "g"; T "g"; T "alice"; T "r1"]; [T "g"; T "g"; T "alice"; T "r2"]; [T "g"; T "g"; T "r1"; T "r3"];
          [T "g"; T "g"; T "r2"; T "r3"]; [T "g"; T "g"; T "r3"; T "r1"]].
Proof. vm_compute. repeat split; reflexivity. Qed.

Example ex_rbac :
  genq_get_roles_for_user (@rev text) ex1 (T "alice") None = Some [T "r1"; T "r2"] /\
  roles_for_user ex1 (T "alice") None = [T "r2"; T "r1"] /\
  genq_get_users_for_role (fun l => l) ex1 (T "r3") None = Some [T "r2"; T "r1"] /\
  genq_has_role_for_user (@rev text) ex1 (T "alice") (T "r2") None = Some true /\
  genq_has_role_for_user (@rev text) ex1 (T "alice") (T "r3") None = Some false /\
  genq_get_permissions_for_user ex1 (T "alice") None = Some [[T "alice"; T "data"; T "own"]] /\
  genq_has_permission_for_user ex1 (T "alice") [T "data"; T "own"] = Some true /\
  (* the work list visits in another order than the model's queue: the same set *)
  genq_get_implicit_roles_for_user (fun l => l) 6 ex1 (T "alice") None = Some [T "r2"; T "r1"; T "r3"] /\
  genq_get_implicit_roles_for_user (@rev text) 6 ex1 (T "alice") None = Some [T "r3"; T "r2"; T "r1"] /\
  implicit_roles ex1 (T "alice") None = [T "r2"; T "r1"; T "r3"] /\
  (* alice is on no cycle: 4 iterations + the last test of the condition = 5 <= 6; with 4 the loop is not finished *)
  genq_get_implicit_roles_for_user (fun l => l) 4 ex1 (T "alice") None = None /\
  genq_get_implicit_permissions_for_user (@rev text) 6 ex1 (T "r1") None =
    Some [[T "r1"; T "x"; T "y"]; [T "r1"; T "x"; T "y"]; [T "r3"; T "data"; T "read"]] /\
  implicit_perms ex1 (T "r1") None =
    Some [[T "r1"; T "x"; T "y"]; [T "r3"; T "data"; T "read"]; [T "r1"; T "x"; T "y"]] /\
  genq_get_implicit_users_for_permission ptab0 (@rev text) ex1 [T "data"; T "read"] = Some [T "alice"] /\
  ask ptab0 ex1 (QImplicitUsers [T "data"; T "read"]) = AnsNameSet [T "alice"].
Proof. vm_compute. repeat split; reflexivity. Qed.

Print Assumptions gen_query_translated_ok.
Print Assumptions genq_get_all_policy_ok.
Print Assumptions genq_get_roles_for_user_ok.
Print Assumptions genq_has_role_for_user_ok.
Print Assumptions genq_get_implicit_roles_for_user_spec.
Print Assumptions genq_get_implicit_roles_for_user_closure.
Print Assumptions genq_get_implicit_permissions_for_user_spec.
Print Assumptions genq_get_implicit_users_for_permission_spec.
Print Assumptions genq_get_implicit_users_for_permission_ok.
