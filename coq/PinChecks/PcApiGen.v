(* Obligations tying the TRANSLATED management / RBAC helpers (Gen/ApiGen.v,
   regenerated on every run by tools/rs2coq_api.py from
   /repo/src/management_api.rs and /repo/src/rbac_api.rs) to the hand-written
   model (Model/Engine.v): for ALL states and arguments

     - every generated management function is `step s (<op>)` with the section
       and policy type the model uses ("p" / "g"; the named forms keep the
       caller's policy type), and
     - every generated RBAC helper is `step_rbac s (<constructor> ..)`.

   Method.  ONE tactic, `api_eq`, closes the 31 obligations and never looks at
   the shape of the generated term: it unfolds the generated functions and the
   model's dispatchers down to the five internal entry points (step_add,
   step_add_many, step_remove, step_remove_many, step_remove_filtered), which
   stay opaque, computes the argument vectors, and then splits on every
   scrutinee (an Option argument, the outcome of an internal call, a flag)
   until both sides are the same term.  A rewrite of the Rust source that keeps
   its meaning and stays in the translated subset keeps these proofs; a change
   of meaning (another section literal, field index, vector, a skipped second
   call, a dropped error) leaves an unprovable leaf and the file no longer
   compiles.

   usize is translated to nat (unbounded); Rust vectors to lists. *)
From CV Require Import Model.Base Model.Enforce Model.Engine.
From CV Require Import Gen.ApiRt Gen.ApiGen Proofs.BaseP.
From Coq Require Import Bool List.
Import ListNotations.

Lemma gen_api_translated_ok : gen_api_translated = true.
Proof. reflexivity. Qed.

(* ------------------------------------------------------------------ *)
(* Part 1: what the vocabulary of Gen/ApiRt.v is                        *)

(* the flag of the pair returned by the filtered removal is the model's flag,
   the state and the failures are the model's *)
Lemma int_remove_filtered_flag : forall s sec pt i v,
  bind (int_remove_filtered s sec pt i v) (fun s' t => (s', Ok (fst t))) = step_remove_filtered s sec pt i v.
Proof.
  intros s sec pt i v. unfold bind, int_remove_filtered.
  destruct (step_remove_filtered s sec pt i v) as [s' [b|e|]]; reflexivity.
Qed.

(* `?` followed by Ok is the identity *)
Lemma bind_ret : forall (A : Type) (c : estate * outcome A), bind c (fun s a => (s, Ok a)) = c.
Proof. intros A [s [a|e|]]; reflexivity. Qed.

(* the model's seq_or is `let a = x?; let b = y?; Ok(a || b)` *)
Lemma seq_or_bind : forall c f,
  seq_or c f = bind c (fun s a => bind (f s) (fun s' b => (s', Ok (a || b)))).
Proof.
  intros [s [a|e|]] f; cbn [seq_or bind]; [|reflexivity|reflexivity].
  destruct (f s) as [s' [b|e|]]; reflexivity.
Qed.

(* ------------------------------------------------------------------ *)
(* Part 2: the tactic                                                   *)

(* everything generated, the vocabulary, and the model's dispatchers - NOT the
   internal entry points *)
Ltac api_unfold :=
  cbv beta iota zeta delta
    [gen_add_named_policy gen_add_named_policies gen_remove_named_policy gen_remove_named_policies
     gen_add_named_grouping_policy gen_add_named_grouping_policies
     gen_remove_named_grouping_policy gen_remove_named_grouping_policies
     gen_remove_filtered_named_policy gen_remove_filtered_named_grouping_policy
     gen_add_policy gen_add_policies gen_remove_policy gen_remove_policies
     gen_add_grouping_policy gen_add_grouping_policies gen_remove_grouping_policy gen_remove_grouping_policies
     gen_remove_filtered_policy gen_remove_filtered_grouping_policy
     gen_add_permission_for_user gen_add_permissions_for_user gen_add_role_for_user gen_add_roles_for_user
     gen_delete_role_for_user gen_delete_roles_for_user gen_delete_user gen_delete_role
     gen_delete_permission gen_delete_permission_for_user gen_delete_permissions_for_user
     bind on_result int_remove_filtered
     step step_rbac seq_or dom_rule s_p s_g T rule text];
  cbn [fst snd map app orb andb negb list_ascii_of_string].

(* split on every scrutinee, innermost first, re-normalising after each split *)
Ltac api_split :=
  repeat (api_unfold;
          match goal with
          | |- context [match ?x with _ => _ end] => is_var x; destruct x
          | |- context [match ?x with _ => _ end] =>
              lazymatch x with
              | context [match _ with _ => _ end] => fail
              | _ => destruct x
              end
          end).

(* a leaf: the same term; or the same up to the flags (a || b against b || a,
   if a then true else b, ..); or the same call on vectors that are built by
   pointwise equal maps *)
Ltac api_bools := repeat match goal with b : bool |- _ => destruct b end.
Ltac api_leaf :=
  first [ reflexivity
        | api_bools; reflexivity
        | repeat f_equal; apply map_ext; intro; api_split; reflexivity ].

Ltac api_eq := intros; api_split; api_unfold; api_leaf.

(* ------------------------------------------------------------------ *)
(* Part 3: management API = step                                        *)

(* the blanket impl: named forms -> internal entry points *)
Theorem gen_add_named_policy_ok : forall s pt r,
  gen_add_named_policy s pt r = step s (OAdd s_p pt r).
Proof. api_eq. Qed.
Theorem gen_add_named_policies_ok : forall s pt rs,
  gen_add_named_policies s pt rs = step s (OAddMany s_p pt rs).
Proof. api_eq. Qed.
Theorem gen_remove_named_policy_ok : forall s pt r,
  gen_remove_named_policy s pt r = step s (ORemove s_p pt r).
Proof. api_eq. Qed.
Theorem gen_remove_named_policies_ok : forall s pt rs,
  gen_remove_named_policies s pt rs = step s (ORemoveMany s_p pt rs).
Proof. api_eq. Qed.
Theorem gen_add_named_grouping_policy_ok : forall s pt r,
  gen_add_named_grouping_policy s pt r = step s (OAdd s_g pt r).
Proof. api_eq. Qed.
Theorem gen_add_named_grouping_policies_ok : forall s pt rs,
  gen_add_named_grouping_policies s pt rs = step s (OAddMany s_g pt rs).
Proof. api_eq. Qed.
Theorem gen_remove_named_grouping_policy_ok : forall s pt r,
  gen_remove_named_grouping_policy s pt r = step s (ORemove s_g pt r).
Proof. api_eq. Qed.
Theorem gen_remove_named_grouping_policies_ok : forall s pt rs,
  gen_remove_named_grouping_policies s pt rs = step s (ORemoveMany s_g pt rs).
Proof. api_eq. Qed.
Theorem gen_remove_filtered_named_policy_ok : forall s pt i v,
  gen_remove_filtered_named_policy s pt i v = step s (ORemoveFiltered s_p pt i v).
Proof. api_eq. Qed.
Theorem gen_remove_filtered_named_grouping_policy_ok : forall s pt i v,
  gen_remove_filtered_named_grouping_policy s pt i v = step s (ORemoveFiltered s_g pt i v).
Proof. api_eq. Qed.

(* the default methods: un-named forms, default policy type = the section name *)
Theorem gen_add_policy_ok : forall s r, gen_add_policy s r = step s (OAdd s_p s_p r).
Proof. api_eq. Qed.
Theorem gen_add_policies_ok : forall s rs, gen_add_policies s rs = step s (OAddMany s_p s_p rs).
Proof. api_eq. Qed.
Theorem gen_remove_policy_ok : forall s r, gen_remove_policy s r = step s (ORemove s_p s_p r).
Proof. api_eq. Qed.
Theorem gen_remove_policies_ok : forall s rs, gen_remove_policies s rs = step s (ORemoveMany s_p s_p rs).
Proof. api_eq. Qed.
Theorem gen_add_grouping_policy_ok : forall s r, gen_add_grouping_policy s r = step s (OAdd s_g s_g r).
Proof. api_eq. Qed.
Theorem gen_add_grouping_policies_ok : forall s rs,
  gen_add_grouping_policies s rs = step s (OAddMany s_g s_g rs).
Proof. api_eq. Qed.
Theorem gen_remove_grouping_policy_ok : forall s r,
  gen_remove_grouping_policy s r = step s (ORemove s_g s_g r).
Proof. api_eq. Qed.
Theorem gen_remove_grouping_policies_ok : forall s rs,
  gen_remove_grouping_policies s rs = step s (ORemoveMany s_g s_g rs).
Proof. api_eq. Qed.
Theorem gen_remove_filtered_policy_ok : forall s i v,
  gen_remove_filtered_policy s i v = step s (ORemoveFiltered s_p s_p i v).
Proof. api_eq. Qed.
Theorem gen_remove_filtered_grouping_policy_ok : forall s i v,
  gen_remove_filtered_grouping_policy s i v = step s (ORemoveFiltered s_g s_g i v).
Proof. api_eq. Qed.

(* ------------------------------------------------------------------ *)
(* Part 4: RBAC API = step_rbac                                         *)

Theorem gen_add_permission_for_user_ok : forall s u p,
  gen_add_permission_for_user s u p = step_rbac s (RAddPermission u p).
Proof. api_eq. Qed.
Theorem gen_add_permissions_for_user_ok : forall s u ps,
  gen_add_permissions_for_user s u ps = step_rbac s (RAddPermissions u ps).
Proof. api_eq. Qed.
Theorem gen_add_role_for_user_ok : forall s u r d,
  gen_add_role_for_user s u r d = step_rbac s (RAddRole u r d).
Proof. api_eq. Qed.
Theorem gen_add_roles_for_user_ok : forall s u rs d,
  gen_add_roles_for_user s u rs d = step_rbac s (RAddRoles u rs d).
Proof. api_eq. Qed.
Theorem gen_delete_role_for_user_ok : forall s u r d,
  gen_delete_role_for_user s u r d = step_rbac s (RDeleteRole u r d).
Proof. api_eq. Qed.
Theorem gen_delete_roles_for_user_ok : forall s u d,
  gen_delete_roles_for_user s u d = step_rbac s (RDeleteRoles u d).
Proof. api_eq. Qed.
Theorem gen_delete_user_ok : forall s n,
  gen_delete_user s n = step_rbac s (RDeleteUser n).
Proof. api_eq. Qed.
Theorem gen_delete_role_ok : forall s n,
  gen_delete_role s n = step_rbac s (RDeleteRoleAll n).
Proof. api_eq. Qed.
Theorem gen_delete_permission_ok : forall s p,
  gen_delete_permission s p = step_rbac s (RDeletePermission p).
Proof. api_eq. Qed.
Theorem gen_delete_permission_for_user_ok : forall s u p,
  gen_delete_permission_for_user s u p = step_rbac s (RDeletePermissionFor u p).
Proof. api_eq. Qed.
Theorem gen_delete_permissions_for_user_ok : forall s u,
  gen_delete_permissions_for_user s u = step_rbac s (RDeletePermissionsFor u).
Proof. api_eq. Qed.

(* all RBAC helpers at once, as the `step` of the operation type *)
Definition gen_rbac (s : estate) (o : rbac_op) : estate * outcome bool :=
  match o with
  | RAddPermission u p => gen_add_permission_for_user s u p
  | RAddPermissions u ps => gen_add_permissions_for_user s u ps
  | RAddRole u r d => gen_add_role_for_user s u r d
  | RAddRoles u rs d => gen_add_roles_for_user s u rs d
  | RDeleteRole u r d => gen_delete_role_for_user s u r d
  | RDeleteRoles u d => gen_delete_roles_for_user s u d
  | RDeleteUser n => gen_delete_user s n
  | RDeleteRoleAll n => gen_delete_role s n
  | RDeletePermission p => gen_delete_permission s p
  | RDeletePermissionFor u p => gen_delete_permission_for_user s u p
  | RDeletePermissionsFor u => gen_delete_permissions_for_user s u
  end.

Theorem gen_rbac_ok : forall s o, gen_rbac s o = step s (ORbac o).
Proof.
  intros s o. change (step s (ORbac o)) with (step_rbac s o).
  destruct o as [u p|u ps|u r d|u rs d|u r d|u d|n|n|p|u p|u]; cbn [gen_rbac].
  - apply gen_add_permission_for_user_ok.
  - apply gen_add_permissions_for_user_ok.
  - apply gen_add_role_for_user_ok.
  - apply gen_add_roles_for_user_ok.
  - apply gen_delete_role_for_user_ok.
  - apply gen_delete_roles_for_user_ok.
  - apply gen_delete_user_ok.
  - apply gen_delete_role_ok.
  - apply gen_delete_permission_ok.
  - apply gen_delete_permission_for_user_ok.
  - apply gen_delete_permissions_for_user_ok.
Qed.

(* ------------------------------------------------------------------ *)
(* Part 5: the statements are not vacuous - the generated functions RUN, on a
   concrete RBAC enforcer (Proofs/ExModels.v: rbac_def over a memory adapter,
   auto-save and auto-build-role-links on), and every path is taken          *)
From CV Require Import Proofs.ExModels.

Definition ex_api : estate :=
  mk rbac_def (mem [pl alice data1 read; pl admin data1 write; gl alice admin; gl bob admin]).
Definition ex_p (r : estate * outcome bool) : list rule := m_get_policy (e_model (fst r)) s_p s_p.
Definition ex_g (r : estate * outcome bool) : list rule := m_get_policy (e_model (fst r)) s_g s_g.
(* the same enforcer behind an adapter whose next call fails / the one after *)
Definition ex_api_fail (script : list resp) : estate :=
  upd_adapter ex_api (AScripted (e_adapter ex_api) script).

(* grouping rules with a domain *)
Definition ex_dom : estate :=
  mk rbac_def (mem [[s_g; s_g; bob; root; T "dom"]; [s_g; s_g; bob; admin; T "other"];
                    [s_g; s_g; alice; admin; T "dom"]]).

Example ex_api_state :
  ex_p (ex_api, Ok true) = [[alice; data1; read]; [admin; data1; write]] /\
  ex_g (ex_api, Ok true) = [[alice; admin]; [bob; admin]].
Proof. vm_compute. split; reflexivity. Qed.

(* delete_user: both removals run (g first, then p, on the state left by the
   first); the flags are or-ed: alice is in both, bob in g only, admin (as a
   subject) in p only, carol in neither *)
Example gen_delete_user_ex :
  (let r := gen_delete_user ex_api alice in
   snd r = Ok true /\ ex_g r = [[bob; admin]] /\ ex_p r = [[admin; data1; write]]) /\
  (let r := gen_delete_user ex_api bob in
   snd r = Ok true /\ ex_g r = [[alice; admin]] /\ ex_p r = ex_p (ex_api, Ok true)) /\
  (let r := gen_delete_user ex_api admin in
   snd r = Ok true /\ ex_g r = ex_g (ex_api, Ok true) /\ ex_p r = [[alice; data1; read]]) /\
  (let r := gen_delete_user ex_api (T "carol") in
   snd r = Ok false /\ ex_g r = ex_g (ex_api, Ok true) /\ ex_p r = ex_p (ex_api, Ok true)).
Proof. vm_compute. repeat split. Qed.

(* `?`: an error of the first removal stops the helper - nothing is removed;
   an error of the second one leaves the first removal done *)
Example gen_delete_user_err_ex :
  (let r := gen_delete_user (ex_api_fail [RFail]) alice in
   snd r = Err EAdapter /\ ex_g r = ex_g (ex_api, Ok true) /\ ex_p r = ex_p (ex_api, Ok true)) /\
  (let r := gen_delete_user (ex_api_fail [RPass; RFail]) alice in
   snd r = Err EAdapter /\ ex_g r = [[bob; admin]] /\ ex_p r = ex_p (ex_api, Ok true)).
Proof. vm_compute. repeat split. Qed.

(* delete_role: field 1 of g (the role), field 0 of p *)
Example gen_delete_role_ex :
  (let r := gen_delete_role ex_api admin in
   snd r = Ok true /\ ex_g r = [] /\ ex_p r = [[alice; data1; read]]) /\
  (let r := gen_delete_role ex_api alice in
   snd r = Ok true /\ ex_g r = ex_g (ex_api, Ok true) /\ ex_p r = [[admin; data1; write]]).
Proof. vm_compute. repeat split. Qed.

Example gen_roles_ex :
  (let r := gen_add_role_for_user ex_api bob root None in
   snd r = Ok true /\ ex_g r = [[alice; admin]; [bob; admin]; [bob; root]]) /\
  (let r := gen_add_role_for_user ex_api bob root (Some (T "dom")) in
   snd r = Ok true /\ ex_g r = [[alice; admin]; [bob; admin]; [bob; root; T "dom"]]) /\
  (let r := gen_add_role_for_user ex_api bob admin None in snd r = Ok false) /\
  (let r := gen_add_roles_for_user ex_api bob [root; T "dev"] None in
   snd r = Ok true /\ ex_g r = [[alice; admin]; [bob; admin]; [bob; root]; [bob; T "dev"]]) /\
  (let r := gen_delete_role_for_user ex_api alice admin None in
   snd r = Ok true /\ ex_g r = [[bob; admin]]) /\
  (let r := gen_delete_roles_for_user ex_api alice None in
   snd r = Ok true /\ ex_g r = [[bob; admin]]) /\
  (* with a domain the filter is [user; ""; domain]: "" is the wildcard for the role *)
  (let r := gen_delete_roles_for_user ex_dom bob (Some (T "dom")) in
   snd r = Ok true /\ ex_g r = [[bob; admin; T "other"]; [alice; admin; T "dom"]]) /\
  (* ... and it is longer than a two-field grouping rule: the model (like the source, which
     indexes the rule) panics; both sides of gen_delete_roles_for_user_ok do *)
  (let s1 := fst (gen_add_role_for_user ex_api bob root (Some (T "dom"))) in
   snd (gen_delete_roles_for_user s1 bob (Some (T "dom"))) = Panic).
Proof. vm_compute. repeat split. Qed.

Example gen_permissions_ex :
  (let r := gen_add_permission_for_user ex_api bob [data2; write] in
   snd r = Ok true /\ ex_p r = [[alice; data1; read]; [admin; data1; write]; [bob; data2; write]]) /\
  (let r := gen_add_permissions_for_user ex_api bob [[data2; write]; [data2; read]] in
   snd r = Ok true /\
   ex_p r = [[alice; data1; read]; [admin; data1; write]; [bob; data2; write]; [bob; data2; read]]) /\
  (let r := gen_delete_permission ex_api [data1; write] in
   snd r = Ok true /\ ex_p r = [[alice; data1; read]]) /\
  (let r := gen_delete_permission_for_user ex_api alice [data1; read] in
   snd r = Ok true /\ ex_p r = [[admin; data1; write]]) /\
  (let r := gen_delete_permissions_for_user ex_api admin in
   snd r = Ok true /\ ex_p r = [[alice; data1; read]]).
Proof. vm_compute. repeat split. Qed.

Example gen_mgmt_ex :
  (let r := gen_add_policy ex_api [bob; data2; read] in
   snd r = Ok true /\ ex_p r = [[alice; data1; read]; [admin; data1; write]; [bob; data2; read]]) /\
  (let r := gen_add_grouping_policy ex_api [bob; root] in
   snd r = Ok true /\ ex_g r = [[alice; admin]; [bob; admin]; [bob; root]] /\ ex_p r = ex_p (ex_api, Ok true)) /\
  (let r := gen_remove_filtered_named_policy ex_api s_p 1 [data1] in snd r = Ok true /\ ex_p r = []) /\
  (let r := gen_remove_filtered_named_policy ex_api s_p 1 [data2] in
   snd r = Ok false /\ ex_p r = ex_p (ex_api, Ok true)) /\
  (* a policy type the model does not define: nothing is added (the adapter is not asked twice) *)
  (let r := gen_add_named_policy ex_api (T "p2") [bob; data2; read] in ex_p r = ex_p (ex_api, Ok true)) /\
  (let r := gen_remove_policies ex_api [[alice; data1; read]; [admin; data1; write]] in
   snd r = Ok true /\ ex_p r = []).
Proof. vm_compute. repeat split. Qed.

(* the pair of the filtered removal: flag and removed rules *)
Example int_remove_filtered_ex :
  snd (int_remove_filtered ex_api s_g s_g 1 [admin]) = Ok (true, [[alice; admin]; [bob; admin]]).
Proof. vm_compute. reflexivity. Qed.

Print Assumptions gen_api_translated_ok.
Print Assumptions int_remove_filtered_flag.
Print Assumptions seq_or_bind.
Print Assumptions gen_add_named_policy_ok.
Print Assumptions gen_add_named_policies_ok.
Print Assumptions gen_remove_named_policy_ok.
Print Assumptions gen_remove_named_policies_ok.
Print Assumptions gen_add_named_grouping_policy_ok.
Print Assumptions gen_add_named_grouping_policies_ok.
Print Assumptions gen_remove_named_grouping_policy_ok.
Print Assumptions gen_remove_named_grouping_policies_ok.
Print Assumptions gen_remove_filtered_named_policy_ok.
Print Assumptions gen_remove_filtered_named_grouping_policy_ok.
Print Assumptions gen_add_policy_ok.
Print Assumptions gen_add_policies_ok.
Print Assumptions gen_remove_policy_ok.
Print Assumptions gen_remove_policies_ok.
Print Assumptions gen_add_grouping_policy_ok.
Print Assumptions gen_add_grouping_policies_ok.
Print Assumptions gen_remove_grouping_policy_ok.
Print Assumptions gen_remove_grouping_policies_ok.
Print Assumptions gen_remove_filtered_policy_ok.
Print Assumptions gen_remove_filtered_grouping_policy_ok.
Print Assumptions gen_add_permission_for_user_ok.
Print Assumptions gen_add_permissions_for_user_ok.
Print Assumptions gen_add_role_for_user_ok.
Print Assumptions gen_add_roles_for_user_ok.
Print Assumptions gen_delete_role_for_user_ok.
Print Assumptions gen_delete_roles_for_user_ok.
Print Assumptions gen_delete_user_ok.
Print Assumptions gen_delete_role_ok.
Print Assumptions gen_delete_permission_ok.
Print Assumptions gen_delete_permission_for_user_ok.
Print Assumptions gen_delete_permissions_for_user_ok.
Print Assumptions gen_rbac_ok.
