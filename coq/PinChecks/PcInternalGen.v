(* Obligations tying the TRANSLATED management entry points (Gen/InternalGen.v,
   regenerated on every run by tools/rs2coq.py, part 4, from
   /repo/src/internal_api.rs: add_policy_internal, add_policies_internal,
   remove_policy_internal, remove_policies_internal,
   remove_filtered_policy_internal of `impl<T> InternalApi for T`, with the
   cfg blocks resolved for incremental + watcher + cached) to the hand-written
   steps of Model/Engine.v: step_add, step_add_many, step_remove,
   step_remove_many, step_remove_filtered.  The two coincide for EVERY state
   and EVERY argument.

   Method.  The generated programs follow the source: the adapter call under
   `has_auto_save_enabled() && ..`, the early `return Ok(false)`, the model call,
   the watcher notification under `changed && has_auto_notify_watcher_enabled()`,
   ClearCache under `changed`, the guard `sec != "g" || !auto_build || !changed`
   and the incremental link update with its `?`, in the order of the text.  The
   hand-written steps factor the same behaviour differently (a let-bound
   adapter result, emit_mgmt, after_change, lerr_out).  ONE tactic,
   `internal_eq`, closes all obligations without looking at the shape of
   either side: it unfolds both, and splits on every scrutinee that is left
   (the flags of the state, the adapter outcome, the model's "changed" flag,
   `teqb sec "g"`, the outcome of the link update) until both sides are
   syntactically equal.  A rewrite of the Rust source that keeps its meaning
   inside the translated subset keeps these proofs; a change of meaning
   (another order of the effects, a dropped guard, other arguments of an
   EventData) leaves a leaf `(state, outcome) = (state', outcome')` that is
   not provable and the file no longer compiles.

   ClearCache.  For the plain enforcer emit(ClearCache) does nothing
   (InternalPrims.emit_clear_cache is the identity), so its position could not
   matter in the five equalities above.  The generated programs therefore take
   the hook as a parameter (`gen_.._cc clear_cache`), and part 3 proves, for
   EVERY hook that leaves the three flags alone, that they equal the hand
   steps with the hook called once, iff the model reported a change, between
   the notification and the link update (`step_.._cc`).  With an arbitrary
   hook its position is observable: calling it after the `?` of the link
   update, before the notification, or unconditionally breaks part 3. *)
From CV Require Import Model.Base Model.Enforce Model.Engine.
From CV Require Import Gen.InternalPrims Gen.InternalGen Proofs.BaseP Proofs.ExModels.

Lemma gen_internal_translated_ok : gen_internal_translated = true.
Proof. reflexivity. Qed.

(* ------------------------------------------------------------------ *)
(* Part 1: the tactic                                                  *)

Ltac ig_unfold :=
  unfold gen_add_policy_internal, gen_add_policies_internal, gen_remove_policy_internal,
         gen_remove_policies_internal, gen_remove_filtered_policy_internal,
         gen_add_policy_internal_cc, gen_add_policies_internal_cc, gen_remove_policy_internal_cc,
         gen_remove_policies_internal_cc, gen_remove_filtered_policy_internal_cc,
         step_add, step_add_many, step_remove, step_remove_many, step_remove_filtered,
         after_change, emit_mgmt, emit, lerr_out, build_incremental_role_links, emit_clear_cache, s_g.

(* the record updates and the boolean connectives are unfolded everywhere; a
   projection only where it meets a record (so that `e_auto_build (cc s)` stays
   recognisable for the hypotheses on the ClearCache hook) *)
Ltac ig_simpl :=
  cbv beta iota zeta delta [upd_model upd_adapter upd_fs upd_wlog negb orb andb fst snd];
  cbn [e_model e_mexprs e_adapter e_fs e_enabled e_auto_save e_auto_build e_auto_notify
       e_callbacks e_watcher e_wlog].

(* one case split; the order matters only for speed: variables first, then the
   booleans a condition is made of, then the opaque calls *)
Ltac ig_step :=
  match goal with
  | |- context [teqb (T "g") ?x] =>
    lazymatch x with T _ => fail | _ => rewrite (teqb_sym (T "g") x) end
  | |- context [match ?x with _ => _ end] => is_var x; destruct x
  | |- context [if ?c then _ else _] =>
    match c with context [?b] => is_var b; lazymatch type of b with bool => destruct b end end
  | |- context [teqb ?a ?b] => destruct (teqb a b) eqn:?
  | |- context [match ?x with _ => _ end] =>
    (* an innermost scrutinee only: a call of a primitive *)
    lazymatch x with context [match _ with _ => _ end] => fail | _ => idtac end;
    destruct x eqn:?
  end.

(* rw: rewriting with the hypotheses on the ClearCache hook (idtac for the plain programs) *)
Ltac internal_eq_with rw :=
  ig_unfold;
  match goal with s : estate |- _ => destruct s as [md0 mx0 ad0 fs0 en0 sv0 bl0 nt0 cb0 wt0 wl0] end;
  repeat (ig_simpl; rw; ig_simpl; try reflexivity; ig_step);
  ig_simpl; reflexivity.

Ltac internal_eq := internal_eq_with idtac.

(* ------------------------------------------------------------------ *)
(* Part 2: the five obligations                                        *)

Theorem gen_add_policy_internal_ok : forall s sec pt r,
  gen_add_policy_internal s sec pt r = step_add s sec pt r.
Proof. intros s sec pt r. internal_eq. Qed.

Theorem gen_add_policies_internal_ok : forall s sec pt rs,
  gen_add_policies_internal s sec pt rs = step_add_many s sec pt rs.
Proof. intros s sec pt rs. internal_eq. Qed.

Theorem gen_remove_policy_internal_ok : forall s sec pt r,
  gen_remove_policy_internal s sec pt r = step_remove s sec pt r.
Proof. intros s sec pt r. internal_eq. Qed.

Theorem gen_remove_policies_internal_ok : forall s sec pt rs,
  gen_remove_policies_internal s sec pt rs = step_remove_many s sec pt rs.
Proof. intros s sec pt rs. internal_eq. Qed.

Theorem gen_remove_filtered_policy_internal_ok : forall s sec pt idx vals,
  gen_remove_filtered_policy_internal s sec pt idx vals = step_remove_filtered s sec pt idx vals.
Proof. intros s sec pt idx vals. internal_eq. Qed.

(* ------------------------------------------------------------------ *)
(* Part 3: the position of ClearCache                                  *)

Section ClearCachePosition.
  Variable cc : estate -> estate.

  (* the hand-written steps with the hook of the cached enforcer made
     explicit: once, iff the model changed, after the watcher notification and
     before the role links are updated (so also when that update fails) *)
  Definition clear_if (changed : bool) (s : estate) : estate := if changed then cc s else s.

  Definition step_add_cc (s : estate) (sec pt : text) (r : rule) : estate * outcome bool :=
    let (ad, ares) := if e_auto_save s then ad_add (e_adapter s) sec pt r else (e_adapter s, Ok true) in
    let s1 := upd_adapter s ad in
    match ares with
    | Ok true =>
      let (md, added) := m_add_policy (e_model s1) sec pt r in
      let s2 := clear_if added (emit_mgmt (upd_model s1 md) added (EvAdd sec pt r)) in
      after_change s2 sec pt added true [r]
    | other => (s1, other)
    end.

  Definition step_add_many_cc (s : estate) (sec pt : text) (rs : list rule) : estate * outcome bool :=
    let (ad, ares) := if e_auto_save s then ad_add_many (e_adapter s) sec pt rs else (e_adapter s, Ok true) in
    let s1 := upd_adapter s ad in
    match ares with
    | Ok true =>
      let (md, added) := m_add_policies (e_model s1) sec pt rs in
      let s2 := clear_if added (emit_mgmt (upd_model s1 md) added (EvAddMany sec pt rs)) in
      after_change s2 sec pt added true rs
    | other => (s1, other)
    end.

  Definition step_remove_cc (s : estate) (sec pt : text) (r : rule) : estate * outcome bool :=
    let (ad, ares) := if e_auto_save s then ad_remove (e_adapter s) sec pt r else (e_adapter s, Ok true) in
    let s1 := upd_adapter s ad in
    match ares with
    | Ok true =>
      let (md, removed) := m_remove_policy (e_model s1) sec pt r in
      let s2 := clear_if removed (emit_mgmt (upd_model s1 md) removed (EvRemove sec pt r)) in
      after_change s2 sec pt removed false [r]
    | other => (s1, other)
    end.

  Definition step_remove_many_cc (s : estate) (sec pt : text) (rs : list rule) : estate * outcome bool :=
    let (ad, ares) := if e_auto_save s then ad_remove_many (e_adapter s) sec pt rs else (e_adapter s, Ok true) in
    let s1 := upd_adapter s ad in
    match ares with
    | Ok true =>
      let (md, removed) := m_remove_policies (e_model s1) sec pt rs in
      let s2 := clear_if removed (emit_mgmt (upd_model s1 md) removed (EvRemoveMany sec pt rs)) in
      after_change s2 sec pt removed false rs
    | other => (s1, other)
    end.

  Definition step_remove_filtered_cc (s : estate) (sec pt : text) (idx : nat) (vals : list text)
    : estate * outcome bool :=
    let (ad, ares) := if e_auto_save s then ad_remove_filtered (e_adapter s) sec pt idx vals
                      else (e_adapter s, Ok true) in
    let s1 := upd_adapter s ad in
    match ares with
    | Ok true =>
      match m_remove_filtered (e_model s1) sec pt idx vals with
      | None => (s1, Panic)
      | Some (md, removed, rs) =>
        let s2 := clear_if removed (emit_mgmt (upd_model s1 md) removed (EvRemoveFiltered sec pt rs)) in
        if negb (teqb sec s_g) || negb (e_auto_build s2) then (s2, Ok removed)
        else let (s3, e) := incremental_links s2 pt false rs in (s3, lerr_out e removed)
      end
    | other => (s1, other)
    end.

  (* ClearCache does not touch the switches of the enforcer *)
  Hypothesis cc_auto_save : forall s, e_auto_save (cc s) = e_auto_save s.
  Hypothesis cc_auto_build : forall s, e_auto_build (cc s) = e_auto_build s.
  Hypothesis cc_auto_notify : forall s, e_auto_notify (cc s) = e_auto_notify s.

  Ltac cc_rw := rewrite ?cc_auto_save, ?cc_auto_build, ?cc_auto_notify.
  Ltac internal_cc_eq := unfold step_add_cc, step_add_many_cc, step_remove_cc, step_remove_many_cc,
                                step_remove_filtered_cc, clear_if; internal_eq_with cc_rw.

  Lemma gen_add_policy_internal_cc_ok0 : forall s sec pt r,
    gen_add_policy_internal_cc cc s sec pt r = step_add_cc s sec pt r.
  Proof. intros s sec pt r. internal_cc_eq. Qed.

  Lemma gen_add_policies_internal_cc_ok0 : forall s sec pt rs,
    gen_add_policies_internal_cc cc s sec pt rs = step_add_many_cc s sec pt rs.
  Proof. intros s sec pt rs. internal_cc_eq. Qed.

  Lemma gen_remove_policy_internal_cc_ok0 : forall s sec pt r,
    gen_remove_policy_internal_cc cc s sec pt r = step_remove_cc s sec pt r.
  Proof. intros s sec pt r. internal_cc_eq. Qed.

  Lemma gen_remove_policies_internal_cc_ok0 : forall s sec pt rs,
    gen_remove_policies_internal_cc cc s sec pt rs = step_remove_many_cc s sec pt rs.
  Proof. intros s sec pt rs. internal_cc_eq. Qed.

  Lemma gen_remove_filtered_policy_internal_cc_ok0 : forall s sec pt idx vals,
    gen_remove_filtered_policy_internal_cc cc s sec pt idx vals = step_remove_filtered_cc s sec pt idx vals.
  Proof. intros s sec pt idx vals. internal_cc_eq. Qed.
End ClearCachePosition.

(* the statements of part 3, closed over the hook *)
Definition cc_keeps_flags (cc : estate -> estate) : Prop :=
  (forall s, e_auto_save (cc s) = e_auto_save s) /\
  (forall s, e_auto_build (cc s) = e_auto_build s) /\
  (forall s, e_auto_notify (cc s) = e_auto_notify s).

Theorem gen_add_policy_internal_cc_ok : forall cc, cc_keeps_flags cc -> forall s sec pt r,
  gen_add_policy_internal_cc cc s sec pt r = step_add_cc cc s sec pt r.
Proof. intros cc [Hs [Hb Hn]]. apply gen_add_policy_internal_cc_ok0; assumption. Qed.

Theorem gen_add_policies_internal_cc_ok : forall cc, cc_keeps_flags cc -> forall s sec pt rs,
  gen_add_policies_internal_cc cc s sec pt rs = step_add_many_cc cc s sec pt rs.
Proof. intros cc [Hs [Hb Hn]]. apply gen_add_policies_internal_cc_ok0; assumption. Qed.

Theorem gen_remove_policy_internal_cc_ok : forall cc, cc_keeps_flags cc -> forall s sec pt r,
  gen_remove_policy_internal_cc cc s sec pt r = step_remove_cc cc s sec pt r.
Proof. intros cc [Hs [Hb Hn]]. apply gen_remove_policy_internal_cc_ok0; assumption. Qed.

Theorem gen_remove_policies_internal_cc_ok : forall cc, cc_keeps_flags cc -> forall s sec pt rs,
  gen_remove_policies_internal_cc cc s sec pt rs = step_remove_many_cc cc s sec pt rs.
Proof. intros cc [Hs [Hb Hn]]. apply gen_remove_policies_internal_cc_ok0; assumption. Qed.

Theorem gen_remove_filtered_policy_internal_cc_ok : forall cc, cc_keeps_flags cc -> forall s sec pt idx vals,
  gen_remove_filtered_policy_internal_cc cc s sec pt idx vals = step_remove_filtered_cc cc s sec pt idx vals.
Proof. intros cc [Hs [Hb Hn]]. apply gen_remove_filtered_policy_internal_cc_ok0; assumption. Qed.

(* the reference steps of part 3 are the model's steps once the hook does nothing *)
Theorem step_cc_id : forall s sec pt r rs idx vals,
  step_add_cc (fun x => x) s sec pt r = step_add s sec pt r /\
  step_add_many_cc (fun x => x) s sec pt rs = step_add_many s sec pt rs /\
  step_remove_cc (fun x => x) s sec pt r = step_remove s sec pt r /\
  step_remove_many_cc (fun x => x) s sec pt rs = step_remove_many s sec pt rs /\
  step_remove_filtered_cc (fun x => x) s sec pt idx vals = step_remove_filtered s sec pt idx vals.
Proof.
  intros s sec pt r rs idx vals.
  unfold step_add_cc, step_add_many_cc, step_remove_cc, step_remove_many_cc, step_remove_filtered_cc, clear_if.
  repeat split; internal_eq.
Qed.

(* ------------------------------------------------------------------ *)
(* Part 4: the statements are not vacuous                              *)

(* an RBAC enforcer with a watcher and one callback, auto-save / auto-build /
   auto-notify on, memory adapter *)
Definition ig_w : estate :=
  fst (new_enforcer rbac_def (mem [pl admin data1 read; gl alice admin]) true).
Definition ig_flags (s : estate) := (e_auto_save s, e_auto_build s, e_auto_notify s, e_watcher s, e_callbacks s).

(* every effect of the translated code happens: adapter, model, watcher, role links *)
Example gen_add_policy_internal_ex :
  ig_flags ig_w = (true, true, true, true, 1) /\
  let (s', r) := gen_add_policy_internal ig_w s_g s_g [bob; admin] in
  r = Ok true /\ roles_for_user ig_w bob None = [] /\ roles_for_user s' bob None = [admin] /\
  e_wlog s' = [EvAdd s_g s_g [bob; admin]] /\
  e_adapter s' = mem [pl admin data1 read; gl alice admin; gl bob admin].
Proof. vm_compute. repeat split. Qed.

(* nothing changes: no notification, no link update, Ok(false) *)
Example gen_add_policy_internal_ex_same :
  let (s', r) := gen_add_policy_internal ig_w s_g s_g [alice; admin] in
  r = Ok false /\ e_wlog s' = [] /\ e_model s' = e_model ig_w.
Proof. vm_compute. repeat split. Qed.

(* the `?` of the link update: the rule is stored and announced, the call fails *)
Example gen_add_policy_internal_ex_err :
  let (s', r) := gen_add_policy_internal ig_w s_g s_g [bob] in
  r = Err EPolicy /\ e_wlog s' = [EvAdd s_g s_g [bob]] /\
  e_adapter s' = mem [pl admin data1 read; gl alice admin; [s_g; s_g; bob]].
Proof. vm_compute. repeat split. Qed.

(* the adapter refuses (early return Ok(false)), then fails (the `?` after .await) *)
Example gen_add_policies_internal_ex :
  let s0 := upd_adapter ig_w (AScripted (e_adapter ig_w) [RRefuse; RFail; RPass]) in
  let (s1, r1) := gen_add_policies_internal s0 s_p s_p [[bob; data1; read]] in
  let (s2, r2) := gen_add_policies_internal s1 s_p s_p [[bob; data1; read]] in
  let (s3, r3) := gen_add_policies_internal s2 s_p s_p [[bob; data1; read]] in
  r1 = Ok false /\ r2 = Err EAdapter /\ r3 = Ok true /\
  e_model s2 = e_model ig_w /\ e_wlog s2 = [] /\ e_wlog s3 = [EvAddMany s_p s_p [[bob; data1; read]]].
Proof. vm_compute. repeat split. Qed.

Example gen_remove_policy_internal_ex :
  let (s', r) := gen_remove_policy_internal ig_w s_g s_g [alice; admin] in
  r = Ok true /\ roles_for_user ig_w alice None = [admin] /\ roles_for_user s' alice None = [] /\
  e_wlog s' = [EvRemove s_g s_g [alice; admin]] /\ e_adapter s' = mem [pl admin data1 read].
Proof. vm_compute. repeat split. Qed.

Example gen_remove_policies_internal_ex :
  snd (gen_remove_policies_internal ig_w s_g s_g [[alice; admin]; [alice; root]]) = Ok false /\
  let (s', r) := gen_remove_policies_internal ig_w s_g s_g [[alice; admin]] in
  r = Ok true /\ roles_for_user s' alice None = [] /\ e_wlog s' = [EvRemoveMany s_g s_g [[alice; admin]]].
Proof. vm_compute. repeat split. Qed.

(* the watcher and the link update receive the REMOVED rules *)
Example gen_remove_filtered_policy_internal_ex :
  let (s', r) := gen_remove_filtered_policy_internal ig_w s_g s_g 0 [alice] in
  r = Ok true /\ roles_for_user s' alice None = [] /\
  e_wlog s' = [EvRemoveFiltered s_g s_g [[alice; admin]]] /\ e_adapter s' = mem [pl admin data1 read].
Proof. vm_compute. repeat split. Qed.

(* the hypothesis of part 3 is satisfiable by a hook that is not the identity,
   and with it the position of the hook is visible in the result: here the
   hook empties the watcher's log, and what is left is what was sent AFTER it *)
Definition ig_cc (s : estate) : estate := upd_wlog s [].
Example cc_keeps_flags_ex : cc_keeps_flags ig_cc /\ cc_keeps_flags emit_clear_cache.
Proof. repeat split. Qed.
Example gen_add_policy_internal_cc_ex :
  e_wlog (fst (gen_add_policy_internal_cc ig_cc ig_w s_g s_g [bob; admin])) = [] /\
  e_wlog (fst (gen_add_policy_internal_cc ig_cc ig_w s_g s_g [alice; admin])) = [] /\
  roles_for_user (fst (gen_add_policy_internal_cc ig_cc ig_w s_g s_g [bob; admin])) bob None = [admin].
Proof. vm_compute. repeat split. Qed.

Print Assumptions gen_internal_translated_ok.
Print Assumptions gen_add_policy_internal_ok.
Print Assumptions gen_add_policies_internal_ok.
Print Assumptions gen_remove_policy_internal_ok.
Print Assumptions gen_remove_policies_internal_ok.
Print Assumptions gen_remove_filtered_policy_internal_ok.
Print Assumptions gen_add_policy_internal_cc_ok.
Print Assumptions gen_add_policies_internal_cc_ok.
Print Assumptions gen_remove_policy_internal_cc_ok.
Print Assumptions gen_remove_policies_internal_cc_ok.
Print Assumptions gen_remove_filtered_policy_internal_cc_ok.
Print Assumptions step_cc_id.
