(* Obligations tying the TRANSLATED bookkeeping of the bundled adapters
   (Gen/AdaptersGen.v, regenerated on every run by tools/rs2coq.py from
   /repo/src/adapter/memory_adapter.rs, file_adapter.rs, string_adapter.rs) to
   the adapter model of Model/Engine.v:

     MemoryAdapter   load_policy = ad0_load, load_filtered_policy =
                     ad0_load_filtered (mem_load_filtered), save_policy =
                     ad0_save (mem_lines), clear_policy = ad0_clear, add_policy
                     = ad0_add, add_policies = ad0_add_many, remove_policy =
                     ad0_remove, remove_policies = ad0_remove_many,
                     remove_filtered_policy = ad0_remove_filtered
                     (mem_filter_lines), is_filtered = ad_is_filtered
                     on the AMemory state (lines, filtered)
     line handlers   load_policy_line = load_line on the parsed line,
                     load_filtered_policy_line / the loop body of
                     StringAdapter::load_filtered_policy = one step of
                     str_load_filtered (get_filtered_out + sec_filter, then
                     load_line), StringAdapter::load_policy /
                     load_filtered_policy = ad0_load / ad0_load_filtered on
                     AString (parsed_lines content)
   for ALL inputs, panics included.

   Where the source and the model differ (FINDINGS, each with a concrete
   witness `.._refuted` below) the model is total on states a MemoryAdapter can
   never be in - its `policy` is a private LinkedHashSet filled only by
   add_policy / add_policies / save_policy, so its lines are pairwise different
   and carry section and policy type (`mem_wf`, an invariant of every
   translated operation: `.._wf` below) - or on model stores whose rule lists
   contain a duplicate (save_policy):
     F1 a stored line with fewer than two fields: load_policy,
        load_filtered_policy and remove_filtered_policy index line[0] / line[1]
        / line[2..] and panic, the model skips the line (load) or compares
        with "" (remove_filtered);
     F2 a duplicate stored line: remove_filtered_policy rebuilds the set by
        insert (the duplicate disappears), the model keeps both;
     F3 save_policy inserts every line with LinkedHashSet::insert (a repeated
        line moves to the back), the model keeps the first occurrence
        (ins_new): they differ only when the model store produces the same
        line twice.
   The exact statements hold for all inputs against the source-exact
   specifications (`mrf_spec`, `lines_wfb`, fold of oset_insert); the
   equalities with the model hold on every reachable state.

   Method: as in PinChecks/PcStoreGen.v.  No induction on a generated term:
   every loop is rewritten by a loop SHAPE of Proofs/RustVecP.v from a pointwise
   description of its body that one tactic (`afinish`) proves without looking
   at the shape of the generated term. *)
From CV Require Import Model.Base Model.Csv Model.Enforce Model.Engine.
From CV Require Import Gen.RustStr Gen.RustVec Gen.AdaptersPrims Gen.AdaptersGen.
From CV Require Import Proofs.BaseP Proofs.C04SetP Proofs.RustVecP Proofs.AdaptersP.
From Coq Require Import Lia.

Lemma gen_adapters_translated_ok : gen_adapters_translated = true.
Proof. reflexivity. Qed.

(* ------------------------------------------------------------------ *)
(* the tactic (PcStoreGen.v's, with the operations of AdaptersPrims.v) *)

(* a scrutinee that was split on before (E : x = value) may appear again once a loop has been
   rewritten or the model side is brought back *)
Ltac hyp_rewrite :=
  repeat match goal with
         | H : ?x = ?y |- context [?x] =>
             tryif is_var x then fail else
             lazymatch y with
             | context [x] => fail
             | _ => rewrite H
             end
         end.

Ltac anorm1 :=
  cbv beta iota zeta;
  rewrite ?rs_is_empty_nil, ?rs_vec_is_empty_nil, ?rs_vec_eq_reqb, ?rs_oset_remove_rremove,
          ?rs_enumerate_enum_from, ?teqb_nil_r, ?rs_for_nil,
          ?rs_model_get_assoc, ?rs_astmap_get_assoc, ?rs_model_put_set_ast, ?rs_ast_set_policy_with,
          ?rs_oset_contains_rmem, ?rs_oset_insert_oset, ?rs_oset_insert_new_rmem, ?rs_oset_remove_was_rmem,
          ?rs_first_char_first, ?Nat.add_1_r, ?nth_error_tl, ?orb_false_r, ?orb_true_r,
          ?nth_error_cons0, ?nth_error_consS, ?nth_error_nil;
  cbv delta [rs_eq rs_index rs_get rs_push rs_set_to_vec rs_set_new rs_fold rule rs_vec_insert0 rs_vec_extend
             rs_opt_eq rs_ast_policy rs_parse_csv_line rs_slice_from
             is_nil mem_line oset_insert ins_new get_ast first_char s_p s_g sec_filter option_map];
  cbv beta iota zeta;
  cbn [negb andb orb fst snd flow_stop rs_fn app fold_left length Nat.leb skipn];
  hyp_rewrite.
(* to a fixed point: a reduction can uncover an operation that an earlier rewrite could not reach *)
Ltac anorm := repeat (progress anorm1).

Ltac bool_hyps :=
  repeat match goal with
         | H : teqb _ _ = true |- _ => apply teqb_eq in H
         | H : teqb _ _ = false |- _ => apply teqb_neq in H
         | H : reqb _ _ = true |- _ => apply reqb_eq in H
         | H : reqb _ _ = false |- _ => apply reqb_neq in H
         | H : negb _ = true |- _ => apply negb_true_iff in H
         | H : negb _ = false |- _ => apply negb_false_iff in H
         | H : andb _ _ = true |- _ => apply andb_true_iff in H; destruct H
         | H : orb _ _ = false |- _ => apply orb_false_iff in H; destruct H
         end.

(* two indexings of the same vector at provably equal indices *)
Ltac nat_hyps :=
  repeat match goal with
         | H1 : nth_error ?r ?a = _, H2 : nth_error ?r ?b = _ |- _ =>
             lazymatch a with b => fail | _ => idtac end;
             let Q := fresh "Q" in assert (Q : a = b) by lia; rewrite Q in H1; clear Q
         end.

(* facts a leaf may need: a parsed line has a first token; two different literals; an absent line *)
Ltac facts :=
  try match goal with
      | H : parse_csv_line _ = Some [] |- _ => exfalso; exact (parse_csv_line_nonempty _ _ H eq_refl)
      end;
  repeat match goal with
         | H : _ = T _ |- _ => vm_compute in H
         | H : T _ = _ |- _ => vm_compute in H
         | H : _ <> T _ |- _ => vm_compute in H
         | H : T _ <> _ |- _ => vm_compute in H
         end;
  repeat match goal with
         | H : rmem ?r ?l = false |- context [rremove ?r ?l] => rewrite (rremove_absent_b r l H)
         end.

Ltac asplit_all :=
  repeat (anorm;
          match goal with
          | |- context [match ?x with _ => _ end] => is_var x; destruct x
          | |- context [match ?x with _ => _ end] =>
              lazymatch x with
              | context [match _ with _ => _ end] => fail
              | context [rs_for] => fail
              | _ => let E := fresh "E" in destruct x eqn:E
              end
          end).

Ltac eqb_split :=
  repeat match goal with
         | |- context [teqb ?a ?b] =>
             let E := fresh "E" in
             destruct (teqb a b) eqn:E; [apply teqb_eq in E; subst | apply teqb_neq in E]
         | |- context [reqb ?a ?b] =>
             let E := fresh "E" in
             destruct (reqb a b) eqn:E; [apply reqb_eq in E; subst | apply reqb_neq in E]
         end.

(* a boolean local left as an operand (a flag carried by a loop) *)
Ltac bool_vars :=
  repeat match goal with
         | |- context [orb ?b _] => is_var b; destruct b
         | |- context [andb ?b _] => is_var b; destruct b
         | |- context [negb ?b] => is_var b; destruct b
         end;
  cbn [orb andb negb].

Ltac aleaf :=
  first [ discriminate
        | reflexivity
        | solve [facts; reflexivity]
        | exfalso; nat_hyps; bool_hyps; subst; facts; congruence
        | congruence
        | bool_vars; nat_hyps; bool_hyps; subst; facts; eqb_split; anorm;
          first [reflexivity | congruence | exfalso; congruence] ].

Ltac afinish := asplit_all; anorm; aleaf.
(* the same when loops are still to be rewritten: `lt` rewrites the loops that the splits uncover.  The
   right-hand side (the model) is set aside meanwhile, so that it is split only once the loops of the
   left-hand side have become terms of the model too and share its scrutinees *)
Ltac afinish_loops lt :=
  match goal with
  | |- _ = ?r => let R := fresh "RHS" in let HR := fresh "HR" in
                 remember r as R eqn:HR; repeat (progress (asplit_all; try lt)); subst R
  end;
  afinish.
(* ... with a last rewriting step before the leaves are closed *)
Ltac afinish_loops_post lt post :=
  match goal with
  | |- _ = ?r => let R := fresh "RHS" in let HR := fresh "HR" in
                 remember r as R eqn:HR; repeat (progress (asplit_all; try lt)); subst R
  end;
  asplit_all; anorm; post; aleaf.

Ltac aloop_select chk upd tac :=
  anorm;
  match goal with
  | |- context [rs_for ?b ?l ?s] =>
      let H := fresh "Hbody" in
      assert (H : forall x s0, b x s0 = match chk x with
                                         | Some true => LNext (upd s0 x)
                                         | Some false => LNext s0
                                         | None => LPanic
                                         end) by tac;
      rewrite (rs_for_select b chk upd H); clear H
  end.

Ltac aloop_scan chk tac :=
  anorm;
  match goal with
  | |- context [rs_for ?b ?l ?s] =>
      let H := fresh "Hbody" in
      let T := type of b in
      lazymatch T with
      | _ -> _ -> flow ?S ?R =>
          let stop := open_constr:(_ : flow S R) in
          assert (H : forall x, b x s = match chk x with
                                        | Some true => stop
                                        | Some false => LNext s
                                        | None => LPanic
                                        end) by tac;
          rewrite (rs_for_scan b chk s stop H) by reflexivity; clear H
      end
  end.

Ltac aloop_fold f tac :=
  anorm;
  match goal with
  | |- context [rs_for ?b ?l ?s] =>
      let H := fresh "Hbody" in
      assert (H : forall x s0, b x s0 = LNext (f s0 x)) by tac;
      rewrite (rs_for_fold b f H); clear H
  end.

(* the same for a straight-line body: the update is read off the body *)
Ltac aloop_fold_auto :=
  anorm;
  match goal with
  | |- context [rs_for ?b ?l ?s] =>
      let H := fresh "Hbody" in
      let T := type of b in
      lazymatch T with
      | ?A -> ?S -> flow _ _ =>
          let f := open_constr:(_ : S -> A -> S) in
          assert (H : forall x s0, b x s0 = LNext (f s0 x)) by (intros ? ?; match goal with |- _ = ?r => let R := fresh "R" in set (R := r); anorm; subst R end; reflexivity);
          rewrite (rs_for_fold b f H); clear H
      end
  end.

Ltac aloop_foldopt g f tac :=
  anorm;
  match goal with
  | |- context [rs_for ?b ?l ?s] =>
      let H := fresh "Hbody" in
      assert (H : forall x s0, b x s0 = match g x with Some y => LNext (f s0 y) | None => LPanic end) by tac;
      rewrite (rs_for_foldopt b g f H); clear H
  end.

(* ------------------------------------------------------------------ *)
(* how a result of the model reads as a result of a translated function *)

(* the incremental operations: never Err on a memory adapter; Panic = None *)
Definition mem_out (x : adapter * outcome bool) : option (option ((list rule * bool) * bool)) :=
  match x with
  | (AMemory l f, Ok b) => Some (Some ((l, f), b))
  | (AMemory _ _, Panic) => Some None
  | _ => None
  end.
(* load / load_filtered *)
Definition mem_load_out (x : adapter * model * lres) : option (option ((list rule * bool * model) * unit)) :=
  match x with
  | (AMemory l f, md, LROk) => Some (Some ((l, f, md), tt))
  | (AMemory _ _, _, LRPanic) => Some None
  | _ => None
  end.
(* save (the model is not changed) / clear *)
Definition mem_unit_out (x : adapter * lres) : option (list rule * bool) :=
  match x with
  | (AMemory l f, LROk) => Some (l, f)
  | _ => None
  end.

(* ------------------------------------------------------------------ *)
(* (A) MemoryAdapter                                                   *)

(* ---- add_policy / remove_policy / clear_policy / is_filtered: all inputs ---- *)
Theorem gen_mem_add_policy_ok : forall l f sec pt r,
  Some (gen_mem_add_policy l f sec pt r) = mem_out (ad0_add (AMemory l f) sec pt r).
Proof. intros l f sec pt r. unfold gen_mem_add_policy, ad0_add, mem_out. afinish. Qed.

Theorem gen_mem_remove_policy_ok : forall l f sec pt r,
  Some (gen_mem_remove_policy l f sec pt r) = mem_out (ad0_remove (AMemory l f) sec pt r).
Proof. intros l f sec pt r. unfold gen_mem_remove_policy, ad0_remove, mem_out. afinish. Qed.

Theorem gen_mem_clear_policy_ok : forall l f,
  option_map fst (gen_mem_clear_policy l f) = mem_unit_out (ad0_clear (AMemory l f)).
Proof. intros l f. reflexivity. Qed.

Theorem gen_mem_is_filtered_ok : forall l f,
  gen_mem_is_filtered l f = Some (ad_is_filtered (AMemory l f)).
Proof. intros l f. reflexivity. Qed.

(* ---- add_policies / remove_policies: all inputs ---- *)
Theorem gen_mem_add_policies_ok : forall l f sec pt rs,
  Some (gen_mem_add_policies l f sec pt rs) = mem_out (ad0_add_many (AMemory l f) sec pt rs).
Proof.
  intros l f sec pt rs. unfold gen_mem_add_policies, ad0_add_many, mem_out.
  afinish_loops ltac:(first
    [ aloop_scan (fun x : rule => Some (rmem x l)) ltac:(intros x; afinish); rewrite scan_total
    | aloop_fold ins_new ltac:(intros x s0; afinish) ]).
Qed.

Theorem gen_mem_remove_policies_ok : forall l f sec pt rs,
  Some (gen_mem_remove_policies l f sec pt rs) = mem_out (ad0_remove_many (AMemory l f) sec pt rs).
Proof.
  intros l f sec pt rs. unfold gen_mem_remove_policies, ad0_remove_many, mem_out.
  afinish_loops ltac:(first
    [ aloop_scan (fun x : rule => Some (negb (rmem x l))) ltac:(intros x; afinish); rewrite scan_total, existsb_negb
    | aloop_fold (fun (l0 : list rule) (ln : rule) => rremove ln l0) ltac:(intros x s0; afinish) ]).
Qed.

(* ---- remove_filtered_policy ---- *)
(* the inner loop of the field filter over a stored line: fields start at index 2 *)
Ltac inner_filter_loop idx r :=
  aloop_scan (fcheck (idx + 2) r) ltac:(intros [? ?]; unfold fcheck; afinish);
  rewrite scan_fcheck0.

(* all inputs, against the walk of the source (Proofs/AdaptersP.v: mrf_spec - which line is looked at how,
   the early return on an empty filter, the flag, the second set filled by insert) *)
Theorem gen_mem_remove_filtered_policy_spec : forall l f sec pt idx vals,
  gen_mem_remove_filtered_policy l f sec pt idx vals =
  option_map (fun x => ((fst x, f), snd x)) (mrf_spec sec pt idx vals l).
Proof.
  intros l f sec pt idx vals. unfold gen_mem_remove_filtered_policy, mrf_spec.
  destruct vals as [|v vs]; [afinish|].
  afinish_loops ltac:(
    aloop_foldopt (mrf_check sec pt idx (v :: vs)) mrf_upd
                  ltac:(intros x [res tmp]; unfold mrf_check, mrf_upd;
                        afinish_loops ltac:(inner_filter_loop idx x))).
Qed.

(* on every state a MemoryAdapter can be in: the model *)
Theorem gen_mem_remove_filtered_policy_ok : forall l f sec pt idx vals, mem_wf l ->
  Some (gen_mem_remove_filtered_policy l f sec pt idx vals) =
  mem_out (ad0_remove_filtered (AMemory l f) sec pt idx vals).
Proof.
  intros l f sec pt idx vals Hwf. rewrite gen_mem_remove_filtered_policy_spec, (mrf_spec_model sec pt idx vals l Hwf).
  unfold ad0_remove_filtered, mem_out. destruct vals as [|v vs]; [reflexivity|].
  destruct (mem_filter_lines sec pt idx (v :: vs) l) as [[kept res]|]; reflexivity.
Qed.

(* its panics: a non-empty filter and a first line on which the walk of the source panics (mrf_check: line[0]
   missing; line[0] = sec and line[1] missing; both equal and the field filter runs off the line) *)
Theorem gen_mem_remove_filtered_policy_panics : forall l f sec pt idx vals,
  gen_mem_remove_filtered_policy l f sec pt idx vals = None <->
  vals <> [] /\ exists l1 ln l2, l = l1 ++ ln :: l2 /\ mrf_check sec pt idx vals ln = None /\
                                 (forall y, In y l1 -> mrf_check sec pt idx vals y <> None).
Proof.
  intros l f sec pt idx vals. rewrite gen_mem_remove_filtered_policy_spec, <- mrf_spec_None.
  destruct (mrf_spec sec pt idx vals l); split; try reflexivity; discriminate.
Qed.

(* the statement without the hypothesis is false of the model (findings F1, F2) *)
Definition gen_mem_remove_filtered_policy_full : Prop := forall l f sec pt idx vals,
  Some (gen_mem_remove_filtered_policy l f sec pt idx vals) =
  mem_out (ad0_remove_filtered (AMemory l f) sec pt idx vals).

Lemma gen_mem_remove_filtered_policy_refuted :
  (* F1: a line without a policy type: the source panics on line[1], the model compares with "" *)
  (exists l f sec pt idx vals,
     gen_mem_remove_filtered_policy l f sec pt idx vals = None /\
     ad0_remove_filtered (AMemory l f) sec pt idx vals = (AMemory l f, Ok false)) /\
  (* F2: a duplicate line: the rebuilt set holds it once, the model keeps both *)
  (exists l f sec pt idx vals,
     gen_mem_remove_filtered_policy l f sec pt idx vals = Some (([[T "p"; T "p"; T "a"]], f), false) /\
     ad0_remove_filtered (AMemory l f) sec pt idx vals = (AMemory [[T "p"; T "p"; T "a"]; [T "p"; T "p"; T "a"]] f, Ok false)).
Proof.
  split.
  - exists [[T "p"]], false, (T "p"), (T "p"), 0, [T "a"]. vm_compute. split; reflexivity.
  - exists [[T "p"; T "p"; T "a"]; [T "p"; T "p"; T "a"]], false, (T "p"), (T "p"), 0, [T "b"]. vm_compute. split; reflexivity.
Qed.

(* ---- load_policy ---- *)
(* all inputs: the loop indexes line[0], line[1], line[2..] of every stored line - it panics exactly when
   some line has fewer than two fields - and otherwise does what the model's load_mem_line does, line by line;
   is_filtered is reset *)
Theorem gen_mem_load_policy_spec : forall l f md,
  gen_mem_load_policy l f md =
  if lines_wfb l then Some ((l, false, fold_left load_mem_line l md), tt) else None.
Proof.
  intros l f md. unfold gen_mem_load_policy.
  aloop_foldopt line2 load_mem_line
                ltac:(intros [|a [|b fields]] s0; cbn [nth_error line2]; unfold load_mem_line; afinish).
  rewrite map_opt_line2. afinish.
Qed.

Theorem gen_mem_load_policy_ok : forall l f md, mem_wf l ->
  Some (gen_mem_load_policy l f md) = mem_load_out (ad0_load (AMemory l f) md).
Proof.
  intros l f md [_ Hwf]. rewrite gen_mem_load_policy_spec. apply lines_wfb_wf in Hwf. rewrite Hwf. reflexivity.
Qed.

Theorem gen_mem_load_policy_panics : forall l f md,
  gen_mem_load_policy l f md = None <-> exists ln, In ln l /\ length ln < 2.
Proof.
  intros l f md. rewrite gen_mem_load_policy_spec, <- lines_wfb_false.
  destruct (lines_wfb l); split; try reflexivity; discriminate.
Qed.

(* the statement without the hypothesis is false of the model (finding F1) *)
Definition gen_mem_load_policy_full : Prop := forall l f md,
  Some (gen_mem_load_policy l f md) = mem_load_out (ad0_load (AMemory l f) md).

Lemma gen_mem_load_policy_refuted : exists l f md,
  gen_mem_load_policy l f md = None /\ ad0_load (AMemory l f) md = (AMemory l false, md, LROk).
Proof. exists [[T "p"]], false, []. vm_compute. split; reflexivity. Qed.

(* ---- load_filtered_policy ---- *)
(* the loops over the filter values: a fold whose verdict is the model's get_filtered_out *)
Ltac filter_loop fields :=
  aloop_fold (fun (s : bool) (iv : nat * text) => s || fout fields iv)
             ltac:(intros [? ?] ?; unfold fout; afinish);
  rewrite fold_fout0.

Theorem gen_mem_load_filtered_policy_spec : forall l f md fp fg,
  gen_mem_load_filtered_policy l f md fp fg =
  if lines_wfb l
  then Some ((l, snd (mem_load_filtered fp fg md l), fst (mem_load_filtered fp fg md l)), tt)
  else None.
Proof.
  intros l f md fp fg. unfold gen_mem_load_filtered_policy.
  aloop_foldopt line2 (mem_step fp fg)
                ltac:(intros [|a [|b fields]] [fl0 m0]; cbn [nth_error line2]; unfold mem_step, load_mem_line;
                      afinish_loops ltac:(filter_loop fields)).
  rewrite map_opt_line2. destruct (lines_wfb l); [|reflexivity].
  rewrite mem_load_filtered_fold. afinish.
Qed.

Theorem gen_mem_load_filtered_policy_ok : forall l f md fp fg, mem_wf l ->
  Some (gen_mem_load_filtered_policy l f md fp fg) = mem_load_out (ad0_load_filtered (AMemory l f) fp fg md).
Proof.
  intros l f md fp fg [_ Hwf]. rewrite gen_mem_load_filtered_policy_spec. apply lines_wfb_wf in Hwf. rewrite Hwf.
  unfold ad0_load_filtered. destruct (mem_load_filtered fp fg md l) as [md' fl]. reflexivity.
Qed.

Theorem gen_mem_load_filtered_policy_panics : forall l f md fp fg,
  gen_mem_load_filtered_policy l f md fp fg = None <-> exists ln, In ln l /\ length ln < 2.
Proof.
  intros l f md fp fg. rewrite gen_mem_load_filtered_policy_spec, <- lines_wfb_false.
  destruct (lines_wfb l); split; try reflexivity; discriminate.
Qed.

Definition gen_mem_load_filtered_policy_full : Prop := forall l f md fp fg,
  Some (gen_mem_load_filtered_policy l f md fp fg) = mem_load_out (ad0_load_filtered (AMemory l f) fp fg md).

Lemma gen_mem_load_filtered_policy_refuted : exists l f md fp fg,
  gen_mem_load_filtered_policy l f md fp fg = None /\
  ad0_load_filtered (AMemory l f) fp fg md = (AMemory l false, md, LROk).
Proof. exists [[T "p"]], false, [], [], []. vm_compute. split; reflexivity. Qed.

(* ---- save_policy ---- *)
(* all inputs: the stored set is emptied, then every rule of every assertion of section "p", then of "g",
   goes through LinkedHashSet::insert as sec :: ptype :: rule (sec = first character of ptype; an assertion
   with an empty key is skipped); the model and is_filtered are untouched; never panics *)
Theorem gen_mem_save_policy_spec : forall l f md,
  gen_mem_save_policy l f md = Some ((fold_left oset_insert (mem_raw_lines md) [], f, md), tt).
Proof.
  intros l f md. unfold gen_mem_save_policy, mem_raw_lines.
  afinish_loops_post
    ltac:(aloop_fold save_key_step ltac:(intros [? ?] ?; unfold save_key_step; afinish_loops ltac:(aloop_fold_auto));
          rewrite fold_save_key_step)
    ltac:(rewrite ?fold_left_app, ?app_nil_r).
Qed.

(* the model (which keeps the FIRST occurrence of a repeated line) when the store yields no line twice *)
Theorem gen_mem_save_policy_ok : forall l f md, NoDup (mem_raw_lines md) ->
  option_map (fun x => (fst (fst (fst x)), snd (fst (fst x)))) (gen_mem_save_policy l f md)
  = mem_unit_out (ad0_save (AMemory l f) md).
Proof.
  intros l f md Hnd. rewrite gen_mem_save_policy_spec. unfold ad0_save, mem_unit_out, option_map. cbn [fst snd].
  rewrite mem_lines_raw, (fold_oset_insert_NoDup _ [] Hnd), (fold_ins_new_NoDup _ [] Hnd). reflexivity.
Qed.

(* ... in particular on a store whose rule lists are sets, whose keys are distinct within a section and
   whose sections "p" and "g" define different policy types (Proofs/AdaptersP.v: mem_raw_lines_NoDup) *)
Corollary gen_mem_save_policy_store_ok : forall l f md, store_sets md -> pg_keys_disjoint md ->
  option_map (fun x => (fst (fst (fst x)), snd (fst (fst x)))) (gen_mem_save_policy l f md)
  = mem_unit_out (ad0_save (AMemory l f) md).
Proof. intros l f md Hs Hd. apply gen_mem_save_policy_ok, mem_raw_lines_NoDup; assumption. Qed.

Definition gen_mem_save_policy_full : Prop := forall l f md,
  option_map (fun x => (fst (fst (fst x)), snd (fst (fst x)))) (gen_mem_save_policy l f md)
  = mem_unit_out (ad0_save (AMemory l f) md).

(* finding F3: a rule list that holds a rule twice (not a LinkedHashSet) *)
Definition dup_store : model :=
  [(T "p", [(T "p", {| a_value := []; a_tokens := []; a_handle := HOwn;
                        a_policy := [[T "a"]; [T "b"]; [T "a"]] |})])].

Lemma gen_mem_save_policy_refuted :
  gen_mem_save_policy [] false dup_store = Some (([[T "p"; T "p"; T "b"]; [T "p"; T "p"; T "a"]], false, dup_store), tt) /\
  ad0_save (AMemory [] false) dup_store = (AMemory [[T "p"; T "p"; T "a"]; [T "p"; T "p"; T "b"]] false, LROk).
Proof. vm_compute. split; reflexivity. Qed.

(* ------------------------------------------------------------------ *)
(* (B) the line handlers of the file and string adapters               *)

(* ---- load_policy_line (both files): all inputs, never panics ---- *)
(* raw_step (Proofs/AdaptersP.v): a line that is empty, a comment or unparsable (Csv.load_line_tokens)
   is skipped, otherwise the model's step is applied to its tokens *)
Theorem gen_file_load_policy_line_ok : forall md line,
  gen_file_load_policy_line md line = Some (raw_step load_line md line, tt).
Proof.
  intros md line. unfold gen_file_load_policy_line, raw_step. rewrite <- line_tokens_load.
  unfold line_tokens, load_line. afinish.
Qed.

Theorem gen_str_load_policy_line_ok : forall md line,
  gen_str_load_policy_line md line = Some (raw_step load_line md line, tt).
Proof.
  intros md line. unfold gen_str_load_policy_line, raw_step. rewrite <- line_tokens_load.
  unfold line_tokens, load_line. afinish.
Qed.

(* ---- load_filtered_policy_line (file_adapter.rs): all inputs, never panics ---- *)
(* one step of str_load_filtered (str_step, Proofs/AdaptersP.v: which filter - sec_filter on the first
   character of the key -, the test get_filtered_out on tokens[1..], then load_line); the returned flag says
   whether the line was left out *)
Ltac line_filter_loop :=
  match goal with
  | |- context [rs_for _ (enum_from 0 _) _] =>
      match goal with
      | H : parse_csv_line _ = Some (_ :: ?fields) |- _ => filter_loop fields
      end
  end.

Theorem gen_file_load_filtered_policy_line_ok : forall md line fp fg,
  gen_file_load_filtered_policy_line md line fp fg =
  Some (snd (raw_step (str_step fp fg) (false, md) line), fst (raw_step (str_step fp fg) (false, md) line)).
Proof.
  intros md line fp fg. unfold gen_file_load_filtered_policy_line, raw_step. rewrite <- line_tokens_load.
  unfold line_tokens, str_step, load_line. afinish_loops ltac:(idtac; line_filter_loop).
Qed.

(* the loop around the handler (load_filtered_policy_file: `if handler(line, m, &filter) { is_filtered = true }`,
   its I/O left out) over the lines of a file is the model's str_load_filtered over the parsed lines *)
Definition file_filtered_loop (fp fg : list text) (s : bool * model) (line : text) : bool * model :=
  match gen_file_load_filtered_policy_line (snd s) line fp fg with
  | Some (md', out) => (if out then true else fst s, md')
  | None => s
  end.

Theorem file_filtered_loop_ok : forall fp fg lines md,
  fold_left (file_filtered_loop fp fg) lines (false, md) =
  (snd (str_load_filtered fp fg md (flat_map (fun l => match load_line_tokens l with Some t => [t] | None => [] end) lines)),
   fst (str_load_filtered fp fg md (flat_map (fun l => match load_line_tokens l with Some t => [t] | None => [] end) lines))).
Proof.
  intros fp fg lines md.
  assert (H : forall ls s, fold_left (file_filtered_loop fp fg) ls s = fold_left (raw_step (str_step fp fg)) ls s).
  { induction ls as [|x ls IH]; intros s; [reflexivity|]. cbn [fold_left]. rewrite IH. f_equal.
    unfold file_filtered_loop. rewrite gen_file_load_filtered_policy_line_ok. destruct s as [b0 m0]. cbn [fst snd].
    unfold raw_step. destruct (load_line_tokens x) as [toks|]; [|reflexivity].
    unfold str_step. destruct toks as [|[|c k] fields]; try reflexivity. cbn [fst snd].
    destruct (get_filtered_out (sec_filter fp fg [c]) fields); reflexivity. }
  rewrite H, fold_raw_step, str_load_filtered_fold. reflexivity.
Qed.

(* ---- StringAdapter::load_filtered_policy ---- *)
(* the body of its loop over the lines: the same step of str_load_filtered, the flag accumulated in
   self.is_filtered; all inputs, never panics *)
Theorem gen_str_load_filtered_step_ok : forall content fl md line fp fg,
  gen_str_load_filtered_step content fl md line fp fg =
  Some ((content, fst (raw_step (str_step fp fg) (fl, md) line), snd (raw_step (str_step fp fg) (fl, md) line)), tt).
Proof.
  intros content fl md line fp fg. unfold gen_str_load_filtered_step, raw_step. rewrite <- line_tokens_load.
  unfold line_tokens, str_step, load_line. afinish_loops ltac:(idtac; line_filter_loop).
Qed.

(* the whole method: is_filtered is reset, then the step over the lines of the text: the model's
   str_load_filtered over the parsed lines (Csv.parsed_lines), i.e. ad0_load_filtered on AString *)
Definition str_load_out (content : text) (x : adapter * model * lres) : option ((text * bool * model) * unit) :=
  match x with
  | (AString l f, md, LROk) => if list_eqb reqb l (parsed_lines content) then Some ((content, f, md), tt) else None
  | _ => None
  end.

Theorem gen_str_load_filtered_policy_spec : forall content fl md fp fg,
  gen_str_load_filtered_policy content fl md fp fg =
  Some ((content, snd (str_load_filtered fp fg md (parsed_lines content)),
                  fst (str_load_filtered fp fg md (parsed_lines content))), tt).
Proof.
  intros content fl md fp fg. unfold gen_str_load_filtered_policy, parsed_lines.
  aloop_fold (raw_step (str_step fp fg))
             ltac:(intros line [fl0 m0]; unfold raw_step; rewrite <- line_tokens_load;
                   unfold line_tokens, str_step, load_line; afinish_loops ltac:(idtac; line_filter_loop)).
  rewrite rs_split_nl_lines, fold_raw_step, str_load_filtered_fold. afinish.
Qed.

Lemma list_eqb_reqb_refl : forall l : list rule, list_eqb reqb l l = true.
Proof. induction l as [|x l IH]; [reflexivity|]. cbn [list_eqb]. rewrite reqb_refl, IH. reflexivity. Qed.

Theorem gen_str_load_filtered_policy_ok : forall content fl md fp fg,
  gen_str_load_filtered_policy content fl md fp fg =
  str_load_out content (ad0_load_filtered (AString (parsed_lines content) fl) fp fg md).
Proof.
  intros content fl md fp fg. rewrite gen_str_load_filtered_policy_spec. unfold ad0_load_filtered, str_load_out.
  destruct (str_load_filtered fp fg md (parsed_lines content)) as [md' f']. rewrite list_eqb_reqb_refl. reflexivity.
Qed.

(* ---- StringAdapter::load_policy: load_policy_line over the lines of the text ---- *)
Theorem gen_str_load_policy_spec : forall content fl md,
  gen_str_load_policy content fl md = Some ((content, false, fold_left load_line (parsed_lines content) md), tt).
Proof.
  intros content fl md. unfold gen_str_load_policy, parsed_lines.
  aloop_fold (raw_step load_line) ltac:(intros line m0; cbv beta; rewrite gen_str_load_policy_line_ok; afinish).
  rewrite rs_split_nl_lines, fold_raw_step. afinish.
Qed.

Theorem gen_str_load_policy_ok : forall content fl md,
  gen_str_load_policy content fl md = str_load_out content (ad0_load (AString (parsed_lines content) fl) md).
Proof.
  intros content fl md. rewrite gen_str_load_policy_spec. unfold ad0_load, str_load_out.
  rewrite list_eqb_reqb_refl. reflexivity.
Qed.

(* ------------------------------------------------------------------ *)
(* the states of a MemoryAdapter: `mem_wf` holds of the adapter as created (Default: the empty set) and is
   kept by every translated operation, so the hypotheses of the `.._ok` theorems above hold on every
   reachable state and findings F1 / F2 are about states the source cannot be in *)
Theorem gen_mem_wf_initial : mem_wf [].
Proof. exact mem_wf_nil. Qed.

Theorem gen_mem_wf_invariant : forall l f, mem_wf l ->
  (forall sec pt r l' f' b, gen_mem_add_policy l f sec pt r = Some ((l', f'), b) -> mem_wf l') /\
  (forall sec pt rs l' f' b, gen_mem_add_policies l f sec pt rs = Some ((l', f'), b) -> mem_wf l') /\
  (forall sec pt r l' f' b, gen_mem_remove_policy l f sec pt r = Some ((l', f'), b) -> mem_wf l') /\
  (forall sec pt rs l' f' b, gen_mem_remove_policies l f sec pt rs = Some ((l', f'), b) -> mem_wf l') /\
  (forall sec pt idx vals l' f' b, gen_mem_remove_filtered_policy l f sec pt idx vals = Some ((l', f'), b) -> mem_wf l') /\
  (forall md l' f' md' u, gen_mem_save_policy l f md = Some ((l', f', md'), u) -> mem_wf l') /\
  (forall l' f' u, gen_mem_clear_policy l f = Some ((l', f'), u) -> mem_wf l') /\
  (forall md l' f' md' u, gen_mem_load_policy l f md = Some ((l', f', md'), u) -> mem_wf l') /\
  (forall md fp fg l' f' md' u, gen_mem_load_filtered_policy l f md fp fg = Some ((l', f', md'), u) -> mem_wf l').
Proof.
  intros l f Hwf. split; [|split; [|split; [|split; [|split; [|split; [|split; [|split]]]]]]].
  - intros sec pt r l' f' b H. pose proof (gen_mem_add_policy_ok l f sec pt r) as K. rewrite H in K.
    unfold ad0_add, mem_out in K. pose proof (mem_wf_ins_new l (mem_line sec pt r) Hwf) as W. unfold ins_new in W.
    destruct (rmem (mem_line sec pt r) l); inversion K; subst; [exact Hwf|]. apply W. unfold mem_line. cbn [length]. lia.
  - intros sec pt rs l' f' b H. pose proof (gen_mem_add_policies_ok l f sec pt rs) as K. rewrite H in K.
    unfold ad0_add_many, mem_out in K.
    destruct (existsb (fun ln => rmem ln l) (map (mem_line sec pt) rs)); inversion K; subst; [exact Hwf|].
    apply mem_wf_fold_ins_new; [exact Hwf|apply lines_wf_mem_line].
  - intros sec pt r l' f' b H. pose proof (gen_mem_remove_policy_ok l f sec pt r) as K. rewrite H in K.
    unfold ad0_remove, mem_out in K. destruct (rmem (mem_line sec pt r) l); inversion K; subst; [|exact Hwf].
    apply mem_wf_rremove, Hwf.
  - intros sec pt rs l' f' b H. pose proof (gen_mem_remove_policies_ok l f sec pt rs) as K. rewrite H in K.
    unfold ad0_remove_many, mem_out in K.
    destruct (forallb (fun ln => rmem ln l) (map (mem_line sec pt) rs)); inversion K; subst; [|exact Hwf].
    apply mem_wf_fold_rremove, Hwf.
  - intros sec pt idx vals l' f' b H. pose proof (gen_mem_remove_filtered_policy_ok l f sec pt idx vals Hwf) as K.
    rewrite H in K. unfold ad0_remove_filtered, mem_out in K. destruct vals as [|v vs]; [inversion K; subst; exact Hwf|].
    destruct (mem_filter_lines sec pt idx (v :: vs) l) as [[kept res]|] eqn:E; inversion K; subst.
    eapply mem_wf_filter_lines; [exact E|exact Hwf].
  - intros md l' f' md' u H. rewrite gen_mem_save_policy_spec in H. inversion H; subst.
    apply mem_wf_fold_oset_insert; [apply mem_wf_nil|apply lines_wf_mem_raw_lines].
  - intros l' f' u H. inversion H; subst. apply mem_wf_nil.
  - intros md l' f' md' u H. rewrite gen_mem_load_policy_spec in H. destruct (lines_wfb l); inversion H; subst. exact Hwf.
  - intros md fp fg l' f' md' u H. rewrite gen_mem_load_filtered_policy_spec in H.
    destruct (lines_wfb l); inversion H; subst. exact Hwf.
Qed.

(* ------------------------------------------------------------------ *)
(* the statements are not vacuous: the branches of the translated code are taken *)
Definition ex_ast (v : string) : assertion := {| a_value := T v; a_tokens := []; a_policy := []; a_handle := HOwn |}.
Definition ex_store : model :=
  [(T "p", [(T "p", ex_ast "sub, obj, act"); (T "p2", ex_ast "sub, obj")]); (T "g", [(T "g", ex_ast "_, _")])].
Definition ex_lines : list rule :=
  [[T "p"; T "p"; T "alice"; T "data1"; T "read"]; [T "p"; T "p"; T "bob"; T "data2"; T "write"];
   [T "g"; T "g"; T "alice"; T "admin"]; [T "p"; T "p2"; T "carol"]].

Example mem_wf_ex : mem_wf ex_lines.
Proof.
  split.
  - repeat constructor; cbn [In]; intros H; repeat destruct H as [H|H]; try discriminate H; exact H.
  - apply lines_wfb_wf. reflexivity.
Qed.

Example gen_mem_add_remove_ex :
  (* a new line is appended; a stored one is refused and keeps its place *)
  gen_mem_add_policy (firstn 2 ex_lines) false (T "g") (T "g") [T "alice"; T "admin"] = Some ((firstn 3 ex_lines, false), true) /\
  gen_mem_add_policy ex_lines true (T "p") (T "p") [T "alice"; T "data1"; T "read"] = Some ((ex_lines, true), false) /\
  (* all-or-nothing on stored lines; a duplicate inside the batch is taken once *)
  gen_mem_add_policies (firstn 1 ex_lines) false (T "p") (T "p") [[T "x"]; [T "alice"; T "data1"; T "read"]]
    = Some ((firstn 1 ex_lines, false), false) /\
  gen_mem_add_policies [] false (T "p") (T "p") [[T "x"]; [T "y"]; [T "x"]]
    = Some (([[T "p"; T "p"; T "x"]; [T "p"; T "p"; T "y"]], false), true) /\
  gen_mem_remove_policy ex_lines false (T "g") (T "g") [T "alice"; T "admin"]
    = Some (([nth 0 ex_lines []; nth 1 ex_lines []; nth 3 ex_lines []], false), true) /\
  gen_mem_remove_policy ex_lines false (T "g") (T "g") [T "nobody"] = Some ((ex_lines, false), false) /\
  gen_mem_remove_policies ex_lines false (T "p") (T "p") [[T "bob"; T "data2"; T "write"]; [T "zed"]]
    = Some ((ex_lines, false), false) /\
  gen_mem_remove_policies ex_lines false (T "p") (T "p") [[T "bob"; T "data2"; T "write"]; [T "alice"; T "data1"; T "read"]]
    = Some ((skipn 2 ex_lines, false), true) /\
  gen_mem_clear_policy ex_lines true = Some (([], false), tt) /\
  gen_mem_is_filtered ex_lines true = Some true.
Proof. vm_compute. repeat split. Qed.

Example gen_mem_remove_filtered_ex :
  (* (sec, ptype) selects the lines, the filter starts at field_index + 2, "" is a wildcard *)
  gen_mem_remove_filtered_policy ex_lines false (T "p") (T "p") 1 [T ""; T "read"]
    = Some ((skipn 1 ex_lines, false), true) /\
  gen_mem_remove_filtered_policy ex_lines false (T "p") (T "p") 0 [T "zed"] = Some ((ex_lines, false), false) /\
  (* an empty filter returns at once *)
  gen_mem_remove_filtered_policy ex_lines true (T "p") (T "p") 7 [] = Some ((ex_lines, true), false) /\
  (* the field filter runs off a selected line: panic; not on a line of another policy type *)
  gen_mem_remove_filtered_policy ex_lines false (T "p") (T "p2") 1 [T "x"] = None /\
  (* a wildcard does not look at the line, even beyond its end *)
  gen_mem_remove_filtered_policy ex_lines false (T "g") (T "g") 2 [T ""]
    = Some (([nth 0 ex_lines []; nth 1 ex_lines []; nth 3 ex_lines []], false), true).
Proof. vm_compute. repeat split. Qed.

Example gen_mem_load_save_ex :
  (* load: every line goes to its (sec, ptype) assertion; is_filtered is reset *)
  option_map (fun x => (snd (fst (fst x)), m_get_policy (snd (fst x)) (T "p") (T "p"), m_get_policy (snd (fst x)) (T "g") (T "g")))
             (gen_mem_load_policy ex_lines true ex_store)
    = Some (false, [[T "alice"; T "data1"; T "read"]; [T "bob"; T "data2"; T "write"]], [[T "alice"; T "admin"]]) /\
  (* filtered load: the p filter applies to section p only, "" is a wildcard, a missing field differs *)
  option_map (fun x => (snd (fst (fst x)), m_get_policy (snd (fst x)) (T "p") (T "p"), m_get_policy (snd (fst x)) (T "p") (T "p2"),
                        m_get_policy (snd (fst x)) (T "g") (T "g")))
             (gen_mem_load_filtered_policy ex_lines false ex_store [T ""; T "data1"] [])
    = Some (true, [[T "alice"; T "data1"; T "read"]], [], [[T "alice"; T "admin"]]) /\
  option_map (fun x => snd (fst (fst x))) (gen_mem_load_filtered_policy ex_lines true ex_store [] [T "alice"]) = Some false /\
  (* save after load: the same lines, p before g, in the order of the assertions *)
  (match gen_mem_load_policy ex_lines false ex_store with
   | Some ((_, _, md), _) => option_map (fun x => fst (fst (fst x))) (gen_mem_save_policy [] false md)
   | None => None
   end) = Some [nth 0 ex_lines []; nth 1 ex_lines []; nth 3 ex_lines []; nth 2 ex_lines []] /\
  NoDup (mem_raw_lines ex_store).
Proof. vm_compute. repeat split. constructor. Qed.

Example store_sets_ex : store_sets ex_store /\ pg_keys_disjoint ex_store.
Proof.
  split.
  - intros sec am Hsec H. destruct Hsec as [Hsec|Hsec]; subst sec; vm_compute in H; inversion H; subst; clear H.
    + split.
      * repeat constructor; cbn [In]; intros K; repeat destruct K as [K|K]; try discriminate K; exact K.
      * intros k a Hin. cbn [In] in Hin. repeat destruct Hin as [Hin|Hin]; try (inversion Hin; subst; constructor). 
    + split.
      * repeat constructor; cbn [In]; intros K; repeat destruct K as [K|K]; try discriminate K; exact K.
      * intros k a Hin. cbn [In] in Hin. repeat destruct Hin as [Hin|Hin]; try (inversion Hin; subst; constructor). 
  - intros amp amg k Hp Hg Hk1 Hk2. vm_compute in Hp, Hg. inversion Hp; inversion Hg; subst.
    cbn [map fst In] in Hk1, Hk2. destruct Hk2 as [<-|[]]. repeat destruct Hk1 as [Hk1|Hk1]; try discriminate Hk1; exact Hk1.
Qed.

Example gen_line_handlers_ex :
  option_map (fun x => m_get_policy (fst x) (T "p") (T "p")) (gen_file_load_policy_line ex_store (T "p, alice, data1, read"))
    = Some [[T "alice"; T "data1"; T "read"]] /\
  gen_file_load_policy_line ex_store (T "# p, alice, data1, read") = Some (ex_store, tt) /\
  gen_str_load_policy_line ex_store (T "") = Some (ex_store, tt) /\
  gen_str_load_policy_line ex_store (T "q, alice") = Some (ex_store, tt) /\
  (* filtered: left out (true) / loaded (false); a line shorter than the filter is left out *)
  gen_file_load_filtered_policy_line ex_store (T "p, alice, data1, read") [T "bob"] [] = Some (ex_store, true) /\
  option_map snd (gen_file_load_filtered_policy_line ex_store (T "p, alice, data1, read") [T ""; T "data1"] [T "x"]) = Some false /\
  gen_file_load_filtered_policy_line ex_store (T "p2, carol") [T ""; T "data1"] [] = Some (ex_store, true) /\
  option_map (fun x => snd (fst (fst x)))
    (gen_str_load_filtered_step (T "ignored") false ex_store (T "g, alice, admin") [] [T "bob"]) = Some true /\
  (* the whole StringAdapter: two lines kept out of three, a comment skipped *)
  option_map (fun x => (snd (fst (fst x)), m_get_policy (snd (fst x)) (T "p") (T "p")))
    (gen_str_load_filtered_policy (T "p, alice, data1, read
# note
p, bob, data2, write
p, alice, data2, write") false ex_store [T "alice"] [])
    = Some (true, [[T "alice"; T "data1"; T "read"]; [T "alice"; T "data2"; T "write"]]) /\
  option_map (fun x => (snd (fst (fst x)), m_get_policy (snd (fst x)) (T "g") (T "g")))
    (gen_str_load_policy (T "g, alice, admin
g, bob, admin") true ex_store) = Some (false, [[T "alice"; T "admin"]; [T "bob"; T "admin"]]).
Proof. vm_compute. repeat split. Qed.

Print Assumptions gen_adapters_translated_ok.
Print Assumptions gen_mem_add_policy_ok.
Print Assumptions gen_mem_add_policies_ok.
Print Assumptions gen_mem_remove_policy_ok.
Print Assumptions gen_mem_remove_policies_ok.
Print Assumptions gen_mem_remove_filtered_policy_spec.
Print Assumptions gen_mem_remove_filtered_policy_ok.
Print Assumptions gen_mem_remove_filtered_policy_panics.
Print Assumptions gen_mem_remove_filtered_policy_refuted.
Print Assumptions gen_mem_clear_policy_ok.
Print Assumptions gen_mem_is_filtered_ok.
Print Assumptions gen_mem_load_policy_spec.
Print Assumptions gen_mem_load_policy_ok.
Print Assumptions gen_mem_load_policy_panics.
Print Assumptions gen_mem_load_policy_refuted.
Print Assumptions gen_mem_load_filtered_policy_spec.
Print Assumptions gen_mem_load_filtered_policy_ok.
Print Assumptions gen_mem_load_filtered_policy_panics.
Print Assumptions gen_mem_load_filtered_policy_refuted.
Print Assumptions gen_mem_save_policy_spec.
Print Assumptions gen_mem_save_policy_ok.
Print Assumptions gen_mem_save_policy_store_ok.
Print Assumptions gen_mem_save_policy_refuted.
Print Assumptions gen_mem_wf_invariant.
Print Assumptions gen_file_load_policy_line_ok.
Print Assumptions gen_str_load_policy_line_ok.
Print Assumptions gen_file_load_filtered_policy_line_ok.
Print Assumptions file_filtered_loop_ok.
Print Assumptions gen_str_load_filtered_step_ok.
Print Assumptions gen_str_load_filtered_policy_spec.
Print Assumptions gen_str_load_filtered_policy_ok.
Print Assumptions gen_str_load_policy_spec.
Print Assumptions gen_str_load_policy_ok.
