(* Obligations tying the TRANSLATED model-text reader (Gen/IniGen.v, regenerated on
   every run by tools/rs2coq_ini.py from /repo/src/config.rs, /repo/src/model/default_model.rs
   - the loading half and Model::to_text - and Assertion::default of assertion.rs) to the
   hand-written model Model/Ini.v.

   Method.  Proofs/IniRtP.v proves, once and for all, what the operations of
   Gen/IniRt.v are in the model's vocabulary, and gives for each loop a fuelled
   function on the reader (`cont_rd`, `parse_rd`, `load_loop`) together with its
   relation to the model (`continuation`, `parse_lines` over `ini_lines`,
   `load_section`).  Here every loop of the generated code is matched by
   `context [rs_while fuel ?c ?b _]` / `rs_loop` / `rs_for` (the generated bodies are
   never written down) and its body is shown equal to the step of that function
   by a few tactics: `reads` / `to_model` / `slices` rewrite the IniRt operations
   into the model's vocabulary (the side conditions - ASCII text, the guard of a
   slice - are solved from the context), `same_cond` proves every condition
   equal to the model's condition by a case analysis on its atoms and splits on
   the model's condition.  A rewrite of the Rust source that keeps its meaning
   and stays in the translated subset keeps these proofs; a change of meaning
   leaves an unprovable leaf and the file no longer compiles
   (tools/rs2coq_demo_ini.py).

   ASCII.  The theorems about the text reader assume `ascii_text t` (Rust trims
   Unicode white space, the model the ASCII white space: `gen_from_str_nonascii_refuted`)
   and `length t < fuel` (the loops get enough fuel); those about load_section
   `small (S (length c))` (the model prints key suffixes with 20 digits). *)
From CV Require Import Model.Base Model.PathMatch Model.Expr Model.Csv Model.Ini Model.SpecC16.
From CV Require Import Gen.RustStr Gen.StrFnGen Gen.RustVec Gen.RustIter Gen.Petgraph Gen.IniRt Gen.IniGen.
From CV Require Import Proofs.BaseP Proofs.CsvP Proofs.ReplaceP Proofs.ToText2P Proofs.RustVecP Proofs.IniRtP PinChecks.PcStrFnGen.
From Coq Require Import Lia ZArith.

Lemma gen_ini_translated_ok : gen_ini_translated = true.
Proof. reflexivity. Qed.

(* ------------------------------------------------------------------ *)
(* the constants                                                        *)
Lemma gen_DEFAULT_SECTION_ok : gen_DEFAULT_SECTION = DEFAULT_SECTION. Proof. reflexivity. Qed.
Lemma gen_DEFAULT_COMMENT_ok : gen_DEFAULT_COMMENT = [hash]. Proof. reflexivity. Qed.
Lemma gen_DEFAULT_COMMENT_SEM_ok : gen_DEFAULT_COMMENT_SEM = [semicolon]. Proof. reflexivity. Qed.
Lemma gen_DEFAULT_MULTI_LINE_SEPARATOR_ok : gen_DEFAULT_MULTI_LINE_SEPARATOR = [bslash]. Proof. reflexivity. Qed.

(* ------------------------------------------------------------------ *)
(* tactics                                                              *)
Ltac ascii_tac := solve [ auto with ascii | assumption ].

(* the IniRt operations in the model's vocabulary *)
Ltac to_model :=
  rewrite ?gen_DEFAULT_SECTION_ok, ?gen_DEFAULT_COMMENT_ok, ?gen_DEFAULT_COMMENT_SEM_ok,
          ?gen_DEFAULT_MULTI_LINE_SEPARATOR_ok;
  change (T "") with (@nil ascii);
  rewrite ?rs_is_empty_is_nil, ?rs_starts_with_1, ?rs_ends_with_1, ?rs_starts_with_char_c, ?rs_ends_with_char_c;
  unfold rs_push_str;
  cbn [app].

(* a boolean built from the atoms is_nil / starts_with_c / ends_with_c / Nat.eqb equals the model's condition *)
Ltac atoms :=
  rewrite ?is_comment_or_blank_atoms; unfold is_section; unfold lbracket, rbracket, hash, semicolon, bslash;
  repeat match goal with
         | |- context [starts_with_c ?c ?s] => destruct (starts_with_c c s)
         | |- context [ends_with_c ?c ?s] => destruct (ends_with_c c s)
         | |- context [is_nil ?s] => destruct (is_nil s)
         end;
  reflexivity.

(* (if c then _ else _) = (if p then _ else _): c = p by `atoms`, then split on p *)
Ltac same_cond E :=
  match goal with
  | |- (if ?c then _ else _) = (if ?p then _ else _) =>
      let H := fresh "Hc" in
      assert (H : c = p) by atoms; rewrite H; clear H; destruct p eqn:E
  end.

(* ------------------------------------------------------------------ *)
(* add_config                                                           *)
Theorem gen_add_config_ok : forall self sec opt v,
  gen_add_config self sec opt v = Some {| conf_data := conf_add (conf_data self) sec opt v |}.
Proof.
  intros [d] sec opt v. unfold gen_add_config, conf_add, conf_section, rs_fn. cbn [conf_data set_conf_data].
  to_model. destruct (is_nil sec); cbv zeta;
    destruct (hm_entry_or d _ hm_new) as [m1 sv]; cbn [fst snd conf_data set_conf_data];
    destruct (hm_get sv opt); reflexivity.
Qed.

(* ------------------------------------------------------------------ *)
(* more tactics                                                         *)
(* `line[1..line.len() - 1]` / `line[..line.len() - 1]` once the guard is known *)
Ltac slices :=
  repeat match goal with
         | Hs : is_section ?s = true |- context [rs_usize_sub (rs_str_len ?s) 1] =>
             let Hu := fresh "Hu" in let Hsl := fresh "Hsl" in
             destruct (slice_section_name s ltac:(ascii_tac) Hs) as [Hu Hsl];
             rewrite Hu; cbv beta iota; rewrite Hsl; cbv beta iota; clear Hu Hsl
         | Hs : ends_with_c ?c ?s = true |- context [rs_usize_sub (rs_str_len ?s) 1] =>
             let Hu := fresh "Hu" in let Hsl := fresh "Hsl" in
             destruct (slice_drop_last s c ltac:(ascii_tac) Hs) as [Hu Hsl];
             rewrite Hu; cbv beta iota; rewrite Hsl; cbv beta iota; clear Hu Hsl
         end.

(* reader.read_line(&mut buf) with an empty buf, `bytes == 0`, the trims *)
Ltac reads :=
  rewrite ?rs_read_line_eq; cbv beta iota zeta; to_model; rewrite ?take_line_fst_length, ?take_line_fst_length0;
  rewrite ?rs_str_trim_end_ascii by ascii_tac; rewrite ?rs_str_trim_ascii by ascii_tac.

(* the closure of trim_end_matches: white space or the separator *)
Ltac wsb_closure :=
  let c0 := fresh "c" in
  intros c0; cbv beta; unfold rs_char_to_string, rs_eq; cbn [teqb]; rewrite ?andb_true_r;
  change (rs_char_is_whitespace [c0]) with (is_ws c0);
  destruct (is_ws c0); destruct (Ascii.eqb c0 bslash); reflexivity.

(* ------------------------------------------------------------------ *)
(* parse_buffer                                                         *)
Definition parse_errf (j : text) : ini_error := IniIoError IoOther (T "parse content error, line=" ++ j).

(* the generated loops are the fuelled reader-level functions of Proofs/IniRtP.v *)
Theorem gen_parse_buffer_rd : forall fuel self rd, ascii_text rd -> length rd < fuel ->
  gen_parse_buffer fuel self rd = parse_rd config_state gen_add_config parse_errf fuel fuel self rd [].
Proof.
  intros fuel self rd Hrd Hlen. unfold gen_parse_buffer, rs_fn.
  match goal with |- context [rs_loop fuel ?b _] =>
    rewrite (rs_loop_parse_rd config_state gen_add_config parse_errf fuel b) end.
  - change (T "") with (@nil ascii). destruct (parse_rd _ _ _ _ _ _ _ _) as [r|]; reflexivity.
  - (* the body of `loop` is main_step *)
    intros st rd0 sec Hrd0 Hlen0. unfold main_step.
    destruct (ascii_text_take_line rd0 Hrd0) as [Ha1 Ha2].
    pose proof (take_line_snd_length rd0) as Hl1.
    reads.
    set (line := trim (fst (rs_take_line rd0))) in *. set (rd1 := snd (rs_take_line rd0)) in *.
    assert (Hline : ascii_text line) by (subst line; ascii_tac).
    destruct (is_nil rd0) eqn:En; [reflexivity|].
    same_cond E1; [reflexivity|].
    same_cond E2; [slices; reflexivity|].
    match goal with |- context [rs_while fuel ?c ?b _] => rewrite (rs_while_cont_rd c b) end.
    + (* after the continuation loop *)
      pose proof (cont_rd_ascii fuel line [] rd1 Hline ascii_text_nil Ha2) as Hw.
      destruct (cont_rd fuel line [] rd1) as [[rd2 joined] ns]. cbn [fst snd]. destruct Hw as (Hw1 & Hw2 & Hw3).
      match goal with |- context [rs_str_trim_end_matches ?p ?s] =>
        rewrite (rs_trim_end_matches_wsb p) by first [ ascii_tac | wsb_closure ] end.
      match goal with |- context [rs_iter_map ?f (rs_splitn_char ?s 2 "="%char)] =>
        pose proof (option_val_spec f s ltac:(intros x; reflexivity) ltac:(ascii_tac)) as Hov end.
      unfold equals in Hov.
      destruct (split_option (trim_end_wsb joined)) as [[k v]|]; rewrite Hov.
      * cbn [rs_vec_len length Nat.eqb negb rs_index nth_error].
        destruct (gen_add_config st sec k v); [|reflexivity]. to_model. destruct ns; reflexivity.
      * reflexivity.
    + intros; apply rs_ends_with_1.
    + (* the body of `while` is cont_step *)
      intros rd' line' ns' Hrd' Hline' Hends. unfold cont_step. cbv beta iota.
      destruct (ascii_text_take_line rd' Hrd') as [Hb1 Hb2].
      slices. reads.
      set (inner := trim (fst (rs_take_line rd'))) in *.
      assert (Hinner : ascii_text inner) by (subst inner; ascii_tac).
      destruct (is_nil rd') eqn:En'; [reflexivity|].
      same_cond E3; [reflexivity|].
      same_cond E4; [slices; reflexivity|reflexivity].
    + exact Ha2.
    + exact Hline.
    + lia.
  - exact Hrd.
  - exact Hlen.
Qed.

(* the state of the reader and the model's configuration *)
Definition conf_ok (st : config_state) (c : cfg) : Prop := conf_rel (conf_data st) c /\ cfg_ascii c.

Lemma gen_add_config_rel : forall st c sec k v, conf_ok st c -> ascii_text k -> ascii_text v ->
  exists st', gen_add_config st sec k v = Some st' /\
              conf_ok st' (cfg_set (match sec with [] => DEFAULT_SECTION | _ => sec end, k) v c).
Proof.
  intros st c sec k v [HR HA] Hk Hv. eexists. split; [apply gen_add_config_ok|]. split.
  - cbn [conf_data]. apply conf_add_rel, HR.
  - apply cfg_ascii_set; assumption.
Qed.

(* Config::from_str against parse_config: success iff success, and then the same lookups *)
Theorem gen_from_str_ok : forall fuel t, ascii_text t -> length t < fuel ->
  match parse_config t with
  | Some c => exists st, gen_from_str fuel t = Some (ROk st) /\ conf_ok st c
  | None => exists e, gen_from_str fuel t = Some (RErr e)
  end.
Proof.
  intros fuel t Ht Hlen. unfold gen_from_str, rs_fn, rs_bufreader_new, rs_cursor_new.
  rewrite (gen_parse_buffer_rd fuel _ t Ht Hlen). unfold parse_config.
  pose proof (parse_rd_model config_state gen_add_config parse_errf conf_ok gen_add_config_rel
                fuel fuel {| conf_data := hm_new |} t [] []
                (conj conf_rel_nil cfg_ascii_nil) Ht Hlen Hlen) as H.
  destruct (parse_lines _ _ _ _) as [c|].
  - destruct H as (st' & H & HR). rewrite H. exists st'. split; [reflexivity|exact HR].
  - destruct H as (st' & rd' & j & H). rewrite H. eexists. reflexivity.
Qed.

(* ------------------------------------------------------------------ *)
(* get / get_str                                                        *)
Lemma rs_iter_map_id : forall {A} (l : list A), rs_iter_map (fun x => x) l = l.
Proof. intros A l. unfold rs_iter_map. apply map_id. Qed.

(* "section::option": both parts lower case and without ':' (the model's keys) *)
Theorem gen_get_sec_opt : forall self sec opt, plain_key sec -> plain_key opt ->
  gen_get self (sec ++ T "::" ++ opt) = Some (conf_lookup (conf_data self) sec opt).
Proof.
  intros self sec opt Hs Ho. unfold gen_get.
  rewrite (rs_to_lowercase_plain sec opt Hs Ho), (split_str_sec_opt sec opt Hs Ho), ?rs_iter_map_id.
  cbn [rs_vec_len length Nat.leb rs_index nth_error]. unfold conf_lookup, rs_and_then, rs_opt_map.
  destruct (hm_get (conf_data self) sec) as [m|]; [|reflexivity]. destruct (hm_get m opt); reflexivity.
Qed.
(* a key without "::" is looked up in the section "default" *)
Theorem gen_get_default : forall self key, plain_key key ->
  gen_get self key = Some (conf_lookup (conf_data self) DEFAULT_SECTION key).
Proof.
  intros self key Hk. unfold gen_get.
  rewrite (rs_to_lowercase_plain1 key Hk). unfold rs_split_str. rewrite (split_str_plain key Hk), ?rs_iter_map_id.
  cbn [rs_vec_len length Nat.leb rs_index nth_error]. to_model. unfold conf_lookup, rs_and_then, rs_opt_map.
  destruct (hm_get (conf_data self) DEFAULT_SECTION) as [m|]; [|reflexivity]. destruct (hm_get m key); reflexivity.
Qed.
Theorem gen_get_str_ok : forall self key, gen_get_str self key = gen_get self key.
Proof. reflexivity. Qed.

Corollary gen_get_cfg : forall st c sec opt, conf_ok st c -> plain_key sec -> plain_key opt ->
  gen_get st (sec ++ T "::" ++ opt) = Some (cfg_get (sec, opt) c).
Proof. intros st c sec opt [HR _] Hs Ho. rewrite (gen_get_sec_opt st sec opt Hs Ho), (HR sec opt). reflexivity. Qed.
Corollary gen_get_cfg_default : forall st c key, conf_ok st c -> plain_key key ->
  gen_get st key = Some (cfg_get (DEFAULT_SECTION, key) c).
Proof. intros st c key [HR _] Hk. rewrite (gen_get_default st key Hk), (HR DEFAULT_SECTION key). reflexivity. Qed.

(* ------------------------------------------------------------------ *)
(* default_model.rs: get_key_suffix, Assertion::default, add_def        *)
Theorem gen_get_key_suffix_ok : forall self i, gen_get_key_suffix self i = key_suffix i.
Proof.
  intros self i. unfold gen_get_key_suffix, key_suffix, rs_u64_to_string, digit_text. to_model.
  destruct (Nat.eqb i 1); reflexivity.
Qed.

Theorem gen_assertion_default_ok :
  gen_assertion_default = {| ga_key := []; ga_value := []; ga_tokens := []; ga_policy := []; ga_rm := RmFresh 0 |}.
Proof. reflexivity. Qed.

(* the stored Assertion of a model definition: policy empty, a fresh role manager *)
Definition assertion_of (d : adef) : gen_assertion :=
  {| ga_key := ad_key d; ga_value := ad_value d; ga_tokens := ad_tokens d; ga_policy := []; ga_rm := RmFresh 0 |}.
Definition adef_of (a : gen_assertion) : adef :=
  {| ad_key := ga_key a; ad_value := ga_value a; ad_tokens := ga_tokens a |}.
(* self.model[sec].insert(key, assertion), the section created when absent *)
Definition model_ins (sec : text) (m : dmodel_state) (d : adef) : dmodel_state :=
  {| dm_model := hm_insert (dm_model m) sec
       (lhm_insert (match hm_get (dm_model m) sec with Some am => am | None => lhm_new end) (ad_key d) (assertion_of d)) |}.

Lemma ascii_text_remove_comment : forall s, ascii_text s -> ascii_text (remove_comment s).
Proof.
  intros s H. unfold remove_comment. apply ascii_text_trim_end. apply (ascii_text_span_not hash s H).
Qed.

Lemma tokens_map : forall key l, Forall ascii_text l ->
  rs_iter_map (fun x => key ++ T "_" ++ rs_str_trim x) l = map (fun x => key ++ underscore :: trim x) l.
Proof.
  intros key l H. unfold rs_iter_map. induction H as [|x l Hx _ IH]; [reflexivity|].
  cbn [map]. rewrite IH, (rs_str_trim_ascii x Hx). reflexivity.
Qed.

Theorem gen_add_def_ok : forall self sec key value, ascii_text value ->
  gen_add_def self sec key value =
  Some (match add_def sec key value with
        | Some d => (model_ins sec self d, true)
        | None => (self, false)
        end).
Proof.
  intros [m] sec key value Hv. unfold gen_add_def, add_def, model_ins, rs_fn.
  rewrite gen_assertion_default_ok. cbn [ga_key ga_value ga_tokens ga_policy ga_rm set_ga_tokens set_ga_value dm_model set_dm_model].
  rewrite gen_remove_comment_ok. to_model.
  pose proof (ascii_text_remove_comment value Hv) as Hr.
  destruct (remove_comment value) as [|c0 r0] eqn:Er; [reflexivity|]. cbn [is_nil]. cbv beta iota zeta.
  unfold rs_eq. cbn [ga_key ga_value ga_tokens ga_policy ga_rm set_ga_tokens set_ga_value].
  destruct (teqb sec (T "r")) eqn:Es1; destruct (teqb sec (T "p")) eqn:Es2; cbn [orb negb]; cbv beta iota zeta;
    cbn [ga_key ga_value ga_tokens ga_policy ga_rm set_ga_tokens set_ga_value dm_model set_dm_model assertion_of ad_key ad_value ad_tokens];
    rewrite ?rs_split_char_commas, ?tokens_map by (rewrite <- rs_split_char_commas; apply split_char_ascii, Hr);
    unfold rs_escape_assertion, lhm_new;
    destruct (hm_get m sec); reflexivity.
Qed.

(* ------------------------------------------------------------------ *)
(* load_assertion                                                       *)
Definition known_secs : list text := [T "r"; T "p"; T "g"; T "e"; T "m"].

(* comparisons of two closed strings *)
Ltac eval_rs_eq :=
  repeat match goal with
         | |- context [rs_eq ?a ?b] =>
             let v := eval vm_compute in (rs_eq a b) in
             (match v with true => idtac | false => idtac end);
             change (rs_eq a b) with v
         end.

Lemma sec_name_plain : forall sec, In sec known_secs -> plain_key (sec_name sec).
Proof. intros sec H. repeat (destruct H as [<-|H]; [reflexivity|]). destruct H. Qed.

Theorem gen_load_assertion_ok : forall self cfg c sec key,
  conf_ok cfg c -> In sec known_secs -> plain_key key ->
  gen_load_assertion self cfg sec key =
  Some (match cfg_get (sec_name sec, key) c with
        | Some v => match add_def sec key v with
                    | Some d => (model_ins sec self d, ROk true)
                    | None => (self, ROk false)
                    end
        | None => (self, ROk false)
        end).
Proof.
  intros self cfg c sec key Hok Hsec Hkey. pose proof Hok as [_ HA].
  unfold gen_load_assertion, rs_fn.
  repeat (destruct Hsec as [<-|Hsec];
    [ eval_rs_eq; cbv beta iota zeta; rewrite gen_get_str_ok;
      match goal with |- context [gen_get cfg (?sn ++ T "::" ++ key)] =>
        rewrite (gen_get_cfg cfg c sn key Hok ltac:(reflexivity) Hkey);
        match goal with |- context [cfg_get (sec_name ?s, key) c] => change (sec_name s) with sn end;
        destruct (cfg_get (sn, key) c) as [v|] eqn:Ev; [|reflexivity];
        rewrite (gen_add_def_ok _ _ _ _ (HA _ _ Ev)); destruct (add_def _ key v); reflexivity
      end
    | ]).
  destruct Hsec.
Qed.

(* an unknown section is an error *)
Theorem gen_load_assertion_unknown : forall self cfg sec key, ~ In sec known_secs ->
  exists e, gen_load_assertion self cfg sec key = Some (self, RErr e).
Proof.
  intros self cfg sec key Hn. unfold gen_load_assertion, rs_fn.
  assert (E : forall l, In l known_secs -> rs_eq sec l = false).
  { intros l Hl. destruct (rs_eq sec l) eqn:E; [|reflexivity]. apply rs_eq_true in E. subst l. contradiction. }
  rewrite ?E by (unfold known_secs; cbn [In]; tauto). eexists. reflexivity.
Qed.

(* ------------------------------------------------------------------ *)
(* load_section                                                         *)
Lemma sec_key_plain : forall sec i, In sec known_secs -> plain_key (sec_key sec i).
Proof.
  intros sec i H. unfold sec_key. apply plain_key_app.
  - repeat (destruct H as [<-|H]; [reflexivity|]). destruct H.
  - unfold key_suffix. destruct (Nat.eqb i 1); [reflexivity|]. apply digits_plain, digit_text_digits.
Qed.

Theorem gen_load_section_loop : forall fuel self cfg c sec, conf_ok cfg c -> In sec known_secs ->
  gen_load_section fuel self cfg sec =
  match load_loop dmodel_state (model_ins sec) fuel self c sec 1 with
  | Some m' => Some (m', ROk tt)
  | None => None
  end.
Proof.
  intros fuel self cfg c sec Hok Hsec. unfold gen_load_section, rs_fn.
  match goal with |- context [rs_loop fuel ?b _] =>
    rewrite (rs_loop_load dmodel_state (model_ins sec) c sec b) end.
  - destruct (load_loop _ _ _ _ _ _ _) as [m'|]; reflexivity.
  - intros m i. rewrite gen_get_key_suffix_ok. fold (sec_key sec i).
    rewrite (gen_load_assertion_ok m cfg c sec (sec_key sec i) Hok Hsec (sec_key_plain sec i Hsec)).
    destruct (cfg_get (sec_name sec, sec_key sec i) c) as [v|]; [|reflexivity].
    destruct (add_def sec (sec_key sec i) v) as [d|]; [|reflexivity].
    cbn [negb]. rewrite Nat.add_1_r. reflexivity.
Qed.

(* configurations with fewer than 10^20 - 1 entries: the suffixes 2, 3, .. are printed exactly (the model's
   printer has 20 digits; u64 ends before) and so are pairwise different *)
Theorem gen_load_section_ok : forall fuel self cfg c sec, conf_ok cfg c -> In sec known_secs ->
  small (S (length c)) -> S (length c) <= fuel ->
  gen_load_section fuel self cfg sec =
  Some (fold_left (model_ins sec) (load_section (S (length c)) c sec 1) self, ROk tt).
Proof.
  intros fuel self cfg c sec Hok Hsec Hs Hf.
  rewrite (gen_load_section_loop fuel self cfg c sec Hok Hsec), (load_loop_section _ _ fuel self c sec Hs Hf).
  reflexivity.
Qed.

Theorem gen_load_section_unknown : forall fuel self cfg sec, ~ In sec known_secs -> 1 <= fuel ->
  exists e, gen_load_section fuel self cfg sec = Some (self, RErr e).
Proof.
  intros fuel self cfg sec Hn Hf. unfold gen_load_section, rs_fn. destruct fuel as [|f]; [lia|].
  cbn [rs_loop]. destruct (gen_load_assertion_unknown self cfg sec (sec ++ gen_get_key_suffix self 1) Hn) as (e & He).
  rewrite He. eexists. reflexivity.
Qed.

(* ------------------------------------------------------------------ *)
(* DefaultModel::from_str                                               *)
(* the stored model of the model's definitions: section -> entries in load order *)
Definition entries (ds : list adef) : lhm gen_assertion := map (fun d => (ad_key d, assertion_of d)) ds.
Definition model_of_mdefs (md : mdefs) : hashmap (lhm gen_assertion) := map (fun sd => (fst sd, entries (snd sd))) md.
Definition mdefs_of (m : dmodel_state) : mdefs :=
  map (fun sa => (fst sa, map (fun ka => adef_of (snd ka)) (snd sa))) (dm_model m).

Lemma adef_of_assertion_of : forall d, adef_of (assertion_of d) = d.
Proof. intros [k v tk]. reflexivity. Qed.
Lemma mdefs_of_model_of_mdefs : forall md, mdefs_of {| dm_model := model_of_mdefs md |} = md.
Proof.
  intros md. unfold mdefs_of, model_of_mdefs. cbn [dm_model]. rewrite map_map. rewrite <- (map_id md) at 2.
  apply map_ext. intros [s ds]. cbn [fst snd]. f_equal. unfold entries. rewrite map_map. rewrite <- (map_id ds) at 2.
  apply map_ext. intros d. cbn [snd]. apply adef_of_assertion_of.
Qed.

Lemma model_ins_unfold : forall sec (m : hashmap (lhm gen_assertion)) d,
  model_ins sec {| dm_model := m |} d =
  {| dm_model := hm_insert m sec
       (lhm_insert (match hm_get m sec with Some am => am | None => lhm_new end) (ad_key d) (assertion_of d)) |}.
Proof. reflexivity. Qed.

Lemma fold_ins_tail : forall sec ds (m0 : hashmap (lhm gen_assertion)) (acc : lhm gen_assertion), hm_get m0 sec = None -> NoDup (map fst acc ++ map ad_key ds) ->
  dm_model (fold_left (model_ins sec) ds {| dm_model := m0 ++ [(sec, acc)] |}) = m0 ++ [(sec, acc ++ entries ds)].
Proof.
  intros sec. induction ds as [|d ds IH]; intros m0 acc Hn Hnd; cbn [fold_left entries map].
  - rewrite app_nil_r. reflexivity.
  - rewrite model_ins_unfold. rewrite (hm_get_last m0 sec acc Hn).
    rewrite lhm_insert_fresh by (cbn [map] in Hnd; apply NoDup_remove_2 in Hnd; intros Hin; apply Hnd, in_or_app; left; exact Hin).
    rewrite (hm_insert_last m0 sec _ _ Hn). rewrite (IH m0 _ Hn).
    + rewrite <- app_assoc. reflexivity.
    + rewrite map_app, <- app_assoc. exact Hnd.
Qed.

Lemma fold_ins : forall sec ds (m0 : hashmap (lhm gen_assertion)), hm_get m0 sec = None -> NoDup (map ad_key ds) ->
  dm_model (fold_left (model_ins sec) ds {| dm_model := m0 |}) =
  match ds with [] => m0 | _ :: _ => m0 ++ [(sec, entries ds)] end.
Proof.
  intros sec [|d ds] m0 Hn Hnd; [reflexivity|]. cbn [fold_left]. rewrite model_ins_unfold. rewrite Hn.
  unfold lhm_new, lhm_insert. cbn [filter app]. rewrite (hm_insert_fresh m0 sec _ Hn).
  rewrite (fold_ins_tail sec ds m0 _ Hn); [reflexivity|exact Hnd].
Qed.

Lemma build_model : forall (g : text -> list adef) secs (m0 : hashmap (lhm gen_assertion)), NoDup secs ->
  (forall s, In s secs -> hm_get m0 s = None) -> (forall s, In s secs -> NoDup (map ad_key (g s))) ->
  dm_model (fold_left (fun m s => fold_left (model_ins s) (g s) m) secs {| dm_model := m0 |}) =
  m0 ++ model_of_mdefs (flat_map (fun s => match g s with [] => [] | ds => [(s, ds)] end) secs).
Proof.
  intros g. induction secs as [|s secs IH]; intros m0 Hnd Hn Hg; cbn [fold_left flat_map].
  - unfold model_of_mdefs. cbn [map]. rewrite app_nil_r. reflexivity.
  - inversion Hnd as [|x l Hnin Hnd']. subst.
    pose proof (fold_ins s (g s) m0 (Hn s (or_introl eq_refl)) (Hg s (or_introl eq_refl))) as Hf.
    destruct (fold_left (model_ins s) (g s) {| dm_model := m0 |}) as [m1] eqn:E1. cbn [dm_model] in Hf. subst m1.
    rewrite IH; [| exact Hnd' | | intros s' Hs'; apply Hg; right; exact Hs'].
    + unfold model_of_mdefs. rewrite map_app. destruct (g s) as [|d ds]; [reflexivity|].
      cbn [map fst snd]. rewrite <- app_assoc. reflexivity.
    + intros s' Hs'. assert (Hne : rs_eq s' s = false).
      { destruct (rs_eq s' s) eqn:E; [|reflexivity]. apply rs_eq_true in E. subst s'. contradiction. }
      destruct (g s) as [|d ds]; [apply Hn; right; exact Hs'|].
      rewrite (hm_get_app_other m0 s s' _ Hne). apply Hn. right. exact Hs'.
Qed.

Lemma add_def_key : forall sec key v d, add_def sec key v = Some d -> ad_key d = key.
Proof.
  intros sec key v d H. unfold add_def in H. destruct (remove_comment v); [discriminate|].
  destruct (teqb sec (T "r") || teqb sec (T "p")); injection H as <-; reflexivity.
Qed.

Lemma load_section_keys : forall f c sec i,
  map ad_key (load_section f c sec i) = map (sec_key sec) (seq i (length (load_section f c sec i))) /\
  length (load_section f c sec i) <= f.
Proof.
  induction f as [|f IH]; intros c sec i; [split; [reflexivity|cbn; lia]|]. rewrite load_section_S.
  destruct (cfg_get (sec_name sec, sec_key sec i) c) as [v|]; [|split; [reflexivity|cbn; lia]].
  destruct (add_def sec (sec_key sec i) v) as [d|] eqn:E; [|split; [reflexivity|cbn; lia]].
  destruct (IH c sec (S i)) as [H1 H2]. cbn [map length seq]. rewrite (add_def_key _ _ _ _ E), H1. split; [reflexivity|lia].
Qed.

Lemma load_section_NoDup : forall c sec, small (S (length c)) ->
  NoDup (map ad_key (load_section (S (length c)) c sec 1)).
Proof.
  intros c sec Hs. destruct (load_section_keys (S (length c)) c sec 1) as [H1 H2]. rewrite H1.
  apply NoDup_map_inj_in; [|apply seq_NoDup]. intros x y Hx Hy H. apply in_seq in Hx, Hy.
  apply (sec_key_inj sec x y); [lia|lia| | |exact H]; (eapply small_le; [|exact Hs]); lia.
Qed.

Theorem gen_model_from_str_ok : forall fuel t, ascii_text t -> length t < fuel -> small (S (length t)) ->
  match model_of_text t with
  | Some md => gen_model_from_str fuel t = Some (ROk {| dm_model := model_of_mdefs md |})
  | None => exists e, gen_model_from_str fuel t = Some (RErr e)
  end.
Proof.
  intros fuel t Ht Hlen Hs. unfold model_of_text. pose proof (gen_from_str_ok fuel t Ht Hlen) as Hc.
  pose proof (parse_config_length t) as Hcl.
  unfold gen_model_from_str, rs_fn.
  destruct (parse_config t) as [c|]; cbn [option_map].
  - destruct Hc as (st & Hc & Hok). rewrite Hc. specialize (Hcl c eq_refl).
    assert (Hsc : small (S (length c))) by (eapply small_le; [|exact Hs]; lia).
    assert (Hf : S (length c) <= fuel) by lia.
    cbv beta iota zeta.
    repeat match goal with |- context [gen_load_section fuel ?m0 st ?s] =>
             rewrite (gen_load_section_ok fuel m0 st c s Hok ltac:(unfold known_secs; cbn [In]; tauto) Hsc Hf);
             cbv beta iota zeta
           end.
    do 2 f_equal. set (g := fun s => load_section (S (length c)) c s 1).
    match goal with |- ?lhs = _ =>
      change lhs with (fold_left (fun a s => fold_left (model_ins s) (g s) a) [T "r"; T "p"; T "e"; T "m"; T "g"] {| dm_model := hm_new |}) end.
    match goal with |- ?lhs = _ => destruct lhs as [mm] eqn:Em end. f_equal.
    apply (f_equal dm_model) in Em. cbn [dm_model] in Em. rewrite <- Em. unfold hm_new. rewrite build_model.
    + reflexivity.
    + repeat constructor; cbn [In]; intros H; repeat (destruct H as [H|H]; [discriminate H|]); exact H.
    + intros s _. reflexivity.
    + intros s _. apply load_section_NoDup, Hsc.
  - destruct Hc as (e & Hc). rewrite Hc. eexists. reflexivity.
Qed.

(* ------------------------------------------------------------------ *)
(* summaries                                                            *)
(* parse_buffer on any starting state, against the model's parse_lines on the lines of the reader *)
Theorem gen_parse_buffer_ok : forall fuel st c rd, conf_ok st c -> ascii_text rd -> length rd < fuel ->
  match parse_lines (S (length (ini_lines rd))) (ini_lines rd) [] c with
  | Some c' => exists st', gen_parse_buffer fuel st rd = Some (st', [], ROk tt) /\ conf_ok st' c'
  | None => exists st' rd' e, gen_parse_buffer fuel st rd = Some (st', rd', RErr e)
  end.
Proof.
  intros fuel st c rd Hok Hrd Hlen. rewrite (gen_parse_buffer_rd fuel st rd Hrd Hlen).
  pose proof (parse_rd_model config_state gen_add_config parse_errf conf_ok gen_add_config_rel
                fuel fuel st rd [] c Hok Hrd Hlen Hlen) as H.
  destruct (parse_lines _ _ _ _) as [c'|].
  - exact H.
  - destruct H as (st' & rd' & j & H). exists st', rd', (parse_errf j). exact H.
Qed.

(* Config::from_str then Config::get, against parse_config then cfg_get *)
Theorem gen_from_str_get : forall fuel t, ascii_text t -> length t < fuel ->
  match parse_config t with
  | Some c => exists st, gen_from_str fuel t = Some (ROk st) /\
                (forall sec opt, plain_key sec -> plain_key opt ->
                   gen_get st (sec ++ T "::" ++ opt) = Some (cfg_get (sec, opt) c)) /\
                (forall key, plain_key key -> gen_get st key = Some (cfg_get (DEFAULT_SECTION, key) c))
  | None => exists e, gen_from_str fuel t = Some (RErr e)
  end.
Proof.
  intros fuel t Ht Hlen. pose proof (gen_from_str_ok fuel t Ht Hlen) as H. destruct (parse_config t) as [c|]; [|exact H].
  destruct H as (st & H & Hok). exists st. split; [exact H|]. split.
  - intros sec opt Hs Ho. apply gen_get_cfg; assumption.
  - intros key Hk. apply gen_get_cfg_default; assumption.
Qed.

(* WITHOUT the ASCII hypothesis the statement is false: "k = v<U+00A0>" (the value ends in a NO-BREAK SPACE,
   bytes C2 A0).  Rust's trim removes it (White_Space), the byte-level model keeps it. *)
Definition nbsp_text : text := T "k = v" ++ [byte 194; byte 160].
Lemma gen_from_str_nonascii_refuted :
  exists t fuel st c, length t < fuel /\ gen_from_str fuel t = Some (ROk st) /\ parse_config t = Some c /\
    gen_get st (T "k") = Some (Some (T "v")) /\ cfg_get (DEFAULT_SECTION, T "k") c = Some (T "v" ++ [byte 194; byte 160]).
Proof.
  exists nbsp_text, 20. eexists. eexists. split; [vm_compute; lia|].
  split; [vm_compute; reflexivity|]. split; [vm_compute; reflexivity|]. split; vm_compute; reflexivity.
Qed.

(* ------------------------------------------------------------------ *)
(* Model::to_text                                                       *)
Lemma hm_get_model : forall md sec, hm_get (model_of_mdefs md) sec = option_map entries (assoc sec md).
Proof.
  induction md as [|[s ds] md IH]; intros sec; [reflexivity|]. cbn [model_of_mdefs map hm_get assoc fst snd].
  unfold rs_eq. destruct (teqb sec s); [reflexivity|]. apply IH.
Qed.
Lemma hm_contains_key_model : forall md sec,
  hm_contains_key (model_of_mdefs md) sec = match assoc sec md with Some _ => true | None => false end.
Proof. intros md sec. unfold hm_contains_key. rewrite hm_get_model. destruct (assoc sec md); reflexivity. Qed.
Lemma lhm_values_entries : forall ds, lhm_values (entries ds) = map assertion_of ds.
Proof. intros ds. unfold lhm_values, entries. rewrite map_map. reflexivity. Qed.
Lemma lhm_get_entries : forall ds k,
  lhm_get (entries ds) k = option_map assertion_of (find (fun d => teqb k (ad_key d)) ds).
Proof.
  induction ds as [|d ds IH]; intros k; [reflexivity|]. unfold lhm_get in *. cbn [entries map hm_get find].
  unfold rs_eq. destruct (teqb k (ad_key d)); [reflexivity|]. apply IH.
Qed.
Lemma fold_left_flat_map : forall {A B S} (g : S -> B -> S) (h : A -> list B) l s,
  fold_left (fun acc a => fold_left g (h a) acc) l s = fold_left g (flat_map h l) s.
Proof.
  intros A B S g h. induction l as [|a l IH]; intros s; cbn [fold_left flat_map]; [reflexivity|].
  rewrite fold_left_app. apply IH.
Qed.
Lemma fold_left_map : forall {A B S} (f : S -> B -> S) (g : A -> B) l s,
  fold_left f (map g l) s = fold_left (fun acc x => f acc (g x)) l s.
Proof. intros A B S f g. induction l as [|a l IH]; intros s; cbn [fold_left map]; [reflexivity|apply IH]. Qed.

(* the tokens in the order the code inserts them: the section r, then the section p *)
Definition toks_rp (md : mdefs) : list text :=
  flat_map ad_tokens (sec_defs md (T "r")) ++ flat_map ad_tokens (sec_defs md (T "p")).
Definition model_toks (md : mdefs) : list text :=
  flat_map (fun sd => if teqb (fst sd) (T "r") || teqb (fst sd) (T "p") then flat_map ad_tokens (snd sd) else []) md.

Lemma model_toks_canon : forall md, mdefs_canon md = true -> model_toks md = toks_rp md.
Proof.
  intros md H. unfold mdefs_canon in H. apply mdefs_eqb_eq in H. unfold toks_rp.
  remember (sec_defs md (T "r")) as dr. remember (sec_defs md (T "p")) as dp.
  remember (sec_defs md (T "e")) as de. remember (sec_defs md (T "m")) as dm. remember (sec_defs md (T "g")) as dg.
  unfold SpecC16.model_secs in H. cbn [flat_map] in H. rewrite <- Heqdr, <- Heqdp, <- Heqde, <- Heqdm, <- Heqdg in H.
  rewrite H. clear.
  destruct dr, dp, de, dm, dg; cbn; rewrite ?app_nil_r; reflexivity.
Qed.

Definition ins_tok (tp : hashmap text) (t : text) : hashmap text := hm_insert tp t (untoken t).

(* the replacement table is well formed: its patterns are pairwise different and not empty *)
Definition table_wf (md : mdefs) : Prop :=
  NoDup (map fst (token_table md)) /\ ~ In [] (map fst (token_table md)).

Lemma token_table_canon : forall md, mdefs_canon md = true ->
  token_table md = map (fun t => (t, untoken t)) (toks_rp md) ++
    match assoc (T "e") md with
    | Some ds => if existsb (fun d => teqb (ad_key d) (T "e") && is_infix (T "p_eft") (ad_value d)) ds
                 then [(T "p_eft", T "p.eft")] else []
    | None => []
    end.
Proof. intros md H. unfold token_table. fold (model_toks md). rewrite (model_toks_canon md H). reflexivity. Qed.

Lemma fold_replace_table : forall tb v, ~ In [] (map fst tb) ->
  fold_left (fun acc pr => rs_str_replace acc (fst pr) (snd pr)) tb v = apply_table tb v.
Proof.
  intros tb. rewrite <- (rev_involutive tb). generalize (rev tb). clear tb. intros tb v H.
  rewrite apply_table_rep. revert v. induction tb as [|[t u] tb IH]; intros v; [reflexivity|].
  cbn [rev]. rewrite !fold_left_app. cbn [fold_left fst snd]. rewrite IH.
  - apply rs_str_replace_rep. intros ->. apply H. rewrite map_rev. apply in_rev. rewrite rev_involutive. left. reflexivity.
  - intros Hin. apply H. cbn [rev]. rewrite map_app. apply in_or_app. left. exact Hin.
Qed.

Lemma write_loop_true : forall (body : text * gen_assertion -> text -> flow text text) tb ds s0,
  (forall k a s, body (k, a) s = LNext (s ++ (k ++ T " = " ++ apply_table tb (ga_value a) ++ nlt))) ->
  rs_for body (lhm_iter (entries ds)) s0 = Done (s0 ++ write_defs tb ds true).
Proof.
  intros body tb ds s0 Hb. unfold lhm_iter.
  rewrite (rs_for_fold body (fun s ka => s ++ (fst ka ++ T " = " ++ apply_table tb (ga_value (snd ka)) ++ nlt)))
    by (intros [k a] s; apply Hb).
  unfold entries. rewrite fold_left_map. cbn [fst snd ga_value assertion_of].
  rewrite (fold_left_app_flat (fun d => ad_key d ++ T " = " ++ apply_table tb (ad_value d) ++ nlt)). reflexivity.
Qed.
Lemma write_loop_false : forall (body : text * gen_assertion -> text -> flow text text) tb ds s0,
  (forall k a s, body (k, a) s = LNext (s ++ (k ++ T " = " ++ ga_value a ++ nlt))) ->
  rs_for body (lhm_iter (entries ds)) s0 = Done (s0 ++ write_defs tb ds false).
Proof.
  intros body tb ds s0 Hb. unfold lhm_iter.
  rewrite (rs_for_fold body (fun s ka => s ++ (fst ka ++ T " = " ++ ga_value (snd ka) ++ nlt)))
    by (intros [k a] s; apply Hb).
  unfold entries. rewrite fold_left_map. cbn [fst snd ga_value assertion_of].
  rewrite (fold_left_app_flat (fun d => ad_key d ++ T " = " ++ ad_value d ++ nlt)). reflexivity.
Qed.

Lemma NoDup_app_l : forall {A} (a b : list A), NoDup (a ++ b) -> NoDup a.
Proof.
  intros A. induction a as [|x a IH]; intros b H; [constructor|]. cbn [app] in H. inversion H as [|y l Hn Hnd]. subst.
  constructor; [intros Hin; apply Hn, in_or_app; left; exact Hin|exact (IH b Hnd)].
Qed.

Lemma find_key_existsb : forall (P : adef -> bool) k ds, NoDup (map ad_key ds) ->
  existsb (fun d => teqb (ad_key d) k && P d) ds =
  match find (fun d => teqb k (ad_key d)) ds with Some d => P d | None => false end.
Proof.
  intros P k. induction ds as [|d ds IH]; intros H; [reflexivity|]. cbn [existsb find map] in *.
  inversion H as [|x l Hn Hnd]. subst. rewrite (teqb_sym k (ad_key d)).
  destruct (teqb (ad_key d) k) eqn:E; cbn [andb orb]; [|apply IH, Hnd].
  apply teqb_eq in E. destruct (P d); [reflexivity|]. cbn [orb].
  assert (Hex : existsb (fun d0 => teqb (ad_key d0) k && P d0) ds = false); [|exact Hex].
  apply not_true_is_false. intros Hx. apply existsb_exists in Hx. destruct Hx as (d' & Hin & Hd').
  apply andb_true_iff in Hd'. destruct Hd' as [Hk _]. apply teqb_eq in Hk. apply Hn. rewrite E, <- Hk.
  apply in_map, Hin.
Qed.

Ltac wbody Hord Hne Hwb :=
  let k := fresh "k" in let a := fresh "a" in let s := fresh "s" in
  intros k a s; cbv beta iota;
  match goal with |- context [rs_for ?b2 (hm_iter _ _) ?v0] =>
    rewrite (rs_for_fold b2 (fun v pr => rs_str_replace v (fst pr) (snd pr))) by (intros [? ?] ?; reflexivity) end;
  unfold hm_iter; rewrite Hord, (fold_replace_table _ _ Hne); apply Hwb; reflexivity.
Ltac layer_true md SEC Hord Hne Hwb :=
  match goal with |- rs_fn (rs_join ?k ?b) = _ =>
    let K := fresh "K" in set (K := k);
    match goal with |- context [rs_for _ (lhm_iter _) ?s0] =>
      assert (HL : rs_join K b = K (s0 ++ write_defs (token_table md) (sec_defs md SEC) true));
      [ unfold rs_join; cbv beta zeta; rewrite hm_get_model; unfold sec_defs;
        destruct (assoc SEC md) as [ds|]; cbn [option_map];
        [ rewrite (write_loop_true _ (token_table md)) by wbody Hord Hne Hwb; reflexivity
        | cbn [write_defs flat_map]; rewrite app_nil_r; reflexivity ]
      | rewrite HL; clear HL; subst K; cbv beta ]
    end
  end.

(* iteration order of the replacement table = insertion order (what the model applies); a canonical model
   (sections r, p, e, m, g in this order, none empty: what load_model builds); a well-formed table *)
Theorem gen_to_text_ok : forall ord md, (forall l, ord l = l) -> mdefs_canon md = true -> table_wf md ->
  NoDup (map ad_key (sec_defs md (T "e"))) ->
  gen_to_text ord {| dm_model := model_of_mdefs md |} = Some (to_text md).
Proof.
  intros ord md Hord Hcanon [Hnd Hne] Hke. unfold gen_to_text. cbn [dm_model].
  (* phase 1: the tokens of r and p *)
  match goal with |- context [rs_for ?b [T "r"; T "p"] ?s0] =>
    rewrite (rs_for_fold_in b (fun tp sec => fold_left ins_tok (flat_map ad_tokens (sec_defs md sec)) tp)) end.
  2: { intros sec tp _. cbv beta. rewrite hm_get_model. unfold sec_defs. destruct (assoc sec md) as [ds|]; [|reflexivity].
       cbn [option_map]. rewrite lhm_values_entries.
       match goal with |- context [rs_for ?b (map assertion_of ds) ?s0] =>
         rewrite (rs_for_fold_in b (fun tp a => fold_left ins_tok (ga_tokens a) tp)) end.
       2: { intros a tp' _. cbv beta.
            match goal with |- context [rs_for ?b (ga_tokens a) ?s0] => rewrite (rs_for_fold b ins_tok) end; [reflexivity|].
            intros t tp''. reflexivity. }
       rewrite fold_left_map. cbn [ga_tokens assertion_of].
       rewrite (fold_left_flat_map ins_tok ad_tokens). reflexivity. }
  cbn [fold_left]. rewrite <- fold_left_app. fold (toks_rp md).
  pose proof (token_table_canon md Hcanon) as HTB.
  (* the table *)
  match goal with |- rs_fn (rs_join ?k ?b) = _ => set (K := k); assert (HL : rs_join K b = K (token_table md)) end.
  { unfold rs_join. rewrite hm_get_model. rewrite HTB in Hnd |- *.
    assert (Hbase : fold_left ins_tok (toks_rp md) hm_new = map (fun t => (t, untoken t)) (toks_rp md)).
    { unfold ins_tok. rewrite (hm_insert_fold_fresh (fun t => t) untoken); [reflexivity|].
      cbn [map app]. rewrite map_app in Hnd. apply NoDup_app_l in Hnd. rewrite map_map in Hnd. cbn [fst] in Hnd.
      rewrite map_id in *. exact Hnd. }
    rewrite Hbase. unfold sec_defs in Hke.
    destruct (assoc (T "e") md) as [ds|]; cbn [option_map]; [|rewrite app_nil_r; reflexivity].
    rewrite (find_key_existsb (fun d => is_infix (T "p_eft") (ad_value d)) (T "e") ds Hke) in Hnd |- *.
    rewrite lhm_get_entries.
    destruct (find _ ds) as [d|]; cbn [option_map]; [|rewrite app_nil_r; reflexivity].
    rewrite rs_contains_str_infix. cbn [ga_value assertion_of].
    destruct (is_infix (T "p_eft") (ad_value d)) eqn:Ei; [|rewrite app_nil_r; reflexivity].
    rewrite hm_insert_fresh; [reflexivity|].
    destruct (hm_get _ (T "p_eft")) eqn:Eg; [|reflexivity]. exfalso.
    rewrite map_app in Hnd. cbn [map fst] in Hnd. apply NoDup_remove_2 in Hnd. apply Hnd. rewrite app_nil_r.
    clear -Eg. revert Eg. generalize (map (fun t => (t, untoken t)) (toks_rp md)). intros l.
    induction l as [|[k0 v0] r IHm]; cbn [hm_get map fst]; intros E; [discriminate|].
    destruct (rs_eq (T "p_eft") k0) eqn:E0; [left; symmetry; apply rs_eq_true, E0|right; apply IHm, E]. }
  rewrite HL. clear HL. subst K. cbv beta.
  (* the four sections written through the table, the role definitions in between *)
  assert (Hwb : forall (k : text) (a : gen_assertion) (s v : text),
            v = apply_table (token_table md) (ga_value a) ->
            LNext (R := text) (rs_push_str s (k ++ T " = " ++ v ++ T (String (ascii_of_nat 10) EmptyString))) =
            LNext (s ++ (k ++ T " = " ++ apply_table (token_table md) (ga_value a) ++ nlt))).
  { intros k a s v ->. reflexivity. }
  layer_true md (T "r") Hord Hne Hwb.
  layer_true md (T "p") Hord Hne Hwb.
  (* the role definitions, written as they are *)
  match goal with |- rs_fn (rs_join ?k ?b) = _ =>
    set (K := k);
    match goal with |- context [rs_for _ (lhm_iter _) (rs_push_str ?s0 _)] =>
      assert (HL : rs_join K b = K (s0 ++ match assoc (T "g") md with
                                          | Some ds => T "[role_definition]" ++ nlt ++ write_defs (token_table md) ds false
                                          | None => [] end))
    end
  end.
  { unfold rs_join. cbv beta zeta. rewrite hm_contains_key_model, hm_get_model.
    destruct (assoc (T "g") md) as [ds|]; cbn [option_map]; [|rewrite app_nil_r; reflexivity].
    rewrite (write_loop_false _ (token_table md)) by (intros k a s; reflexivity).
    unfold rs_push_str. cbv iota. f_equal. rewrite <- !app_assoc. reflexivity. }
  rewrite HL. clear HL. subst K. cbv beta.
  layer_true md (T "e") Hord Hne Hwb.
  (* the matchers, and the final string *)
  rewrite hm_get_model. unfold to_text, rs_fn, sec_defs.
  destruct (assoc (T "m") md) as [dm|]; cbn [option_map].
  - rewrite (write_loop_true _ (token_table md)) by wbody Hord Hne Hwb. f_equal. unfold rs_push_str.
    rewrite <- !app_assoc. reflexivity.
  - f_equal. unfold rs_push_str. cbn [write_defs flat_map]. rewrite <- !app_assoc. reflexivity.
Qed.

(* a decidable form of the hypotheses of gen_to_text_ok *)
Fixpoint text_nodupb (l : list text) : bool :=
  match l with [] => true | x :: r => negb (memb teqb x r) && text_nodupb r end.
Lemma text_nodupb_NoDup : forall l, text_nodupb l = true -> NoDup l.
Proof.
  induction l as [|x r IH]; intros H; [constructor|]. cbn [text_nodupb] in H. apply andb_true_iff in H.
  destruct H as [H1 H2]. apply negb_true_iff in H1. constructor; [apply memb_not_In, H1|apply IH, H2].
Qed.
Definition table_wfb (md : mdefs) : bool :=
  text_nodupb (map fst (token_table md)) && negb (memb teqb [] (map fst (token_table md))).
Lemma table_wfb_wf : forall md, table_wfb md = true -> table_wf md.
Proof.
  intros md H. unfold table_wfb in H. apply andb_true_iff in H. destruct H as [H1 H2]. split.
  - apply text_nodupb_NoDup, H1.
  - apply negb_true_iff in H2. apply memb_not_In, H2.
Qed.

(* FINDING.  For an arbitrary iteration order of the HashMap the result of to_text is NOT determined: with the
   request field `a` and the policy field `r_a` the tokens are r_a and p_r_a, and "r_a == p_r_a" becomes
   "r.a == p_r.a" when r_a is replaced first and "r.a == p.r.a" when p_r_a is replaced first.  (Observed on
   the real code as well: the same model printed in two ways within one process.) *)
Definition order_text : text :=
  T "[request_definition]" ++ [nl] ++ T "r = a" ++ [nl] ++ T "[policy_definition]" ++ [nl] ++ T "p = r_a" ++ [nl] ++
  T "[policy_effect]" ++ [nl] ++ T "e = some(where (p.eft == allow))" ++ [nl] ++
  T "[matchers]" ++ [nl] ++ T "m = r.a == p.r_a".
Lemma gen_to_text_any_order_refuted :
  exists m md s1 s2, gen_model_from_str 300 order_text = Some (ROk m) /\ model_of_text order_text = Some md /\
    mdefs_canon md = true /\ table_wfb md = true /\
    gen_to_text (fun l => l) m = Some s1 /\ gen_to_text (@rev _) m = Some s2 /\ s1 <> s2.
Proof.
  do 4 eexists. split; [vm_compute; reflexivity|]. split; [vm_compute; reflexivity|].
  split; [vm_compute; reflexivity|]. split; [vm_compute; reflexivity|].
  split; [vm_compute; reflexivity|]. split; [vm_compute; reflexivity|]. discriminate.
Qed.
