(* Obligations tying the TRANSLATED functions of rs2coq part 15 (Gen/Enforcer2Gen.v,
   regenerated on every run by tools/rs2coq_enf2.py from /repo/src/enforcer.rs,
   /repo/src/emitter.rs and the macro register_g_function! of /repo/src/macros.rs)
   to the engine model (Model/Engine.v, Model/Cached.v).

   The translated functions run on `renf`, the Rust-level enforcer of
   Gen/Enforcer2Rt.v (events : HashMap<Event, Vec<fn>>, fm : FunctionMap, engine :
   the registrations in order); `abs x` is the model state x stands for.  Every
   statement is for ALL x : renf and ALL arguments:
       abs (gen_f x ..) = the model's f / step on (abs x)
   and, for what the model only has as a lookup order (Enforce.call_fn: added
   function, then role closure, then default function), `eng_coherent`: the
   engine of the Rust-level state answers every call as call_fn does.

   Method.  For each translated function one SPEC lemma (`.._spec`) rewrites the
   generated term into a closed form that does not depend on how the source is
   written (rg_spec, notify_n, a single rset_events ..): it is proved by tactics
   that never look at the shape of the generated term (they unfold the
   Enforcer2Rt operations, turn loops into folds through POINTWISE descriptions
   of their bodies - fold_notify, rs_for_errfold, fold_rset_engine - and split on
   every scrutinee).  The statements about the model are then derived from the
   closed forms by the hand-written lemmas of Proofs/Enforcer2P.v.  A rewrite of
   the Rust source that keeps its meaning inside the translated subset keeps the
   spec lemmas; a change of meaning leaves an unprovable leaf and the file no
   longer compiles (tools/rs2coq_demo_enf2.py).

   FINDINGS (source and model disagree; stated and proved below as `.._refuted`):
   F1  register_g_functions re-applies the WHOLE function map after the role
       closures (commit 2c2fb2f) - also its default entries keyMatch .. regexMatch.
       A role definition filed under such a name (Model::add_def("g", "keyMatch",
       "_, _")) is therefore shadowed by the default function in the engine,
       while Enforce.call_fn prefers the role closure to the default function.
   F2  on its ERROR path (a later role definition with a bad number of
       underscores) register_g_functions returns before it re-applies the function
       map: the role closures registered so far stay on top of an added function
       of the same name and arity; the model keeps giving the added function. *)
From CV Require Import Model.Base Model.Expr Model.RoleGraph Model.Enforce Model.Engine Model.Cached.
From CV Require Import Gen.RustStr Gen.RustVec Gen.InternalPrims Gen.EnforcerPrims Gen.EnforcerGen Gen.EnforceGen.
From CV Require Import Gen.LinksPrims Gen.LinksGen Gen.CachedRt Gen.Enforcer2Rt Gen.Enforcer2Gen.
From CV Require Import Proofs.BaseP Proofs.RustVecP Proofs.RustLinksP Proofs.ExModels Proofs.Enforcer2P.
From CV Require PinChecks.PcEnforcerGen PinChecks.PcEnforceGen PinChecks.PcLinksGen.
From Coq Require Import Lia.

Lemma gen_enforcer2_translated_ok : gen_enforcer2_translated = true.
Proof. reflexivity. Qed.

(* ------------------------------------------------------------------ *)
(* the tactics                                                         *)

(* the Enforcer2Rt / RustVec operations that are plain definitions *)
Ltac rt_unfold :=
  unfold rs_push, rs_vec_new, rs_for_each, rs_take, rs_first, rs_map_get, watcher_update, rm_handle_cur, rm_new,
         fm_get_functions, eng_new_raw, eng_register_global_module, default_effector, cg_clear, hm_new, hm_clear in *;
  cbv beta zeta.

(* the state as a record: projections and field assignments compute *)
Ltac renf_open x :=
  destruct x as [md0 ad0 fm0 ef0 rm0 en0 sv0 bl0 nt0 wt0 ev0 eng0];
  cbn [r_model r_adapter r_fm r_eft r_rm r_enabled r_auto_save r_auto_build r_auto_notify r_watcher r_events r_engine
       rset_events rset_engine rset_watcher rset_fm rset_links] in *.

(* the event map: a value written twice under one key, a value read back *)
Ltac hm_norm :=
  repeat first
    [ rewrite hm_insert_insert
    | rewrite hm_get_or_insert_same
    | rewrite hm_get_insert_same
    | match goal with
      | E : hm_get evkind_eqb ?m ?k = Some ?v |- context [hm_get_or evkind_eqb ?m ?k ?d] => rewrite (hm_get_or_some m k v d E)
      | E : hm_get evkind_eqb ?m ?k = None |- context [hm_get_or evkind_eqb ?m ?k ?d] => rewrite (hm_get_or_none m k d E)
      end ].

(* split on an innermost scrutinee *)
Ltac split_step :=
  match goal with
  | |- context [match ?s with _ => _ end] =>
    lazymatch s with context [match _ with _ => _ end] => fail | _ => idtac end;
    first [ is_var s; destruct s | destruct s eqn:? ]
  | |- context [if ?c then _ else _] =>
    lazymatch c with context [if _ then _ else _] => fail | _ => idtac end;
    destruct c eqn:?
  end.

(* comparisons of numbers as propositions *)
Ltac nat_hyps :=
  repeat match goal with
         | H : Nat.eqb _ _ = true |- _ => apply Nat.eqb_eq in H
         | H : Nat.eqb _ _ = false |- _ => apply Nat.eqb_neq in H
         | H : Nat.ltb _ _ = true |- _ => apply Nat.ltb_lt in H
         | H : Nat.ltb _ _ = false |- _ => apply Nat.ltb_ge in H
         | H : Nat.leb _ _ = true |- _ => apply Nat.leb_le in H
         | H : Nat.leb _ _ = false |- _ => apply Nat.leb_gt in H
         | H : negb _ = true |- _ => apply negb_true_iff in H
         | H : negb _ = false |- _ => apply negb_false_iff in H
         | H : andb _ _ = true |- _ => apply andb_true_iff in H; destruct H
         | H : orb _ _ = false |- _ => apply orb_false_iff in H; destruct H
         end.

(* ------------------------------------------------------------------ *)
(* (A) src/emitter.rs                                                  *)

(* notify_logger_and_watcher::<Enforcer>: the watcher, if there is one, receives the data once *)
Lemma gen_emitter_notify_spec : forall x d, gen_emitter_notify_logger_and_watcher x d = notify_n x d 1.
Proof.
  intros x d. unfold gen_emitter_notify_logger_and_watcher, notify_n. rt_unfold. renf_open x.
  repeat (try reflexivity; split_step).
Qed.

Theorem gen_emitter_notify_logger_and_watcher_ok : forall x d,
  abs (gen_emitter_notify_logger_and_watcher x d) =
  (if e_watcher (abs x) then upd_wlog (abs x) (e_wlog (abs x) ++ [d]) else abs x).
Proof. intros x d. rewrite gen_emitter_notify_spec. apply abs_notify_n. Qed.

(* clear_cache::<CachedEnforcer>: the decision cache is emptied (what Cached.clears_after stands for) *)
Theorem gen_emitter_clear_cache_ok : forall c d,
  gen_emitter_clear_cache c d = {| c_inner := c_inner c; c_cache := [] |}.
Proof. intros c d. unfold gen_emitter_clear_cache. rt_unfold. reflexivity. Qed.

(* the dispatcher of `cb(self, d)` *)
Lemma gen_enf_call_callback_spec : forall cb x d, gen_enf_call_callback cb x d = notify_n x d 1.
Proof. intros cb x d. unfold gen_enf_call_callback. destruct cb. apply gen_emitter_notify_spec. Qed.

(* ------------------------------------------------------------------ *)
(* (B) impl EventEmitter<Event> for Enforcer                           *)

(* on: the callback is appended to the vector of its event (created empty if the event has none) *)
Lemma gen_enf_on_spec : forall x k f,
  gen_enf_on x k f =
  rset_events x (hm_insert evkind_eqb (r_events x) k (hm_get_or evkind_eqb (r_events x) k [] ++ [f])).
Proof.
  intros x k f. unfold gen_enf_on. rt_unfold. renf_open x.
  repeat (hm_norm; try reflexivity; split_step).
Qed.

Theorem gen_enf_on_ok : forall x f, abs (gen_enf_on x KPolicyChange f) = on_policy_change (abs x).
Proof.
  intros x f. rewrite gen_enf_on_spec, abs_rset_events. unfold n_callbacks, on_policy_change.
  rewrite hm_get_or_insert_same, app_length. reflexivity.
Qed.

Theorem gen_enf_on_other : forall x f, abs (gen_enf_on x KClearCache f) = abs x.
Proof.
  intros x f. rewrite gen_enf_on_spec, abs_rset_events. unfold n_callbacks.
  rewrite hm_get_or_insert_other by discriminate. reflexivity.
Qed.

Theorem gen_enf_on_events : forall x k f k',
  hm_get evkind_eqb (r_events (gen_enf_on x k f)) k' =
  if evkind_eqb k k' then Some (hm_get_or evkind_eqb (r_events x) k [] ++ [f]) else hm_get evkind_eqb (r_events x) k'.
Proof.
  intros x k f k'. rewrite gen_enf_on_spec. cbn [rset_events r_events].
  destruct (evkind_eqb k k') eqn:E.
  - apply evkind_eqb_eq in E. subst k'. apply hm_get_insert_same.
  - apply evkind_eqb_neq in E. apply hm_get_insert_other, E.
Qed.

(* off: the entry of the event is removed, the other events keep their callbacks *)
Lemma gen_enf_off_spec : forall x k, gen_enf_off x k = rset_events x (hm_remove evkind_eqb (r_events x) k).
Proof.
  intros x k. unfold gen_enf_off. rt_unfold. renf_open x.
  repeat (hm_norm; try reflexivity; split_step).
Qed.

Theorem gen_enf_off_ok : forall x, abs (gen_enf_off x KPolicyChange) = off_policy_change (abs x).
Proof.
  intros x. rewrite gen_enf_off_spec, abs_rset_events. unfold n_callbacks, off_policy_change.
  rewrite hm_get_or_remove_same. reflexivity.
Qed.

Theorem gen_enf_off_other : forall x, abs (gen_enf_off x KClearCache) = abs x.
Proof.
  intros x. rewrite gen_enf_off_spec, abs_rset_events. unfold n_callbacks.
  rewrite hm_get_or_remove_other by discriminate. reflexivity.
Qed.

Theorem gen_enf_off_events : forall x k k',
  hm_get evkind_eqb (r_events (gen_enf_off x k)) k' = if evkind_eqb k k' then None else hm_get evkind_eqb (r_events x) k'.
Proof.
  intros x k k'. rewrite gen_enf_off_spec. cbn [rset_events r_events].
  destruct (evkind_eqb k k') eqn:E.
  - apply evkind_eqb_eq in E. subst k'. apply hm_get_remove_same.
  - apply evkind_eqb_neq in E. apply hm_get_remove_other, E.
Qed.

(* emit: every callback of the event runs once, in registration order; nothing else changes *)
Lemma gen_enf_emit_spec : forall x k d,
  gen_enf_emit x k d = notify_n x d (length (hm_get_or evkind_eqb (r_events x) k [])).
Proof.
  intros x k d. unfold gen_enf_emit. rt_unfold.
  repeat first
    [ rewrite (fold_notify _ d) by (intros; apply gen_enf_call_callback_spec)
    | rewrite rset_watcher_id
    | progress hm_norm
    | reflexivity
    | symmetry; apply notify_n_0
    | split_step ].
Qed.

Theorem gen_enf_emit_ok : forall x d, abs (gen_enf_emit x KPolicyChange d) = emit (abs x) d.
Proof. intros x d. rewrite gen_enf_emit_spec. apply abs_notify_emit. Qed.

(* emit(Event::ClearCache, ..) on the plain enforcer, which registers no callback for it: nothing
   (InternalPrims.emit_clear_cache, the hook of part 4) *)
Theorem gen_enf_emit_clear_cache : forall x d, hm_get evkind_eqb (r_events x) KClearCache = None ->
  gen_enf_emit x KClearCache d = x /\ abs (gen_enf_emit x KClearCache d) = emit_clear_cache (abs x).
Proof.
  intros x d H. rewrite gen_enf_emit_spec, (hm_get_or_none _ _ _ H). cbn [length]. rewrite notify_n_0. split; reflexivity.
Qed.

(* ------------------------------------------------------------------ *)
(* (C) Enforcer::register_g_functions                                  *)

(* one iteration of the loop over the role definitions (the expansion of register_g_function!) *)
Ltac g_body :=
  intros [gk ga] gx; unfold step_g, step_g_eng; cbn [fst snd]; rt_unfold;
  rewrite ?rs_count_char_us;
  repeat match goal with
         | |- context [Nat.eqb ?a ?b] => destruct (Nat.eqb a b) eqn:?
         | |- context [Nat.ltb ?a ?b] => destruct (Nat.ltb a b) eqn:?
         | |- context [Nat.leb ?a ?b] => destruct (Nat.leb a b) eqn:?
         end;
  cbn [negb andb orb]; rewrite ?rset_engine_id; try reflexivity; exfalso; nat_hyps; lia.

(* the loop that re-applies the function map *)
Ltac fm_body := intros fs0 [fk ff]; reflexivity.

Lemma gen_enf_register_g_functions_spec : forall x, gen_enf_register_g_functions x = rg_spec x.
Proof.
  intros x. unfold gen_enf_register_g_functions, rg_spec. rt_unfold.
  change (T "g") with s_g.
  repeat first
    [ rewrite (rs_for_errfold _ step_g (fun x1 e => (x1, Err e))) by g_body
    | rewrite (fold_left_ext _ (fun x1 kf => rset_engine x1 (eng_register_function (r_engine x1) (fst kf) (snd kf)))) by fm_body;
      rewrite (fold_rset_engine (fun eng kf => eng_register_function eng (fst kf) (snd kf)))
    | reflexivity
    | split_step ].
Qed.

(* for ALL states: the state and the answer of the model's register_g_functions *)
Theorem gen_enf_register_g_functions_ok : forall x,
  abs (fst (gen_enf_register_g_functions x)) = fst (register_g_functions (abs x)) /\
  snd (gen_enf_register_g_functions x) = lerr_out (snd (register_g_functions (abs x))) true.
Proof. intros x. rewrite gen_enf_register_g_functions_spec. apply rg_spec_model. Qed.

Theorem gen_enf_register_g_functions_frame : forall x,
  r_fm (fst (gen_enf_register_g_functions x)) = r_fm x /\ r_events (fst (gen_enf_register_g_functions x)) = r_events x /\
  r_watcher (fst (gen_enf_register_g_functions x)) = r_watcher x /\ r_model (fst (gen_enf_register_g_functions x)) = r_model x /\
  r_rm (fst (gen_enf_register_g_functions x)) = r_rm x.
Proof. intros x. rewrite gen_enf_register_g_functions_spec. apply rg_spec_frame. Qed.

(* the engine: what the re-application of the function map (commit 2c2fb2f) is for.
   FULL statement: register_g_functions keeps the engine coherent with Enforce.call_fn. *)
Definition gen_enf_register_g_functions_coherent_full : Prop :=
  forall x, eng_coherent x -> fm_wf (r_fm x) -> eng_coherent (fst (gen_enf_register_g_functions x)).

(* PROVED: when it succeeds and no default function of the function map has the name and arity of a
   role closure of the resulting state.  Missing for the full statement: F1 and F2 below. *)
Theorem gen_enf_register_g_functions_coherent_partial : forall x,
  eng_coherent x -> fm_wf (r_fm x) ->
  snd (gen_enf_register_g_functions x) = Ok true ->
  builtins_unshadowed (r_fm x) (f_gfuns (e_fs (abs (fst (gen_enf_register_g_functions x))))) ->
  eng_coherent (fst (gen_enf_register_g_functions x)).
Proof. intros x. rewrite gen_enf_register_g_functions_spec. apply rg_spec_coherent. Qed.

(* ------------------------------------------------------------------ *)
(* (D) EnforceContext::new and the wrappers of impl CoreApi for Enforcer *)

Theorem gen_ctx_new_ok : forall k,
  gen_ctx_new k = {| x_r := s_r ++ k; x_p := s_p ++ k; x_e := s_e ++ k; x_m := s_m ++ k |}.
Proof. intros k. unfold gen_ctx_new, rs_format1. cbn [T list_ascii_of_string]. rewrite !app_nil_r. reflexivity. Qed.

(* build_incremental_role_links: DefaultModel::build_incremental_role_links (part 8) on the enforcer's store
   and manager = the dispatcher that part 4 uses (InternalPrims.build_incremental_role_links, hence the model's
   incremental_links); Ok(()) is the model's Ok true *)
Theorem gen_enf_build_incremental_role_links_ok : forall x d,
  (abs (fst (gen_enf_build_incremental_role_links x d)), snd (gen_enf_build_incremental_role_links x d)) =
  (fst (build_incremental_role_links (abs x) d), lerr_out (snd (build_incremental_role_links (abs x) d)) true).
Proof.
  intros x d. unfold gen_enf_build_incremental_role_links. rt_unfold.
  pose proof (PcLinksGen.gen_model_build_incremental_role_links_model (abs x) d) as H.
  change (e_model (abs x)) with (d_model (r_model x)) in H. change (f_rm (e_fs (abs x))) with (fst (r_rm x)) in H.
  destruct (gen_model_build_incremental_role_links HCur d (d_model (r_model x)) (fst (r_rm x))) as [[[md m] e]|];
    [|destruct H].
  rewrite H. cbn [fst snd].
  repeat (try reflexivity; split_step).
Qed.

Section Enforce2.
  Variable ptab : text -> option expr.

  (* enforce: private_enforce (part 10) on the converted request; the decision is handed on *)
  Theorem gen_enf_enforce_ok : forall x rv, gen_enf_enforce ptab x rv = enforce ptab (abs x) rv.
  Proof.
    intros x rv. unfold gen_enf_enforce, enforce, enforce_plain. rt_unfold.
    rewrite ?PcEnforceGen.gen_private_enforce_ok, ?PcEnforceGen.gen_private_enforce_with_context_ok.
    change (enforce_core ptab (r_enabled x) (d_model (r_model x)) (d_mexprs (r_model x)) (abs_fs x))
      with (enforce_core ptab (e_enabled (abs x)) (e_model (abs x)) (e_mexprs (abs x)) (e_fs (abs x))).
    repeat (try reflexivity; split_step).
  Qed.

  (* enforce_with_context: the four names of the context that is PASSED *)
  Theorem gen_enf_enforce_with_context_ok : forall x c rv,
    gen_enf_enforce_with_context ptab x c rv = enforce_with_ctx4 ptab (abs x) (x_r c) (x_p c) (x_e c) (x_m c) rv.
  Proof.
    intros x c rv. unfold gen_enf_enforce_with_context, enforce_with_ctx4. rt_unfold.
    rewrite ?PcEnforceGen.gen_private_enforce_ok, ?PcEnforceGen.gen_private_enforce_with_context_ok.
    change (enforce_core ptab (r_enabled x) (d_model (r_model x)) (d_mexprs (r_model x)) (abs_fs x))
      with (enforce_core ptab (e_enabled (abs x)) (e_model (abs x)) (e_mexprs (abs x)) (e_fs (abs x))).
    repeat (try reflexivity; split_step).
  Qed.

  (* with EnforceContext::new(suffix) *)
  Corollary gen_enf_enforce_with_context_new : forall x k rv,
    gen_enf_enforce_with_context ptab x (gen_ctx_new k) rv = enforce_with_ctx ptab (abs x) k rv.
  Proof. intros x k rv. rewrite gen_enf_enforce_with_context_ok, gen_ctx_new_ok. reflexivity. Qed.

  (* enforce_mut: enforce, the enforcer untouched *)
  Theorem gen_enf_enforce_mut_ok : forall x rv, gen_enf_enforce_mut ptab x rv = (x, enforce ptab (abs x) rv).
  Proof.
    intros x rv. unfold gen_enf_enforce_mut. rt_unfold. rewrite ?gen_enf_enforce_ok.
    repeat (try reflexivity; split_step).
  Qed.
End Enforce2.

(* ------------------------------------------------------------------ *)
(* (E) new_raw, new                                                    *)

(* new_raw: the struct literal (DefaultRoleManager::new(10), DefaultEffector, the four switches on, no
   watcher, no events, the engine with the default function map registered), one PolicyChange callback
   (notify_logger_and_watcher), then register_g_functions with its `?` *)
Lemma gen_enf_new_raw_spec : forall d a, gen_enf_new_raw d a = rg_spec (init_renf d a).
Proof.
  intros d a. unfold gen_enf_new_raw. rt_unfold. rewrite ?gen_enf_register_g_functions_spec.
  match goal with |- context [rg_spec ?y] => change y with (init_renf d a) end.
  destruct (rg_spec_outcome (init_renf d a)) as [H|[e H]];
    destruct (rg_spec (init_renf d a)) as [x o]; cbn [snd] in H; subst o;
    repeat (try reflexivity; split_step).
Qed.

(* the model's new_raw (no watcher is installed by the constructor: e_watcher = false) *)
Theorem gen_enf_new_raw_ok : forall d a,
  abs (fst (gen_enf_new_raw d a)) = fst (new_raw d a false) /\
  snd (gen_enf_new_raw d a) = lerr_out (snd (new_raw d a false)) true.
Proof.
  intros d a. rewrite gen_enf_new_raw_spec. pose proof (rg_spec_model (init_renf d a)) as H.
  rewrite abs_init_renf in H. exact H.
Qed.

Theorem gen_enf_new_raw_frame : forall d a,
  r_fm (fst (gen_enf_new_raw d a)) = fm_default /\ r_events (fst (gen_enf_new_raw d a)) = [(KPolicyChange, [CbNotify])] /\
  r_watcher (fst (gen_enf_new_raw d a)) = None.
Proof.
  intros d a. rewrite gen_enf_new_raw_spec. destruct (rg_spec_frame (init_renf d a)) as [H1 [H2 [H3 _]]].
  rewrite H1, H2, H3. repeat split.
Qed.

(* a freshly built enforcer answers every function call as the model does (role definitions are not named
   like default functions: see F1) *)
Theorem gen_enf_new_raw_coherent_partial : forall d a,
  snd (gen_enf_new_raw d a) = Ok true ->
  builtins_unshadowed fm_default (f_gfuns (e_fs (abs (fst (gen_enf_new_raw d a))))) ->
  eng_coherent (fst (gen_enf_new_raw d a)).
Proof.
  intros d a. rewrite gen_enf_new_raw_spec. apply rg_spec_coherent; [apply init_renf_coherent|apply fm_default_wf].
Qed.

(* FunctionMap::default(), restated as Enforcer2Rt.fm_default: the names and the arities are those of the source
   (each entry calls the function of its name in snake case: checked by the translator), and Enforce.builtin
   answers exactly these names with these arities (Proofs/Enforcer2P.builtin_default) *)
Theorem gen_fm_default_table_ok :
  map (fun kf => (fst kf, opfun_arity (snd kf))) fm_default = gen_fm_default_table /\
  (forall n a, In (n, a) gen_fm_default_table -> In (n, OfBuiltin n) fm_default).
Proof.
  split; [reflexivity|].
  intros n a H. unfold gen_fm_default_table in H. cbn [In] in H.
  repeat (destruct H as [H|H]; [inversion H; subst; vm_compute; tauto|]). destruct H.
Qed.

(* load_policy (part 7, on the model's state) called from a body translated here *)
Lemma core_call_load_policy : forall x,
  abs (fst (x_core_call x EnforcerGen.gen_load_policy)) = fst (step_load (abs x)) /\
  snd (x_core_call x EnforcerGen.gen_load_policy) = snd (step_load (abs x)).
Proof. intros x. apply core_call_load. intros s. apply PcEnforcerGen.gen_load_policy_ok. Qed.

(* new: new_raw with its `?`, then the initial load unless the adapter is filtered *)
Theorem gen_enf_new_ok : forall d a,
  (abs (fst (gen_enf_new d a)), snd (gen_enf_new d a)) = new_enforcer d a false.
Proof.
  intros d a. unfold gen_enf_new, new_enforcer. rt_unfold.
  destruct (gen_enf_new_raw_ok d a) as [H1 H2].
  destruct (gen_enf_new_raw d a) as [x o]. destruct (new_raw d a false) as [s e]. cbn [fst snd] in H1, H2. subst s o.
  change (e_adapter (abs x)) with (r_adapter x).
  destruct (core_call_load_policy x) as [C1 C2].
  destruct (x_core_call x gen_load_policy) as [x' o']. cbn [fst snd] in C1, C2.
  destruct (step_load (abs x)) as [s' o''] eqn:El. cbn [fst snd] in C1, C2. subst s' o'.
  destruct e as [|c]; cbn [lerr_out fst snd].
  - destruct (ad_is_filtered (r_adapter x)); cbn [negb fst snd]; [reflexivity|].
    destruct o'' as [b|c|]; cbn [fst snd]; try reflexivity.
    rewrite (PcEnforcerGen.step_load_ok_true _ _ _ El). reflexivity.
  - reflexivity.
Qed.

Theorem gen_enf_new_coherent_partial : forall d a,
  snd (gen_enf_new d a) = Ok true ->
  builtins_unshadowed fm_default (f_gfuns (e_fs (abs (fst (gen_enf_new_raw d a))))) ->
  eng_coherent (fst (gen_enf_new d a)).
Proof.
  intros d a Hok Hsh. unfold gen_enf_new in *. rt_unfold.
  pose proof (gen_enf_new_raw_coherent_partial d a) as Hc.
  assert (Ho : snd (gen_enf_new_raw d a) = Ok true \/ exists e, snd (gen_enf_new_raw d a) = Err e)
    by (rewrite gen_enf_new_raw_spec; apply rg_spec_outcome).
  destruct (gen_enf_new_raw d a) as [x o]. cbn [fst snd] in Hc, Hsh, Ho.
  pose proof (core_call_coherent x gen_load_policy) as Hl.
  destruct (x_core_call x gen_load_policy) as [x' o']. cbn [fst snd] in Hl.
  revert Hok.
  destruct Ho as [->|[e ->]];
    [specialize (Hc eq_refl Hsh)|];
    repeat (cbn [fst snd]; split_step); cbn [fst snd]; intros Hok; try discriminate Hok; auto.
Qed.

(* ------------------------------------------------------------------ *)
(* (F) FINDINGS: where the engine of the source and Enforce.call_fn disagree *)

Definition f_def (g : amap) : modeldef := {| d_model := [(s_g, g)]; d_mexprs := [] |}.

(* F1: a role definition filed under the name of a default function.  After a SUCCESSFUL
   register_g_functions on a fresh (coherent) enforcer, keyMatch("xyz", "x*") runs the default function
   in the engine (true) and the role closure in the model (false). *)
Lemma gen_enf_register_g_functions_coherent_refuted_default_name :
  exists x, eng_coherent x /\ fm_wf (r_fm x) /\ snd (gen_enf_register_g_functions x) = Ok true /\
            ~ eng_coherent (fst (gen_enf_register_g_functions x)).
Proof.
  exists (init_renf (f_def [(T "keyMatch", mk_ast (T "_, _") [])]) ANull).
  split; [apply init_renf_coherent|]. split; [apply fm_default_wf|]. split; [vm_compute; reflexivity|].
  intros H. specialize (H [] 10 (T "keyMatch") [VStr (T "xyz"); VStr (T "x*")]). vm_compute in H. discriminate H.
Qed.

(* F2: the error path.  add_function("g", <a 2-argument function>) on a fresh enforcer, then
   register_g_functions on a model whose SECOND role definition is malformed: the closure of the first
   one is registered, the function returns Err before the function map is re-applied, and g("a", "b")
   runs the role closure in the engine (false) and the added function in the model (true). *)
Definition f2_state : renf :=
  let x0 := init_renf (f_def [(s_g, mk_ast (T "_, _") []); (T "g2", mk_ast (T "_") [])]) ANull in
  rset_engine (rset_fm x0 ((s_g, OfUser UNeq) :: r_fm x0)) (eng_register_function (r_engine x0) s_g (OfUser UNeq)).

Lemma gen_enf_register_g_functions_coherent_refuted_error_path :
  exists x, eng_coherent x /\ fm_wf (r_fm x) /\ snd (gen_enf_register_g_functions x) = Err EModel /\
            ~ eng_coherent (fst (gen_enf_register_g_functions x)).
Proof.
  exists f2_state. split; [|split; [|split]].
  - intros m mx. apply coherent_strs.
    apply (coherent_add_user (with_rm (abs_fs (init_renf (f_def [(s_g, mk_ast (T "_, _") []); (T "g2", mk_ast (T "_") [])]) ANull)) m mx)
                             (reapply_eng fm_default []) s_g UNeq); [|reflexivity].
    apply coherent_strs. apply (init_renf_coherent _ ANull m mx).
  - split.
    + cbn [f2_state rset_engine rset_fm r_fm init_renf map fst]. constructor; [|apply fm_default_wf].
      unfold fm_default. cbn [map fst In]. intros H. repeat (destruct H as [H|H]; [cbv in H; discriminate H|]). exact H.
    + intros k n [H|H]; [discriminate H|]. apply (proj2 fm_default_wf k n H).
  - vm_compute. reflexivity.
  - intros H. specialize (H [] 10 s_g [VStr (T "a"); VStr (T "b")]). vm_compute in H. discriminate H.
Qed.

(* hence the full statement fails *)
Lemma gen_enf_register_g_functions_coherent_full_refuted : ~ gen_enf_register_g_functions_coherent_full.
Proof.
  intros H. destruct gen_enf_register_g_functions_coherent_refuted_error_path as [x [H1 [H2 [_ H4]]]].
  apply H4, H; assumption.
Qed.

(* ------------------------------------------------------------------ *)
(* (G) the statements are not vacuous                                  *)

(* an RBAC enforcer with resource roles, built by the translated `new`, then given a watcher *)
Definition g2_x : renf :=
  rset_watcher (fst (gen_enf_new rbac2_def (mem [pl admin data1 read; gl alice admin; g2l data1 data2]))) (Some []).

Example gen_enf_new_ex :
  snd (gen_enf_new rbac2_def (mem [pl admin data1 read; gl alice admin])) = Ok true /\
  map fst (f_gfuns (e_fs (abs g2_x))) = [(T "g2", 2); (s_g, 2)] /\
  e_callbacks (abs g2_x) = 1 /\ f_rm_max (e_fs (abs g2_x)) = 10 /\
  roles_for_user (abs g2_x) alice None = [admin] /\
  (* a filtered adapter is not loaded; a malformed role definition stops new_raw *)
  m_get_policy (e_model (abs (fst (gen_enf_new rbac_def (AMemory [pl alice data1 read] true))))) s_p s_p = [] /\
  snd (gen_enf_new (f_def [(s_g, mk_ast (T "_") [])]) ANull) = Err EModel.
Proof. vm_compute. repeat split. Qed.

(* on / off / emit: two callbacks, the watcher hears every event twice, in order; off silences it;
   an event without callbacks is not delivered *)
Example gen_enf_events_ex :
  let x1 := gen_enf_on g2_x KPolicyChange CbNotify in
  let x2 := gen_enf_emit (gen_enf_emit x1 KPolicyChange EvClear) KPolicyChange (EvSave []) in
  let x3 := gen_enf_emit (gen_enf_off x2 KPolicyChange) KPolicyChange EvClear in
  e_callbacks (abs x1) = 2 /\ r_watcher x2 = Some [EvClear; EvClear; EvSave []; EvSave []] /\
  e_callbacks (abs x3) = 0 /\ r_watcher x3 = r_watcher x2 /\
  gen_enf_emit x2 KClearCache EvClear = x2 /\
  hm_get evkind_eqb (r_events (gen_enf_off (gen_enf_on x1 KClearCache CbNotify) KPolicyChange)) KClearCache = Some [CbNotify].
Proof. vm_compute. repeat split. Qed.

(* the decisions of the wrappers; a disabled enforcer allows; the context that is passed decides *)
Definition g2_ctx : renf := fst (gen_enf_new ctx_def (mem [pl alice data1 read; p2l bob data2 write])).
Example gen_enf_enforce_ex :
  gen_enf_enforce no_ptab g2_x (req alice data1 read) = Ok true /\
  gen_enf_enforce no_ptab g2_x (req bob data2 read) = Ok false /\
  gen_enf_enforce no_ptab g2_x [VStr alice] = Err ERequest /\
  snd (gen_enf_enforce_mut no_ptab g2_x (req alice data1 read)) = Ok true /\
  gen_enf_enforce_with_context no_ptab g2_ctx (gen_ctx_new (T "2")) (req bob data2 read) = Ok true /\
  gen_enf_enforce_with_context no_ptab g2_ctx (gen_ctx_new (T "")) (req bob data2 read) = Ok false /\
  gen_enf_enforce_with_context no_ptab g2_ctx (gen_ctx_new (T "3")) (req bob data2 read) = Err EModel.
Proof. vm_compute. repeat split. Qed.

(* build_incremental_role_links: a grouping event reaches the manager; a malformed one is an error *)
Example gen_enf_build_incremental_role_links_ex :
  let (x1, r1) := gen_enf_build_incremental_role_links g2_x (EvAdd s_g s_g [bob; admin]) in
  r1 = Ok true /\ roles_for_user (abs x1) bob None = [admin] /\
  snd (gen_enf_build_incremental_role_links g2_x (EvAdd s_g s_g [bob])) = Err EPolicy /\
  snd (gen_enf_build_incremental_role_links g2_x (EvRemove s_g s_g [bob; root])) = Err ERbac.
Proof. vm_compute. repeat split. Qed.

(* the hypotheses of the coherence theorems hold for this enforcer: it answers g, g2, keyMatch as the model does *)
Example gen_enf_coherent_ex :
  eng_coherent (fst (gen_enf_new rbac2_def (mem [pl admin data1 read; gl alice admin]))) /\
  eng_call (abs_fs g2_x) (r_engine g2_x) s_g [VStr alice; VStr admin] = Some (EV (VBool true)) /\
  eng_call (abs_fs g2_x) (r_engine g2_x) (T "keyMatch") [VStr (T "xyz"); VStr (T "x*")] = Some (EV (VBool true)).
Proof.
  split; [|vm_compute; split; reflexivity].
  apply gen_enf_new_coherent_partial; [vm_compute; reflexivity|].
  intros n Hin. unfold fm_default in Hin. apply in_map_iff in Hin. destruct Hin as [n' [E Hin]]. inversion E; subst n'.
  cbn [In] in Hin. repeat (destruct Hin as [<-|Hin]; [vm_compute; reflexivity|]). destruct Hin.
Qed.

(* register_g_functions after add_function under a role name (the repair of commit 2c2fb2f): the added
   function wins in the engine, as in the model *)
Example gen_enf_register_g_functions_ex :
  let x0 := fst (gen_enf_new_raw rbac_def ANull) in
  let x1 := rset_engine (rset_fm x0 ((s_g, OfUser UNeq) :: r_fm x0)) (eng_register_function (r_engine x0) s_g (OfUser UNeq)) in
  let (x2, r2) := gen_enf_register_g_functions x1 in
  r2 = Ok true /\
  eng_call (abs_fs x2) (r_engine x2) s_g [VStr alice; VStr bob] = Some (EV (VBool true)) /\
  call_fn (abs_fs x2) s_g [VStr alice; VStr bob] = Some (EV (VBool true)) /\
  map fst (f_gfuns (abs_fs x2)) = [(s_g, 2); (s_g, 2)].
Proof. vm_compute. repeat split. Qed.

Example gen_emitter_clear_cache_ex :
  gen_emitter_clear_cache {| c_inner := abs g2_x; c_cache := [(CKPlain (req alice data1 read), true)] |} EvClear
  = {| c_inner := abs g2_x; c_cache := [] |}.
Proof. reflexivity. Qed.

Print Assumptions gen_enforcer2_translated_ok.
Print Assumptions gen_emitter_notify_logger_and_watcher_ok.
Print Assumptions gen_emitter_clear_cache_ok.
Print Assumptions gen_enf_on_ok.
Print Assumptions gen_enf_on_other.
Print Assumptions gen_enf_on_events.
Print Assumptions gen_enf_off_ok.
Print Assumptions gen_enf_off_other.
Print Assumptions gen_enf_off_events.
Print Assumptions gen_enf_emit_ok.
Print Assumptions gen_enf_emit_clear_cache.
Print Assumptions gen_enf_register_g_functions_ok.
Print Assumptions gen_enf_register_g_functions_frame.
Print Assumptions gen_enf_register_g_functions_coherent_partial.
Print Assumptions gen_enf_register_g_functions_coherent_refuted_default_name.
Print Assumptions gen_enf_register_g_functions_coherent_refuted_error_path.
Print Assumptions gen_enf_register_g_functions_coherent_full_refuted.
Print Assumptions gen_ctx_new_ok.
Print Assumptions gen_enf_build_incremental_role_links_ok.
Print Assumptions gen_enf_enforce_ok.
Print Assumptions gen_enf_enforce_with_context_ok.
Print Assumptions gen_enf_enforce_with_context_new.
Print Assumptions gen_enf_enforce_mut_ok.
Print Assumptions gen_fm_default_table_ok.
Print Assumptions gen_enf_new_raw_ok.
Print Assumptions gen_enf_new_raw_frame.
Print Assumptions gen_enf_new_raw_coherent_partial.
Print Assumptions gen_enf_new_ok.
Print Assumptions gen_enf_new_coherent_partial.
