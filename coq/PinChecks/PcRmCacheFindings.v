(* FINDINGS of rs2coq part 23 (tools/rs2coq_rmcache.py, Gen/RmCacheGen.v): where the cache discipline of
   DefaultRoleManager (feature `cached`) is NOT complete.  Kept apart from PinChecks/PcRmCacheGen.v: these
   lemmas are concrete runs of the translated code that exhibit a stale answer; a FIX of the source makes
   them fail (and they are then to be removed), while the theorems of PcRmCacheGen.v keep holding. *)
From CV Require Import Model.Base Model.RoleGraph Model.RoleGraphM Model.RmCache.
From CV Require Import Gen.RustStr Gen.RustVec Gen.RustIter Gen.Petgraph Gen.MokaRt Gen.Model2Gen Gen.RoleManagerGen
                       Gen.RmCacheRt Gen.RmCacheGen.
From CV Require Import Proofs.PetgraphP Proofs.RmCacheP Proofs.RmCacheGenP.
From CV Require Import PinChecks.PcRoleManagerGen PinChecks.PcRmCacheGen.

(* Model/RmCache.v (and the theorems of PcRmCacheGen.v) are about the manager WITHOUT matching
   functions.  With them, two paths of the source change has_link answers without
   clearing the cache; both are outside the histories of gen_c_history_ok (cop_of never
   produces MSetFns) and both are concrete runs of the translated code.

   F1. matching_fn does not touch the cache (gen_c_matching_fn_keeps): an answer cached
       before the matching functions are set (or changed) is served afterwards although
       the uncached answer has changed. *)
Theorem gen_c_matching_fn_keeps : forall s c rf df s' c',
  gen_c_matching_fn s c rf df = Some (s', c') -> c' = c.
Proof. intros s c rf df s' c' H. unfold gen_c_matching_fn in H. cbn in H. injection H as _ <-. reflexivity. Qed.

Definition ex_f1_history : list cop :=
  [CWrite (MAdd (T "a") (T "g") None); CHas (T "a") (T "x") None;
   CWrite (MSetFns (Some ex_all) None); CHas (T "a") (T "x") None].

Theorem gen_c_matching_fn_stale_refuted :
  exists hfin ord fuel sched lvl h,
    ord_ok ord /\ (forall l1 l2, In l1 [[T "a"; T "x"; T "DEFAULT"]] -> In l2 [[T "a"; T "x"; T "DEFAULT"]] -> hfin l1 = hfin l2 -> l1 = l2) /\
    gen_c_run hfin ord fuel (fst (gen_c_new sched lvl)) (snd (gen_c_new sched lvl)) h = Some [true; false; true; false] /\
    gen_u_run ord fuel (gen_new lvl) h = Some [true; false; true; true].
Proof.
  exists ex_hfin, (fun l => l), 10, [], 3, ex_f1_history.
  split; [apply ord_ok_id|]. split.
  - intros l1 l2 [<-|[]] [<-|[]] _. reflexivity.
  - vm_compute. split; reflexivity.
Qed.

(* F2. delete_link calls get_or_create_role BEFORE it knows whether there is an edge to remove, and
       get_or_create_role clears only when it added a Match edge.  With a domain matching function,
       domain_has_role can succeed through ANOTHER domain, so delete_link(n, z, d2) creates the graph of d2
       and the isolated roles n, z in it - a change that has_link sees (here: has_link("x", "n", dq), where
       the role matching function sends "x" to the first node of each matched domain) - and returns Ok
       without clearing. *)
Definition ex_f2_rfn : mfun := fun a _ => teqb a (T "x").
Definition ex_f2_history : list cop :=
  [CWrite (MSetFns (Some ex_f2_rfn) (Some ex_all));
   CWrite (MAdd (T "z") (T "w") (Some (T "d1"))); CWrite (MAdd (T "n") (T "z") (Some (T "d1")));
   CHas (T "x") (T "n") (Some (T "dq"));
   CWrite (MDel (T "n") (T "z") (Some (T "d2")));
   CHas (T "x") (T "n") (Some (T "dq"))].

Theorem gen_c_delete_link_stale_refuted :
  exists hfin ord fuel sched lvl h,
    ord_ok ord /\
    gen_c_run hfin ord fuel (fst (gen_c_new sched lvl)) (snd (gen_c_new sched lvl)) h = Some [true; true; true; false; true; false] /\
    gen_u_run ord fuel (gen_new lvl) h = Some [true; true; true; false; true; true].
Proof.
  exists ex_hfin, (fun l => l), 10, [], 3, ex_f2_history.
  split; [apply ord_ok_id|]. vm_compute. split; reflexivity.
Qed.

(* the FULL statement of the task - every history, matching_fn included - is therefore false; what is
   proved is its restriction to the histories of Model/RmCache.v (gen_c_history_ok) *)
Definition ckeys_of (h : list cop) : rkey -> Prop :=
  fun k => exists a b d, In (CHas a b d) h /\ k = rkey_of a b d.

Definition gen_c_all_histories_statement : Prop :=
  forall hfin ord sched lvl fuel (h : list cop) outs, ord_ok ord -> hfin_inj_on hfin (ckeys_of h) ->
    gen_u_run ord fuel (gen_new lvl) h = Some outs ->
    gen_c_run hfin ord fuel (fst (gen_c_new sched lvl)) (snd (gen_c_new sched lvl)) h = Some outs.

Theorem gen_c_all_histories_refuted : ~ gen_c_all_histories_statement.
Proof.
  intros H.
  specialize (H ex_hfin (fun l => l) [] 3 10 ex_f1_history [true; false; true; true] ord_ok_id).
  assert (Hinj : hfin_inj_on ex_hfin (ckeys_of ex_f1_history)).
  { intros k1 k2 (a1 & b1 & d1 & H1 & ->) (a2 & b2 & d2 & H2 & ->) _.
    unfold ex_f1_history in H1, H2. cbn [In] in H1, H2.
    repeat match goal with
           | H : _ \/ _ |- _ => destruct H as [H|H]
           | H : False |- _ => destruct H
           | H : CWrite _ = CHas _ _ _ |- _ => discriminate H
           | H : CHas _ _ _ = CHas _ _ _ |- _ => injection H as <- <- <-
           end; reflexivity. }
  specialize (H Hinj eq_refl). vm_compute in H. discriminate H.
Qed.

Print Assumptions gen_c_matching_fn_keeps.
Print Assumptions gen_c_matching_fn_stale_refuted.
Print Assumptions gen_c_delete_link_stale_refuted.
Print Assumptions gen_c_all_histories_refuted.
