(* Obligations tying the TRANSLATED regex-based functions of src/util.rs (Gen/RegexGen.v, regenerated on every run by
   tools/rs2coq_regex.py: the expressions ESC_A, ESC_C, ESC_E parsed into Gen/Regex.v's AST, and the bodies of
   escape_assertion, escape_eval, parse_csv_line) to the hand models, for ALL texts:
     gen_parse_csv_line l   = Some (Csv.parse_csv_line l)        every text l; Some = it never panics
     gen_escape_assertion s = Expr.escape_assertion s            every ASCII text s
     gen_escape_eval m      = EscEvalM.escape_eval m             every ASCII text m
   (the models count bytes >= 128 as word bytes, Gen/Regex.v does not: the regex crate is Unicode-aware there and
   neither is right for every non-ASCII text; ESC_C has no word-boundary and needs no restriction).

   Method.  For each expression, ONE lemma says what a match attempt at a position (b, s) returns, in the
   vocabulary of the hand model (esc_c_mt, esc_a_mt, esc_e_mt), obtained by rewriting with the general facts of
   Proofs/RegexP.v: greedy star of a class followed by something that cannot start in the class = the span
   (mt_star_class_cut), followed by something that accepts the span (mt_star_class_ok); an alternation is its
   right branch when the left one fails.  A class is identified by WHAT BYTES it has (by_bytes), not by how it
   is spelled.  Then the iteration lemmas (fi_hit .., repl_hit ..) walk find_iter / replace_all along the hand scanner. *)
From CV Require Import Model.Base Model.Csv Model.Expr.
From CV Require Import Gen.RustStr Gen.RustVec Gen.RustIter Gen.Regex Gen.RegexRt Gen.RegexGen.
From CV Require Import Proofs.BaseP Proofs.CsvP Proofs.EscP Proofs.RegexP Proofs.EscEvalM Proofs.RegexUtilP.
From Coq Require Import Lia.

Lemma gen_regex_translated_ok : gen_regex_translated = true.
Proof. reflexivity. Qed.

(* the translated expressions are in the validated subset of Gen/Regex.v *)
Lemma gen_regex_wf : rx_wf gen_esc_a && rx_wf gen_esc_c && rx_wf gen_esc_e = true.
Proof. vm_compute. reflexivity. Qed.

(* ================================================================== ESC_C *)
Lemma esc_c_mt : forall s b,
  mt gen_esc_c b s [] kfin =
  Some (rev (fst (esc_c_match s)) ++ b, snd (esc_c_match s), [(1, fst (esc_c_match s))]).
Proof.
  intros s b. unfold gen_esc_c. rewrite mt_group, mt_alt.
  set (kg := fun (b0 s0 : text) (c0 : caps) => kfin b0 s0 ((1, taken b b0) :: c0)).
  assert (A2 : forall r2, mt r2 b s [] kg = mt r2 b s [] kg) by reflexivity.
  rewrite mt_cat.
  rewrite (mt_star_class_cut _ _ is_ws); [ | by_bytes | ].
  2:{ intros b' x s' c' Hx. rewrite mt_cat, mt_char.
      replace (Ascii.eqb x """"%char) with false; [reflexivity|].
      symmetry. apply aeqb_false. apply ws_not_dquote, Hx. }
  rewrite span_is_ws. unfold esc_c_match. destruct (span_ws s) as [w r] eqn:Ews. cbn [fst snd].
  rewrite mt_cat, mt_char.
  destruct r as [|c0 r1].
  - (* only blanks: the second alternative takes them *)
    erewrite ws_then_notcomma; [ | by_bytes | by_bytes | ].
    2:{ rewrite span_not_ws, Ews. cbn [fst snd span_not app]. rewrite app_nil_r. unfold kg, kfin. reflexivity. }
    cbn [fst snd]. rewrite taken_app. reflexivity.
  - change (Ascii.eqb c0 """"%char) with (Ascii.eqb c0 dquote). destruct (Ascii.eqb c0 dquote) eqn:Ec.
    + apply aeqb_true in Ec. subst c0.
      destruct (span_not dquote r1) as [body r2] eqn:Eb. destruct r2 as [|q r3].
      * erewrite after_quote; [ | by_bytes | reflexivity | by_bytes | rewrite Eb; cbn [fst snd]; unfold kg, kfin; reflexivity ].
        cbn [fst snd].
        replace (rev body ++ dquote :: rev w ++ b) with (rev (w ++ dquote :: body) ++ b) by (rev_norm; reflexivity).
        rewrite taken_app. reflexivity.
      * destruct (span_ws r3) as [w2 r4] eqn:Ew2.
        erewrite after_quote; [ | by_bytes | reflexivity | by_bytes | rewrite Eb; cbn [fst snd]; rewrite Ew2; cbn [fst snd]; unfold kg, kfin; reflexivity ].
        cbn [fst snd].
        replace (rev w2 ++ q :: rev body ++ dquote :: rev w ++ b) with (rev (w ++ dquote :: body ++ q :: w2) ++ b) by (rev_norm; reflexivity).
        rewrite taken_app. reflexivity.
    + (* no quote after the blanks: the second alternative *)
      erewrite ws_then_notcomma; [ | by_bytes | by_bytes | unfold kg, kfin; reflexivity ].
      rewrite taken_app. reflexivity.
Qed.

Lemma fi_scan : forall n s, length s <= n -> forall f f' b last,
  length s + 2 <= f -> length s + 1 <= f' ->
  map column_of (fi f gen_esc_c b s last) = scan_cols f' s (adj b last).
Proof.
  induction n as [|n IH]; intros s Hn f f' b last Hf Hf'.
  - destruct s as [|x s]; [|cbn [length] in Hn; lia].
    destruct f as [|f]; [cbn [length] in Hf; lia|]. destruct f' as [|f']; [cbn [length] in Hf'; lia|].
    pose proof (esc_c_mt [] b) as Hm. change (esc_c_match []) with (@nil ascii, @nil ascii) in Hm.
    cbn [fst snd rev app] in Hm.
    cbn [scan_cols]. change (esc_c_match []) with (@nil ascii, @nil ascii).
    destruct (adj b last) eqn:Ea.
    + rewrite (fi_empty_adj_end _ _ _ _ _ Ea Hm). reflexivity.
    + rewrite (fi_empty_new _ _ _ _ _ _ Ea Hm). cbn [map]. 
      destruct f as [|f]; [cbn [length] in Hf; lia|].
      rewrite (fi_empty_adj_end _ _ _ _ [(1, [])]); [reflexivity| unfold adj; cbn [opt_nat_eqb]; apply Nat.eqb_refl | exact Hm].
  - destruct f as [|f]; [lia|]. destruct f' as [|f']; [lia|].
    pose proof (esc_c_mt s b) as Hm. pose proof (esc_c_match_eq s) as Heq.
    cbn [scan_cols]. destruct (esc_c_match s) as [sp rest] eqn:Em. cbn [fst snd] in Hm, Heq.
    destruct sp as [|y sp].
    + cbn [app] in Heq. subst rest. cbn [rev app] in Hm.
      destruct s as [|x s].
      * destruct (adj b last) eqn:Ea.
        -- rewrite (fi_empty_adj_end _ _ _ _ _ Ea Hm). reflexivity.
        -- rewrite (fi_empty_new _ _ _ _ _ _ Ea Hm). cbn [map].
           destruct f as [|f]; [cbn [length] in Hf; lia|].
           rewrite (fi_empty_adj_end _ _ _ _ [(1, [])]); [reflexivity| unfold adj; cbn [opt_nat_eqb]; apply Nat.eqb_refl | exact Hm].
      * cbn [length] in *. destruct (adj b last) eqn:Ea.
        -- rewrite (fi_empty_adj _ _ _ _ _ _ _ Ea Hm).
           rewrite (IH s) with (f' := f'); [ | lia | lia | lia].
           unfold adj. reflexivity.
        -- rewrite (fi_empty_new _ _ _ _ _ _ Ea Hm). cbn [map].
           destruct f as [|f]; [lia|].
           rewrite (fi_empty_adj _ _ _ _ _ _ [(1, [])]); [ | unfold adj; cbn [opt_nat_eqb]; apply Nat.eqb_refl | exact Hm].
           rewrite (IH s) with (f' := f'); [ | lia | lia | lia].
           unfold adj. reflexivity.
    + assert (Hlen : length rest < length s).
      { rewrite <- Heq. rewrite app_length. cbn [length]. lia. }
      rewrite (fi_hit _ _ _ _ _ (y :: sp) rest [(1, y :: sp)]); [ | discriminate | exact Hm].
      cbn [map]. rewrite (IH rest) with (f' := f'); [ | lia | lia | lia].
      unfold adj. cbn [opt_nat_eqb]. rewrite Nat.eqb_refl. reflexivity.
Qed.

Theorem gen_parse_csv_line_ok : forall l, gen_parse_csv_line l = Some (Csv.parse_csv_line l).
Proof.
  intros l. unfold gen_parse_csv_line, Csv.parse_csv_line.
  change (rs_trim l) with (Csv.trim l). set (v := Csv.trim l). cbv zeta.
  erewrite (rs_for_push_map _ unq).
  2:{ intros x acc. rewrite unq_spec.
      change """"%char with dquote.
      destruct (Nat.leb 2 (rs_len x) && rs_starts_with_char x dquote && rs_ends_with_char x dquote) eqn:E; [|reflexivity].
      apply andb_true_iff in E. destruct E as [E _]. apply andb_true_iff in E. destruct E as [E _].
      destruct (rs_strip_ok x E) as [H1 H2]. rewrite H1, H2. reflexivity. }
  cbn [app]. unfold rs_iter_map. rewrite map_map.
  assert (Hcols : map (fun x => unq (rs_trim (rx_as_str x))) (rx_find_iter gen_esc_c v)
                  = scan_cols (S (S (length v))) v false).
  { unfold rx_find_iter. rewrite <- (fi_scan (length v) v (le_n _) (length v + 2) _ [] None); [ | lia | lia].
    unfold fi. rewrite map_map. reflexivity. }
  rewrite Hcols. clear Hcols.
  destruct v as [|c v']; [reflexivity|].
  unfold rs_is_empty, rs_starts_with_char. cbn [length Nat.eqb orb]. change "#"%char with hash.
  destruct (Ascii.eqb c hash); [reflexivity|].
  destruct (scan_cols _ _ _); reflexivity.
Qed.

(* ================================================================== ESC_A *)

Definition esc_a_hit (b : text) (c : ascii) (s' : text) : bool :=
  negb (word_at (hd_error b)) && is_rp c && tok_ahead s'.

Lemma esc_a_mt : forall b s,
  mt gen_esc_a b s [] kfin =
  match s with
  | c :: s' =>
    if esc_a_hit b c s' then
      match snd (span is_digit s') with
      | x :: rest => Some (x :: rev (fst (span is_digit s')) ++ c :: b, rest, [(1, c :: fst (span is_digit s'))])
      | [] => None
      end
    else None
  | [] => None
  end.
Proof.
  intros b s. unfold gen_esc_a. rewrite mt_cat, mt_wordb. rewrite mt_cat, mt_group, mt_alt.
  set (k := fun (b1 s1 : text) (c1 : caps) => mt (RChar "."%char) b1 s1 ((1, taken b b1) :: c1) kfin).
  assert (Hk : forall b0 x s0 c0, is_digit x = true -> k b0 (x :: s0) c0 = None).
  { intros b0 x s0 c0 Hx. unfold k. rewrite mt_char. replace (Ascii.eqb x "."%char) with false; [reflexivity|].
    symmetry. apply aeqb_false. intros ->. discriminate Hx. }
  do 2 (erewrite letter_digits with (k := k); [ | by_bytes | exact Hk ]).
  destruct s as [|c s']; [destruct (at_wordb b []); reflexivity|].
  unfold esc_a_hit, at_wordb, is_rp. cbn [hd_error word_at]. rewrite tok_ahead_span.
  destruct (span is_digit s') as [ds r] eqn:Es. cbn [fst snd].
  assert (Hkv : k (rev ds ++ c :: b) r [] =
          match r with x :: rest => if Ascii.eqb x dot then Some (x :: rev ds ++ c :: b, rest, [(1, c :: ds)]) else None | [] => None end).
  { unfold k. rewrite mt_char. destruct r as [|x rest]; [reflexivity|]. change "."%char with dot.
    destruct (Ascii.eqb x dot); [|reflexivity]. unfold kfin. rewrite taken_cons. reflexivity. }
  rewrite Hkv. clear Hkv.
  destruct (Ascii.eqb c "r") eqn:Er.
  - apply aeqb_true in Er. subst c. cbn [orb]. change (rx_is_word "r") with true.
    rewrite xorb_true_r. destruct (negb (word_at (hd_error b))); cbn [andb]; [|reflexivity].
    destruct r as [|x rest]; [reflexivity|]. destruct (Ascii.eqb x dot); reflexivity.
  - cbn [orb]. destruct (Ascii.eqb c "p") eqn:Ep.
    + apply aeqb_true in Ep. subst c. change (rx_is_word "p") with true.
      rewrite xorb_true_r. destruct (negb (word_at (hd_error b))); cbn [andb]; [|reflexivity].
      destruct r as [|x rest]; [reflexivity|]. destruct (Ascii.eqb x dot); reflexivity.
    + rewrite andb_false_r. cbn [andb]. destruct (xorb _ _); reflexivity.
Qed.

Lemma esc_a_never_empty : never_empty gen_esc_a.
Proof.
  intros b s b1 s1 c H. rewrite esc_a_mt in H. destruct s as [|x s']; [discriminate|].
  destruct (esc_a_hit b x s'); [|discriminate].
  destruct (snd (span is_digit s')) as [|y rest]; [discriminate|].
  injection H as <- _ _. cbn [length]. rewrite app_length. cbn [length]. lia.
Qed.

Lemma esc_a_repl : forall tpl n s, length s <= n -> forall f b last, length s < f ->
  forallb is_ascii s = true ->
  (forall b0 b1 s1 c ds, expand tpl (mk_match b0 b1 s1 [(1, c :: ds)]) = c :: ds ++ [underscore]) ->
  repl f gen_esc_a tpl b s last = esc_go false (word_at (hd_error b)) s.
Proof.
  intros tpl. induction n as [|n IH]; intros s Hn f b last Hf Ha Htpl.
  - destruct s; [|cbn [length] in Hn; lia]. apply repl_end. rewrite esc_a_mt. reflexivity.
  - destruct s as [|c s']; [apply repl_end; rewrite esc_a_mt; reflexivity|].
    cbn [forallb] in Ha. apply andb_true_iff in Ha. destruct Ha as [Hc Ha]. cbn [length] in *.
    pose proof (esc_a_mt b (c :: s')) as Hm. cbv beta iota in Hm. cbn [esc_go].
    change (negb (word_at (hd_error b)) && is_rp c && tok_ahead s') with (esc_a_hit b c s').
    destruct (esc_a_hit b c s') eqn:Eh.
    + pose proof Eh as Eh'. unfold esc_a_hit in Eh'. apply andb_true_iff in Eh'. destruct Eh' as [_ Ht].
      rewrite tok_ahead_span in Ht. pose proof (span_eq is_digit s') as Hsp. pose proof (span_all is_digit s') as Hds.
      revert Hm Ht Hsp Hds.
      destruct (span is_digit s') as [ds r]. cbn [fst snd]. intros Hm Ht Hsp Hds. destruct r as [|x rest]; [discriminate|].
      apply aeqb_true in Ht. subst x. destruct f as [|f]; [lia|].
      rewrite (repl_hit _ _ _ _ _ _ _ _ _ Hm) by (cbn [length]; rewrite app_length; cbn [length]; lia).
      rewrite Htpl. rewrite (IH rest); [ | | | | exact Htpl].
      * cbn [hd_error word_at]. change (rx_is_word dot) with false. rewrite <- Hsp.
        rewrite esc_rw_digits by exact Hds. cbn [app]. rewrite <- app_assoc. reflexivity.
      * rewrite <- Hsp in Hn. rewrite app_length in Hn. cbn [length] in Hn. lia.
      * rewrite <- Hsp in Hf. rewrite app_length in Hf. cbn [length] in Hf. lia.
      * rewrite <- Hsp in Ha. rewrite forallb_app in Ha. apply andb_true_iff in Ha. destruct Ha as [_ Ha].
        cbn [forallb] in Ha. apply andb_true_iff in Ha. apply Ha.
    + rewrite (repl_miss _ _ _ _ _ _ _ None esc_a_never_empty Hm).
      rewrite (IH s'); [ | lia | lia | exact Ha | exact Htpl].
      cbn [hd_error word_at]. rewrite (word_agree c Hc). reflexivity.
Qed.

Theorem gen_escape_assertion_ok : forall s, forallb is_ascii s = true ->
  gen_escape_assertion s = escape_assertion s.
Proof.
  intros s Ha. unfold gen_escape_assertion, escape_assertion. rewrite rx_replace_all_repl.
  apply (esc_a_repl _ (length s) s (le_n _)); [lia|exact Ha|].
  intros b0 b1 s1 c ds. reflexivity.
Qed.

(* ================================================================== ESC_E *)

Lemma esc_e_mt : forall b s,
  mt gen_esc_e b s [] kfin =
  if at_wordb b s then
    match strip_lit eval_open s with
    | Some r =>
      match snd (span (nota rparen) r) with
      | x :: t => Some (x :: rev (fst (span (nota rparen) r)) ++ rev eval_open ++ b, t, [(1, fst (span (nota rparen) r))])
      | [] => None
      end
    | None => None
    end
  else None.
Proof.
  intros b s. unfold gen_esc_e. rewrite mt_cat, mt_wordb. destruct (at_wordb b s); [|reflexivity].
  match goal with
  | |- context [RCat (RChar "e"%char) (RCat (RChar "v"%char) (RCat (RChar "a"%char) (RCat (RChar "l"%char) (RCat (RChar "("%char) ?R))))] =>
    change (RCat (RChar "e"%char) (RCat (RChar "v"%char) (RCat (RChar "a"%char) (RCat (RChar "l"%char) (RCat (RChar "("%char) R)))))
      with (RLitThen eval_open R)
  end.
  rewrite mt_lit_then. destruct (strip_lit eval_open s) as [r|]; [|reflexivity].
  rewrite mt_cat, mt_group.
  set (b0 := rev eval_open ++ b).
  set (k := fun (b1 s1 : text) (c1 : caps) => mt (RChar ")"%char) b1 s1 ((1, taken b0 b1) :: c1) kfin).
  rewrite (mt_star_class_cut _ _ (nota rparen)); [ | by_bytes | ].
  2:{ intros b1 x s1 c1 Hx. unfold k. rewrite mt_char. change ")"%char with rparen.
      unfold nota in Hx. apply negb_true_iff in Hx. rewrite Hx. reflexivity. }
  destruct (span (nota rparen) r) as [arg t] eqn:Es. cbn [fst snd]. unfold k. rewrite mt_char.
  destruct t as [|x t]; [reflexivity|].
  pose proof (span_rest (nota rparen) r x t) as Hx. rewrite Es in Hx. specialize (Hx eq_refl).
  unfold nota in Hx. apply negb_false_iff in Hx. change ")"%char with rparen. rewrite Hx.
  unfold kfin, b0. rewrite taken_app. reflexivity.
Qed.

Lemma esc_e_never_empty : never_empty gen_esc_e.
Proof.
  intros b s b1 s1 c H. rewrite esc_e_mt in H. destruct (at_wordb b s); [|discriminate].
  destruct (strip_lit eval_open s) as [r|]; [|discriminate].
  destruct (snd (span (nota rparen) r)) as [|x t]; [discriminate|].
  injection H as <- _ _. cbn [length]. rewrite !app_length. cbn [length]. lia.
Qed.

(* the site test of the hand model is exactly: the expression matches here *)
Lemma esc_e_site : forall b s, 
  eval_site (word_at (hd_error b)) s = match mt gen_esc_e b s [] kfin with Some _ => true | None => false end.
Proof.
  intros b s. rewrite esc_e_mt. unfold eval_site. rewrite strip_word_lit.
  destruct (strip_lit eval_open s) as [r|] eqn:Es.
  - apply strip_lit_spec in Es. subst s. unfold at_wordb. cbn [eval_open T list_ascii_of_string app hd_error word_at].
    change (rx_is_word "e") with true. rewrite xorb_true_r. rewrite has_rparen_span.
    destruct (negb (word_at (hd_error b))); [|reflexivity].
    destruct (snd (span (nota rparen) r)); reflexivity.
  - rewrite andb_false_r. destruct (at_wordb b s); reflexivity.
Qed.

Lemma esc_e_repl : forall tpl n s, length s <= n -> forall f b last, length s < f ->
  forallb is_ascii s = true ->
  (forall b0 b1 s1 arg, expand tpl (mk_match b0 b1 s1 [(1, arg)]) = eval_open_esc ++ arg ++ [rparen; rparen]) ->
  repl f gen_esc_e tpl b s last = esc_eval_go (EScan (word_at (hd_error b))) s.
Proof.
  intros tpl. induction n as [|n IH]; intros s Hn f b last Hf Ha Htpl.
  - destruct s; [|cbn [length] in Hn; lia]. apply repl_end. rewrite esc_e_mt.
    destruct (at_wordb b []); reflexivity.
  - destruct s as [|c s']; [apply repl_end; rewrite esc_e_mt; destruct (at_wordb b []); reflexivity|].
    cbn [esc_eval_go]. rewrite esc_e_site.
    pose proof (esc_e_mt b (c :: s')) as Hm.
    destruct (mt gen_esc_e b (c :: s') [] kfin) as [[[b1 s1] c1]|] eqn:Em.
    + destruct (at_wordb b (c :: s')); [|discriminate].
      destruct (strip_lit eval_open (c :: s')) as [r|] eqn:Es; [|discriminate].
      apply strip_lit_spec in Es. pose proof (span_eq (nota rparen) r) as Hsp.
      pose proof (span_all (nota rparen) r) as Harg.
      pose proof (span_rest (nota rparen) r) as Hx.
      destruct (span (nota rparen) r) as [arg rest]. cbn [fst snd] in *.
      destruct rest as [|x t]; [discriminate|]. specialize (Hx x t eq_refl).
      unfold nota in Hx. apply negb_false_iff in Hx. apply aeqb_true in Hx. subst x.
      injection Hm as -> -> ->. destruct f as [|f]; [cbn [length] in Hf; lia|].
      assert (Hlen : length s' = 4 + length arg + 1 + length t).
      { apply (f_equal (@length ascii)) in Es. rewrite <- Hsp in Es. cbn [length eval_open T list_ascii_of_string app] in Es.
        rewrite app_length in Es. cbn [length] in Es. lia. }
      rewrite (repl_hit _ _ _ _ _ _ _ _ _ Em) by (cbn [length]; rewrite !app_length; cbn [length]; lia).
      rewrite Htpl. rewrite (IH t); [ | cbn [length] in Hn; lia | cbn [length] in Hf; lia | | exact Htpl].
      * cbn [hd_error word_at]. change (rx_is_word rparen) with false.
        cbn [eval_open T list_ascii_of_string app] in Es. injection Es as -> ->.
        cbn [esc_eval_go]. rewrite <- Hsp. rewrite esc_eval_in0 by exact Harg.
        rewrite <- !app_assoc. reflexivity.
      * rewrite Es, <- Hsp in Ha. rewrite !forallb_app in Ha. apply andb_true_iff in Ha. destruct Ha as [_ Ha].
        apply andb_true_iff in Ha. destruct Ha as [_ Ha]. cbn [forallb] in Ha. apply andb_true_iff in Ha. apply Ha.
    + cbn [forallb] in Ha. apply andb_true_iff in Ha. destruct Ha as [Hc Ha]. cbn [length] in *.
      rewrite (repl_miss _ _ _ _ _ _ _ None esc_e_never_empty Em).
      rewrite (IH s'); [ | lia | lia | exact Ha | exact Htpl].
      cbn [hd_error word_at]. rewrite (word_agree c Hc). reflexivity.
Qed.

Theorem gen_escape_eval_ok : forall m, forallb is_ascii m = true ->
  gen_escape_eval m = escape_eval m.
Proof.
  intros s Ha. unfold gen_escape_eval, escape_eval. rewrite rx_replace_all_repl.
  apply (esc_e_repl _ (length s) s (le_n _)); [lia|exact Ha|].
  intros b0 b1 s1 arg. unfold expand. cbn [map concat mk_match m_caps cap_get Nat.eqb].
  rewrite app_nil_r. reflexivity.
Qed.

(* what the hand model of escape_eval does at a site (a sanity property of the model itself) *)
Lemma escape_eval_site : forall arg t, forallb (nota rparen) arg = true ->
  escape_eval (eval_open ++ arg ++ rparen :: t) =
  eval_open_esc ++ arg ++ rparen :: rparen :: esc_eval_go (EScan false) t.
Proof.
  intros arg t H. unfold escape_eval. cbn [eval_open T list_ascii_of_string app esc_eval_go].
  assert (Hs : eval_site false ("e"%char :: "v"%char :: "a"%char :: "l"%char :: "("%char :: arg ++ rparen :: t) = true).
  { unfold eval_site. cbn [negb andb eval_open T list_ascii_of_string strip_word]. rewrite !Ascii.eqb_refl.
    unfold has_rparen. rewrite existsb_app. cbn [existsb]. rewrite Ascii.eqb_refl. apply orb_true_r. }
  rewrite Hs. rewrite esc_eval_in0 by exact H. reflexivity.
Qed.
