(* Stretch of rs2coq part 14: the functions of src/model/function_map.rs that REWRITE their pattern with a static
   regex (Gen/RegexGen.v gen_key_match2, gen_key_match3: str::contains / str::replace of slash-star, then
   MAT_B / MAT_P .replace_all(.., "[^/]+"), then format!("^{}$", ..)) against the rewriting pipelines of
   Model/PathMatch.v (rewrite_km2 = anchor (mat_b false (slash_star p)), rewrite_km3 with mat_p), for ALL texts.
   PARTIAL by construction: the rewritten text is compiled by Regex::new AT RUN TIME inside regex_match; that
   call is the parameter f_regex_match of the translation, and what the compiled expression matches stays with
   PathMatch.parse_regex / amatch (a Gallina Regex::new = a parser of regex-syntax would be needed). *)
From CV Require Import Model.Base Model.Csv Model.PathMatch.
From CV Require Import Gen.RustStr Gen.Regex Gen.RegexRt Gen.RegexGen.
From CV Require Import Proofs.BaseP Proofs.CsvP Proofs.RegexP Proofs.EscEvalM Proofs.RegexUtilP.
From Coq Require Import Lia.

Lemma gen_regex_fm_translated_ok : gen_regex_fm_translated = true.
Proof. reflexivity. Qed.
Lemma gen_regex_fm_wf : rx_wf gen_mat_b && rx_wf gen_mat_p = true.
Proof. vm_compute. reflexivity. Qed.

(* ------------------------------------------------------------------ *)
(* str::contains / str::replace of slash-star                           *)
Lemma starts_slash_star : forall c d r,
  rs_starts_with (c :: d :: r) (T "/*") = Ascii.eqb c slash && Ascii.eqb d star.
Proof.
  intros c d r. unfold rs_starts_with. cbn [T list_ascii_of_string length firstn teqb].
  rewrite andb_true_r. reflexivity.
Qed.
Lemma starts_slash_star_short : forall c, rs_starts_with [c] (T "/*") = false.
Proof. intros c. unfold rs_starts_with. cbn [T list_ascii_of_string length firstn teqb]. apply andb_false_r. Qed.

Lemma slash_star_unfold : forall c d r,
  slash_star (c :: d :: r) =
  if Ascii.eqb c slash && Ascii.eqb d star then slash :: "."%char :: star :: slash_star r else c :: slash_star (d :: r).
Proof. reflexivity. Qed.

Lemma str_replace_slash_star : forall s, rs_str_replace s (T "/*") (T "/.*") = slash_star s.
Proof.
  unfold rs_str_replace.
  assert (H : forall s, rs_str_replace_go 0 s (T "/*") (T "/.*") = slash_star s /\
                        forall c, rs_str_replace_go 0 (c :: s) (T "/*") (T "/.*") = slash_star (c :: s)).
  { induction s as [|d s [IH1 IH2]].
    - split; [reflexivity|]. intros c. cbn [rs_str_replace_go]. rewrite starts_slash_star_short. reflexivity.
    - split; [apply IH2|]. intros c. rewrite slash_star_unfold, <- IH1, <- IH2.
      cbn [rs_str_replace_go]. rewrite starts_slash_star.
      destruct (Ascii.eqb c slash && Ascii.eqb d star).
      + reflexivity.
      + reflexivity. }
  intros s. apply H.
Qed.
Lemma no_slash_star : forall s, rs_contains_str s (T "/*") = false -> slash_star s = s.
Proof.
  assert (H : forall s, (rs_contains_str s (T "/*") = false -> slash_star s = s) /\
                        forall c, rs_contains_str (c :: s) (T "/*") = false -> slash_star (c :: s) = c :: s).
  { induction s as [|d s [IH1 IH2]].
    - split; [reflexivity|]. intros c _. reflexivity.
    - split; [apply IH2|]. intros c Hc. cbn [rs_contains_str] in Hc. apply orb_false_iff in Hc.
      destruct Hc as [H1 H2]. rewrite starts_slash_star in H1. rewrite slash_star_unfold, H1.
      rewrite IH2; [reflexivity|]. exact H2. }
  intros s. apply H.
Qed.
Lemma slash_star_step : forall s,
  (if rs_contains_str s (T "/*") then rs_str_replace s (T "/*") (T "/.*") else s) = slash_star s.
Proof.
  intros s. destruct (rs_contains_str s (T "/*")) eqn:E; [apply str_replace_slash_star|].
  symmetry. apply no_slash_star, E.
Qed.

(* ------------------------------------------------------------------ *)
(* MAT_B: a colon and the rest of its segment                           *)
Lemma mat_b_mt : forall b s,
  mt gen_mat_b b s [] kfin =
  match s with
  | x :: s' => if Ascii.eqb x colon
               then Some (rev (fst (span (nota slash) s')) ++ x :: b, snd (span (nota slash) s'), [])
               else None
  | [] => None
  end.
Proof.
  intros b s. unfold gen_mat_b. rewrite mt_cat, mt_char. destruct s as [|x s']; [reflexivity|].
  change ":"%char with colon. destruct (Ascii.eqb x colon); [|reflexivity].
  apply (mt_star_class_ok _ _ (nota slash)); [by_bytes|reflexivity].
Qed.
Lemma mat_b_never_empty : never_empty gen_mat_b.
Proof.
  intros b s b1 s1 c H. rewrite mat_b_mt in H. destruct s as [|x s']; [discriminate|].
  destruct (Ascii.eqb x colon); [|discriminate]. injection H as <- _ _. rewrite app_length. cbn [length]. lia.
Qed.
Lemma mat_b_true_span : forall s, mat_b true s = mat_b false (snd (span (nota slash) s)).
Proof.
  induction s as [|c r IH]; [reflexivity|]. cbn [mat_b span]. unfold nota at 1.
  destruct (Ascii.eqb c slash) eqn:E; cbn [negb].
  - cbn [snd mat_b]. apply aeqb_true in E. subst c. reflexivity.
  - rewrite IH. destruct (span (nota slash) r). reflexivity.
Qed.
Lemma span_snd_length : forall p s, length (snd (span p s)) <= length s.
Proof.
  intros p s. pose proof (span_eq p s) as H. apply (f_equal (@length ascii)) in H. rewrite app_length in H. lia.
Qed.

Lemma mat_b_repl : forall tpl, (forall b0 b1 s1, expand tpl (mk_match b0 b1 s1 []) = ns_plus) ->
  forall n s, length s <= n -> forall f b last, length s < f ->
  repl f gen_mat_b tpl b s last = mat_b false s.
Proof.
  intros tpl Htpl. induction n as [|n IH]; intros s Hn f b last Hf.
  - destruct s; [|cbn [length] in Hn; lia]. apply repl_end. rewrite mat_b_mt. reflexivity.
  - destruct s as [|x s']; [apply repl_end; rewrite mat_b_mt; reflexivity|]. cbn [length] in *.
    pose proof (mat_b_mt b (x :: s')) as Hm. cbv beta iota in Hm. cbn [mat_b].
    destruct (Ascii.eqb x colon) eqn:Ex.
    + destruct f as [|f]; [lia|].
      rewrite (repl_hit _ _ _ _ _ _ _ _ _ Hm) by (rewrite app_length; cbn [length]; lia).
      rewrite Htpl. pose proof (span_snd_length (nota slash) s') as Hl.
      rewrite (IH (snd (span (nota slash) s'))) by lia. rewrite mat_b_true_span. reflexivity.
    + rewrite (repl_miss _ _ _ _ _ _ _ None mat_b_never_empty Hm). rewrite (IH s') by lia. reflexivity.
Qed.

Theorem gen_key_match2_ok : forall rm k1 k2, gen_key_match2 rm k1 k2 = rm k1 (rewrite_km2 k2).
Proof.
  intros rm k1 k2. unfold gen_key_match2, rewrite_km2. cbv zeta. rewrite ?slash_star_step, ?str_replace_slash_star.
  rewrite rx_replace_all_repl. rewrite (mat_b_repl [TLit (T "[^/]+")] (fun _ _ _ => eq_refl) (length (slash_star k2))) by lia.
  reflexivity.
Qed.

(* ------------------------------------------------------------------ *)
(* MAT_P: an opening brace up to the LAST closing brace of its segment  *)
(* greedy star of a class that CONTAINS what follows it: backtracking to the last occurrence *)
Fixpoint last_rb (s : text) : option nat :=
  match s with
  | [] => None
  | c :: r =>
    if Ascii.eqb c slash then None
    else match last_rb r with
         | Some j => Some (S j)
         | None => if Ascii.eqb c rbrace then Some 0 else None
         end
  end.
Lemma last_close_rb : forall s i best,
  last_close s i best = match last_rb s with Some j => Some (i + j) | None => best end.
Proof.
  induction s as [|c r IH]; intros i best; cbn [last_close last_rb]; [reflexivity|].
  destruct (Ascii.eqb c slash); [reflexivity|]. rewrite IH.
  destruct (last_rb r) as [j|]; [f_equal; lia|].
  destruct (Ascii.eqb c rbrace); [f_equal; lia|reflexivity].
Qed.

Lemma star_then_rbrace : forall k, (forall b s c, k b s c =
    match s with x :: s' => if Ascii.eqb x rbrace then Some (x :: b, s', c) else None | [] => None end) ->
  forall s b c,
  star_set (nota slash) k b s c =
  match last_rb s with
  | Some j => Some (rev (firstn (S j) s) ++ b, skipn (S j) s, c)
  | None => None
  end.
Proof.
  intros k Hk. induction s as [|c0 r IH]; intros b c; cbn [star_set last_rb].
  - rewrite Hk. reflexivity.
  - unfold nota at 1. destruct (Ascii.eqb c0 slash) eqn:Es; cbn [negb].
    + rewrite Hk. apply aeqb_true in Es. subst c0. reflexivity.
    + rewrite IH. destruct (last_rb r) as [j|].
      * cbn [firstn skipn rev]. rewrite <- app_assoc. reflexivity.
      * rewrite Hk. destruct (Ascii.eqb c0 rbrace); reflexivity.
Qed.

Lemma mat_p_mt : forall b s,
  mt gen_mat_p b s [] kfin =
  match s with
  | x :: s' => if Ascii.eqb x lbrace
               then match last_rb s' with
                    | Some j => Some (rev (firstn (S j) s') ++ x :: b, skipn (S j) s', [])
                    | None => None
                    end
               else None
  | [] => None
  end.
Proof.
  intros b s. unfold gen_mat_p. rewrite mt_cat, mt_char. destruct s as [|x s']; [reflexivity|].
  change "{"%char with lbrace. destruct (Ascii.eqb x lbrace); [|reflexivity].
  rewrite mt_cat, mt_star_set, (star_set_ext _ (nota slash)) by by_bytes.
  apply star_then_rbrace. intros b0 s0 c0. rewrite mt_char. reflexivity.
Qed.
Lemma mat_p_never_empty : never_empty gen_mat_p.
Proof.
  intros b s b1 s1 c H. rewrite mat_p_mt in H. destruct s as [|x s']; [discriminate|].
  destruct (Ascii.eqb x lbrace); [|discriminate]. destruct (last_rb s'); [|discriminate].
  injection H as <- _ _. rewrite app_length. cbn [length]. lia.
Qed.
Lemma mat_p_skip : forall n s, mat_p n s = mat_p 0 (skipn n s).
Proof.
  induction n as [|n IH]; intros s; [reflexivity|]. destruct s as [|c r]; [reflexivity|].
  cbn [mat_p skipn]. apply IH.
Qed.

Lemma mat_p_repl : forall tpl, (forall b0 b1 s1, expand tpl (mk_match b0 b1 s1 []) = ns_plus) ->
  forall n s, length s <= n -> forall f b last, length s < f ->
  repl f gen_mat_p tpl b s last = mat_p 0 s.
Proof.
  intros tpl Htpl. induction n as [|n IH]; intros s Hn f b last Hf.
  - destruct s; [|cbn [length] in Hn; lia]. apply repl_end. rewrite mat_p_mt. reflexivity.
  - destruct s as [|x s']; [apply repl_end; rewrite mat_p_mt; reflexivity|]. cbn [length] in *.
    pose proof (mat_p_mt b (x :: s')) as Hm. cbv beta iota in Hm. cbn [mat_p].
    rewrite last_close_rb. cbn [Nat.add].
    destruct (Ascii.eqb x lbrace) eqn:Ex.
    + destruct (last_rb s') as [j|] eqn:Ej.
      * destruct f as [|f]; [lia|].
        rewrite (repl_hit _ _ _ _ _ _ _ _ _ Hm) by (rewrite app_length; cbn [length]; lia).
        rewrite Htpl. pose proof (skipn_length (S j) s') as Hl.
        rewrite (IH (skipn (S j) s')) by lia. rewrite (mat_p_skip (S j)). reflexivity.
      * rewrite (repl_miss _ _ _ _ _ _ _ None mat_p_never_empty Hm). rewrite (IH s') by lia. reflexivity.
    + rewrite (repl_miss _ _ _ _ _ _ _ None mat_p_never_empty Hm). rewrite (IH s') by lia. reflexivity.
Qed.

Theorem gen_key_match3_ok : forall rm k1 k2, gen_key_match3 rm k1 k2 = rm k1 (rewrite_km3 k2).
Proof.
  intros rm k1 k2. unfold gen_key_match3, rewrite_km3. cbv zeta. rewrite ?slash_star_step, ?str_replace_slash_star.
  rewrite rx_replace_all_repl. rewrite (mat_p_repl [TLit (T "[^/]+")] (fun _ _ _ => eq_refl) (length (slash_star k2))) by lia.
  reflexivity.
Qed.
