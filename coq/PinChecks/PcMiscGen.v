(* Obligations tying the TRANSLATED functions of rs2coq part 22 (Gen/MiscGen.v, regenerated on every run by
   tools/rs2coq_misc.py from /repo/src/adapter/null_adapter.rs, /repo/src/model/function_map.rs,
   /repo/src/enforcer.rs, /repo/src/model/assertion.rs, /repo/src/frontend.rs) to the model and to the hand
   restatements that stood for them (Proofs/LinkingP.v `untranslated_crate`):

   A  NullAdapter            every method of trait Adapter = the ANull case of Model/Engine.v (ad0_load,
                             ad0_load_filtered, ad0_save, ad0_clear, ad0_add .. ad0_remove_filtered, ad_is_filtered)
   B  FunctionMap            the enum as declared; default() = Enforcer2Rt.fm_default (names, variants, order) and
                             what its closures compute = the translated matcher functions under their registered
                             names (LinkTabBP.lk_builtin), hence what the engine runs for the pointer; add_function =
                             HashMap::insert (inserts or replaces by name); get_functions = the entries
      register_function      = Enforcer2Rt.eng_register_function: under the key, with the arity of the variant
      Enforcer::add_function (the two calls together) against EnforcerPrims.add_user_function: every lookup agrees
   C  Assertion              default() = IniGen.gen_assertion_default; get_policy / get_mut_policy = the field
   D  frontend.rs            casbin_js_get_permission_for_user = the JSON object {m, p, g} of the model text and of
                             Engine.text_lines, for every iteration order of the map

   The proofs do not look at how the source is written beyond what they state: a rewrite that keeps the meaning
   inside the translated subset keeps them, a change of meaning leaves an unprovable leaf
   (tools/rs2coq_demo_misc.py). *)
From CV Require Import Model.Base Model.Csv Model.Expr Model.Enforce Model.Engine Model.FileSave.
From CV Require Import Gen.RustStr Gen.RustVec Gen.StrFnGen Gen.FmapGen Gen.AdaptersPrims Gen.AdaptersGen Gen.FsRt.
From CV Require Import Gen.IniRt Gen.IniGen Gen.Model2Rt Gen.Model2Gen.
From CV Require Import Gen.EnforcerPrims Gen.CachedRt Gen.Enforcer2Rt Gen.Enforcer2Gen Gen.MiscRt Gen.MiscGen.
From CV Require Import Proofs.BaseP Proofs.RustVecP Proofs.FsaveP Proofs.Enforcer2P Proofs.MiscP.
From CV Require Proofs.LinkTabBP.
From CV Require PinChecks.PcIniGen PinChecks.PcModel2Gen PinChecks.PcEnforcer2Gen.
From Coq Require Import Lia.

Lemma gen_misc_translated_ok : gen_misc_translated = true.
Proof. reflexivity. Qed.

(* ================================================================== *)
(* A. src/adapter/null_adapter.rs                                       *)

(* the translator went through every method the trait declares *)
Theorem gen_null_methods_ok :
  gen_null_methods = [T "load_policy"; T "load_filtered_policy"; T "save_policy"; T "clear_policy"; T "is_filtered";
                      T "add_policy"; T "add_policies"; T "remove_policy"; T "remove_policies";
                      T "remove_filtered_policy"].
Proof. reflexivity. Qed.

(* the loads deliver nothing: Ok(()), the model as it was *)
Theorem gen_null_load_ok : forall md fp fg,
  gen_null_load_policy md = Some (md, ROk tt) /\
  gen_null_load_filtered_policy md fp fg = Some (md, ROk tt) /\
  null_view_m (gen_null_load_policy md) = Some (ad0_load ANull md) /\
  null_view_m (gen_null_load_filtered_policy md fp fg) = Some (ad0_load_filtered ANull fp fg md).
Proof. intros md fp fg. repeat split. Qed.

(* save / clear: Ok(()), nothing is written (the model given to save_policy comes back unchanged) *)
Theorem gen_null_save_clear_ok : forall md,
  gen_null_save_policy md = Some (md, ROk tt) /\
  gen_null_clear_policy = Some (ROk tt) /\
  null_view_s (gen_null_save_policy md) = Some (ad0_save ANull md) /\
  null_view_u gen_null_clear_policy = Some (ad0_clear ANull).
Proof. intros md. repeat split. Qed.

(* every mutating call answers Ok(true) *)
Theorem gen_null_incremental_ok : forall sec pt r rs idx vals,
  gen_null_add_policy sec pt r = Some (ROk true) /\
  gen_null_add_policies sec pt rs = Some (ROk true) /\
  gen_null_remove_policy sec pt r = Some (ROk true) /\
  gen_null_remove_policies sec pt rs = Some (ROk true) /\
  gen_null_remove_filtered_policy sec pt idx vals = Some (ROk true) /\
  null_view_b (gen_null_add_policy sec pt r) = Some (ad0_add ANull sec pt r) /\
  null_view_b (gen_null_add_policies sec pt rs) = Some (ad0_add_many ANull sec pt rs) /\
  null_view_b (gen_null_remove_policy sec pt r) = Some (ad0_remove ANull sec pt r) /\
  null_view_b (gen_null_remove_policies sec pt rs) = Some (ad0_remove_many ANull sec pt rs) /\
  null_view_b (gen_null_remove_filtered_policy sec pt idx vals) = Some (ad0_remove_filtered ANull sec pt idx vals).
Proof. intros sec pt r rs idx vals. repeat split. Qed.

Theorem gen_null_is_filtered_ok : gen_null_is_filtered = Some (ad_is_filtered ANull).
Proof. reflexivity. Qed.

(* NullAdapter::add_policy as the function the linking theorems are parameterised by *)
Definition gen_null_add (sec pt : text) (r : rule) : outcome bool :=
  match gen_null_add_policy sec pt r with Some x => out_of x | None => Panic end.
Theorem gen_null_add_ok : forall sec pt r, gen_null_add sec pt r = Ok true.
Proof. intros sec pt r. reflexivity. Qed.

(* ================================================================== *)
(* B. src/model/function_map.rs, Enforcer::register_function            *)

(* the enum is declared as Gen/MiscRt.v restates it: ArgN carries a fn of N ImmutableStrings *)
Theorem gen_operator_function_variants_ok : gen_operator_function_variants = opfn_variants.
Proof. reflexivity. Qed.

(* FunctionMap::default(): exactly the entries of Enforcer2Rt.fm_default - names, variants (the N of ArgN is the
   arity the model gives the default function), pointers - in that order *)
Theorem gen_fm_default_ok : gen_fm_default = fm_rep fm_default.
Proof. vm_compute. reflexivity. Qed.

Theorem gen_fm_default_abs : fm_abs gen_fm_default = fm_default.
Proof. rewrite gen_fm_default_ok. apply fm_abs_rep. Qed.

(* against the table part 15 reads from the same source (Enforcer2Gen.gen_fm_default_table) *)
Theorem gen_fm_default_table_agrees :
  map (fun kf => (fst kf, opfn_variant (snd kf))) (fm_fm gen_fm_default) = gen_fm_default_table.
Proof. vm_compute. reflexivity. Qed.

Theorem gen_fm_default_wt : Forall (fun kf => opfn_wt (snd kf)) (fm_fm gen_fm_default).
Proof. rewrite gen_fm_default_ok. unfold fm_rep. cbn [fm_fm]. apply Forall_forall. intros kf H.
  apply in_map_iff in H. destruct H as [[k p] [<- _]]. cbn [snd]. apply opfn_of_wt. Qed.

Theorem gen_fm_default_keys_nodup : NoDup (map fst (fm_fm gen_fm_default)).
Proof.
  assert (H : map fst (fm_fm gen_fm_default) = map fst fm_default) by (vm_compute; reflexivity).
  rewrite H. exact (proj1 fm_default_wf).
Qed.

(* the closures: one per entry, in order; each has the number of parameters of its variant, and its body is the
   translated matcher function the model evaluates under the registered name *)
Theorem gen_fm_default_closures_cover :
  map (fun kf => (opfn_ptr (snd kf), opfn_variant (snd kf))) (fm_fm gen_fm_default) = map fst gen_fm_default_closures.
Proof. vm_compute. reflexivity. Qed.

Definition closure_row_ok (row : fnptr * nat * (list text -> option eres)) : Prop :=
  let '(p, n, c) := row in
  opfun_arity p = n /\ exists name, p = OfBuiltin name /\ forall ss, c ss = LinkTabBP.lk_builtin name ss.

Ltac closure_row :=
  split; [reflexivity|];
  eexists; split; [reflexivity|];
  let ss := fresh "ss" in
  intros ss; destruct ss as [|? [|? [|? [|? ?]]]]; reflexivity.

Theorem gen_fm_default_closures_ok : Forall closure_row_ok gen_fm_default_closures.
Proof. unfold gen_fm_default_closures. repeat (constructor; [closure_row|]). constructor. Qed.

(* hence: what a closure computes is what the engine runs for its pointer (Enforcer2Rt.run_efn), wherever the
   model's built-in answers (outside the modelled regex class the model's answer is an evaluation error: part 16) *)
Theorem gen_fm_default_closures_run : forall p n c, In (p, n, c) gen_fm_default_closures ->
  forall fs ss, c ss = run_efn fs (FnOp p) ss \/ run_efn fs (FnOp p) ss = Some EErr.
Proof.
  intros p n c Hin fs ss. pose proof gen_fm_default_closures_ok as H. rewrite Forall_forall in H.
  specialize (H _ Hin). cbn in H. destruct H as [_ [name [-> Hc]]]. cbn [run_efn]. rewrite Hc.
  apply LinkTabBP.link_builtin.
Qed.

(* FunctionMap::add_function = HashMap::insert on the field *)
Theorem gen_fm_add_function_ok : forall m n f,
  gen_fm_add_function m n f = {| fm_fm := hm_insert teqb (fm_fm m) n f |}.
Proof. intros m n f. reflexivity. Qed.

(* "inserts or replaces by name": the name now holds f, every other name what it held, there is exactly ONE entry
   for the name, the other entries are the old ones in their order; a new name goes to the end *)
Theorem gen_fm_add_function_get : forall m n f k,
  hm_get teqb (fm_fm (gen_fm_add_function m n f)) k = if teqb k n then Some f else hm_get teqb (fm_fm m) k.
Proof.
  intros m n f k. rewrite gen_fm_add_function_ok. cbn [fm_fm]. destruct (teqb k n) eqn:E.
  - apply teqb_eq in E. subst k. apply hm_get_insert_same.
  - apply hm_get_insert_other. apply teqb_neq, E.
Qed.
Theorem gen_fm_add_function_replaces : forall m n f,
  filter (fun kv => teqb n (fst kv)) (fm_fm (gen_fm_add_function m n f)) = [(n, f)] /\
  filter (fun kv => negb (teqb n (fst kv))) (fm_fm (gen_fm_add_function m n f))
  = filter (fun kv => negb (teqb n (fst kv))) (fm_fm m) /\
  (NoDup (map fst (fm_fm m)) -> NoDup (map fst (fm_fm (gen_fm_add_function m n f)))) /\
  (~ In n (map fst (fm_fm m)) -> fm_fm (gen_fm_add_function m n f) = fm_fm m ++ [(n, f)]).
Proof.
  intros m n f. rewrite gen_fm_add_function_ok. cbn [fm_fm].
  split; [apply hm_insert_one_entry|]. split; [apply hm_insert_others|].
  split; [apply hm_insert_keys_nodup|apply hm_insert_fresh].
Qed.
(* on the function map of Enforcer2Rt (the pointers only) *)
Theorem gen_fm_add_function_abs : forall fm n p,
  fm_abs (gen_fm_add_function (fm_rep fm) n (opfn_of p)) = hm_insert teqb fm n p.
Proof.
  intros fm n p. rewrite gen_fm_add_function_ok. unfold fm_abs, fm_rep. cbn [fm_fm].
  rewrite (map_hm_insert opfn_ptr). rewrite opfn_ptr_of. f_equal. exact (fm_abs_rep fm).
Qed.

(* FunctionMap::get_functions: the entries of the map *)
Theorem gen_fm_get_functions_ok : forall m, gen_fm_get_functions m = fm_fm m.
Proof. intros m. reflexivity. Qed.
Theorem gen_fm_get_functions_abs : forall fm,
  map (fun kf => (fst kf, opfn_ptr (snd kf))) (gen_fm_get_functions (fm_rep fm)) = fm_get_functions fm.
Proof. intros fm. rewrite gen_fm_get_functions_ok. exact (fm_abs_rep fm). Qed.

(* Enforcer::register_function: under the key, with the number of parameters of the variant, the pointer it carries *)
Theorem gen_enf_register_function_variant : forall eng key f,
  gen_enf_register_function eng key f = eng_register_fn eng key (opfn_variant f) (FnOp (opfn_ptr f)).
Proof. intros eng key f. destruct f; reflexivity. Qed.
Theorem gen_enf_register_function_ok : forall eng key p,
  gen_enf_register_function eng key (opfn_of p) = eng_register_function eng key p.
Proof.
  intros eng key p. rewrite gen_enf_register_function_variant, opfn_variant_of, opfn_ptr_of. reflexivity.
Qed.

(* the loop of new_raw / register_g_functions over get_functions, with both translated *)
Theorem gen_register_all_ok : forall fm eng,
  fold_left (fun e kf => gen_enf_register_function e (fst kf) (snd kf)) (gen_fm_get_functions (fm_rep fm)) eng
  = fold_left (fun e kf => eng_register_function e (fst kf) (snd kf)) (fm_get_functions fm) eng.
Proof.
  intros fm. rewrite gen_fm_get_functions_ok. unfold fm_rep, fm_get_functions. cbn [fm_fm].
  induction fm as [|[k p] fm IH]; intros eng; [reflexivity|]. cbn [map fold_left fst snd].
  rewrite gen_enf_register_function_ok. apply IH.
Qed.

(* Enforcer::add_function  { self.fm.add_function(fname, f); Self::register_function(&mut self.engine, fname, f); }
   with both callees translated, against the primitive of part 7 (EnforcerPrims.add_user_function: one newest-first
   table): the engine gets the registration of Enforcer2Rt, and every lookup in the table of added functions agrees *)
Definition lk_enf_add_function (x : renf) (n : text) (p : opfun) : renf :=
  rset_engine (rset_fm x (fm_abs (gen_fm_add_function (fm_rep (r_fm x)) n (opfn_of p))))
              (gen_enf_register_function (r_engine x) n (opfn_of p)).

Theorem lk_enf_add_function_ok : forall x n u,
  r_engine (lk_enf_add_function x n (OfUser u)) = eng_register_function (r_engine x) n (OfUser u) /\
  r_fm (lk_enf_add_function x n (OfUser u)) = hm_insert teqb (r_fm x) n (OfUser u) /\
  (forall k, assoc k (f_ufuns (e_fs (abs (lk_enf_add_function x n (OfUser u)))))
             = assoc k (f_ufuns (e_fs (add_user_function (abs x) n u)))) /\
  f_gfuns (e_fs (abs (lk_enf_add_function x n (OfUser u)))) = f_gfuns (e_fs (add_user_function (abs x) n u)) /\
  f_rm (e_fs (abs (lk_enf_add_function x n (OfUser u)))) = f_rm (e_fs (add_user_function (abs x) n u)) /\
  e_model (abs (lk_enf_add_function x n (OfUser u))) = e_model (add_user_function (abs x) n u) /\
  e_adapter (abs (lk_enf_add_function x n (OfUser u))) = e_adapter (add_user_function (abs x) n u).
Proof.
  intros x n u. unfold lk_enf_add_function. rewrite gen_fm_add_function_abs, gen_enf_register_function_ok.
  destruct x as [md0 ad0 fm0 ef0 rm0 en0 sv0 bl0 nt0 wt0 ev0 eng0].
  cbn [rset_engine rset_fm r_engine r_fm r_model r_adapter r_eft r_rm r_enabled r_auto_save r_auto_build r_auto_notify
       r_watcher r_events abs abs_fs e_fs f_ufuns f_gfuns f_rm e_model e_adapter add_user_function upd_fs].
  split; [reflexivity|]. split; [reflexivity|]. split; [intros k; apply assoc_fm_users_insert|].
  unfold eng_register_function, eng_register_fn. cbn [eng_links]. repeat split.
Qed.

(* ================================================================== *)
(* C. src/model/assertion.rs                                            *)

Theorem gen_ast_default_ok :
  gen_ast_default = gen_assertion_default /\
  gen_ast_default = {| ga_key := []; ga_value := []; ga_tokens := []; ga_policy := []; ga_rm := RmFresh 0 |}.
Proof. split; reflexivity. Qed.

Theorem gen_ast_get_policy_ok : forall a, gen_ast_get_policy a = ga_policy a.
Proof. intros a. reflexivity. Qed.

(* get_mut_policy: the reference reads the field, a write through it changes the field and nothing else *)
Theorem gen_ast_get_mut_policy_ok : forall a p,
  place_get (gen_ast_get_mut_policy a) = ga_policy a /\
  place_set (gen_ast_get_mut_policy a) p = set_ga_policy a p /\
  gen_ast_get_policy (place_set (gen_ast_get_mut_policy a) p) = p /\
  place_set (gen_ast_get_mut_policy a) (ga_policy a) = a.
Proof. intros [k v t pol rm] p. repeat split. Qed.

(* the assertion of the engine model that a Rust-level assertion stands for (its manager is its own) *)
Definition ast_abs (a : gen_assertion) : assertion :=
  {| a_value := ga_value a; a_tokens := ga_tokens a; a_policy := ga_policy a; a_handle := HOwn |}.
(* the primitives of part 9 (AdaptersPrims: `ast.get_policy()` / `ast.get_mut_policy()` taken as the field) *)
Theorem gen_ast_accessors_prims : forall a p,
  gen_ast_get_policy a = rs_ast_policy (ast_abs a) /\
  place_get (gen_ast_get_mut_policy a) = rs_ast_policy (ast_abs a) /\
  ast_abs (place_set (gen_ast_get_mut_policy a) p) = rs_ast_set_policy (ast_abs a) p.
Proof. intros [k v t pol rm] p. repeat split. Qed.

(* ================================================================== *)
(* D. src/frontend.rs                                                   *)

(* the rows of a section: every rule of every definition, under its policy type (Engine.text_lines, one half) *)
Definition js_rows (md : model) (sec : text) : list (list text) :=
  match assoc sec md with
  | Some am => flat_map (fun ka => map (fun r => fst ka :: r) (m_get_policy md sec (fst ka))) am
  | None => []
  end.

Lemma js_inner_loop : forall (R : Type) pt (rows : list rule) (acc : list (list text)),
  rs_for (R := R) (fun it acc => LNext (rs_push acc (rs_vec_extend [pt] it))) rows acc
  = Done (acc ++ map (fun r => pt :: r) rows).
Proof.
  intros R pt rows acc.
  rewrite (rs_for_fold _ (fun acc it => rs_push acc (rs_vec_extend [pt] it))) by (intros; reflexivity).
  rewrite (fold_left_push_map (fun r => rs_vec_extend [pt] r)). reflexivity.
Qed.

Lemma js_outer_loop : forall (R : Type) md sec (am : amap) (acc : list (list text)),
  rs_for (R := R)
    (fun (it : text * assertion) acc =>
       let '(pt, _) := it in
       match gen_m_get_policy md sec pt with
       | Some px =>
         match rs_for (fun it2 acc2 => LNext (rs_push acc2 (rs_vec_extend [pt] it2))) px acc with
         | Done acc' => LNext acc'
         | Returned r => LReturn r
         | Panicked => LPanic
         end
       | None => LPanic
       end) am acc
  = Done (acc ++ flat_map (fun ka => map (fun r => fst ka :: r) (m_get_policy md sec (fst ka))) am).
Proof.
  intros R md sec am acc.
  rewrite (rs_for_fold _ (fun acc (ka : text * assertion) => acc ++ map (fun r => fst ka :: r) (m_get_policy md sec (fst ka)))).
  - rewrite fold_left_app_flat_list. reflexivity.
  - intros [pt a] s. rewrite PcModel2Gen.gen_m_get_policy_ok, js_inner_loop. reflexivity.
Qed.

Theorem gen_casbin_js_ok : forall to_text ord x user,
  gen_casbin_js_get_permission_for_user to_text ord x user
  = Some (ROk (json_map_to_string ord
                 [(T "m", JStr (to_text (r_model x)));
                  (T "p", json_of_rows (js_rows (d_model (r_model x)) (T "p")));
                  (T "g", json_of_rows (js_rows (d_model (r_model x)) (T "g")))])).
Proof.
  intros to_text ord x user. unfold gen_casbin_js_get_permission_for_user, js_rows, Enforcer2Rt.rs_map_get.
  set (md := d_model (r_model x)).
  destruct (assoc (T "p") md) as [amp|]; destruct (assoc (T "g") md) as [amg|];
    cbv beta iota zeta; rewrite ?js_outer_loop; cbn [rs_then app]; rewrite ?js_outer_loop; cbn [rs_then app];
    reflexivity.
Qed.

(* FINDINGS about frontend.rs (no disagreement with a model: there is none for this function).
   (1) the `_user` argument is not used: the answer is the same for every user;
   (2) the text is not a function of the enforcer: the members come in the iteration order of a std HashMap
       (two orders, two texts - the same JSON object). *)
Theorem gen_casbin_js_ignores_user : forall to_text ord x u1 u2,
  gen_casbin_js_get_permission_for_user to_text ord x u1 = gen_casbin_js_get_permission_for_user to_text ord x u2.
Proof. intros to_text ord x u1 u2. rewrite !gen_casbin_js_ok. reflexivity. Qed.

Theorem gen_casbin_js_order_dependent : forall to_text x user,
  gen_casbin_js_get_permission_for_user to_text (fun l => l) x user
  <> gen_casbin_js_get_permission_for_user to_text (@rev _) x user.
Proof.
  intros to_text x user. rewrite !gen_casbin_js_ok. intros H.
  assert (K : forall a b : text, Some (ROk (E := dyn_error) a) = Some (ROk b) -> a = b)
    by (intros a b E; injection E as E; exact E).
  apply K in H. unfold json_map_to_string in H. cbn [rev app map json_join flat_map fst snd] in H.
  apply (f_equal (fun l => nth 2 l "0"%char)) in H. vm_compute in H. discriminate H.
Qed.

(* when the keys of each section are distinct (a LinkedHashMap) the rows are those of Engine.text_lines, which
   save_policy writes *)
Lemma js_rows_text_lines : forall md : model,
  (forall sec (am : amap), assoc sec md = Some am -> NoDup (map fst am)) ->
  js_rows md s_p ++ js_rows md s_g = text_lines md.
Proof.
  intros md Hnd. unfold js_rows, text_lines.
  assert (H : forall sec (am : amap), assoc sec md = Some am ->
              flat_map (fun ka : text * assertion => map (fun r => fst ka :: r) (m_get_policy md sec (fst ka))) am
              = flat_map (fun ka => map (fun r => fst ka :: r) (a_policy (snd ka))) am).
  { intros sec am Ha. specialize (Hnd sec am Ha). unfold m_get_policy, get_ast. rewrite Ha.
    assert (Hin : forall ka, In ka am -> assoc (fst ka) am = Some (snd ka)).
    { intros [k a] Hk. apply In_assoc; assumption. }
    assert (G : forall am0 : amap, (forall ka, In ka am0 -> assoc (fst ka) am = Some (snd ka)) ->
                flat_map (fun ka : text * assertion => map (fun r => fst ka :: r)
                            match assoc (fst ka) am with Some a => a_policy a | None => [] end) am0
                = flat_map (fun ka => map (fun r => fst ka :: r) (a_policy (snd ka))) am0).
    { induction am0 as [|ka am0 IH]; intros Hin0; [reflexivity|]. cbn [flat_map].
      rewrite (Hin0 ka) by (left; reflexivity). f_equal. apply IH. intros kb Hb. apply Hin0. right. exact Hb. }
    apply G, Hin. }
  destruct (assoc s_p md) as [amp|] eqn:Ep; destruct (assoc s_g md) as [amg|] eqn:Eg;
    rewrite ?(H _ _ Ep), ?(H _ _ Eg); reflexivity.
Qed.

(* the text, spelled out for one order: the members in the order of insertion *)
Example gen_casbin_js_ex :
  let md := [(T "p", [(T "p", {| a_value := T "sub, obj, act"; a_tokens := []; a_policy := [[T "alice"; T "data1"; T "read"]]; a_handle := HOwn |})]);
             (T "g", [(T "g", {| a_value := T "_, _"; a_tokens := []; a_policy := [[T "bob"; T "a""b"]]; a_handle := HOwn |})])] in
  let x := {| r_model := {| d_model := md; d_mexprs := [] |}; r_adapter := ANull; r_fm := []; r_eft := tt; r_rm := ([], 10);
              r_enabled := true; r_auto_save := true; r_auto_build := true; r_auto_notify := true; r_watcher := None;
              r_events := []; r_engine := [] |} in
  gen_casbin_js_get_permission_for_user (fun _ => T "[m]") (fun l => l) x (T "alice")
  = Some (ROk (T "{""m"":""[m]"",""p"":[[""p"",""alice"",""data1"",""read""]],""g"":[[""g"",""bob"",""a\""b""]]}")).
Proof. vm_compute. reflexivity. Qed.

(* ================================================================== *)
(* axiom audit *)
Print Assumptions gen_null_load_ok.
Print Assumptions gen_null_save_clear_ok.
Print Assumptions gen_null_incremental_ok.
Print Assumptions gen_null_is_filtered_ok.
Print Assumptions gen_null_add_ok.
Print Assumptions gen_fm_default_ok.
Print Assumptions gen_fm_default_closures_ok.
Print Assumptions gen_fm_default_closures_run.
Print Assumptions gen_fm_add_function_replaces.
Print Assumptions gen_enf_register_function_ok.
Print Assumptions lk_enf_add_function_ok.
Print Assumptions gen_ast_get_mut_policy_ok.
Print Assumptions gen_casbin_js_ok.
Print Assumptions js_rows_text_lines.
Print Assumptions gen_casbin_js_ignores_user.
Print Assumptions gen_casbin_js_order_dependent.
