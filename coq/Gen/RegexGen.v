(* GENERATED on every run by tools/rs2coq.py (part 14: tools/rs2coq_regex.py) from /repo/src/util.rs
   (the statics ESC_A, ESC_C, ESC_E; escape_assertion, escape_eval, parse_csv_line) and, as a stretch, from
   /repo/src/model/function_map.rs (MAT_B, MAT_P; key_match2, key_match3 up to the call of regex_match, which
   compiles its argument at run time and is a PARAMETER f_regex_match of the translation) - do not edit.
   Regex literals are parsed into Gen/Regex.v's AST; `option` around a result type: None = a panic. *)
From CV Require Import Model.Base Gen.RustStr Gen.RustVec Gen.RustIter Gen.Regex Gen.RegexRt.

(* ESC_A = \b(r\d*|p\d* )\. *)
Definition gen_esc_a : regex :=
 (RCat RWordB (RCat (RGroup 1 (RAlt (RCat (RChar "r"%char) (RStar true (RSet false [IDigit]))) (RCat (RChar "p"%char) (RStar true (RSet false [IDigit]))))) (RChar "."%char))).

(* ESC_C = (\s*'[^']*'?\s*|\s*[^,]* ) *)
Definition gen_esc_c : regex :=
 (RGroup 1 (RAlt (RCat (RStar true (RSet false [ISpace])) (RCat (RChar """"%char) (RCat (RStar true (RSet true [IChar """"%char])) (RCat (ROpt true (RChar """"%char)) (RStar true (RSet false [ISpace])))))) (RCat (RStar true (RSet false [ISpace])) (RStar true (RSet true [IChar ","%char]))))).

(* ESC_E = \beval\(([^)]* )\) *)
Definition gen_esc_e : regex :=
 (RCat RWordB (RCat (RChar "e"%char) (RCat (RChar "v"%char) (RCat (RChar "a"%char) (RCat (RChar "l"%char) (RCat (RChar "("%char) (RCat (RGroup 1 (RStar true (RSet true [IChar ")"%char]))) (RChar ")"%char)))))))).

Definition gen_escape_assertion (v_s : text) : text :=
 (rx_replace_all gen_esc_a v_s [TGroup 1; TLit (T "_")]).

Definition gen_escape_eval (v_m : text) : text :=
 (rx_replace_all gen_esc_e v_m [TLit (T "eval(escape_assertion("); TGroup 1; TLit (T "))")]).

Definition gen_parse_csv_line (v_line : text) : option (option (list text)) :=
 rs_fn
 ((let v_line := (rs_trim v_line) in
 (if ((rs_is_empty v_line) || (rs_starts_with_char v_line "#"%char))
 then (LReturn None)
 else (let v_res := [] in
 (match rs_for (fun v_col v_res =>
 (if (((Nat.leb 2 (rs_len v_col)) && (rs_starts_with_char v_col """"%char)) && (rs_ends_with_char v_col """"%char))
 then (match rs_usize_sub (rs_len v_col) 1 with Some n3_ => (match rs_slice v_col 1 n3_ with Some t4_ => (let v_res := rs_push v_res t4_ in
 (LNext v_res)) | None => LPanic end) | None => LPanic end)
 else (let v_res := rs_push v_res v_col in
 (LNext v_res))))
 (rs_iter_map (fun v_m => (rs_trim (rx_as_str v_m))) (rx_find_iter gen_esc_c v_line)) v_res return flow unit (option (list (text))) with
 | Done v_res => (if (rs_vec_is_empty v_res)
 then (LReturn None)
 else (LReturn (Some v_res)))
 | Returned ret_ => LReturn ret_
 | Panicked => LPanic end))))).

Definition gen_regex_translated : bool := true.

(* ---- stretch: src/model/function_map.rs ---- *)
(* MAT_B = :[^/]* *)
Definition gen_mat_b : regex :=
 (RCat (RChar ":"%char) (RStar true (RSet true [IChar "/"%char]))).

(* MAT_P = \{[^/]*\} *)
Definition gen_mat_p : regex :=
 (RCat (RChar "{"%char) (RCat (RStar true (RSet true [IChar "/"%char])) (RChar "}"%char))).

Definition gen_key_match2 (f_regex_match : text -> text -> bool) (v_key1 : text) (v_key2 : text) : bool :=
 (let v_key2 := (if (rs_contains_str v_key2 (T "/*")) then (rs_str_replace v_key2 (T "/*") (T "/.*")) else v_key2) in
 (let v_key2 := (rx_replace_all gen_mat_b v_key2 [TLit (T "[^/]+")]) in
 (f_regex_match v_key1 (rs_format1 (T "^") (T "$") v_key2)))).

Definition gen_key_match3 (f_regex_match : text -> text -> bool) (v_key1 : text) (v_key2 : text) : bool :=
 (let v_key2 := (if (rs_contains_str v_key2 (T "/*")) then (rs_str_replace v_key2 (T "/*") (T "/.*")) else v_key2) in
 (let v_key2 := (rx_replace_all gen_mat_p v_key2 [TLit (T "[^/]+")]) in
 (f_regex_match v_key1 (rs_format1 (T "^") (T "$") v_key2)))).

Definition gen_regex_fm_translated : bool := true.
