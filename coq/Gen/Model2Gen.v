(* GENERATED on every run by tools/rs2coq_model2.py (rs2coq part 18) from /repo/src/model/default_model.rs (the nine
   policy-store methods of impl Model for DefaultModel, get_model / get_mut_model), /repo/src/macros.rs, /repo/src/convert.rs,
   /repo/src/cache/default_cache.rs and /repo/src/error.rs - do not edit.
   st_model = self.model (the map section -> key -> assertion); a store function returns option: None = the panic of the
   source (an index out of range inside the loops of parts 3 / 8); a `&mut self` function returns the new map with its value. *)
From CV Require Import Model.Base Model.Enforce Model.Engine.
From CV Require Import Gen.RustStr Gen.RustVec Gen.RustIter Gen.Petgraph Gen.IniRt Gen.LinksPrims Gen.StoreGen Gen.LinksGen.
From CV Require Import Gen.Model2Rt Gen.MokaRt.

(* ------------------------------------------------------------------ (E) src/error.rs *)
Inductive gen_ModelError : Type :=
| GModelError_R (a0 : text)
| GModelError_P (a0 : text)
| GModelError_E (a0 : text)
| GModelError_M (a0 : text)
| GModelError_Other (a0 : text).
Inductive gen_RequestError : Type :=
| GRequestError_UnmatchRequestDefinition (a0 : nat) (a1 : nat).
Inductive gen_PolicyError : Type :=
| GPolicyError_UnmatchPolicyDefinition (a0 : nat) (a1 : nat).
Inductive gen_RbacError : Type :=
| GRbacError_NotFound (a0 : text).
Inductive gen_AdapterError : Type := GAdapterError (a0 : ext_boxed_error).
Inductive gen_Error : Type :=
| GError_IoError (a0 : ext_io_error)
| GError_ModelError (a0 : gen_ModelError)
| GError_PolicyError (a0 : gen_PolicyError)
| GError_RbacError (a0 : gen_RbacError)
| GError_RhaiError (a0 : ext_eval_error)
| GError_RhaiParseError (a0 : ext_parse_error)
| GError_RequestError (a0 : gen_RequestError)
| GError_AdapterError (a0 : gen_AdapterError).

(* impl From<IoError> for Error  (#[from] on Error::IoError) *)
Definition gen_Error_from_IoError (e : ext_io_error) : gen_Error := GError_IoError e.
(* impl From<ModelError> for Error  (#[from] on Error::ModelError) *)
Definition gen_Error_from_ModelError (e : gen_ModelError) : gen_Error := GError_ModelError e.
(* impl From<PolicyError> for Error  (#[from] on Error::PolicyError) *)
Definition gen_Error_from_PolicyError (e : gen_PolicyError) : gen_Error := GError_PolicyError e.
(* impl From<RbacError> for Error  (#[from] on Error::RbacError) *)
Definition gen_Error_from_RbacError (e : gen_RbacError) : gen_Error := GError_RbacError e.
(* impl From<Box<EvalAltResult>> for Error  (#[from] on Error::RhaiError) *)
Definition gen_Error_from_BoxEvalAltResult (e : ext_eval_error) : gen_Error := GError_RhaiError e.
(* impl From<ParseError> for Error  (#[from] on Error::RhaiParseError) *)
Definition gen_Error_from_ParseError (e : ext_parse_error) : gen_Error := GError_RhaiParseError e.
(* impl From<RequestError> for Error  (#[from] on Error::RequestError) *)
Definition gen_Error_from_RequestError (e : gen_RequestError) : gen_Error := GError_RequestError e.
(* impl From<AdapterError> for Error  (#[from] on Error::AdapterError) *)
Definition gen_Error_from_AdapterError (e : gen_AdapterError) : gen_Error := GError_AdapterError e.

(* the variant of an error, as the harness reports it (err_class of harness/src/eng.rs restated as errc_of_variant) *)
Definition gen_error_variant (e : gen_Error) : text :=
 match e with
 | GError_IoError _ => T "IoError"
 | GError_ModelError _ => T "ModelError"
 | GError_PolicyError _ => T "PolicyError"
 | GError_RbacError _ => T "RbacError"
 | GError_RhaiError _ => T "RhaiError"
 | GError_RhaiParseError _ => T "RhaiParseError"
 | GError_RequestError _ => T "RequestError"
 | GError_AdapterError _ => T "AdapterError"
 end.
Definition gen_error_class (e : gen_Error) : option errc := errc_of_variant (gen_error_variant e).
Definition gen_error_variants : list text := [T "IoError"; T "ModelError"; T "PolicyError"; T "RbacError"; T "RhaiError"; T "RhaiParseError"; T "RequestError"; T "AdapterError"].

(* ------------------------------------------------------------------ (A) src/model/default_model.rs *)
Definition gen_dm_get_model (st_model : model) : model := st_model.

Definition gen_dm_get_mut_model (st_model : model) : model := st_model.

Definition gen_m_add_policy (st_model : model) (v_sec : text) (v_ptype : text) (v_rule : list text) : option (model * bool) :=
 (match (rs_smap_get_mut st_model v_sec) with
 | Some v_ast_map =>
  (match (rs_amap_get_mut v_ast_map v_ptype) with
  | Some v_ast => (match gen_add_policy v_rule (a_policy v_ast) with
   | Some (st_policy, r_) =>
     (let v_ast := rs_ast_set_policy v_ast st_policy in
      let v_ast_map := rs_amap_set v_ast_map v_ptype v_ast in
      let st_model := rs_model_set st_model v_sec v_ast_map in
      Some (st_model, r_))
   | None => None end)
  | None => (option_map (fun r_ => (st_model, r_)) (gen_add_policy_absent v_rule)) end)
 | None => (option_map (fun r_ => (st_model, r_)) (gen_add_policy_absent v_rule)) end).

Definition gen_m_add_policies (st_model : model) (v_sec : text) (v_ptype : text) (v_rules : list rule) : option (model * bool) :=
 (match (rs_smap_get_mut st_model v_sec) with
 | Some v_ast_map =>
  (match (rs_amap_get_mut v_ast_map v_ptype) with
  | Some v_ast => (match gen_add_policies v_rules (a_policy v_ast) with
   | Some (st_policy, r_) =>
     (let v_ast := rs_ast_set_policy v_ast st_policy in
      let v_ast_map := rs_amap_set v_ast_map v_ptype v_ast in
      let st_model := rs_model_set st_model v_sec v_ast_map in
      Some (st_model, r_))
   | None => None end)
  | None => (option_map (fun r_ => (st_model, r_)) (gen_add_policies_absent v_rules)) end)
 | None => (option_map (fun r_ => (st_model, r_)) (gen_add_policies_absent v_rules)) end).

Definition gen_m_get_policy (st_model : model) (v_sec : text) (v_ptype : text) : option (list rule) :=
 rs_fn (match (rs_smap_get st_model v_sec) with
 | Some v_t1 => (match (rs_amap_get v_t1 v_ptype) with
 | Some v_t2 => (LReturn (a_policy v_t2))
 | None => (LReturn ([] : list rule)) end)
 | None => (LReturn ([] : list rule)) end).

Definition gen_m_get_filtered_policy (st_model : model) (v_sec : text) (v_ptype : text) (v_field_index : nat) (v_field_values : list text) : option (list rule) :=
 (match (rs_smap_get st_model v_sec) with
 | Some v_t1 =>
  (match (rs_amap_get v_t1 v_ptype) with
  | Some v_t2 => (gen_get_filtered v_field_index v_field_values (a_policy v_t2))
  | None => (gen_get_filtered_absent v_field_index v_field_values) end)
 | None => (gen_get_filtered_absent v_field_index v_field_values) end).

Definition gen_m_has_policy (st_model : model) (v_sec : text) (v_ptype : text) (v_rule : list text) : option bool :=
 (match (gen_m_get_policy st_model v_sec v_ptype) with
 | Some st_policy => gen_has_policy v_rule st_policy
 | None => None end).

Definition gen_m_get_values_for_field_in_policy (st_model : model) (v_sec : text) (v_ptype : text) (v_field_index : nat) : option (list text) :=
 (match (gen_m_get_policy st_model v_sec v_ptype) with
 | Some st_policy => gen_values_for_field v_field_index st_policy
 | None => None end).

Definition gen_m_remove_policy (st_model : model) (v_sec : text) (v_ptype : text) (v_rule : list text) : option (model * bool) :=
 (match (rs_smap_get_mut st_model v_sec) with
 | Some v_ast_map =>
  (match (rs_amap_get_mut v_ast_map v_ptype) with
  | Some v_ast => (match gen_remove_policy v_rule (a_policy v_ast) with
   | Some (st_policy, r_) =>
     (let v_ast := rs_ast_set_policy v_ast st_policy in
      let v_ast_map := rs_amap_set v_ast_map v_ptype v_ast in
      let st_model := rs_model_set st_model v_sec v_ast_map in
      Some (st_model, r_))
   | None => None end)
  | None => (option_map (fun r_ => (st_model, r_)) (gen_remove_policy_absent v_rule)) end)
 | None => (option_map (fun r_ => (st_model, r_)) (gen_remove_policy_absent v_rule)) end).

Definition gen_m_remove_policies (st_model : model) (v_sec : text) (v_ptype : text) (v_rules : list rule) : option (model * bool) :=
 (match (rs_smap_get_mut st_model v_sec) with
 | Some v_ast_map =>
  (match (rs_amap_get_mut v_ast_map v_ptype) with
  | Some v_ast => (match gen_remove_policies v_rules (a_policy v_ast) with
   | Some (st_policy, r_) =>
     (let v_ast := rs_ast_set_policy v_ast st_policy in
      let v_ast_map := rs_amap_set v_ast_map v_ptype v_ast in
      let st_model := rs_model_set st_model v_sec v_ast_map in
      Some (st_model, r_))
   | None => None end)
  | None => (option_map (fun r_ => (st_model, r_)) (gen_remove_policies_absent v_rules)) end)
 | None => (option_map (fun r_ => (st_model, r_)) (gen_remove_policies_absent v_rules)) end).

Definition gen_m_remove_filtered_policy (st_model : model) (v_sec : text) (v_ptype : text) (v_field_index : nat) (v_field_values : list text) : option (model * (bool * (list rule))) :=
 (match (rs_smap_get_mut st_model v_sec) with
 | Some v_ast_map =>
  (match (rs_amap_get_mut v_ast_map v_ptype) with
  | Some v_ast => (match gen_remove_filtered v_field_index v_field_values (a_policy v_ast) with
   | Some (st_policy, r_) =>
     (let v_ast := rs_ast_set_policy v_ast st_policy in
      let v_ast_map := rs_amap_set v_ast_map v_ptype v_ast in
      let st_model := rs_model_set st_model v_sec v_ast_map in
      Some (st_model, r_))
   | None => None end)
  | None => (option_map (fun r_ => (st_model, r_)) (gen_remove_filtered_absent v_field_index v_field_values)) end)
 | None => (option_map (fun r_ => (st_model, r_)) (gen_remove_filtered_absent v_field_index v_field_values)) end).

(* ------------------------------------------------------------------ (B) src/macros.rs *)
Definition gen_get_or_err {X : Type} (from_X : X -> gen_Error) (st_model : model) (m_key : text) (m_err : text -> X) (m_msg : text) : rs_result assertion gen_Error :=
 (match (rs_ok_or_else (rs_smap_get st_model m_key) (fun _ => (from_X (m_err (rs_format1 (T "Missing ") (T " definition in conf file") m_msg))))) with
 | ROk q_1 => (match (rs_ok_or_else (rs_amap_get q_1 m_key) (fun _ => (from_X (m_err (rs_format1 (T "Missing ") (T " section in conf file") m_msg))))) with
 | ROk q_2 => (ROk q_2)
 | RErr e_ => RErr e_ end)
 | RErr e_ => RErr e_ end).

Definition gen_get_or_err_with_context {X : Type} (from_X : X -> gen_Error) (st_model : model) (m_key : text) (m_ctx : text) (m_err : text -> X) (m_msg : text) : rs_result assertion gen_Error :=
 (match (rs_ok_or_else (rs_smap_get st_model m_key) (fun _ => (from_X (m_err (rs_format1 (T "Missing ") (T " definition in conf file") m_msg))))) with
 | ROk q_1 => (match (rs_ok_or_else (rs_amap_get q_1 m_ctx) (fun _ => (from_X (m_err (rs_format1 (T "Missing ") (T " section in conf file") m_msg))))) with
 | ROk q_2 => (ROk q_2)
 | RErr e_ => RErr e_ end)
 | RErr e_ => RErr e_ end).

(* macro register_g_function!: part 15 (tools/rs2coq_enf2.py expands it inside Enforcer::register_g_functions: Gen/Enforcer2Gen.v gen_enf_register_g_functions, PinChecks/PcEnforcer2Gen.v) *)
(* macro push_index_if_explain!: every statement of its transcriber is under a #[cfg] that is off: it expands to nothing *)
(* every macro_rules! of src/macros.rs and where it is translated *)
Definition gen_macros_inventory : list (text * text) := [(T "get_or_err", T "here"); (T "get_or_err_with_context", T "here"); (T "register_g_function", T "elsewhere"); (T "push_index_if_explain", T "empty")].

(* ------------------------------------------------------------------ (C) src/convert.rs *)
Section Convert.
(* M = Box<dyn Model>, A = Box<dyn Adapter> (Box::new: the identity), T = the convertible type inside Option<T>,
   S = a request value (Serialize + Hash / Into<Dynamic> + Hash), D = rhai::Dynamic *)
Variables (M A T S D : Type).
Variable cv_from_file : text -> rs_result M gen_Error.      (* DefaultModel::from_file(path).await (part 12) *)
Variable cv_from_str : text -> rs_result M gen_Error.       (* DefaultModel::from_str(text).await (part 12) *)
Variable cv_default_model : M.                              (* DefaultModel::default() *)
Variable cv_file_adapter_new : text -> A.                   (* FileAdapter::new(path) (part 17) *)
Variable cv_null_adapter : A.                               (* NullAdapter *)
Variable cv_into : S -> D.                                  (* Into<Dynamic>::into *)
Variable cv_to_dynamic : S -> rs_result D ext_eval_error.   (* rhai::serde::to_dynamic *)

Definition gen_try_into_model_str (v_self : text) : rs_result M gen_Error :=
 (match (cv_from_file v_self) with
 | ROk q_1 => (ROk q_1)
 | RErr e_ => RErr e_ end).

Definition gen_try_into_model_built (v_self : M) : rs_result M gen_Error :=
 (ROk v_self).

Definition gen_try_into_adapter_str (v_self : text) : rs_result A gen_Error :=
 (ROk (cv_file_adapter_new v_self)).

Definition gen_try_into_adapter_unit (v_self : unit) : rs_result A gen_Error :=
 (ROk cv_null_adapter).

Definition gen_try_into_adapter_built (v_self : A) : rs_result A gen_Error :=
 (ROk v_self).

Definition gen_vec_try_into_vec (v_self : list S) : rs_result (list D) gen_Error :=
 (ROk (map (fun v_x => (cv_into v_x)) v_self)).

Definition gen_vec_cache_key (v_self : list S) : list (hpart S) :=
 (let v_hasher := rs_hasher_new in
 (let v_hasher := rs_hash_vec v_self v_hasher in
 (rs_hasher_finish v_hasher))).

Section Inner.
Variable cv_inner : T -> rs_result M gen_Error.            (* <T as TryIntoModel>::try_into_model(..).await *)
Definition gen_try_into_model_option (v_self : option T) : rs_result M gen_Error :=
 (match v_self with
 | Some v_m => (cv_inner v_m)
 | None => (ROk cv_default_model) end).

End Inner.
Section InnerA.
Variable cv_inner : T -> rs_result A gen_Error.            (* <T as TryIntoAdapter>::try_into_adapter(..).await *)
Definition gen_try_into_adapter_option (v_self : option T) : rs_result A gen_Error :=
 (match v_self with
 | Some v_a => (cv_inner v_a)
 | None => (ROk cv_null_adapter) end).

End InnerA.
Definition gen_tuple0_try_into_vec (v_self : unit) : rs_result (list D) gen_Error :=
 (let _ := v_self in
 (let v__v := [] in
 (ROk v__v))).

Definition gen_tuple0_cache_key (v_self : unit) : list (hpart S) :=
 (let _ := v_self in
 (let v__hasher := rs_hasher_new in
 (rs_hasher_finish v__hasher))).

Definition gen_tuple1_try_into_vec (v_self : (S)) : rs_result (list D) gen_Error :=
 (let v_V := v_self in
 (match (cv_to_dynamic v_V) with
 | ROk q_1 => (let v__v := [q_1] in
 (ROk v__v))
 | RErr e_ => RErr (gen_Error_from_BoxEvalAltResult e_) end)).

Definition gen_tuple1_cache_key (v_self : (S)) : list (hpart S) :=
 (let v_V := v_self in
 (let v__hasher := rs_hasher_new in
 (let v__hasher := rs_hash_one v_V v__hasher in
 (rs_hasher_finish v__hasher)))).

Definition gen_tuple2_try_into_vec (v_self : (S * S)) : rs_result (list D) gen_Error :=
 (let '(v_U, v_V) := v_self in
 (match (cv_to_dynamic v_U) with
 | ROk q_1 => (match (cv_to_dynamic v_V) with
 | ROk q_2 => (let v__v := [q_1; q_2] in
 (ROk v__v))
 | RErr e_ => RErr (gen_Error_from_BoxEvalAltResult e_) end)
 | RErr e_ => RErr (gen_Error_from_BoxEvalAltResult e_) end)).

Definition gen_tuple2_cache_key (v_self : (S * S)) : list (hpart S) :=
 (let '(v_U, v_V) := v_self in
 (let v__hasher := rs_hasher_new in
 (let v__hasher := rs_hash_one v_U v__hasher in
 (let v__hasher := rs_hash_one v_V v__hasher in
 (rs_hasher_finish v__hasher))))).

Definition gen_tuple3_try_into_vec (v_self : (S * S * S)) : rs_result (list D) gen_Error :=
 (let '(v_T, v_U, v_V) := v_self in
 (match (cv_to_dynamic v_T) with
 | ROk q_1 => (match (cv_to_dynamic v_U) with
 | ROk q_2 => (match (cv_to_dynamic v_V) with
 | ROk q_3 => (let v__v := [q_1; q_2; q_3] in
 (ROk v__v))
 | RErr e_ => RErr (gen_Error_from_BoxEvalAltResult e_) end)
 | RErr e_ => RErr (gen_Error_from_BoxEvalAltResult e_) end)
 | RErr e_ => RErr (gen_Error_from_BoxEvalAltResult e_) end)).

Definition gen_tuple3_cache_key (v_self : (S * S * S)) : list (hpart S) :=
 (let '(v_T, v_U, v_V) := v_self in
 (let v__hasher := rs_hasher_new in
 (let v__hasher := rs_hash_one v_T v__hasher in
 (let v__hasher := rs_hash_one v_U v__hasher in
 (let v__hasher := rs_hash_one v_V v__hasher in
 (rs_hasher_finish v__hasher)))))).

Definition gen_tuple4_try_into_vec (v_self : (S * S * S * S)) : rs_result (list D) gen_Error :=
 (let '(v_S, v_T, v_U, v_V) := v_self in
 (match (cv_to_dynamic v_S) with
 | ROk q_1 => (match (cv_to_dynamic v_T) with
 | ROk q_2 => (match (cv_to_dynamic v_U) with
 | ROk q_3 => (match (cv_to_dynamic v_V) with
 | ROk q_4 => (let v__v := [q_1; q_2; q_3; q_4] in
 (ROk v__v))
 | RErr e_ => RErr (gen_Error_from_BoxEvalAltResult e_) end)
 | RErr e_ => RErr (gen_Error_from_BoxEvalAltResult e_) end)
 | RErr e_ => RErr (gen_Error_from_BoxEvalAltResult e_) end)
 | RErr e_ => RErr (gen_Error_from_BoxEvalAltResult e_) end)).

Definition gen_tuple4_cache_key (v_self : (S * S * S * S)) : list (hpart S) :=
 (let '(v_S, v_T, v_U, v_V) := v_self in
 (let v__hasher := rs_hasher_new in
 (let v__hasher := rs_hash_one v_S v__hasher in
 (let v__hasher := rs_hash_one v_T v__hasher in
 (let v__hasher := rs_hash_one v_U v__hasher in
 (let v__hasher := rs_hash_one v_V v__hasher in
 (rs_hasher_finish v__hasher))))))).

Definition gen_tuple5_try_into_vec (v_self : (S * S * S * S * S)) : rs_result (list D) gen_Error :=
 (let '(v_R, v_S, v_T, v_U, v_V) := v_self in
 (match (cv_to_dynamic v_R) with
 | ROk q_1 => (match (cv_to_dynamic v_S) with
 | ROk q_2 => (match (cv_to_dynamic v_T) with
 | ROk q_3 => (match (cv_to_dynamic v_U) with
 | ROk q_4 => (match (cv_to_dynamic v_V) with
 | ROk q_5 => (let v__v := [q_1; q_2; q_3; q_4; q_5] in
 (ROk v__v))
 | RErr e_ => RErr (gen_Error_from_BoxEvalAltResult e_) end)
 | RErr e_ => RErr (gen_Error_from_BoxEvalAltResult e_) end)
 | RErr e_ => RErr (gen_Error_from_BoxEvalAltResult e_) end)
 | RErr e_ => RErr (gen_Error_from_BoxEvalAltResult e_) end)
 | RErr e_ => RErr (gen_Error_from_BoxEvalAltResult e_) end)).

Definition gen_tuple5_cache_key (v_self : (S * S * S * S * S)) : list (hpart S) :=
 (let '(v_R, v_S, v_T, v_U, v_V) := v_self in
 (let v__hasher := rs_hasher_new in
 (let v__hasher := rs_hash_one v_R v__hasher in
 (let v__hasher := rs_hash_one v_S v__hasher in
 (let v__hasher := rs_hash_one v_T v__hasher in
 (let v__hasher := rs_hash_one v_U v__hasher in
 (let v__hasher := rs_hash_one v_V v__hasher in
 (rs_hasher_finish v__hasher)))))))).

Definition gen_tuple6_try_into_vec (v_self : (S * S * S * S * S * S)) : rs_result (list D) gen_Error :=
 (let '(v_Q, v_R, v_S, v_T, v_U, v_V) := v_self in
 (match (cv_to_dynamic v_Q) with
 | ROk q_1 => (match (cv_to_dynamic v_R) with
 | ROk q_2 => (match (cv_to_dynamic v_S) with
 | ROk q_3 => (match (cv_to_dynamic v_T) with
 | ROk q_4 => (match (cv_to_dynamic v_U) with
 | ROk q_5 => (match (cv_to_dynamic v_V) with
 | ROk q_6 => (let v__v := [q_1; q_2; q_3; q_4; q_5; q_6] in
 (ROk v__v))
 | RErr e_ => RErr (gen_Error_from_BoxEvalAltResult e_) end)
 | RErr e_ => RErr (gen_Error_from_BoxEvalAltResult e_) end)
 | RErr e_ => RErr (gen_Error_from_BoxEvalAltResult e_) end)
 | RErr e_ => RErr (gen_Error_from_BoxEvalAltResult e_) end)
 | RErr e_ => RErr (gen_Error_from_BoxEvalAltResult e_) end)
 | RErr e_ => RErr (gen_Error_from_BoxEvalAltResult e_) end)).

Definition gen_tuple6_cache_key (v_self : (S * S * S * S * S * S)) : list (hpart S) :=
 (let '(v_Q, v_R, v_S, v_T, v_U, v_V) := v_self in
 (let v__hasher := rs_hasher_new in
 (let v__hasher := rs_hash_one v_Q v__hasher in
 (let v__hasher := rs_hash_one v_R v__hasher in
 (let v__hasher := rs_hash_one v_S v__hasher in
 (let v__hasher := rs_hash_one v_T v__hasher in
 (let v__hasher := rs_hash_one v_U v__hasher in
 (let v__hasher := rs_hash_one v_V v__hasher in
 (rs_hasher_finish v__hasher))))))))).

Definition gen_tuple7_try_into_vec (v_self : (S * S * S * S * S * S * S)) : rs_result (list D) gen_Error :=
 (let '(v_P, v_Q, v_R, v_S, v_T, v_U, v_V) := v_self in
 (match (cv_to_dynamic v_P) with
 | ROk q_1 => (match (cv_to_dynamic v_Q) with
 | ROk q_2 => (match (cv_to_dynamic v_R) with
 | ROk q_3 => (match (cv_to_dynamic v_S) with
 | ROk q_4 => (match (cv_to_dynamic v_T) with
 | ROk q_5 => (match (cv_to_dynamic v_U) with
 | ROk q_6 => (match (cv_to_dynamic v_V) with
 | ROk q_7 => (let v__v := [q_1; q_2; q_3; q_4; q_5; q_6; q_7] in
 (ROk v__v))
 | RErr e_ => RErr (gen_Error_from_BoxEvalAltResult e_) end)
 | RErr e_ => RErr (gen_Error_from_BoxEvalAltResult e_) end)
 | RErr e_ => RErr (gen_Error_from_BoxEvalAltResult e_) end)
 | RErr e_ => RErr (gen_Error_from_BoxEvalAltResult e_) end)
 | RErr e_ => RErr (gen_Error_from_BoxEvalAltResult e_) end)
 | RErr e_ => RErr (gen_Error_from_BoxEvalAltResult e_) end)
 | RErr e_ => RErr (gen_Error_from_BoxEvalAltResult e_) end)).

Definition gen_tuple7_cache_key (v_self : (S * S * S * S * S * S * S)) : list (hpart S) :=
 (let '(v_P, v_Q, v_R, v_S, v_T, v_U, v_V) := v_self in
 (let v__hasher := rs_hasher_new in
 (let v__hasher := rs_hash_one v_P v__hasher in
 (let v__hasher := rs_hash_one v_Q v__hasher in
 (let v__hasher := rs_hash_one v_R v__hasher in
 (let v__hasher := rs_hash_one v_S v__hasher in
 (let v__hasher := rs_hash_one v_T v__hasher in
 (let v__hasher := rs_hash_one v_U v__hasher in
 (let v__hasher := rs_hash_one v_V v__hasher in
 (rs_hasher_finish v__hasher)))))))))).

Definition gen_tuple8_try_into_vec (v_self : (S * S * S * S * S * S * S * S)) : rs_result (list D) gen_Error :=
 (let '(v_N, v_P, v_Q, v_R, v_S, v_T, v_U, v_V) := v_self in
 (match (cv_to_dynamic v_N) with
 | ROk q_1 => (match (cv_to_dynamic v_P) with
 | ROk q_2 => (match (cv_to_dynamic v_Q) with
 | ROk q_3 => (match (cv_to_dynamic v_R) with
 | ROk q_4 => (match (cv_to_dynamic v_S) with
 | ROk q_5 => (match (cv_to_dynamic v_T) with
 | ROk q_6 => (match (cv_to_dynamic v_U) with
 | ROk q_7 => (match (cv_to_dynamic v_V) with
 | ROk q_8 => (let v__v := [q_1; q_2; q_3; q_4; q_5; q_6; q_7; q_8] in
 (ROk v__v))
 | RErr e_ => RErr (gen_Error_from_BoxEvalAltResult e_) end)
 | RErr e_ => RErr (gen_Error_from_BoxEvalAltResult e_) end)
 | RErr e_ => RErr (gen_Error_from_BoxEvalAltResult e_) end)
 | RErr e_ => RErr (gen_Error_from_BoxEvalAltResult e_) end)
 | RErr e_ => RErr (gen_Error_from_BoxEvalAltResult e_) end)
 | RErr e_ => RErr (gen_Error_from_BoxEvalAltResult e_) end)
 | RErr e_ => RErr (gen_Error_from_BoxEvalAltResult e_) end)
 | RErr e_ => RErr (gen_Error_from_BoxEvalAltResult e_) end)).

Definition gen_tuple8_cache_key (v_self : (S * S * S * S * S * S * S * S)) : list (hpart S) :=
 (let '(v_N, v_P, v_Q, v_R, v_S, v_T, v_U, v_V) := v_self in
 (let v__hasher := rs_hasher_new in
 (let v__hasher := rs_hash_one v_N v__hasher in
 (let v__hasher := rs_hash_one v_P v__hasher in
 (let v__hasher := rs_hash_one v_Q v__hasher in
 (let v__hasher := rs_hash_one v_R v__hasher in
 (let v__hasher := rs_hash_one v_S v__hasher in
 (let v__hasher := rs_hash_one v_T v__hasher in
 (let v__hasher := rs_hash_one v_U v__hasher in
 (let v__hasher := rs_hash_one v_V v__hasher in
 (rs_hasher_finish v__hasher))))))))))).

Definition gen_tuple9_try_into_vec (v_self : (S * S * S * S * S * S * S * S * S)) : rs_result (list D) gen_Error :=
 (let '(v_M, v_N, v_P, v_Q, v_R, v_S, v_T, v_U, v_V) := v_self in
 (match (cv_to_dynamic v_M) with
 | ROk q_1 => (match (cv_to_dynamic v_N) with
 | ROk q_2 => (match (cv_to_dynamic v_P) with
 | ROk q_3 => (match (cv_to_dynamic v_Q) with
 | ROk q_4 => (match (cv_to_dynamic v_R) with
 | ROk q_5 => (match (cv_to_dynamic v_S) with
 | ROk q_6 => (match (cv_to_dynamic v_T) with
 | ROk q_7 => (match (cv_to_dynamic v_U) with
 | ROk q_8 => (match (cv_to_dynamic v_V) with
 | ROk q_9 => (let v__v := [q_1; q_2; q_3; q_4; q_5; q_6; q_7; q_8; q_9] in
 (ROk v__v))
 | RErr e_ => RErr (gen_Error_from_BoxEvalAltResult e_) end)
 | RErr e_ => RErr (gen_Error_from_BoxEvalAltResult e_) end)
 | RErr e_ => RErr (gen_Error_from_BoxEvalAltResult e_) end)
 | RErr e_ => RErr (gen_Error_from_BoxEvalAltResult e_) end)
 | RErr e_ => RErr (gen_Error_from_BoxEvalAltResult e_) end)
 | RErr e_ => RErr (gen_Error_from_BoxEvalAltResult e_) end)
 | RErr e_ => RErr (gen_Error_from_BoxEvalAltResult e_) end)
 | RErr e_ => RErr (gen_Error_from_BoxEvalAltResult e_) end)
 | RErr e_ => RErr (gen_Error_from_BoxEvalAltResult e_) end)).

Definition gen_tuple9_cache_key (v_self : (S * S * S * S * S * S * S * S * S)) : list (hpart S) :=
 (let '(v_M, v_N, v_P, v_Q, v_R, v_S, v_T, v_U, v_V) := v_self in
 (let v__hasher := rs_hasher_new in
 (let v__hasher := rs_hash_one v_M v__hasher in
 (let v__hasher := rs_hash_one v_N v__hasher in
 (let v__hasher := rs_hash_one v_P v__hasher in
 (let v__hasher := rs_hash_one v_Q v__hasher in
 (let v__hasher := rs_hash_one v_R v__hasher in
 (let v__hasher := rs_hash_one v_S v__hasher in
 (let v__hasher := rs_hash_one v_T v__hasher in
 (let v__hasher := rs_hash_one v_U v__hasher in
 (let v__hasher := rs_hash_one v_V v__hasher in
 (rs_hasher_finish v__hasher)))))))))))).

Definition gen_tuple10_try_into_vec (v_self : (S * S * S * S * S * S * S * S * S * S)) : rs_result (list D) gen_Error :=
 (let '(v_L, v_M, v_N, v_P, v_Q, v_R, v_S, v_T, v_U, v_V) := v_self in
 (match (cv_to_dynamic v_L) with
 | ROk q_1 => (match (cv_to_dynamic v_M) with
 | ROk q_2 => (match (cv_to_dynamic v_N) with
 | ROk q_3 => (match (cv_to_dynamic v_P) with
 | ROk q_4 => (match (cv_to_dynamic v_Q) with
 | ROk q_5 => (match (cv_to_dynamic v_R) with
 | ROk q_6 => (match (cv_to_dynamic v_S) with
 | ROk q_7 => (match (cv_to_dynamic v_T) with
 | ROk q_8 => (match (cv_to_dynamic v_U) with
 | ROk q_9 => (match (cv_to_dynamic v_V) with
 | ROk q_10 => (let v__v := [q_1; q_2; q_3; q_4; q_5; q_6; q_7; q_8; q_9; q_10] in
 (ROk v__v))
 | RErr e_ => RErr (gen_Error_from_BoxEvalAltResult e_) end)
 | RErr e_ => RErr (gen_Error_from_BoxEvalAltResult e_) end)
 | RErr e_ => RErr (gen_Error_from_BoxEvalAltResult e_) end)
 | RErr e_ => RErr (gen_Error_from_BoxEvalAltResult e_) end)
 | RErr e_ => RErr (gen_Error_from_BoxEvalAltResult e_) end)
 | RErr e_ => RErr (gen_Error_from_BoxEvalAltResult e_) end)
 | RErr e_ => RErr (gen_Error_from_BoxEvalAltResult e_) end)
 | RErr e_ => RErr (gen_Error_from_BoxEvalAltResult e_) end)
 | RErr e_ => RErr (gen_Error_from_BoxEvalAltResult e_) end)
 | RErr e_ => RErr (gen_Error_from_BoxEvalAltResult e_) end)).

Definition gen_tuple10_cache_key (v_self : (S * S * S * S * S * S * S * S * S * S)) : list (hpart S) :=
 (let '(v_L, v_M, v_N, v_P, v_Q, v_R, v_S, v_T, v_U, v_V) := v_self in
 (let v__hasher := rs_hasher_new in
 (let v__hasher := rs_hash_one v_L v__hasher in
 (let v__hasher := rs_hash_one v_M v__hasher in
 (let v__hasher := rs_hash_one v_N v__hasher in
 (let v__hasher := rs_hash_one v_P v__hasher in
 (let v__hasher := rs_hash_one v_Q v__hasher in
 (let v__hasher := rs_hash_one v_R v__hasher in
 (let v__hasher := rs_hash_one v_S v__hasher in
 (let v__hasher := rs_hash_one v_T v__hasher in
 (let v__hasher := rs_hash_one v_U v__hasher in
 (let v__hasher := rs_hash_one v_V v__hasher in
 (rs_hasher_finish v__hasher))))))))))))).

Definition gen_tuple11_try_into_vec (v_self : (S * S * S * S * S * S * S * S * S * S * S)) : rs_result (list D) gen_Error :=
 (let '(v_K, v_L, v_M, v_N, v_P, v_Q, v_R, v_S, v_T, v_U, v_V) := v_self in
 (match (cv_to_dynamic v_K) with
 | ROk q_1 => (match (cv_to_dynamic v_L) with
 | ROk q_2 => (match (cv_to_dynamic v_M) with
 | ROk q_3 => (match (cv_to_dynamic v_N) with
 | ROk q_4 => (match (cv_to_dynamic v_P) with
 | ROk q_5 => (match (cv_to_dynamic v_Q) with
 | ROk q_6 => (match (cv_to_dynamic v_R) with
 | ROk q_7 => (match (cv_to_dynamic v_S) with
 | ROk q_8 => (match (cv_to_dynamic v_T) with
 | ROk q_9 => (match (cv_to_dynamic v_U) with
 | ROk q_10 => (match (cv_to_dynamic v_V) with
 | ROk q_11 => (let v__v := [q_1; q_2; q_3; q_4; q_5; q_6; q_7; q_8; q_9; q_10; q_11] in
 (ROk v__v))
 | RErr e_ => RErr (gen_Error_from_BoxEvalAltResult e_) end)
 | RErr e_ => RErr (gen_Error_from_BoxEvalAltResult e_) end)
 | RErr e_ => RErr (gen_Error_from_BoxEvalAltResult e_) end)
 | RErr e_ => RErr (gen_Error_from_BoxEvalAltResult e_) end)
 | RErr e_ => RErr (gen_Error_from_BoxEvalAltResult e_) end)
 | RErr e_ => RErr (gen_Error_from_BoxEvalAltResult e_) end)
 | RErr e_ => RErr (gen_Error_from_BoxEvalAltResult e_) end)
 | RErr e_ => RErr (gen_Error_from_BoxEvalAltResult e_) end)
 | RErr e_ => RErr (gen_Error_from_BoxEvalAltResult e_) end)
 | RErr e_ => RErr (gen_Error_from_BoxEvalAltResult e_) end)
 | RErr e_ => RErr (gen_Error_from_BoxEvalAltResult e_) end)).

Definition gen_tuple11_cache_key (v_self : (S * S * S * S * S * S * S * S * S * S * S)) : list (hpart S) :=
 (let '(v_K, v_L, v_M, v_N, v_P, v_Q, v_R, v_S, v_T, v_U, v_V) := v_self in
 (let v__hasher := rs_hasher_new in
 (let v__hasher := rs_hash_one v_K v__hasher in
 (let v__hasher := rs_hash_one v_L v__hasher in
 (let v__hasher := rs_hash_one v_M v__hasher in
 (let v__hasher := rs_hash_one v_N v__hasher in
 (let v__hasher := rs_hash_one v_P v__hasher in
 (let v__hasher := rs_hash_one v_Q v__hasher in
 (let v__hasher := rs_hash_one v_R v__hasher in
 (let v__hasher := rs_hash_one v_S v__hasher in
 (let v__hasher := rs_hash_one v_T v__hasher in
 (let v__hasher := rs_hash_one v_U v__hasher in
 (let v__hasher := rs_hash_one v_V v__hasher in
 (rs_hasher_finish v__hasher)))))))))))))).

Definition gen_tuple12_try_into_vec (v_self : (S * S * S * S * S * S * S * S * S * S * S * S)) : rs_result (list D) gen_Error :=
 (let '(v_J, v_K, v_L, v_M, v_N, v_P, v_Q, v_R, v_S, v_T, v_U, v_V) := v_self in
 (match (cv_to_dynamic v_J) with
 | ROk q_1 => (match (cv_to_dynamic v_K) with
 | ROk q_2 => (match (cv_to_dynamic v_L) with
 | ROk q_3 => (match (cv_to_dynamic v_M) with
 | ROk q_4 => (match (cv_to_dynamic v_N) with
 | ROk q_5 => (match (cv_to_dynamic v_P) with
 | ROk q_6 => (match (cv_to_dynamic v_Q) with
 | ROk q_7 => (match (cv_to_dynamic v_R) with
 | ROk q_8 => (match (cv_to_dynamic v_S) with
 | ROk q_9 => (match (cv_to_dynamic v_T) with
 | ROk q_10 => (match (cv_to_dynamic v_U) with
 | ROk q_11 => (match (cv_to_dynamic v_V) with
 | ROk q_12 => (let v__v := [q_1; q_2; q_3; q_4; q_5; q_6; q_7; q_8; q_9; q_10; q_11; q_12] in
 (ROk v__v))
 | RErr e_ => RErr (gen_Error_from_BoxEvalAltResult e_) end)
 | RErr e_ => RErr (gen_Error_from_BoxEvalAltResult e_) end)
 | RErr e_ => RErr (gen_Error_from_BoxEvalAltResult e_) end)
 | RErr e_ => RErr (gen_Error_from_BoxEvalAltResult e_) end)
 | RErr e_ => RErr (gen_Error_from_BoxEvalAltResult e_) end)
 | RErr e_ => RErr (gen_Error_from_BoxEvalAltResult e_) end)
 | RErr e_ => RErr (gen_Error_from_BoxEvalAltResult e_) end)
 | RErr e_ => RErr (gen_Error_from_BoxEvalAltResult e_) end)
 | RErr e_ => RErr (gen_Error_from_BoxEvalAltResult e_) end)
 | RErr e_ => RErr (gen_Error_from_BoxEvalAltResult e_) end)
 | RErr e_ => RErr (gen_Error_from_BoxEvalAltResult e_) end)
 | RErr e_ => RErr (gen_Error_from_BoxEvalAltResult e_) end)).

Definition gen_tuple12_cache_key (v_self : (S * S * S * S * S * S * S * S * S * S * S * S)) : list (hpart S) :=
 (let '(v_J, v_K, v_L, v_M, v_N, v_P, v_Q, v_R, v_S, v_T, v_U, v_V) := v_self in
 (let v__hasher := rs_hasher_new in
 (let v__hasher := rs_hash_one v_J v__hasher in
 (let v__hasher := rs_hash_one v_K v__hasher in
 (let v__hasher := rs_hash_one v_L v__hasher in
 (let v__hasher := rs_hash_one v_M v__hasher in
 (let v__hasher := rs_hash_one v_N v__hasher in
 (let v__hasher := rs_hash_one v_P v__hasher in
 (let v__hasher := rs_hash_one v_Q v__hasher in
 (let v__hasher := rs_hash_one v_R v__hasher in
 (let v__hasher := rs_hash_one v_S v__hasher in
 (let v__hasher := rs_hash_one v_T v__hasher in
 (let v__hasher := rs_hash_one v_U v__hasher in
 (let v__hasher := rs_hash_one v_V v__hasher in
 (rs_hasher_finish v__hasher))))))))))))))).

Definition gen_tuple13_try_into_vec (v_self : (S * S * S * S * S * S * S * S * S * S * S * S * S)) : rs_result (list D) gen_Error :=
 (let '(v_H, v_J, v_K, v_L, v_M, v_N, v_P, v_Q, v_R, v_S, v_T, v_U, v_V) := v_self in
 (match (cv_to_dynamic v_H) with
 | ROk q_1 => (match (cv_to_dynamic v_J) with
 | ROk q_2 => (match (cv_to_dynamic v_K) with
 | ROk q_3 => (match (cv_to_dynamic v_L) with
 | ROk q_4 => (match (cv_to_dynamic v_M) with
 | ROk q_5 => (match (cv_to_dynamic v_N) with
 | ROk q_6 => (match (cv_to_dynamic v_P) with
 | ROk q_7 => (match (cv_to_dynamic v_Q) with
 | ROk q_8 => (match (cv_to_dynamic v_R) with
 | ROk q_9 => (match (cv_to_dynamic v_S) with
 | ROk q_10 => (match (cv_to_dynamic v_T) with
 | ROk q_11 => (match (cv_to_dynamic v_U) with
 | ROk q_12 => (match (cv_to_dynamic v_V) with
 | ROk q_13 => (let v__v := [q_1; q_2; q_3; q_4; q_5; q_6; q_7; q_8; q_9; q_10; q_11; q_12; q_13] in
 (ROk v__v))
 | RErr e_ => RErr (gen_Error_from_BoxEvalAltResult e_) end)
 | RErr e_ => RErr (gen_Error_from_BoxEvalAltResult e_) end)
 | RErr e_ => RErr (gen_Error_from_BoxEvalAltResult e_) end)
 | RErr e_ => RErr (gen_Error_from_BoxEvalAltResult e_) end)
 | RErr e_ => RErr (gen_Error_from_BoxEvalAltResult e_) end)
 | RErr e_ => RErr (gen_Error_from_BoxEvalAltResult e_) end)
 | RErr e_ => RErr (gen_Error_from_BoxEvalAltResult e_) end)
 | RErr e_ => RErr (gen_Error_from_BoxEvalAltResult e_) end)
 | RErr e_ => RErr (gen_Error_from_BoxEvalAltResult e_) end)
 | RErr e_ => RErr (gen_Error_from_BoxEvalAltResult e_) end)
 | RErr e_ => RErr (gen_Error_from_BoxEvalAltResult e_) end)
 | RErr e_ => RErr (gen_Error_from_BoxEvalAltResult e_) end)
 | RErr e_ => RErr (gen_Error_from_BoxEvalAltResult e_) end)).

Definition gen_tuple13_cache_key (v_self : (S * S * S * S * S * S * S * S * S * S * S * S * S)) : list (hpart S) :=
 (let '(v_H, v_J, v_K, v_L, v_M, v_N, v_P, v_Q, v_R, v_S, v_T, v_U, v_V) := v_self in
 (let v__hasher := rs_hasher_new in
 (let v__hasher := rs_hash_one v_H v__hasher in
 (let v__hasher := rs_hash_one v_J v__hasher in
 (let v__hasher := rs_hash_one v_K v__hasher in
 (let v__hasher := rs_hash_one v_L v__hasher in
 (let v__hasher := rs_hash_one v_M v__hasher in
 (let v__hasher := rs_hash_one v_N v__hasher in
 (let v__hasher := rs_hash_one v_P v__hasher in
 (let v__hasher := rs_hash_one v_Q v__hasher in
 (let v__hasher := rs_hash_one v_R v__hasher in
 (let v__hasher := rs_hash_one v_S v__hasher in
 (let v__hasher := rs_hash_one v_T v__hasher in
 (let v__hasher := rs_hash_one v_U v__hasher in
 (let v__hasher := rs_hash_one v_V v__hasher in
 (rs_hasher_finish v__hasher)))))))))))))))).

Definition gen_tuple14_try_into_vec (v_self : (S * S * S * S * S * S * S * S * S * S * S * S * S * S)) : rs_result (list D) gen_Error :=
 (let '(v_G, v_H, v_J, v_K, v_L, v_M, v_N, v_P, v_Q, v_R, v_S, v_T, v_U, v_V) := v_self in
 (match (cv_to_dynamic v_G) with
 | ROk q_1 => (match (cv_to_dynamic v_H) with
 | ROk q_2 => (match (cv_to_dynamic v_J) with
 | ROk q_3 => (match (cv_to_dynamic v_K) with
 | ROk q_4 => (match (cv_to_dynamic v_L) with
 | ROk q_5 => (match (cv_to_dynamic v_M) with
 | ROk q_6 => (match (cv_to_dynamic v_N) with
 | ROk q_7 => (match (cv_to_dynamic v_P) with
 | ROk q_8 => (match (cv_to_dynamic v_Q) with
 | ROk q_9 => (match (cv_to_dynamic v_R) with
 | ROk q_10 => (match (cv_to_dynamic v_S) with
 | ROk q_11 => (match (cv_to_dynamic v_T) with
 | ROk q_12 => (match (cv_to_dynamic v_U) with
 | ROk q_13 => (match (cv_to_dynamic v_V) with
 | ROk q_14 => (let v__v := [q_1; q_2; q_3; q_4; q_5; q_6; q_7; q_8; q_9; q_10; q_11; q_12; q_13; q_14] in
 (ROk v__v))
 | RErr e_ => RErr (gen_Error_from_BoxEvalAltResult e_) end)
 | RErr e_ => RErr (gen_Error_from_BoxEvalAltResult e_) end)
 | RErr e_ => RErr (gen_Error_from_BoxEvalAltResult e_) end)
 | RErr e_ => RErr (gen_Error_from_BoxEvalAltResult e_) end)
 | RErr e_ => RErr (gen_Error_from_BoxEvalAltResult e_) end)
 | RErr e_ => RErr (gen_Error_from_BoxEvalAltResult e_) end)
 | RErr e_ => RErr (gen_Error_from_BoxEvalAltResult e_) end)
 | RErr e_ => RErr (gen_Error_from_BoxEvalAltResult e_) end)
 | RErr e_ => RErr (gen_Error_from_BoxEvalAltResult e_) end)
 | RErr e_ => RErr (gen_Error_from_BoxEvalAltResult e_) end)
 | RErr e_ => RErr (gen_Error_from_BoxEvalAltResult e_) end)
 | RErr e_ => RErr (gen_Error_from_BoxEvalAltResult e_) end)
 | RErr e_ => RErr (gen_Error_from_BoxEvalAltResult e_) end)
 | RErr e_ => RErr (gen_Error_from_BoxEvalAltResult e_) end)).

Definition gen_tuple14_cache_key (v_self : (S * S * S * S * S * S * S * S * S * S * S * S * S * S)) : list (hpart S) :=
 (let '(v_G, v_H, v_J, v_K, v_L, v_M, v_N, v_P, v_Q, v_R, v_S, v_T, v_U, v_V) := v_self in
 (let v__hasher := rs_hasher_new in
 (let v__hasher := rs_hash_one v_G v__hasher in
 (let v__hasher := rs_hash_one v_H v__hasher in
 (let v__hasher := rs_hash_one v_J v__hasher in
 (let v__hasher := rs_hash_one v_K v__hasher in
 (let v__hasher := rs_hash_one v_L v__hasher in
 (let v__hasher := rs_hash_one v_M v__hasher in
 (let v__hasher := rs_hash_one v_N v__hasher in
 (let v__hasher := rs_hash_one v_P v__hasher in
 (let v__hasher := rs_hash_one v_Q v__hasher in
 (let v__hasher := rs_hash_one v_R v__hasher in
 (let v__hasher := rs_hash_one v_S v__hasher in
 (let v__hasher := rs_hash_one v_T v__hasher in
 (let v__hasher := rs_hash_one v_U v__hasher in
 (let v__hasher := rs_hash_one v_V v__hasher in
 (rs_hasher_finish v__hasher))))))))))))))))).

Definition gen_tuple15_try_into_vec (v_self : (S * S * S * S * S * S * S * S * S * S * S * S * S * S * S)) : rs_result (list D) gen_Error :=
 (let '(v_F, v_G, v_H, v_J, v_K, v_L, v_M, v_N, v_P, v_Q, v_R, v_S, v_T, v_U, v_V) := v_self in
 (match (cv_to_dynamic v_F) with
 | ROk q_1 => (match (cv_to_dynamic v_G) with
 | ROk q_2 => (match (cv_to_dynamic v_H) with
 | ROk q_3 => (match (cv_to_dynamic v_J) with
 | ROk q_4 => (match (cv_to_dynamic v_K) with
 | ROk q_5 => (match (cv_to_dynamic v_L) with
 | ROk q_6 => (match (cv_to_dynamic v_M) with
 | ROk q_7 => (match (cv_to_dynamic v_N) with
 | ROk q_8 => (match (cv_to_dynamic v_P) with
 | ROk q_9 => (match (cv_to_dynamic v_Q) with
 | ROk q_10 => (match (cv_to_dynamic v_R) with
 | ROk q_11 => (match (cv_to_dynamic v_S) with
 | ROk q_12 => (match (cv_to_dynamic v_T) with
 | ROk q_13 => (match (cv_to_dynamic v_U) with
 | ROk q_14 => (match (cv_to_dynamic v_V) with
 | ROk q_15 => (let v__v := [q_1; q_2; q_3; q_4; q_5; q_6; q_7; q_8; q_9; q_10; q_11; q_12; q_13; q_14; q_15] in
 (ROk v__v))
 | RErr e_ => RErr (gen_Error_from_BoxEvalAltResult e_) end)
 | RErr e_ => RErr (gen_Error_from_BoxEvalAltResult e_) end)
 | RErr e_ => RErr (gen_Error_from_BoxEvalAltResult e_) end)
 | RErr e_ => RErr (gen_Error_from_BoxEvalAltResult e_) end)
 | RErr e_ => RErr (gen_Error_from_BoxEvalAltResult e_) end)
 | RErr e_ => RErr (gen_Error_from_BoxEvalAltResult e_) end)
 | RErr e_ => RErr (gen_Error_from_BoxEvalAltResult e_) end)
 | RErr e_ => RErr (gen_Error_from_BoxEvalAltResult e_) end)
 | RErr e_ => RErr (gen_Error_from_BoxEvalAltResult e_) end)
 | RErr e_ => RErr (gen_Error_from_BoxEvalAltResult e_) end)
 | RErr e_ => RErr (gen_Error_from_BoxEvalAltResult e_) end)
 | RErr e_ => RErr (gen_Error_from_BoxEvalAltResult e_) end)
 | RErr e_ => RErr (gen_Error_from_BoxEvalAltResult e_) end)
 | RErr e_ => RErr (gen_Error_from_BoxEvalAltResult e_) end)
 | RErr e_ => RErr (gen_Error_from_BoxEvalAltResult e_) end)).

Definition gen_tuple15_cache_key (v_self : (S * S * S * S * S * S * S * S * S * S * S * S * S * S * S)) : list (hpart S) :=
 (let '(v_F, v_G, v_H, v_J, v_K, v_L, v_M, v_N, v_P, v_Q, v_R, v_S, v_T, v_U, v_V) := v_self in
 (let v__hasher := rs_hasher_new in
 (let v__hasher := rs_hash_one v_F v__hasher in
 (let v__hasher := rs_hash_one v_G v__hasher in
 (let v__hasher := rs_hash_one v_H v__hasher in
 (let v__hasher := rs_hash_one v_J v__hasher in
 (let v__hasher := rs_hash_one v_K v__hasher in
 (let v__hasher := rs_hash_one v_L v__hasher in
 (let v__hasher := rs_hash_one v_M v__hasher in
 (let v__hasher := rs_hash_one v_N v__hasher in
 (let v__hasher := rs_hash_one v_P v__hasher in
 (let v__hasher := rs_hash_one v_Q v__hasher in
 (let v__hasher := rs_hash_one v_R v__hasher in
 (let v__hasher := rs_hash_one v_S v__hasher in
 (let v__hasher := rs_hash_one v_T v__hasher in
 (let v__hasher := rs_hash_one v_U v__hasher in
 (let v__hasher := rs_hash_one v_V v__hasher in
 (rs_hasher_finish v__hasher)))))))))))))))))).

Definition gen_tuple16_try_into_vec (v_self : (S * S * S * S * S * S * S * S * S * S * S * S * S * S * S * S)) : rs_result (list D) gen_Error :=
 (let '(v_E, v_F, v_G, v_H, v_J, v_K, v_L, v_M, v_N, v_P, v_Q, v_R, v_S, v_T, v_U, v_V) := v_self in
 (match (cv_to_dynamic v_E) with
 | ROk q_1 => (match (cv_to_dynamic v_F) with
 | ROk q_2 => (match (cv_to_dynamic v_G) with
 | ROk q_3 => (match (cv_to_dynamic v_H) with
 | ROk q_4 => (match (cv_to_dynamic v_J) with
 | ROk q_5 => (match (cv_to_dynamic v_K) with
 | ROk q_6 => (match (cv_to_dynamic v_L) with
 | ROk q_7 => (match (cv_to_dynamic v_M) with
 | ROk q_8 => (match (cv_to_dynamic v_N) with
 | ROk q_9 => (match (cv_to_dynamic v_P) with
 | ROk q_10 => (match (cv_to_dynamic v_Q) with
 | ROk q_11 => (match (cv_to_dynamic v_R) with
 | ROk q_12 => (match (cv_to_dynamic v_S) with
 | ROk q_13 => (match (cv_to_dynamic v_T) with
 | ROk q_14 => (match (cv_to_dynamic v_U) with
 | ROk q_15 => (match (cv_to_dynamic v_V) with
 | ROk q_16 => (let v__v := [q_1; q_2; q_3; q_4; q_5; q_6; q_7; q_8; q_9; q_10; q_11; q_12; q_13; q_14; q_15; q_16] in
 (ROk v__v))
 | RErr e_ => RErr (gen_Error_from_BoxEvalAltResult e_) end)
 | RErr e_ => RErr (gen_Error_from_BoxEvalAltResult e_) end)
 | RErr e_ => RErr (gen_Error_from_BoxEvalAltResult e_) end)
 | RErr e_ => RErr (gen_Error_from_BoxEvalAltResult e_) end)
 | RErr e_ => RErr (gen_Error_from_BoxEvalAltResult e_) end)
 | RErr e_ => RErr (gen_Error_from_BoxEvalAltResult e_) end)
 | RErr e_ => RErr (gen_Error_from_BoxEvalAltResult e_) end)
 | RErr e_ => RErr (gen_Error_from_BoxEvalAltResult e_) end)
 | RErr e_ => RErr (gen_Error_from_BoxEvalAltResult e_) end)
 | RErr e_ => RErr (gen_Error_from_BoxEvalAltResult e_) end)
 | RErr e_ => RErr (gen_Error_from_BoxEvalAltResult e_) end)
 | RErr e_ => RErr (gen_Error_from_BoxEvalAltResult e_) end)
 | RErr e_ => RErr (gen_Error_from_BoxEvalAltResult e_) end)
 | RErr e_ => RErr (gen_Error_from_BoxEvalAltResult e_) end)
 | RErr e_ => RErr (gen_Error_from_BoxEvalAltResult e_) end)
 | RErr e_ => RErr (gen_Error_from_BoxEvalAltResult e_) end)).

Definition gen_tuple16_cache_key (v_self : (S * S * S * S * S * S * S * S * S * S * S * S * S * S * S * S)) : list (hpart S) :=
 (let '(v_E, v_F, v_G, v_H, v_J, v_K, v_L, v_M, v_N, v_P, v_Q, v_R, v_S, v_T, v_U, v_V) := v_self in
 (let v__hasher := rs_hasher_new in
 (let v__hasher := rs_hash_one v_E v__hasher in
 (let v__hasher := rs_hash_one v_F v__hasher in
 (let v__hasher := rs_hash_one v_G v__hasher in
 (let v__hasher := rs_hash_one v_H v__hasher in
 (let v__hasher := rs_hash_one v_J v__hasher in
 (let v__hasher := rs_hash_one v_K v__hasher in
 (let v__hasher := rs_hash_one v_L v__hasher in
 (let v__hasher := rs_hash_one v_M v__hasher in
 (let v__hasher := rs_hash_one v_N v__hasher in
 (let v__hasher := rs_hash_one v_P v__hasher in
 (let v__hasher := rs_hash_one v_Q v__hasher in
 (let v__hasher := rs_hash_one v_R v__hasher in
 (let v__hasher := rs_hash_one v_S v__hasher in
 (let v__hasher := rs_hash_one v_T v__hasher in
 (let v__hasher := rs_hash_one v_U v__hasher in
 (let v__hasher := rs_hash_one v_V v__hasher in
 (rs_hasher_finish v__hasher))))))))))))))))))).

Definition gen_tuple17_try_into_vec (v_self : (S * S * S * S * S * S * S * S * S * S * S * S * S * S * S * S * S)) : rs_result (list D) gen_Error :=
 (let '(v_D, v_E, v_F, v_G, v_H, v_J, v_K, v_L, v_M, v_N, v_P, v_Q, v_R, v_S, v_T, v_U, v_V) := v_self in
 (match (cv_to_dynamic v_D) with
 | ROk q_1 => (match (cv_to_dynamic v_E) with
 | ROk q_2 => (match (cv_to_dynamic v_F) with
 | ROk q_3 => (match (cv_to_dynamic v_G) with
 | ROk q_4 => (match (cv_to_dynamic v_H) with
 | ROk q_5 => (match (cv_to_dynamic v_J) with
 | ROk q_6 => (match (cv_to_dynamic v_K) with
 | ROk q_7 => (match (cv_to_dynamic v_L) with
 | ROk q_8 => (match (cv_to_dynamic v_M) with
 | ROk q_9 => (match (cv_to_dynamic v_N) with
 | ROk q_10 => (match (cv_to_dynamic v_P) with
 | ROk q_11 => (match (cv_to_dynamic v_Q) with
 | ROk q_12 => (match (cv_to_dynamic v_R) with
 | ROk q_13 => (match (cv_to_dynamic v_S) with
 | ROk q_14 => (match (cv_to_dynamic v_T) with
 | ROk q_15 => (match (cv_to_dynamic v_U) with
 | ROk q_16 => (match (cv_to_dynamic v_V) with
 | ROk q_17 => (let v__v := [q_1; q_2; q_3; q_4; q_5; q_6; q_7; q_8; q_9; q_10; q_11; q_12; q_13; q_14; q_15; q_16; q_17] in
 (ROk v__v))
 | RErr e_ => RErr (gen_Error_from_BoxEvalAltResult e_) end)
 | RErr e_ => RErr (gen_Error_from_BoxEvalAltResult e_) end)
 | RErr e_ => RErr (gen_Error_from_BoxEvalAltResult e_) end)
 | RErr e_ => RErr (gen_Error_from_BoxEvalAltResult e_) end)
 | RErr e_ => RErr (gen_Error_from_BoxEvalAltResult e_) end)
 | RErr e_ => RErr (gen_Error_from_BoxEvalAltResult e_) end)
 | RErr e_ => RErr (gen_Error_from_BoxEvalAltResult e_) end)
 | RErr e_ => RErr (gen_Error_from_BoxEvalAltResult e_) end)
 | RErr e_ => RErr (gen_Error_from_BoxEvalAltResult e_) end)
 | RErr e_ => RErr (gen_Error_from_BoxEvalAltResult e_) end)
 | RErr e_ => RErr (gen_Error_from_BoxEvalAltResult e_) end)
 | RErr e_ => RErr (gen_Error_from_BoxEvalAltResult e_) end)
 | RErr e_ => RErr (gen_Error_from_BoxEvalAltResult e_) end)
 | RErr e_ => RErr (gen_Error_from_BoxEvalAltResult e_) end)
 | RErr e_ => RErr (gen_Error_from_BoxEvalAltResult e_) end)
 | RErr e_ => RErr (gen_Error_from_BoxEvalAltResult e_) end)
 | RErr e_ => RErr (gen_Error_from_BoxEvalAltResult e_) end)).

Definition gen_tuple17_cache_key (v_self : (S * S * S * S * S * S * S * S * S * S * S * S * S * S * S * S * S)) : list (hpart S) :=
 (let '(v_D, v_E, v_F, v_G, v_H, v_J, v_K, v_L, v_M, v_N, v_P, v_Q, v_R, v_S, v_T, v_U, v_V) := v_self in
 (let v__hasher := rs_hasher_new in
 (let v__hasher := rs_hash_one v_D v__hasher in
 (let v__hasher := rs_hash_one v_E v__hasher in
 (let v__hasher := rs_hash_one v_F v__hasher in
 (let v__hasher := rs_hash_one v_G v__hasher in
 (let v__hasher := rs_hash_one v_H v__hasher in
 (let v__hasher := rs_hash_one v_J v__hasher in
 (let v__hasher := rs_hash_one v_K v__hasher in
 (let v__hasher := rs_hash_one v_L v__hasher in
 (let v__hasher := rs_hash_one v_M v__hasher in
 (let v__hasher := rs_hash_one v_N v__hasher in
 (let v__hasher := rs_hash_one v_P v__hasher in
 (let v__hasher := rs_hash_one v_Q v__hasher in
 (let v__hasher := rs_hash_one v_R v__hasher in
 (let v__hasher := rs_hash_one v_S v__hasher in
 (let v__hasher := rs_hash_one v_T v__hasher in
 (let v__hasher := rs_hash_one v_U v__hasher in
 (let v__hasher := rs_hash_one v_V v__hasher in
 (rs_hasher_finish v__hasher)))))))))))))))))))).

Definition gen_tuple18_try_into_vec (v_self : (S * S * S * S * S * S * S * S * S * S * S * S * S * S * S * S * S * S)) : rs_result (list D) gen_Error :=
 (let '(v_C, v_D, v_E, v_F, v_G, v_H, v_J, v_K, v_L, v_M, v_N, v_P, v_Q, v_R, v_S, v_T, v_U, v_V) := v_self in
 (match (cv_to_dynamic v_C) with
 | ROk q_1 => (match (cv_to_dynamic v_D) with
 | ROk q_2 => (match (cv_to_dynamic v_E) with
 | ROk q_3 => (match (cv_to_dynamic v_F) with
 | ROk q_4 => (match (cv_to_dynamic v_G) with
 | ROk q_5 => (match (cv_to_dynamic v_H) with
 | ROk q_6 => (match (cv_to_dynamic v_J) with
 | ROk q_7 => (match (cv_to_dynamic v_K) with
 | ROk q_8 => (match (cv_to_dynamic v_L) with
 | ROk q_9 => (match (cv_to_dynamic v_M) with
 | ROk q_10 => (match (cv_to_dynamic v_N) with
 | ROk q_11 => (match (cv_to_dynamic v_P) with
 | ROk q_12 => (match (cv_to_dynamic v_Q) with
 | ROk q_13 => (match (cv_to_dynamic v_R) with
 | ROk q_14 => (match (cv_to_dynamic v_S) with
 | ROk q_15 => (match (cv_to_dynamic v_T) with
 | ROk q_16 => (match (cv_to_dynamic v_U) with
 | ROk q_17 => (match (cv_to_dynamic v_V) with
 | ROk q_18 => (let v__v := [q_1; q_2; q_3; q_4; q_5; q_6; q_7; q_8; q_9; q_10; q_11; q_12; q_13; q_14; q_15; q_16; q_17; q_18] in
 (ROk v__v))
 | RErr e_ => RErr (gen_Error_from_BoxEvalAltResult e_) end)
 | RErr e_ => RErr (gen_Error_from_BoxEvalAltResult e_) end)
 | RErr e_ => RErr (gen_Error_from_BoxEvalAltResult e_) end)
 | RErr e_ => RErr (gen_Error_from_BoxEvalAltResult e_) end)
 | RErr e_ => RErr (gen_Error_from_BoxEvalAltResult e_) end)
 | RErr e_ => RErr (gen_Error_from_BoxEvalAltResult e_) end)
 | RErr e_ => RErr (gen_Error_from_BoxEvalAltResult e_) end)
 | RErr e_ => RErr (gen_Error_from_BoxEvalAltResult e_) end)
 | RErr e_ => RErr (gen_Error_from_BoxEvalAltResult e_) end)
 | RErr e_ => RErr (gen_Error_from_BoxEvalAltResult e_) end)
 | RErr e_ => RErr (gen_Error_from_BoxEvalAltResult e_) end)
 | RErr e_ => RErr (gen_Error_from_BoxEvalAltResult e_) end)
 | RErr e_ => RErr (gen_Error_from_BoxEvalAltResult e_) end)
 | RErr e_ => RErr (gen_Error_from_BoxEvalAltResult e_) end)
 | RErr e_ => RErr (gen_Error_from_BoxEvalAltResult e_) end)
 | RErr e_ => RErr (gen_Error_from_BoxEvalAltResult e_) end)
 | RErr e_ => RErr (gen_Error_from_BoxEvalAltResult e_) end)
 | RErr e_ => RErr (gen_Error_from_BoxEvalAltResult e_) end)).

Definition gen_tuple18_cache_key (v_self : (S * S * S * S * S * S * S * S * S * S * S * S * S * S * S * S * S * S)) : list (hpart S) :=
 (let '(v_C, v_D, v_E, v_F, v_G, v_H, v_J, v_K, v_L, v_M, v_N, v_P, v_Q, v_R, v_S, v_T, v_U, v_V) := v_self in
 (let v__hasher := rs_hasher_new in
 (let v__hasher := rs_hash_one v_C v__hasher in
 (let v__hasher := rs_hash_one v_D v__hasher in
 (let v__hasher := rs_hash_one v_E v__hasher in
 (let v__hasher := rs_hash_one v_F v__hasher in
 (let v__hasher := rs_hash_one v_G v__hasher in
 (let v__hasher := rs_hash_one v_H v__hasher in
 (let v__hasher := rs_hash_one v_J v__hasher in
 (let v__hasher := rs_hash_one v_K v__hasher in
 (let v__hasher := rs_hash_one v_L v__hasher in
 (let v__hasher := rs_hash_one v_M v__hasher in
 (let v__hasher := rs_hash_one v_N v__hasher in
 (let v__hasher := rs_hash_one v_P v__hasher in
 (let v__hasher := rs_hash_one v_Q v__hasher in
 (let v__hasher := rs_hash_one v_R v__hasher in
 (let v__hasher := rs_hash_one v_S v__hasher in
 (let v__hasher := rs_hash_one v_T v__hasher in
 (let v__hasher := rs_hash_one v_U v__hasher in
 (let v__hasher := rs_hash_one v_V v__hasher in
 (rs_hasher_finish v__hasher))))))))))))))))))))).

Definition gen_tuple19_try_into_vec (v_self : (S * S * S * S * S * S * S * S * S * S * S * S * S * S * S * S * S * S * S)) : rs_result (list D) gen_Error :=
 (let '(v_B, v_C, v_D, v_E, v_F, v_G, v_H, v_J, v_K, v_L, v_M, v_N, v_P, v_Q, v_R, v_S, v_T, v_U, v_V) := v_self in
 (match (cv_to_dynamic v_B) with
 | ROk q_1 => (match (cv_to_dynamic v_C) with
 | ROk q_2 => (match (cv_to_dynamic v_D) with
 | ROk q_3 => (match (cv_to_dynamic v_E) with
 | ROk q_4 => (match (cv_to_dynamic v_F) with
 | ROk q_5 => (match (cv_to_dynamic v_G) with
 | ROk q_6 => (match (cv_to_dynamic v_H) with
 | ROk q_7 => (match (cv_to_dynamic v_J) with
 | ROk q_8 => (match (cv_to_dynamic v_K) with
 | ROk q_9 => (match (cv_to_dynamic v_L) with
 | ROk q_10 => (match (cv_to_dynamic v_M) with
 | ROk q_11 => (match (cv_to_dynamic v_N) with
 | ROk q_12 => (match (cv_to_dynamic v_P) with
 | ROk q_13 => (match (cv_to_dynamic v_Q) with
 | ROk q_14 => (match (cv_to_dynamic v_R) with
 | ROk q_15 => (match (cv_to_dynamic v_S) with
 | ROk q_16 => (match (cv_to_dynamic v_T) with
 | ROk q_17 => (match (cv_to_dynamic v_U) with
 | ROk q_18 => (match (cv_to_dynamic v_V) with
 | ROk q_19 => (let v__v := [q_1; q_2; q_3; q_4; q_5; q_6; q_7; q_8; q_9; q_10; q_11; q_12; q_13; q_14; q_15; q_16; q_17; q_18; q_19] in
 (ROk v__v))
 | RErr e_ => RErr (gen_Error_from_BoxEvalAltResult e_) end)
 | RErr e_ => RErr (gen_Error_from_BoxEvalAltResult e_) end)
 | RErr e_ => RErr (gen_Error_from_BoxEvalAltResult e_) end)
 | RErr e_ => RErr (gen_Error_from_BoxEvalAltResult e_) end)
 | RErr e_ => RErr (gen_Error_from_BoxEvalAltResult e_) end)
 | RErr e_ => RErr (gen_Error_from_BoxEvalAltResult e_) end)
 | RErr e_ => RErr (gen_Error_from_BoxEvalAltResult e_) end)
 | RErr e_ => RErr (gen_Error_from_BoxEvalAltResult e_) end)
 | RErr e_ => RErr (gen_Error_from_BoxEvalAltResult e_) end)
 | RErr e_ => RErr (gen_Error_from_BoxEvalAltResult e_) end)
 | RErr e_ => RErr (gen_Error_from_BoxEvalAltResult e_) end)
 | RErr e_ => RErr (gen_Error_from_BoxEvalAltResult e_) end)
 | RErr e_ => RErr (gen_Error_from_BoxEvalAltResult e_) end)
 | RErr e_ => RErr (gen_Error_from_BoxEvalAltResult e_) end)
 | RErr e_ => RErr (gen_Error_from_BoxEvalAltResult e_) end)
 | RErr e_ => RErr (gen_Error_from_BoxEvalAltResult e_) end)
 | RErr e_ => RErr (gen_Error_from_BoxEvalAltResult e_) end)
 | RErr e_ => RErr (gen_Error_from_BoxEvalAltResult e_) end)
 | RErr e_ => RErr (gen_Error_from_BoxEvalAltResult e_) end)).

Definition gen_tuple19_cache_key (v_self : (S * S * S * S * S * S * S * S * S * S * S * S * S * S * S * S * S * S * S)) : list (hpart S) :=
 (let '(v_B, v_C, v_D, v_E, v_F, v_G, v_H, v_J, v_K, v_L, v_M, v_N, v_P, v_Q, v_R, v_S, v_T, v_U, v_V) := v_self in
 (let v__hasher := rs_hasher_new in
 (let v__hasher := rs_hash_one v_B v__hasher in
 (let v__hasher := rs_hash_one v_C v__hasher in
 (let v__hasher := rs_hash_one v_D v__hasher in
 (let v__hasher := rs_hash_one v_E v__hasher in
 (let v__hasher := rs_hash_one v_F v__hasher in
 (let v__hasher := rs_hash_one v_G v__hasher in
 (let v__hasher := rs_hash_one v_H v__hasher in
 (let v__hasher := rs_hash_one v_J v__hasher in
 (let v__hasher := rs_hash_one v_K v__hasher in
 (let v__hasher := rs_hash_one v_L v__hasher in
 (let v__hasher := rs_hash_one v_M v__hasher in
 (let v__hasher := rs_hash_one v_N v__hasher in
 (let v__hasher := rs_hash_one v_P v__hasher in
 (let v__hasher := rs_hash_one v_Q v__hasher in
 (let v__hasher := rs_hash_one v_R v__hasher in
 (let v__hasher := rs_hash_one v_S v__hasher in
 (let v__hasher := rs_hash_one v_T v__hasher in
 (let v__hasher := rs_hash_one v_U v__hasher in
 (let v__hasher := rs_hash_one v_V v__hasher in
 (rs_hasher_finish v__hasher)))))))))))))))))))))).

Definition gen_tuple20_try_into_vec (v_self : (S * S * S * S * S * S * S * S * S * S * S * S * S * S * S * S * S * S * S * S)) : rs_result (list D) gen_Error :=
 (let '(v_A, v_B, v_C, v_D, v_E, v_F, v_G, v_H, v_J, v_K, v_L, v_M, v_N, v_P, v_Q, v_R, v_S, v_T, v_U, v_V) := v_self in
 (match (cv_to_dynamic v_A) with
 | ROk q_1 => (match (cv_to_dynamic v_B) with
 | ROk q_2 => (match (cv_to_dynamic v_C) with
 | ROk q_3 => (match (cv_to_dynamic v_D) with
 | ROk q_4 => (match (cv_to_dynamic v_E) with
 | ROk q_5 => (match (cv_to_dynamic v_F) with
 | ROk q_6 => (match (cv_to_dynamic v_G) with
 | ROk q_7 => (match (cv_to_dynamic v_H) with
 | ROk q_8 => (match (cv_to_dynamic v_J) with
 | ROk q_9 => (match (cv_to_dynamic v_K) with
 | ROk q_10 => (match (cv_to_dynamic v_L) with
 | ROk q_11 => (match (cv_to_dynamic v_M) with
 | ROk q_12 => (match (cv_to_dynamic v_N) with
 | ROk q_13 => (match (cv_to_dynamic v_P) with
 | ROk q_14 => (match (cv_to_dynamic v_Q) with
 | ROk q_15 => (match (cv_to_dynamic v_R) with
 | ROk q_16 => (match (cv_to_dynamic v_S) with
 | ROk q_17 => (match (cv_to_dynamic v_T) with
 | ROk q_18 => (match (cv_to_dynamic v_U) with
 | ROk q_19 => (match (cv_to_dynamic v_V) with
 | ROk q_20 => (let v__v := [q_1; q_2; q_3; q_4; q_5; q_6; q_7; q_8; q_9; q_10; q_11; q_12; q_13; q_14; q_15; q_16; q_17; q_18; q_19; q_20] in
 (ROk v__v))
 | RErr e_ => RErr (gen_Error_from_BoxEvalAltResult e_) end)
 | RErr e_ => RErr (gen_Error_from_BoxEvalAltResult e_) end)
 | RErr e_ => RErr (gen_Error_from_BoxEvalAltResult e_) end)
 | RErr e_ => RErr (gen_Error_from_BoxEvalAltResult e_) end)
 | RErr e_ => RErr (gen_Error_from_BoxEvalAltResult e_) end)
 | RErr e_ => RErr (gen_Error_from_BoxEvalAltResult e_) end)
 | RErr e_ => RErr (gen_Error_from_BoxEvalAltResult e_) end)
 | RErr e_ => RErr (gen_Error_from_BoxEvalAltResult e_) end)
 | RErr e_ => RErr (gen_Error_from_BoxEvalAltResult e_) end)
 | RErr e_ => RErr (gen_Error_from_BoxEvalAltResult e_) end)
 | RErr e_ => RErr (gen_Error_from_BoxEvalAltResult e_) end)
 | RErr e_ => RErr (gen_Error_from_BoxEvalAltResult e_) end)
 | RErr e_ => RErr (gen_Error_from_BoxEvalAltResult e_) end)
 | RErr e_ => RErr (gen_Error_from_BoxEvalAltResult e_) end)
 | RErr e_ => RErr (gen_Error_from_BoxEvalAltResult e_) end)
 | RErr e_ => RErr (gen_Error_from_BoxEvalAltResult e_) end)
 | RErr e_ => RErr (gen_Error_from_BoxEvalAltResult e_) end)
 | RErr e_ => RErr (gen_Error_from_BoxEvalAltResult e_) end)
 | RErr e_ => RErr (gen_Error_from_BoxEvalAltResult e_) end)
 | RErr e_ => RErr (gen_Error_from_BoxEvalAltResult e_) end)).

Definition gen_tuple20_cache_key (v_self : (S * S * S * S * S * S * S * S * S * S * S * S * S * S * S * S * S * S * S * S)) : list (hpart S) :=
 (let '(v_A, v_B, v_C, v_D, v_E, v_F, v_G, v_H, v_J, v_K, v_L, v_M, v_N, v_P, v_Q, v_R, v_S, v_T, v_U, v_V) := v_self in
 (let v__hasher := rs_hasher_new in
 (let v__hasher := rs_hash_one v_A v__hasher in
 (let v__hasher := rs_hash_one v_B v__hasher in
 (let v__hasher := rs_hash_one v_C v__hasher in
 (let v__hasher := rs_hash_one v_D v__hasher in
 (let v__hasher := rs_hash_one v_E v__hasher in
 (let v__hasher := rs_hash_one v_F v__hasher in
 (let v__hasher := rs_hash_one v_G v__hasher in
 (let v__hasher := rs_hash_one v_H v__hasher in
 (let v__hasher := rs_hash_one v_J v__hasher in
 (let v__hasher := rs_hash_one v_K v__hasher in
 (let v__hasher := rs_hash_one v_L v__hasher in
 (let v__hasher := rs_hash_one v_M v__hasher in
 (let v__hasher := rs_hash_one v_N v__hasher in
 (let v__hasher := rs_hash_one v_P v__hasher in
 (let v__hasher := rs_hash_one v_Q v__hasher in
 (let v__hasher := rs_hash_one v_R v__hasher in
 (let v__hasher := rs_hash_one v_S v__hasher in
 (let v__hasher := rs_hash_one v_T v__hasher in
 (let v__hasher := rs_hash_one v_U v__hasher in
 (let v__hasher := rs_hash_one v_V v__hasher in
 (rs_hasher_finish v__hasher))))))))))))))))))))))).

Definition gen_tuple_try_into_vec (vals : list S) : option (rs_result (list D) gen_Error) :=
 match vals with
 | [] => Some (gen_tuple0_try_into_vec tt)
 | [x1] => Some (gen_tuple1_try_into_vec x1)
 | [x1; x2] => Some (gen_tuple2_try_into_vec (x1, x2))
 | [x1; x2; x3] => Some (gen_tuple3_try_into_vec (x1, x2, x3))
 | [x1; x2; x3; x4] => Some (gen_tuple4_try_into_vec (x1, x2, x3, x4))
 | [x1; x2; x3; x4; x5] => Some (gen_tuple5_try_into_vec (x1, x2, x3, x4, x5))
 | [x1; x2; x3; x4; x5; x6] => Some (gen_tuple6_try_into_vec (x1, x2, x3, x4, x5, x6))
 | [x1; x2; x3; x4; x5; x6; x7] => Some (gen_tuple7_try_into_vec (x1, x2, x3, x4, x5, x6, x7))
 | [x1; x2; x3; x4; x5; x6; x7; x8] => Some (gen_tuple8_try_into_vec (x1, x2, x3, x4, x5, x6, x7, x8))
 | [x1; x2; x3; x4; x5; x6; x7; x8; x9] => Some (gen_tuple9_try_into_vec (x1, x2, x3, x4, x5, x6, x7, x8, x9))
 | [x1; x2; x3; x4; x5; x6; x7; x8; x9; x10] => Some (gen_tuple10_try_into_vec (x1, x2, x3, x4, x5, x6, x7, x8, x9, x10))
 | [x1; x2; x3; x4; x5; x6; x7; x8; x9; x10; x11] => Some (gen_tuple11_try_into_vec (x1, x2, x3, x4, x5, x6, x7, x8, x9, x10, x11))
 | [x1; x2; x3; x4; x5; x6; x7; x8; x9; x10; x11; x12] => Some (gen_tuple12_try_into_vec (x1, x2, x3, x4, x5, x6, x7, x8, x9, x10, x11, x12))
 | [x1; x2; x3; x4; x5; x6; x7; x8; x9; x10; x11; x12; x13] => Some (gen_tuple13_try_into_vec (x1, x2, x3, x4, x5, x6, x7, x8, x9, x10, x11, x12, x13))
 | [x1; x2; x3; x4; x5; x6; x7; x8; x9; x10; x11; x12; x13; x14] => Some (gen_tuple14_try_into_vec (x1, x2, x3, x4, x5, x6, x7, x8, x9, x10, x11, x12, x13, x14))
 | [x1; x2; x3; x4; x5; x6; x7; x8; x9; x10; x11; x12; x13; x14; x15] => Some (gen_tuple15_try_into_vec (x1, x2, x3, x4, x5, x6, x7, x8, x9, x10, x11, x12, x13, x14, x15))
 | [x1; x2; x3; x4; x5; x6; x7; x8; x9; x10; x11; x12; x13; x14; x15; x16] => Some (gen_tuple16_try_into_vec (x1, x2, x3, x4, x5, x6, x7, x8, x9, x10, x11, x12, x13, x14, x15, x16))
 | [x1; x2; x3; x4; x5; x6; x7; x8; x9; x10; x11; x12; x13; x14; x15; x16; x17] => Some (gen_tuple17_try_into_vec (x1, x2, x3, x4, x5, x6, x7, x8, x9, x10, x11, x12, x13, x14, x15, x16, x17))
 | [x1; x2; x3; x4; x5; x6; x7; x8; x9; x10; x11; x12; x13; x14; x15; x16; x17; x18] => Some (gen_tuple18_try_into_vec (x1, x2, x3, x4, x5, x6, x7, x8, x9, x10, x11, x12, x13, x14, x15, x16, x17, x18))
 | [x1; x2; x3; x4; x5; x6; x7; x8; x9; x10; x11; x12; x13; x14; x15; x16; x17; x18; x19] => Some (gen_tuple19_try_into_vec (x1, x2, x3, x4, x5, x6, x7, x8, x9, x10, x11, x12, x13, x14, x15, x16, x17, x18, x19))
 | [x1; x2; x3; x4; x5; x6; x7; x8; x9; x10; x11; x12; x13; x14; x15; x16; x17; x18; x19; x20] => Some (gen_tuple20_try_into_vec (x1, x2, x3, x4, x5, x6, x7, x8, x9, x10, x11, x12, x13, x14, x15, x16, x17, x18, x19, x20))
 | _ => None
 end.

Definition gen_tuple_cache_key (vals : list S) : option (list (hpart S)) :=
 match vals with
 | [] => Some (gen_tuple0_cache_key tt)
 | [x1] => Some (gen_tuple1_cache_key x1)
 | [x1; x2] => Some (gen_tuple2_cache_key (x1, x2))
 | [x1; x2; x3] => Some (gen_tuple3_cache_key (x1, x2, x3))
 | [x1; x2; x3; x4] => Some (gen_tuple4_cache_key (x1, x2, x3, x4))
 | [x1; x2; x3; x4; x5] => Some (gen_tuple5_cache_key (x1, x2, x3, x4, x5))
 | [x1; x2; x3; x4; x5; x6] => Some (gen_tuple6_cache_key (x1, x2, x3, x4, x5, x6))
 | [x1; x2; x3; x4; x5; x6; x7] => Some (gen_tuple7_cache_key (x1, x2, x3, x4, x5, x6, x7))
 | [x1; x2; x3; x4; x5; x6; x7; x8] => Some (gen_tuple8_cache_key (x1, x2, x3, x4, x5, x6, x7, x8))
 | [x1; x2; x3; x4; x5; x6; x7; x8; x9] => Some (gen_tuple9_cache_key (x1, x2, x3, x4, x5, x6, x7, x8, x9))
 | [x1; x2; x3; x4; x5; x6; x7; x8; x9; x10] => Some (gen_tuple10_cache_key (x1, x2, x3, x4, x5, x6, x7, x8, x9, x10))
 | [x1; x2; x3; x4; x5; x6; x7; x8; x9; x10; x11] => Some (gen_tuple11_cache_key (x1, x2, x3, x4, x5, x6, x7, x8, x9, x10, x11))
 | [x1; x2; x3; x4; x5; x6; x7; x8; x9; x10; x11; x12] => Some (gen_tuple12_cache_key (x1, x2, x3, x4, x5, x6, x7, x8, x9, x10, x11, x12))
 | [x1; x2; x3; x4; x5; x6; x7; x8; x9; x10; x11; x12; x13] => Some (gen_tuple13_cache_key (x1, x2, x3, x4, x5, x6, x7, x8, x9, x10, x11, x12, x13))
 | [x1; x2; x3; x4; x5; x6; x7; x8; x9; x10; x11; x12; x13; x14] => Some (gen_tuple14_cache_key (x1, x2, x3, x4, x5, x6, x7, x8, x9, x10, x11, x12, x13, x14))
 | [x1; x2; x3; x4; x5; x6; x7; x8; x9; x10; x11; x12; x13; x14; x15] => Some (gen_tuple15_cache_key (x1, x2, x3, x4, x5, x6, x7, x8, x9, x10, x11, x12, x13, x14, x15))
 | [x1; x2; x3; x4; x5; x6; x7; x8; x9; x10; x11; x12; x13; x14; x15; x16] => Some (gen_tuple16_cache_key (x1, x2, x3, x4, x5, x6, x7, x8, x9, x10, x11, x12, x13, x14, x15, x16))
 | [x1; x2; x3; x4; x5; x6; x7; x8; x9; x10; x11; x12; x13; x14; x15; x16; x17] => Some (gen_tuple17_cache_key (x1, x2, x3, x4, x5, x6, x7, x8, x9, x10, x11, x12, x13, x14, x15, x16, x17))
 | [x1; x2; x3; x4; x5; x6; x7; x8; x9; x10; x11; x12; x13; x14; x15; x16; x17; x18] => Some (gen_tuple18_cache_key (x1, x2, x3, x4, x5, x6, x7, x8, x9, x10, x11, x12, x13, x14, x15, x16, x17, x18))
 | [x1; x2; x3; x4; x5; x6; x7; x8; x9; x10; x11; x12; x13; x14; x15; x16; x17; x18; x19] => Some (gen_tuple19_cache_key (x1, x2, x3, x4, x5, x6, x7, x8, x9, x10, x11, x12, x13, x14, x15, x16, x17, x18, x19))
 | [x1; x2; x3; x4; x5; x6; x7; x8; x9; x10; x11; x12; x13; x14; x15; x16; x17; x18; x19; x20] => Some (gen_tuple20_cache_key (x1, x2, x3, x4, x5, x6, x7, x8, x9, x10, x11, x12, x13, x14, x15, x16, x17, x18, x19, x20))
 | _ => None
 end.

Definition gen_tuple_arities : list nat := [0; 1; 2; 3; 4; 5; 6; 7; 8; 9; 10; 11; 12; 13; 14; 15; 16; 17; 18; 19; 20].
End Convert.

(* ------------------------------------------------------------------ (D) src/cache/default_cache.rs *)
(* DefaultCache<K, V>: its one field is the mini-moka cache (Gen/MokaRt.v), the state st_cache of every method;
   keqb = the equality of K (Eq + Hash) *)

Definition gen_cache_new (K V : Type) (sched : list (K -> bool)) (v_cap : nat) : moka K V := rs_moka_new sched v_cap.

Definition gen_cache_get (K V : Type) (keqb : K -> K -> bool) (st_cache : moka K V) (v_k : K) : moka K V * option V :=
 (let '(st_cache, q_1) := rs_moka_get keqb st_cache v_k in
 (st_cache, q_1)).

Definition gen_cache_has (K V : Type) (keqb : K -> K -> bool) (st_cache : moka K V) (v_k : K) : moka K V * bool :=
 (let '(st_cache, q_1) := rs_moka_contains_key keqb st_cache v_k in
 (st_cache, q_1)).

Definition gen_cache_set (K V : Type) (keqb : K -> K -> bool) (st_cache : moka K V) (v_k : K) (v_v : V) : moka K V :=
 (let st_cache := rs_moka_insert keqb st_cache v_k v_v in
 st_cache).

Definition gen_cache_clear (K V : Type) (keqb : K -> K -> bool) (st_cache : moka K V) : moka K V :=
 (let st_cache := rs_moka_invalidate_all st_cache in
 st_cache).


Definition gen_model2_translated : bool := true.
