(* GENERATED on every run by tools/rs2coq_query.py from /repo/src/rbac_api.rs and
   /repo/src/management_api.rs (the read-only query helpers) - do not edit.  Vocabulary: Gen/QueryRt.v,
   Gen/RustVec.v, Gen/RustIter.v; obligations: PinChecks/PcQueryGen.v.  None = panic / out of fuel. *)
From CV Require Import Model.Base Model.RoleGraph Model.Expr Model.Enforce Model.Engine.
From CV Require Import Gen.RustStr Gen.RustVec Gen.RustIter Gen.QueryRt.

(* src/management_api.rs: impl MgmtApi for T :: get_named_policy *)
Definition genq_get_named_policy (s : estate) (v_ptype : text) : option (list rule) :=
 rs_fn (LReturn (mdl_get_policy (e_model s) (T "p") v_ptype)).

(* src/management_api.rs: impl MgmtApi for T :: get_all_policy *)
Definition genq_get_all_policy (s : estate) : option (list rule) :=
 rs_fn (let v_res := ([] : list rule) in
 (let v_sec := (T "p") in
 (match (hm_get_section (e_model s) v_sec) with Some v_ast_map => (match rs_for (fun '(v_ptype, v_ast) v_res =>
 (let v_res := rs_extend v_res (rs_iter_map (fun v_x => (let v_x := (v_ptype :: v_x) in
 (let v_x := (v_sec :: v_x) in
 v_x))) (a_policy v_ast)) in
 (LNext v_res)))
 v_ast_map v_res with
 | Done v_res => (LReturn v_res)
 | Returned ret_ => LReturn ret_
 | Panicked => LPanic end) | None => (LReturn v_res) end))).

(* src/management_api.rs: impl MgmtApi for T :: get_filtered_named_policy *)
Definition genq_get_filtered_named_policy (s : estate) (v_ptype : text) (v_field_index : nat) (v_field_values : rule) : option (list rule) :=
 rs_fn (match (mdl_get_filtered_policy (e_model s) (T "p") v_ptype v_field_index v_field_values) with Some t1 => (LReturn t1) | None => LPanic end).

(* src/management_api.rs: impl MgmtApi for T :: has_named_policy *)
Definition genq_has_named_policy (s : estate) (v_ptype : text) (v_params : rule) : option bool :=
 rs_fn (match (mdl_has_policy (e_model s) (T "p") v_ptype v_params) with Some t1 => (LReturn t1) | None => LPanic end).

(* src/management_api.rs: impl MgmtApi for T :: get_named_grouping_policy *)
Definition genq_get_named_grouping_policy (s : estate) (v_ptype : text) : option (list rule) :=
 rs_fn (LReturn (mdl_get_policy (e_model s) (T "g") v_ptype)).

(* src/management_api.rs: impl MgmtApi for T :: get_all_grouping_policy *)
Definition genq_get_all_grouping_policy (s : estate) : option (list rule) :=
 rs_fn (let v_res := ([] : list rule) in
 (let v_sec := (T "g") in
 (match (hm_get_section (e_model s) v_sec) with Some v_ast_map => (match rs_for (fun '(v_ptype, v_ast) v_res =>
 (let v_res := rs_extend v_res (rs_iter_map (fun v_x => (let v_x := (v_ptype :: v_x) in
 (let v_x := (v_sec :: v_x) in
 v_x))) (a_policy v_ast)) in
 (LNext v_res)))
 v_ast_map v_res with
 | Done v_res => (LReturn v_res)
 | Returned ret_ => LReturn ret_
 | Panicked => LPanic end) | None => (LReturn v_res) end))).

(* src/management_api.rs: impl MgmtApi for T :: get_filtered_named_grouping_policy *)
Definition genq_get_filtered_named_grouping_policy (s : estate) (v_ptype : text) (v_field_index : nat) (v_field_values : rule) : option (list rule) :=
 rs_fn (match (mdl_get_filtered_policy (e_model s) (T "g") v_ptype v_field_index v_field_values) with Some t1 => (LReturn t1) | None => LPanic end).

(* src/management_api.rs: impl MgmtApi for T :: has_grouping_named_policy *)
Definition genq_has_grouping_named_policy (s : estate) (v_ptype : text) (v_params : rule) : option bool :=
 rs_fn (match (mdl_has_policy (e_model s) (T "g") v_ptype v_params) with Some t1 => (LReturn t1) | None => LPanic end).

(* src/management_api.rs: impl MgmtApi for T :: get_all_named_subjects *)
Definition genq_get_all_named_subjects (s : estate) (v_ptype : text) : option rule :=
 rs_fn (match (mdl_values_for_field (e_model s) (T "p") v_ptype 0) with Some t1 => (LReturn t1) | None => LPanic end).

(* src/management_api.rs: impl MgmtApi for T :: get_all_named_objects *)
Definition genq_get_all_named_objects (s : estate) (v_ptype : text) : option rule :=
 rs_fn (match (mdl_values_for_field (e_model s) (T "p") v_ptype 1) with Some t1 => (LReturn t1) | None => LPanic end).

(* src/management_api.rs: impl MgmtApi for T :: get_all_named_actions *)
Definition genq_get_all_named_actions (s : estate) (v_ptype : text) : option rule :=
 rs_fn (match (mdl_values_for_field (e_model s) (T "p") v_ptype 2) with Some t1 => (LReturn t1) | None => LPanic end).

(* src/management_api.rs: impl MgmtApi for T :: get_all_named_roles *)
Definition genq_get_all_named_roles (s : estate) (v_ptype : text) : option rule :=
 rs_fn (match (mdl_values_for_field (e_model s) (T "g") v_ptype 1) with Some t1 => (LReturn t1) | None => LPanic end).

(* src/management_api.rs: trait MgmtApi (default method) :: get_policy *)
Definition genq_get_policy (s : estate) : option (list rule) :=
 rs_fn (match (genq_get_named_policy s (T "p")) with Some t1 => (LReturn t1) | None => LPanic end).

(* src/management_api.rs: trait MgmtApi (default method) :: get_filtered_policy *)
Definition genq_get_filtered_policy (s : estate) (v_field_index : nat) (v_field_values : rule) : option (list rule) :=
 rs_fn (match (genq_get_filtered_named_policy s (T "p") v_field_index v_field_values) with Some t1 => (LReturn t1) | None => LPanic end).

(* src/management_api.rs: trait MgmtApi (default method) :: has_policy *)
Definition genq_has_policy (s : estate) (v_params : rule) : option bool :=
 rs_fn (match (genq_has_named_policy s (T "p") v_params) with Some t1 => (LReturn t1) | None => LPanic end).

(* src/management_api.rs: trait MgmtApi (default method) :: get_grouping_policy *)
Definition genq_get_grouping_policy (s : estate) : option (list rule) :=
 rs_fn (match (genq_get_named_grouping_policy s (T "g")) with Some t1 => (LReturn t1) | None => LPanic end).

(* src/management_api.rs: trait MgmtApi (default method) :: get_filtered_grouping_policy *)
Definition genq_get_filtered_grouping_policy (s : estate) (v_field_index : nat) (v_field_values : rule) : option (list rule) :=
 rs_fn (match (genq_get_filtered_named_grouping_policy s (T "g") v_field_index v_field_values) with Some t1 => (LReturn t1) | None => LPanic end).

(* src/management_api.rs: trait MgmtApi (default method) :: has_grouping_policy *)
Definition genq_has_grouping_policy (s : estate) (v_params : rule) : option bool :=
 rs_fn (match (genq_has_grouping_named_policy s (T "g") v_params) with Some t1 => (LReturn t1) | None => LPanic end).

(* src/management_api.rs: trait MgmtApi (default method) :: get_all_subjects *)
Definition genq_get_all_subjects (s : estate) : option rule :=
 rs_fn (match (genq_get_all_named_subjects s (T "p")) with Some t1 => (LReturn t1) | None => LPanic end).

(* src/management_api.rs: trait MgmtApi (default method) :: get_all_objects *)
Definition genq_get_all_objects (s : estate) : option rule :=
 rs_fn (match (genq_get_all_named_objects s (T "p")) with Some t1 => (LReturn t1) | None => LPanic end).

(* src/management_api.rs: trait MgmtApi (default method) :: get_all_actions *)
Definition genq_get_all_actions (s : estate) : option rule :=
 rs_fn (match (genq_get_all_named_actions s (T "p")) with Some t1 => (LReturn t1) | None => LPanic end).

(* src/management_api.rs: trait MgmtApi (default method) :: get_all_roles *)
Definition genq_get_all_roles (s : estate) : option rule :=
 rs_fn (match (genq_get_all_named_roles s (T "g")) with Some t1 => (LReturn t1) | None => LPanic end).

(* src/rbac_api.rs: impl RbacApi for T :: get_roles_for_user *)
Definition genq_get_roles_for_user (ord : list text -> list text) (s : estate) (v_name : text) (v_domain : (option text)) : option rule :=
 rs_fn (let v_roles := ([] : list text) in
 (let v_roles := (match (hm_get_section (e_model s) (T "g")) with Some v_t1 => (let v_roles := (match (amap_get v_t1 (T "g")) with Some v_t2 => (let v_roles := (rm_get_roles ord (e_fs s) (a_handle v_t2) v_name v_domain) in
 v_roles) | None => v_roles end) in
 v_roles) | None => v_roles end) in
 (LReturn v_roles))).

(* src/rbac_api.rs: impl RbacApi for T :: get_users_for_role *)
Definition genq_get_users_for_role (ord : list text -> list text) (s : estate) (v_name : text) (v_domain : (option text)) : option rule :=
 rs_fn (match (hm_get_section (e_model s) (T "g")) with Some v_t1 => (match (amap_get v_t1 (T "g")) with Some v_t2_1 => (LReturn (rm_get_users ord (e_fs s) (a_handle v_t2_1) v_name v_domain)) | None => (LReturn ([] : list text)) end) | None => (LReturn ([] : list text)) end).

(* src/rbac_api.rs: impl RbacApi for T :: has_role_for_user *)
Definition genq_has_role_for_user (ord : list text -> list text) (s : estate) (v_name : text) (v_role : text) (v_domain : (option text)) : option bool :=
 rs_fn (match (genq_get_roles_for_user ord s v_name v_domain) with Some t1 => (let v_roles := t1 in
 (let v_has_role := false in
 (match rs_for (fun v_r v_has_role =>
 (if (rs_eq v_r v_role) then (let v_has_role := true in
 (LBreak v_has_role)) else (LNext v_has_role)))
 v_roles v_has_role with
 | Done v_has_role => (LReturn v_has_role)
 | Returned ret_ => LReturn ret_
 | Panicked => LPanic end))) | None => LPanic end).

(* src/rbac_api.rs: impl RbacApi for T :: get_permissions_for_user *)
Definition genq_get_permissions_for_user (s : estate) (v_user : text) (v_domain : (option text)) : option (list rule) :=
 rs_fn (match (genq_get_filtered_policy s 0 (match v_domain with Some v_domain_1 => (rs_iter_map (fun v_s => v_s) [v_user; v_domain_1]) | None => (rs_iter_map (fun v_s_1 => v_s_1) [v_user]) end)) with Some t1 => (LReturn t1) | None => LPanic end).

(* src/rbac_api.rs: impl RbacApi for T :: has_permission_for_user *)
Definition genq_has_permission_for_user (s : estate) (v_user : text) (v_permission : rule) : option bool :=
 rs_fn (let v_permission_1 := v_permission in
 (let v_permission_1 := (v_user :: v_permission_1) in
 (match (genq_has_policy s v_permission_1) with Some t1 => (LReturn t1) | None => LPanic end))).

(* src/rbac_api.rs: impl RbacApi for T :: get_implicit_roles_for_user *)
Definition genq_get_implicit_roles_for_user (ord : list text -> list text) (fuel : nat) (s : estate) (v_name : text) (v_domain : (option text)) : option rule :=
 rs_fn (let v_res := hs_new in
 (let v_q := [v_name] in
 (match rs_while fuel (fun '(v_q, v_res) => Some (negb (rs_vec_is_empty v_q)))
 (fun '(v_q, v_res) =>
 (match rs_swap_remove v_q 0 with Some (t1, t1_) => (let v_q := t1_ in
 (let v_name_1 := t1 in
 (let v_roles := (rm_get_roles ord (e_fs s) cur_role_manager v_name_1 v_domain) in
 (match rs_for (fun v_r '(v_q, v_res) =>
 (let t2 := hs_insert_new v_res v_r in
 (let v_res := hs_insert v_res v_r in
 (let v_q := (if t2 then (let v_q := rs_push v_q v_r in
 v_q) else v_q) in
 (LNext (v_q, v_res))))))
 v_roles (v_q, v_res) with
 | Done (v_q, v_res) => (LNext (v_q, v_res))
 | Returned ret_ => LReturn ret_
 | Panicked => LPanic end)))) | None => LPanic end))
 (v_q, v_res) with
 | Done (v_q, v_res) => (LReturn (hs_to_vec ord v_res))
 | Returned ret_ => LReturn ret_
 | Panicked => LPanic end))).

(* src/rbac_api.rs: impl RbacApi for T :: get_implicit_permissions_for_user *)
Definition genq_get_implicit_permissions_for_user (ord : list text -> list text) (fuel : nat) (s : estate) (v_user : text) (v_domain : (option text)) : option (list rule) :=
 rs_fn (match (genq_get_implicit_roles_for_user ord fuel s v_user v_domain) with Some t1 => (let v_roles := t1 in
 (let v_roles := (v_user :: v_roles) in
 (let v_res := ([] : list rule) in
 (match rs_for (fun v_role v_res =>
 (match (genq_get_permissions_for_user s v_role v_domain) with Some t2 => (let v_permissions := t2 in
 (let v_res := rs_extend v_res v_permissions in
 (LNext v_res))) | None => LPanic end))
 v_roles v_res with
 | Done v_res => (LReturn v_res)
 | Returned ret_ => LReturn ret_
 | Panicked => LPanic end)))) | None => LPanic end).

(* src/rbac_api.rs: impl RbacApi for T :: get_implicit_users_for_permission *)
Definition genq_get_implicit_users_for_permission (ptab : text -> option expr) (ord : list text -> list text) (s : estate) (v_permission : rule) : option rule :=
 rs_fn (match (genq_get_all_subjects s) with Some t1 => (let v_subjects := t1 in
 (match (genq_get_all_roles s) with Some t2 => (let v_roles := t2 in
 (let v_subjects := rs_extend v_subjects (rs_iter_flat_map (fun v_role => (rm_get_users ord (e_fs s) cur_role_manager v_role None)) v_roles) in
 (let v_users := (rs_iter_filter (fun v_subject => (negb (rs_vec_contains v_roles v_subject))) v_subjects) in
 (let v_res := ([] : list text) in
 (match rs_for (fun v_user v_res =>
 (let v_req := v_permission in
 (let v_req := (v_user :: v_req) in
 (match (enf_enforce ptab s v_req) with Ok v_r => (let v_res := (if (v_r && (negb (rs_vec_contains v_res v_user))) then (let v_res := rs_push v_res v_user in
 v_res) else v_res) in
 (LNext v_res)) | Err _ => (LNext v_res) | Panic => LPanic end))))
 v_users v_res with
 | Done v_res => (LReturn v_res)
 | Returned ret_ => LReturn ret_
 | Panicked => LPanic end))))) | None => LPanic end)) | None => LPanic end).

Definition gen_query_translated : bool := true.
