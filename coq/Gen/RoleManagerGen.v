(* GENERATED on every run by tools/rs2coq.py (tools/rs2coq_rm.py) from /repo/src/rbac/default_role_manager.rs
   - do not edit.  DefaultRoleManager, link_if_matches and the bounded BFS of mod matching_bfs over the
   operations of Gen/Petgraph.v, Gen/RustIter.v and Gen/RustVec.v; None / LPanic = a panic (or, for a
   `while let`, more than `fuel` iterations); `ord` = the iteration order of the hash containers. *)
From CV Require Import Model.Base Model.RoleGraph Model.RoleGraphM Gen.RustStr Gen.RustVec Gen.RustIter Gen.Petgraph.

Definition gen_DEFAULT_DOMAIN : text := (T "DEFAULT").

Record rm_state := { rm_all_domains : hashmap mgraph;
  rm_all_domains_indices : hashmap (hashmap node_index);
  rm_max_hierarchy_level : nat;
  rm_role_matching_fn : option mfun;
  rm_domain_matching_fn : option mfun }.
Definition set_rm_all_domains (s : rm_state) (x : hashmap mgraph) : rm_state :=
  {| rm_all_domains := x; rm_all_domains_indices := rm_all_domains_indices s; rm_max_hierarchy_level := rm_max_hierarchy_level s; rm_role_matching_fn := rm_role_matching_fn s; rm_domain_matching_fn := rm_domain_matching_fn s |}.
Definition set_rm_all_domains_indices (s : rm_state) (x : hashmap (hashmap node_index)) : rm_state :=
  {| rm_all_domains := rm_all_domains s; rm_all_domains_indices := x; rm_max_hierarchy_level := rm_max_hierarchy_level s; rm_role_matching_fn := rm_role_matching_fn s; rm_domain_matching_fn := rm_domain_matching_fn s |}.
Definition set_rm_max_hierarchy_level (s : rm_state) (x : nat) : rm_state :=
  {| rm_all_domains := rm_all_domains s; rm_all_domains_indices := rm_all_domains_indices s; rm_max_hierarchy_level := x; rm_role_matching_fn := rm_role_matching_fn s; rm_domain_matching_fn := rm_domain_matching_fn s |}.
Definition set_rm_role_matching_fn (s : rm_state) (x : option mfun) : rm_state :=
  {| rm_all_domains := rm_all_domains s; rm_all_domains_indices := rm_all_domains_indices s; rm_max_hierarchy_level := rm_max_hierarchy_level s; rm_role_matching_fn := x; rm_domain_matching_fn := rm_domain_matching_fn s |}.
Definition set_rm_domain_matching_fn (s : rm_state) (x : option mfun) : rm_state :=
  {| rm_all_domains := rm_all_domains s; rm_all_domains_indices := rm_all_domains_indices s; rm_max_hierarchy_level := rm_max_hierarchy_level s; rm_role_matching_fn := rm_role_matching_fn s; rm_domain_matching_fn := x |}.

Record bfs_state := { bfs_queue : list node_index;
  bfs_discovered : visit_map;
  bfs_max_depth : nat;
  bfs_with_pattern_matching : bool;
  bfs_depth : nat;
  bfs_depth_elements_remaining : nat }.
Definition set_bfs_queue (s : bfs_state) (x : list node_index) : bfs_state :=
  {| bfs_queue := x; bfs_discovered := bfs_discovered s; bfs_max_depth := bfs_max_depth s; bfs_with_pattern_matching := bfs_with_pattern_matching s; bfs_depth := bfs_depth s; bfs_depth_elements_remaining := bfs_depth_elements_remaining s |}.
Definition set_bfs_discovered (s : bfs_state) (x : visit_map) : bfs_state :=
  {| bfs_queue := bfs_queue s; bfs_discovered := x; bfs_max_depth := bfs_max_depth s; bfs_with_pattern_matching := bfs_with_pattern_matching s; bfs_depth := bfs_depth s; bfs_depth_elements_remaining := bfs_depth_elements_remaining s |}.
Definition set_bfs_max_depth (s : bfs_state) (x : nat) : bfs_state :=
  {| bfs_queue := bfs_queue s; bfs_discovered := bfs_discovered s; bfs_max_depth := x; bfs_with_pattern_matching := bfs_with_pattern_matching s; bfs_depth := bfs_depth s; bfs_depth_elements_remaining := bfs_depth_elements_remaining s |}.
Definition set_bfs_with_pattern_matching (s : bfs_state) (x : bool) : bfs_state :=
  {| bfs_queue := bfs_queue s; bfs_discovered := bfs_discovered s; bfs_max_depth := bfs_max_depth s; bfs_with_pattern_matching := x; bfs_depth := bfs_depth s; bfs_depth_elements_remaining := bfs_depth_elements_remaining s |}.
Definition set_bfs_depth (s : bfs_state) (x : nat) : bfs_state :=
  {| bfs_queue := bfs_queue s; bfs_discovered := bfs_discovered s; bfs_max_depth := bfs_max_depth s; bfs_with_pattern_matching := bfs_with_pattern_matching s; bfs_depth := x; bfs_depth_elements_remaining := bfs_depth_elements_remaining s |}.
Definition set_bfs_depth_elements_remaining (s : bfs_state) (x : nat) : bfs_state :=
  {| bfs_queue := bfs_queue s; bfs_discovered := bfs_discovered s; bfs_max_depth := bfs_max_depth s; bfs_with_pattern_matching := bfs_with_pattern_matching s; bfs_depth := bfs_depth s; bfs_depth_elements_remaining := x |}.

Definition gen_link_if_matches (v_graph : mgraph) (v_role_matching_fn : mfun) (v_not_pattern_id : node_index) (v_maybe_pattern_id : node_index) : option (mgraph * bool) :=
 rs_fn (R := mgraph * bool) (match (pg_node_weight v_graph v_not_pattern_id) with Some o1 => (let v_not_pattern := o1 in
 (match (pg_node_weight v_graph v_maybe_pattern_id) with Some o2 => (let v_maybe_pattern := o2 in
 (if (negb (v_role_matching_fn v_maybe_pattern v_not_pattern))
 then (LReturn (v_graph, false))
 else (match (match (pg_find_edge v_graph v_not_pattern_id v_maybe_pattern_id) with Some v_idx => (match (match (pg_edge_weight v_graph v_idx) with Some o3 => (Some (ek_is o3 KMatch)) | None => None end) with Some o4 => (Some (negb o4)) | None => None end) | None => (Some true) end) with Some o5 => (let v_add_edge := o5 in
 (if v_add_edge
 then (match pg_add_edge v_graph v_not_pattern_id v_maybe_pattern_id KMatch with
 | Some (g6, r7) => (let v_graph := g6 in
 (LReturn (v_graph, true)))
 | None => LPanic end)
 else (LReturn (v_graph, false)))) | None => LPanic end))) | None => LPanic end)) | None => LPanic end).

Definition gen_new (v_max_hierarchy_level : nat) : rm_state :=
 {| rm_all_domains := hm_new; rm_all_domains_indices := hm_new; rm_max_hierarchy_level := v_max_hierarchy_level; rm_role_matching_fn := None; rm_domain_matching_fn := None |}.

Definition gen_get_or_create_role (self : rm_state) (v_name : text) (v_domain : option text) : option (rm_state * node_index) :=
 rs_fn (R := rm_state * node_index) (let v_domain := (rs_unwrap_or v_domain gen_DEFAULT_DOMAIN) in
 (let '(m1, v_graph) := hm_entry_or (rm_all_domains self) v_domain pg_new in
 (let self := (set_rm_all_domains self m1) in
 (let '(m3, v_inner2) := hm_entry_or (rm_all_domains_indices self) v_domain hm_new in
 (let self := (set_rm_all_domains_indices self m3) in
 (match hm_get v_inner2 v_name with
 | Some occ4 => (LReturn (self, occ4))
 | None => (let '(g5, r6) := pg_add_node v_graph v_name in
 (let v_graph := g5 in
 (let self := (set_rm_all_domains self (hm_insert (rm_all_domains self) v_domain v_graph)) in
 (let v_new_role_id := r6 in
 (let v_inner2 := (hm_insert v_inner2 v_name v_new_role_id) in
 (let self := (set_rm_all_domains_indices self (hm_insert (rm_all_domains_indices self) v_domain v_inner2)) in
 (match (rm_role_matching_fn self) with
 | Some v_role_matching_fn => (let v_added := false in
 (match (rs_iter_filter_opt (fun v_i => (match (pg_node_weight v_graph v_i) with Some o7 => (Some (negb (rs_eq o7 v_name))) | None => None end)) (pg_node_indices v_graph)) with Some o8 => (let v_node_ids := o8 in
 (match rs_for (fun v_existing_role_id '(self, v_added, v_graph) =>
 (match (gen_link_if_matches v_graph v_role_matching_fn v_new_role_id v_existing_role_id) with
 | Some (s9, r10) => (let v_graph := s9 in
 (let self := (set_rm_all_domains self (hm_insert (rm_all_domains self) v_domain v_graph)) in
 (let v_added := (v_added || r10) in
 (match (gen_link_if_matches v_graph v_role_matching_fn v_existing_role_id v_new_role_id) with
 | Some (s11, r12) => (let v_graph := s11 in
 (let self := (set_rm_all_domains self (hm_insert (rm_all_domains self) v_domain v_graph)) in
 (let v_added := (v_added || r12) in
 (LNext (self, v_added, v_graph)))))
 | None => LPanic end))))
 | None => LPanic end))
 v_node_ids (self, v_added, v_graph) with
 | Done (self, v_added, v_graph) => (let _ := (if v_added then (* cache.clear() *) tt else tt) in
 (LReturn (self, v_new_role_id)))
 | Returned ret_ => LReturn ret_
 | Panicked => LPanic end)) | None => LPanic end))
 | None => (LReturn (self, v_new_role_id)) end))))))) end)))))).

Definition gen_matched_domains (ord : list text -> list text) (self : rm_state) (v_domain : option text) : list text :=
 (let v_domain := (rs_unwrap_or v_domain gen_DEFAULT_DOMAIN) in
 (match (rm_domain_matching_fn self) with Some v_domain_matching_fn => (rs_iter_filter_map (fun v_key => (if (v_domain_matching_fn v_domain v_key) then (Some v_key) else None)) (hm_keys ord (rm_all_domains self))) | None => (rs_map_or (hm_get (rm_all_domains self) v_domain) [] (fun _ => [v_domain])) end)).

Definition gen_domain_has_role (ord : list text -> list text) (self : rm_state) (v_name : text) (v_domain : option text) : option bool :=
 (let v_matched_domains := (gen_matched_domains ord self v_domain) in
 (rs_iter_any_opt (fun v_domain'1 => (match (match (hm_get (rm_all_domains_indices self) v_domain'1) with Some o2 => (Some (hm_contains_key o2 v_name)) | None => None end) with Some true => (Some true) | Some false => (match (rm_role_matching_fn self) with Some v_role_matching_fn => (match (hm_get (rm_all_domains self) v_domain'1) with Some v_graph => (Some (rs_iter_any (fun v_role => (v_role_matching_fn v_name v_role)) (pg_node_weights v_graph))) | None => None end) | None => (Some false) end) | None => None end)) v_matched_domains)).

Definition gen_clear (self : rm_state) : option rm_state :=
 rs_fn (R := rm_state) (let self := (set_rm_all_domains_indices self hm_new) in
 (let self := (set_rm_all_domains self hm_new) in
 (* cache.clear() *) (LReturn self))).

Definition gen_add_link (self : rm_state) (v_name1 : text) (v_name2 : text) (v_domain : option text) : option rm_state :=
 rs_fn (R := rm_state) (if (rs_eq v_name1 v_name2)
 then (LReturn self)
 else (match (gen_get_or_create_role self v_name1 v_domain) with
 | Some (s1, r2) => (let self := s1 in
 (let v_role1 := r2 in
 (match (gen_get_or_create_role self v_name2 v_domain) with
 | Some (s3, r4) => (let self := s3 in
 (let v_role2 := r4 in
 (let key5 := (rs_unwrap_or v_domain gen_DEFAULT_DOMAIN) in
 (match hm_get (rm_all_domains self) key5 with
 | Some v_graph => (match (match (pg_find_edge v_graph v_role1 v_role2) with Some v_edge => (match (match (pg_edge_weight v_graph v_edge) with Some o6 => (Some (ek_is o6 KLink)) | None => None end) with Some o7 => (Some (negb o7)) | None => None end) | None => (Some true) end) with Some o8 => (let v_add_link := o8 in
 (if v_add_link
 then (match pg_add_edge v_graph v_role1 v_role2 KLink with
 | Some (g9, r10) => (let v_graph := g9 in
 (let self := (set_rm_all_domains self (hm_insert (rm_all_domains self) key5 v_graph)) in
 (* cache.clear() *) (LReturn self)))
 | None => LPanic end)
 else (LReturn self))) | None => LPanic end)
 | None => LPanic end))))
 | None => LPanic end)))
 | None => LPanic end)).

Definition gen_matching_fn (self : rm_state) (v_role_matching_fn : option mfun) (v_domain_matching_fn : option mfun) : option rm_state :=
 rs_fn (R := rm_state) (let self := (set_rm_domain_matching_fn self v_domain_matching_fn) in
 (let self := (set_rm_role_matching_fn self v_role_matching_fn) in
 (LReturn self))).

Definition gen_delete_link (ord : list text -> list text) (self : rm_state) (v_name1 : text) (v_name2 : text) (v_domain : option text) : option (rm_state * (rs_result unit rbac_error)) :=
 rs_fn (R := rm_state * (rs_result unit rbac_error)) (if (rs_eq v_name1 v_name2)
 then (LReturn (self, (ROk tt)))
 else (match (match (match (gen_domain_has_role ord self v_name1 v_domain) with Some o1 => (Some (negb o1)) | None => None end) with Some true => (Some true) | Some false => (match (gen_domain_has_role ord self v_name2 v_domain) with Some o2 => (Some (negb o2)) | None => None end) | None => None end) with Some o3 => (if o3
 then (LReturn (self, (RErr (RbacNotFound (v_name1 ++ (T " OR ") ++ v_name2)))))
 else (match (gen_get_or_create_role self v_name1 v_domain) with
 | Some (s4, r5) => (let self := s4 in
 (let v_role1 := r5 in
 (match (gen_get_or_create_role self v_name2 v_domain) with
 | Some (s6, r7) => (let self := s6 in
 (let v_role2 := r7 in
 (let key8 := (rs_unwrap_or v_domain gen_DEFAULT_DOMAIN) in
 (match hm_get (rm_all_domains self) key8 with
 | Some v_graph => (match (pg_find_edge v_graph v_role1 v_role2) with
 | Some v_edge_index => (let '(g9, r10) := pg_remove_edge v_graph v_edge_index in
 (let v_graph := g9 in
 (let self := (set_rm_all_domains self (hm_insert (rm_all_domains self) key8 v_graph)) in
 (match r10 with Some u11 => (* cache.clear() *) (LReturn (self, (ROk tt))) | None => LPanic end))))
 | None => (LReturn (self, (ROk tt))) end)
 | None => LPanic end))))
 | None => LPanic end)))
 | None => LPanic end)) | None => LPanic end)).

Definition gen_bfs_iterator (v_graph : mgraph) (v_node : node_index) (v_with_matches : bool) : list node_index :=
 (let v_outgoing_direct_edge := (rs_iter_filter_map (fun v_edge => (match (er_weight v_edge) with KLink => (Some (er_target v_edge)) | KMatch => None end)) (pg_edges_directed v_graph v_node Outgoing)) in
 (if (negb v_with_matches) then v_outgoing_direct_edge else (let v_outgoing_match_edge := (rs_iter_flat_map (fun v_edge => (rs_iter_filter_map (fun v_edge'1 => (match (er_weight v_edge'1) with KLink => None | KMatch => (Some (er_target v_edge'1)) end)) (pg_edges_directed v_graph (er_target v_edge) Outgoing))) (rs_iter_filter (fun v_edge => (ek_is (er_weight v_edge) KLink)) (pg_edges_directed v_graph v_node Outgoing))) in
 (let v_sibling_matched_by := (rs_iter_flat_map (fun v_edge => (rs_iter_filter_map (fun v_edge'2 => (match (er_weight v_edge'2) with KLink => (Some (er_target v_edge'2)) | KMatch => None end)) (pg_edges_directed v_graph (er_source v_edge) Outgoing))) (rs_iter_filter (fun v_edge => (ek_is (er_weight v_edge) KMatch)) (pg_edges_directed v_graph v_node Incoming))) in
 (rs_iter_chain (rs_iter_chain v_outgoing_direct_edge v_outgoing_match_edge) v_sibling_matched_by))))).

Definition gen_bfs_new (v_graph : mgraph) (v_start : node_index) (v_max_depth : nat) (v_with_pattern_matching : bool) : option bfs_state :=
 rs_fn (R := bfs_state) (let v_discovered := (pg_visit_map v_graph) in
 (match vm_visit v_discovered v_start with
 | Some (g1, r2) => (let v_discovered := g1 in
 (let v_queue := dq_new in
 (let v_queue := (dq_push_front v_queue v_start) in
 (LReturn {| bfs_queue := v_queue; bfs_discovered := v_discovered; bfs_max_depth := v_max_depth; bfs_with_pattern_matching := v_with_pattern_matching; bfs_depth := 0; bfs_depth_elements_remaining := 1 |}))))
 | None => LPanic end)).

Definition gen_bfs_update_depth (self : bfs_state) : option bfs_state :=
 rs_fn (R := bfs_state) (match rs_usize_sub (bfs_depth_elements_remaining self) 1 with
 | Some d1 => (let self := (set_bfs_depth_elements_remaining self d1) in
 (if (Nat.eqb (bfs_depth_elements_remaining self) 0)
 then (let self := (set_bfs_depth self ((bfs_depth self) + 1)) in
 (LReturn self))
 else (LReturn self)))
 | None => LPanic end).

Definition gen_bfs_next (self : bfs_state) (v_graph : mgraph) : option (bfs_state * (option node_index)) :=
 rs_fn (R := bfs_state * (option node_index)) (if (Nat.leb (bfs_max_depth self) (bfs_depth self))
 then (LReturn (self, None))
 else (let '(g1, r2) := dq_pop_front (bfs_queue self) in
 (let self := (set_bfs_queue self g1) in
 (match r2 with
 | Some v_node => (match (gen_bfs_update_depth self) with
 | Some s3 => (let self := s3 in
 (let v_counter := 0 in
 (match rs_for (fun v_succ '(self, v_counter) =>
 (match vm_visit (bfs_discovered self) v_succ with
 | Some (g5, r6) => (let self := (set_bfs_discovered self g5) in
 (let '(self, v_counter) := (if r6 then (let self := (set_bfs_queue self (dq_push_back (bfs_queue self) v_succ)) in
 (let v_counter := (v_counter + 1) in
 (self, v_counter))) else (self, v_counter)) in
 (LNext (self, v_counter))))
 | None => LPanic end))
 (gen_bfs_iterator v_graph v_node (bfs_with_pattern_matching self)) (self, v_counter) with
 | Done (self, v_counter) => (let self := (set_bfs_depth_elements_remaining self ((bfs_depth_elements_remaining self) + v_counter)) in
 (LReturn (self, (Some v_node))))
 | Returned ret_ => LReturn ret_
 | Panicked => LPanic end)))
 | None => LPanic end)
 | None => (LReturn (self, None)) end)))).

Definition gen_has_link (ord : list text -> list text) (fuel : nat) (self : rm_state) (v_name1 : text) (v_name2 : text) (v_domain : option text) : option bool :=
 rs_fn (R := bool) (if (rs_eq v_name1 v_name2)
 then (LReturn true)
 else (* let cache_key = hash(name1, name2, domain) *) (* if let Some(res) = cache.get(cache_key) { return res; } *) (let v_matched_domains := (gen_matched_domains ord self v_domain) in
 (let v_res := false in
 (match rs_for (fun v_domain'1 v_res =>
 (match (hm_get (rm_all_domains self) v_domain'1) with Some o2 => (let v_graph := o2 in
 (match (hm_get (rm_all_domains_indices self) v_domain'1) with Some o3 => (let v_indices := o3 in
 (match (match (hm_get v_indices v_name1) with Some v_role1 => (Some (Some v_role1)) | None => (rs_iter_find_opt (fun v_i => (match (pg_node_weight v_graph v_i) with Some v_role_name => (Some ((rs_eq v_role_name v_name1) || (rs_unwrap_or (rs_opt_map (fun v_f => (v_f v_name1 v_role_name)) (rm_role_matching_fn self)) false))) | None => None end)) (pg_node_indices v_graph)) end) with Some o4 => (let v_role1 := o4 in
 (match v_role1 with
 | Some v_role1'5 => (let v_role1'6 := v_role1'5 in
 (match (gen_bfs_new v_graph v_role1'6 (rm_max_hierarchy_level self) (rs_is_some (rm_role_matching_fn self))) with Some o7 => (let v_bfs := o7 in
 (match rs_while_some fuel (fun '(v_bfs, v_res) =>
 (match (gen_bfs_next v_bfs v_graph) with
 | Some (s8, r9) => (let v_bfs := s8 in
 Some ((v_bfs, v_res), r9))
 | None => None end))
 (fun v_node '(v_bfs, v_res) =>
 (match (pg_node_weight v_graph v_node) with Some o10 => (let v_role_name := o10 in
 (if ((rs_eq v_role_name v_name2) || (rs_unwrap_or (rs_opt_map (fun v_f => (v_f v_role_name v_name2)) (rm_role_matching_fn self)) false))
 then (let v_res := true in
 (LBreak (v_bfs, v_res)))
 else (LNext (v_bfs, v_res)))) | None => LPanic end))
 (v_bfs, v_res) with
 | Done (v_bfs, v_res) => (LNext v_res)
 | Returned ret_ => LReturn ret_
 | Panicked => LPanic end)) | None => LPanic end))
 | None => (LNext v_res) end)) | None => LPanic end)) | None => LPanic end)) | None => LPanic end))
 v_matched_domains v_res with
 | Done v_res => (* cache.set(cache_key, res) *) (LReturn v_res)
 | Returned ret_ => LReturn ret_
 | Panicked => LPanic end)))).

Definition gen_get_roles (ord : list text -> list text) (self : rm_state) (v_name : text) (v_domain : option text) : option (list text) :=
 (let v_matched_domains := (gen_matched_domains ord self v_domain) in
 (match (rs_fold (fun v_domain'1 v_set =>
 (match (hm_get (rm_all_domains self) v_domain'1) with Some o2 => (let v_graph := o2 in
 (match (rs_iter_find_opt (fun v_i => (match (match (pg_node_weight v_graph v_i) with Some o3 => (Some (rs_eq o3 v_name)) | None => None end) with Some true => (Some true) | Some false => (match (pg_node_weight v_graph v_i) with Some o4 => (Some ((rs_unwrap_or (rm_role_matching_fn self) (fun _ _ => false)) v_name o4)) | None => None end) | None => None end)) (pg_node_indices v_graph)) with Some o5 => (match o5 with
 | Some v_role_node => (match (rs_iter_map_opt (fun v_i => (pg_node_weight v_graph v_i)) (gen_bfs_iterator v_graph v_role_node (rs_is_some (rm_role_matching_fn self)))) with Some o6 => (let v_neighbors := o6 in
 (let v_set := (hs_extend v_set v_neighbors) in
 (LNext v_set))) | None => LPanic end)
 | None => (LNext v_set) end) | None => LPanic end)) | None => LPanic end))
 v_matched_domains hs_new) with Some v_res => (Some (hs_to_vec ord v_res)) | None => None end)).

Definition gen_get_users (ord : list text -> list text) (self : rm_state) (v_name : text) (v_domain : option text) : option (list text) :=
 (let v_matched_domains := (gen_matched_domains ord self v_domain) in
 (match (rs_fold (fun v_domain'1 v_set =>
 (match (hm_get (rm_all_domains self) v_domain'1) with Some o2 => (let v_graph := o2 in
 (match (rs_iter_find_opt (fun v_i => (match (match (pg_node_weight v_graph v_i) with Some o3 => (Some (rs_eq o3 v_name)) | None => None end) with Some true => (Some true) | Some false => (match (rs_opt_map_opt (fun v_f => (match (pg_node_weight v_graph v_i) with Some o4 => (Some (v_f v_name o4)) | None => None end)) (rm_role_matching_fn self)) with Some o5 => (Some (rs_unwrap_or o5 false)) | None => None end) | None => None end)) (pg_node_indices v_graph)) with Some o6 => (match o6 with
 | Some v_role_node => (match (rs_iter_map_opt (fun v_i => (pg_node_weight v_graph v_i)) (pg_neighbors_directed v_graph v_role_node Incoming)) with Some o7 => (let v_neighbors := o7 in
 (let v_set := (hs_extend v_set v_neighbors) in
 (LNext v_set))) | None => LPanic end)
 | None => (LNext v_set) end) | None => LPanic end)) | None => LPanic end))
 v_matched_domains hs_new) with Some v_res => (Some (hs_to_vec ord v_res)) | None => None end)).

Definition gen_rm_translated : bool := true.
