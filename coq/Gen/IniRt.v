(* HAND-WRITTEN (TRUSTED) Gallina counterparts of the std / tokio / hashlink
   operations used by the model-text reader - src/config.rs, the loading half of
   src/model/default_model.rs and Model::to_text - that tools/rs2coq_ini.py translates (part 12:
   Gen/IniGen.v).  Definitions only; the facts about them are in Proofs/IniRtP.v
   and the obligations that tie the translated functions to the model
   (Model/Ini.v) in PinChecks/PcIniGen.v.  Same conventions as Gen/RustStr.v,
   Gen/RustVec.v, Gen/RustIter.v (whose `flow`, `rs_fn`, `rs_result`, Option
   and iterator adaptors are reused) and Gen/Petgraph.v (`hashmap`):
   `String`/`&str`/`&[u8]` is `text` (the UTF-8 bytes), `usize`/`u64` is `nat`
   (unbounded: an overflow of `i += 1` at 2^64 is outside the model), `.clone()`
   `.to_owned()` `.to_string()` (on strings) `.as_str()` `.as_ref()`
   `.as_bytes()` `.into()` `&` `*` `.await` (single-threaded semantics)
   `String::from` `Arc::new` `RwLock::new` `.collect()` are the identity.

   Like the other Rt files the operations restate what the std documentation
   says and are NOT defined through the model's helpers (trim, span_not,
   split_commas, ini_lines, cfg_set, ...), so that the equations of
   PcIniGen.v have content.  Three operations are taken from the model, as the
   task allows: `escape_assertion` (Model/PathMatch.v, regex based: part 14),
   the Regex::replace of to_text (Model/Ini.v untoken, regex based: part 14) and
   `u64::to_string` (Model/Expr.v print_Z: the decimal printer).

   Characters.  A `char` LITERAL in the source must be ASCII and is one byte
   (`ascii`); an ASCII byte never occurs inside a multi-byte UTF-8 sequence, so
   "byte equal to c" is "char equal to c".  A `char` VALUE taken from a string
   (the argument of the closure of `trim_end_matches`) is the `text` of its
   UTF-8 encoding (`uchar`). *)
From CV Require Import Model.Base Model.Expr Model.PathMatch Model.Csv Model.Ini.
From CV Require Import Gen.RustStr Gen.RustVec Gen.RustIter Gen.Petgraph.

(* ------------------------------------------------------------- characters *)
Definition uchar := text.
Definition byte (n : nat) : ascii := ascii_of_nat n.
(* UTF-8 continuation byte 10xxxxxx *)
Definition rs_is_cont (c : ascii) : bool :=
  let n := nat_of_ascii c in Nat.leb 128 n && Nat.ltb n 192.
(* s.chars(), every char as its UTF-8 encoding: a new char starts at every byte
   that is not a continuation byte (Rust strings are valid UTF-8) *)
Fixpoint rs_chars (s : text) : list uchar :=
  match s with
  | [] => []
  | c :: r =>
    let rest := rs_chars r in
    match r, rest with
    | d :: _, g :: gs => if rs_is_cont d then (c :: g) :: gs else [c] :: rest
    | _, _ => [c] :: rest
    end
  end.
(* the code points with the Unicode property White_Space that are not ASCII:
   U+0085 U+00A0 U+1680 U+2000..U+200A U+2028 U+2029 U+202F U+205F U+3000 *)
Definition rs_unicode_ws : list uchar :=
  [ [byte 194; byte 133]; [byte 194; byte 160]; [byte 225; byte 154; byte 128];
    [byte 226; byte 128; byte 128]; [byte 226; byte 128; byte 129]; [byte 226; byte 128; byte 130];
    [byte 226; byte 128; byte 131]; [byte 226; byte 128; byte 132]; [byte 226; byte 128; byte 133];
    [byte 226; byte 128; byte 134]; [byte 226; byte 128; byte 135]; [byte 226; byte 128; byte 136];
    [byte 226; byte 128; byte 137]; [byte 226; byte 128; byte 138]; [byte 226; byte 128; byte 168];
    [byte 226; byte 128; byte 169]; [byte 226; byte 128; byte 175]; [byte 226; byte 129; byte 159];
    [byte 227; byte 128; byte 128] ].
(* char::is_whitespace(c): U+0009..U+000D, U+0020 and the list above *)
Definition rs_char_is_whitespace (c : uchar) : bool :=
  match c with
  | [x] => let n := nat_of_ascii x in (Nat.leb 9 n && Nat.leb n 13) || Nat.eqb n 32
  | _ => existsb (rs_eq c) rs_unicode_ws
  end.
(* char::to_string(&c) *)
Definition rs_char_to_string (c : uchar) : text := c.

(* ---------------------------------------------------------------- strings *)
Fixpoint rs_drop_while {A} (p : A -> bool) (l : list A) : list A :=
  match l with
  | [] => []
  | x :: r => if p x then rs_drop_while p r else l
  end.
(* s.trim_start_matches(p) / s.trim_end_matches(p) for a closure p on chars:
   "all prefixes / suffixes that match the pattern repeatedly removed" *)
Definition rs_str_trim_start_matches (p : uchar -> bool) (s : text) : text :=
  concat (rs_drop_while p (rs_chars s)).
Definition rs_str_trim_end_matches (p : uchar -> bool) (s : text) : text :=
  concat (rev (rs_drop_while p (rev (rs_chars s)))).
(* s.trim_end() / s.trim(): leading / trailing chars with White_Space removed *)
Definition rs_str_trim_end (s : text) : text := rs_str_trim_end_matches rs_char_is_whitespace s.
Definition rs_str_trim (s : text) : text :=
  rs_str_trim_end_matches rs_char_is_whitespace (rs_str_trim_start_matches rs_char_is_whitespace s).
(* s.len(): the number of bytes *)
Definition rs_str_len (s : text) : nat := length s.
(* s.is_char_boundary(i): "the start and end of the string are boundaries";
   otherwise the byte at i is not a continuation byte *)
Definition rs_is_char_boundary (s : text) (i : nat) : bool :=
  Nat.eqb i 0 || Nat.eqb i (length s) ||
  match nth_error s i with Some c => negb (rs_is_cont c) | None => false end.
(* &s[a..b]: "Panics if begin or end does not point to the starting byte offset
   of a character, if begin > end, or if end > len"; None = the panic.
   &s[..b] is rs_str_slice s 0 b *)
Definition rs_str_slice (s : text) (a b : nat) : option text :=
  if Nat.leb a b && Nat.leb b (length s) && rs_is_char_boundary s a && rs_is_char_boundary s b
  then Some (firstn (b - a) (skipn a s)) else None.
(* s.starts_with(c) / s.ends_with(c) for an ASCII char c *)
Definition rs_starts_with_char (s : text) (c : ascii) : bool :=
  match s with d :: _ => Ascii.eqb d c | [] => false end.
Definition rs_ends_with_char (s : text) (c : ascii) : bool :=
  match rev s with d :: _ => Ascii.eqb d c | [] => false end.
(* s.ends_with(p) for a string p: the last |p| bytes of s are p
   (s.starts_with(p) is RustStr.rs_starts_with) *)
Definition rs_ends_with (s p : text) : bool := rs_starts_with (rev s) (rev p).
(* s.push_str(t) *)
Definition rs_push_str (s t : text) : text := s ++ t.
(* s.split(c) for an ASCII char c: the pieces between the occurrences of c
   (one piece more than occurrences) *)
Fixpoint rs_split_char (s : text) (c : ascii) : list text :=
  match s with
  | [] => [[]]
  | d :: r =>
    if Ascii.eqb d c then [] :: rs_split_char r c
    else match rs_split_char r c with
         | h :: t => (d :: h) :: t
         | [] => [[d]]
         end
  end.
(* s.splitn(n, c): "at most n items"; the last item is the rest of the string *)
Fixpoint rs_splitn_char (s : text) (n : nat) (c : ascii) : list text :=
  match n with
  | 0 => []
  | S n' =>
    match n' with
    | 0 => [s]
    | S _ =>
      match rs_find_char c s with
      | Some i => firstn i s :: rs_splitn_char (skipn (S i) s) n' c
      | None => [s]
      end
    end
  end.
(* s.split(p) for a non-empty string p: leftmost non-overlapping occurrences.
   `skip` = the bytes of the separator found last that are still to be dropped *)
Fixpoint rs_split_str_go (p : text) (skip : nat) (s : text) : list text :=
  match s with
  | [] => [[]]
  | d :: r =>
    match skip with
    | S k => rs_split_str_go p k r
    | 0 =>
      if rs_starts_with s p then [] :: rs_split_str_go p (length p - 1) r
      else match rs_split_str_go p 0 r with
           | h :: t => (d :: h) :: t
           | [] => [[d]]
           end
    end
  end.
Definition rs_split_str (s p : text) : list text := rs_split_str_go p 0 s.
(* s.to_lowercase().  EXACT ON ASCII TEXT ONLY: A-Z become a-z, every other byte
   is kept.  (The Unicode lower-casing of non-ASCII letters is not restated; the
   obligations about `get` assume an ASCII key, which is what load_assertion
   builds.) *)
Definition rs_lower_byte (c : ascii) : ascii :=
  let n := nat_of_ascii c in if Nat.leb 65 n && Nat.leb n 90 then ascii_of_nat (n + 32) else c.
Definition rs_to_lowercase (s : text) : text := map rs_lower_byte s.
(* i.to_string() for a u64: decimal digits (the model's printer; exact below 10^20 > 2^64) *)
Definition rs_u64_to_string (n : nat) : text := print_Z (Z.of_nat n).
(* util::escape_assertion (regex based; modelled in Model/PathMatch.v) *)
Definition rs_escape_assertion (s : text) : text := escape_assertion s.

(* ---------------------------------------------------------------- Option *)
(* o.and_then(f) *)
Definition rs_and_then {A B} (o : option A) (f : A -> option B) : option B :=
  match o with Some x => f x | None => None end.

(* ------------------------------------------------------------------ Vec *)
Definition rs_vec_len {A} (v : list A) : nat := length v.

(* ------------------------------------ BufReader<Cursor<&[u8]>> and errors *)
(* the reader is the text that is still to be read *)
Definition reader := text.
Definition rs_cursor_new (bytes : text) : text := bytes.
Definition rs_bufreader_new (cursor : text) : reader := cursor.
(* the crate's Error, as far as these functions build it:
   io::Error::new(ErrorKind::Other, msg).into()  and  ModelError::Other(msg).into() *)
Inductive io_error_kind := IoOther.
Inductive ini_error := IniIoError (k : io_error_kind) (msg : text) | IniModelOther (msg : text).
(* the line up to and including the first '\n' (or the whole rest) *)
Fixpoint rs_take_line (s : text) : text * text :=
  match s with
  | [] => ([], [])
  | c :: r => if Ascii.eqb c (byte 10) then ([c], r)
              else let (l, r') := rs_take_line r in (c :: l, r')
  end.
(* reader.read_line(&mut buf): "read all bytes until a newline (the 0xA byte) is
   reached, and append them to the provided buffer [including the delimiter].
   If successful, this function will return the total number of bytes read;
   [Ok(0) =] EOF".  The error cases (I/O error, invalid UTF-8) cannot occur on
   a cursor over the bytes of a &str.  Result: the reader afterwards, the
   buffer afterwards, the returned value. *)
Definition rs_read_line (rd : reader) (buf : text) : reader * text * rs_result nat ini_error :=
  let (l, rest) := rs_take_line rd in (rest, buf ++ l, ROk (length l)).

(* --------------------------------------------------------- loops with fuel *)
(* loop { body } and while cond { body } over the loop-carried locals s.
   Gallina needs a bound on the number of iterations: `Panicked` also stands for
   "not finished within `fuel` iterations"; the obligations show that the
   translated functions return `Some _` for every sufficiently large fuel. *)
Fixpoint rs_loop {S R} (fuel : nat) (body : S -> flow S R) (s : S) : loop_result S R :=
  match fuel with
  | 0 => Panicked
  | S fuel' =>
    match body s with
    | LNext s' => rs_loop fuel' body s'
    | LBreak s' => Done s'
    | LReturn r => Returned r
    | LPanic => Panicked
    end
  end.
Fixpoint rs_while {S R} (fuel : nat) (cond : S -> bool) (body : S -> flow S R) (s : S) : loop_result S R :=
  match fuel with
  | 0 => Panicked
  | S fuel' =>
    if cond s then
      match body s with
      | LNext s' => rs_while fuel' cond body s'
      | LBreak s' => Done s'
      | LReturn r => Returned r
      | LPanic => Panicked
      end
    else Done s
  end.

(* ------------------------------------------- LinkedHashMap<String, V> etc. *)
(* the list of the entries in insertion order.  hashlink 0.9 LinkedHashMap::insert:
   "Inserts the given key / value pair at the *back* of the internal linked
   list" - an existing entry with that key is moved to the back (to_back) and
   gets the new value *)
Definition lhm (V : Type) := list (text * V).
Definition lhm_new {V} : lhm V := [].
Definition lhm_insert {V} (m : lhm V) (k : text) (v : V) : lhm V :=
  filter (fun kv => negb (rs_eq (fst kv) k)) m ++ [(k, v)].
Definition lhm_get {V} (m : lhm V) (k : text) : option V := hm_get m k.
(* Arc<RwLock<dyn RoleManager>> as built by Assertion::default():
   Arc::new(RwLock::new(DefaultRoleManager::new(n))) - a fresh manager *)
Inductive rm_handle := RmFresh (max_hierarchy_level : nat).

(* ------------------------------------------------ Model::to_text (part 12, target 3) *)
(* s.contains(p) for a string p *)
Fixpoint rs_contains_str (s p : text) : bool :=
  rs_starts_with s p || match s with [] => false | _ :: r => rs_contains_str r p end.
(* s.replace(from, to): "Replaces all matches of a pattern with another string" - the leftmost
   non-overlapping occurrences; the empty pattern matches at every char boundary.
   `skip` = the bytes of the occurrence found last that are still to be dropped *)
Fixpoint rs_replace_go (from to : text) (skip : nat) (s : text) : text :=
  match s with
  | [] => []
  | d :: r =>
    match skip with
    | S k => rs_replace_go from to k r
    | 0 => if rs_starts_with s from then to ++ rs_replace_go from to (length from - 1) r
           else d :: rs_replace_go from to 0 r
    end
  end.
Definition rs_str_replace (s from to : text) : text :=
  match from with
  | [] => to ++ concat (map (fun ch => ch ++ to) (rs_chars s))
  | _ :: _ => rs_replace_go from to 0 s
  end.
(* regex.replace(s, dollar-group-1 followed by a dot) for the regular expression
   [start] ( [rp] digit* ) underscore   (the regex crate is part 14's job: the
   model's restatement Ini.untoken - a leading r or p, digits, underscore: the underscore becomes a dot) *)
Definition rs_regex_token_dot (re : unit) (s : text) : text := Ini.untoken s.
(* LinkedHashMap: .values() and `for (k, v) in &map` go through the entries in insertion order *)
Definition lhm_values {V} (m : lhm V) : list V := map snd m.
Definition lhm_iter {V} (m : lhm V) : list (text * V) := m.
(* `for (k, v) in &map` on a HashMap<String, String>: every entry once, in an unspecified order `ord` *)
Definition hm_iter (ord : list (text * text) -> list (text * text)) (m : hashmap text) : list (text * text) := ord m.
(* a join point of the translation (no Rust counterpart): `k` = what follows a statement with several
   paths that fall through, bound once; `body` = the statement, calling k at the end of each such path *)
Definition rs_join {A B} (k : A) (body : A -> B) : B := body k.
