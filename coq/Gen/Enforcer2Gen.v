(* GENERATED on every run by tools/rs2coq_enf2.py (rs2coq part 15) from /repo/src/enforcer.rs
   (impl EventEmitter<Event> for Enforcer, EnforceContext::new, Enforcer::register_g_functions with the macro
   register_g_function! of /repo/src/macros.rs expanded, and of impl CoreApi for Enforcer: new_raw, new, enforce,
   enforce_with_context, enforce_mut, build_incremental_role_links) and /repo/src/emitter.rs
   (notify_logger_and_watcher, clear_cache); cfg resolved for the features cached, !explain, !glob, incremental, !ip, !logging, !runtime-async-std, runtime-tokio, watcher - do not edit.
   x : renf is the Rust-level enforcer (Gen/Enforcer2Rt.v), c : cstate the cached enforcer. *)
From CV Require Import Model.Base Model.Expr Model.Enforce Model.Engine Model.Cached.
From CV Require Import Gen.RustStr Gen.RustVec Gen.InternalPrims Gen.EnforcerPrims Gen.EnforcerGen Gen.EnforceGen.
From CV Require Import Gen.LinksPrims Gen.LinksGen Gen.CachedRt Gen.Enforcer2Rt.

(* compiled out: # [ cfg ( feature = "logging" ) ] *)
Definition gen_emitter_notify_logger_and_watcher (x : renf) (v_d : evdata) : renf :=
  let x :=
  (match (r_watcher x) with
    | Some v_w =>
      let v_w := watcher_update v_w v_d in
      let x := rset_watcher x ((Some v_w)) in
      x
    | None =>
      x
    end) in
  x.

(* cb(self, d) for cb : fn(&mut Enforcer, EventData) *)
Definition gen_enf_call_callback (cb : callback) (x : renf) (d : evdata) : renf :=
  match cb with
  | CbNotify => gen_emitter_notify_logger_and_watcher x d
  end.

(* compiled out: # [ cfg ( feature = "logging" ) ] *)
Definition gen_emitter_clear_cache (c : cstate) (v_d : evdata) : cstate :=
  let c := cg_clear c in
  c.

Definition gen_enf_on (x : renf) (v_e : evkind) (v_f : callback) : renf :=
  let ent_1 := hm_get_or evkind_eqb (r_events x) v_e rs_vec_new in
  let x := rset_events x (hm_insert evkind_eqb (r_events x) v_e ent_1) in
  let ent_1 := rs_push ent_1 v_f in
  let x := rset_events x (hm_insert evkind_eqb (r_events x) v_e ent_1) in
  x.

Definition gen_enf_off (x : renf) (v_e : evkind) : renf :=
  let x := rset_events x (hm_remove evkind_eqb (r_events x) v_e) in
  x.

Definition gen_enf_emit (x : renf) (v_e : evkind) (v_d : evdata) : renf :=
  let x :=
  (match (hm_get evkind_eqb (r_events x) v_e) with
    | Some v_cbs =>
      let x := rs_for_each (fun v_cb x =>
        let x := gen_enf_call_callback v_cb x v_d in
        x)
      v_cbs x in
      x
    | None =>
      x
    end) in
  x.

Definition gen_ctx_new (v_suffix : text) : cgctx :=
  {| x_r := (rs_format1 (T "r") (T "") v_suffix);
  x_p := (rs_format1 (T "p") (T "") v_suffix);
  x_e := (rs_format1 (T "e") (T "") v_suffix);
  x_m := (rs_format1 (T "m") (T "") v_suffix) |}.

Definition gen_enf_register_g_functions (x : renf) : renf * outcome bool :=
  match (match (rs_map_get (d_model (r_model x)) (T "g")) with
      | Some v_ast_map =>
        match rs_for (fun '(v_fname, v_ast) x =>
            let v_rm := rm_handle_cur in
            let v_count := (rs_count_char "_"%char (a_value v_ast)) in
            match (if (Nat.eqb v_count 2) then
                let x := rset_engine x (eng_register_fn (r_engine x) v_fname 2 (FnLink v_rm)) in
                (x, Next tt)
                else
                (if (Nat.eqb v_count 3) then
                  let x := rset_engine x (eng_register_fn (r_engine x) v_fname 3 (FnLink v_rm)) in
                  (x, Next tt)
                  else
                  (x, Exit (Err EModel)))) with
            | (x, Exit o_2) => LReturn (x, o_2)
            | (x, Next _) =>
              LNext x
            end)
          v_ast_map x with
        | Done x =>
          (x, Next tt)
        | Returned r_3 => (fst r_3, Exit (snd r_3))
        | Panicked => (x, Exit Panic)
        end
      | None =>
        (x, Next tt)
      end) with
  | (x, Exit o_4) => (x, o_4)
  | (x, Next _) =>
    let x := rs_for_each (fun '(v_key, v_func) x =>
      let x := rset_engine x (eng_register_function (r_engine x) v_key v_func) in
      x)
    (fm_get_functions (r_fm x)) x in
    (x, (Ok true))
  end.

Definition gen_enf_build_incremental_role_links (x : renf) (v_d : evdata) : renf * outcome bool :=
  match LinksGen.gen_model_build_incremental_role_links rm_handle_cur v_d (d_model (r_model x)) (fst (r_rm x)) with
  | Some (md_1, rm_2, le_3) =>
    let x := rset_links x md_1 rm_2 in
    match le_3 with
    | LOk =>
      (x, (Ok true))
    | LErr e_4 => (x, (Err e_4))
    end
  | None => (x, Panic)
  end.

(* compiled out: # [ cfg ( feature = "logging" ) ] *)
Definition gen_enf_enforce (ptab : text -> option expr) (x : renf) (v_rvals : list value) : outcome bool :=
  let v_rvals := v_rvals in
  match (EnforceGen.gen_private_enforce ptab (r_enabled x) (d_model (r_model x)) (d_mexprs (r_model x)) (abs_fs x) v_rvals) with
  | Ok r_1 =>
    let v_authorized := r_1 in
    let v_indices := tt in
    (Ok v_authorized)
  | Err e_2 =>
    (Err e_2)
  | Panic => Panic
  end.

(* compiled out: # [ cfg ( feature = "logging" ) ] *)
Definition gen_enf_enforce_with_context (ptab : text -> option expr) (x : renf) (v_ctx : cgctx) (v_rvals : list value) : outcome bool :=
  let v_rvals := v_rvals in
  match (EnforceGen.gen_private_enforce_with_context ptab (r_enabled x) (d_model (r_model x)) (d_mexprs (r_model x)) (abs_fs x) (x_r v_ctx) (x_p v_ctx) (x_e v_ctx) (x_m v_ctx) v_rvals) with
  | Ok r_1 =>
    let v_authorized := r_1 in
    let v_indices := tt in
    (Ok v_authorized)
  | Err e_2 =>
    (Err e_2)
  | Panic => Panic
  end.

Definition gen_enf_enforce_mut (ptab : text -> option expr) (x : renf) (v_rvals : list value) : renf * outcome bool :=
  (x, (gen_enf_enforce ptab x v_rvals)).

(* compiled out: # [ cfg ( feature = "logging" ) ] *)
Definition gen_enf_new_raw (v_m : modeldef) (v_a : adapter) : renf * outcome bool :=
  let v_model := v_m in
  let v_adapter := v_a in
  let v_fm := fm_default in
  let v_eft := default_effector in
  let v_rm := (rm_new 10) in
  let v_engine := eng_new_raw in
  let v_engine := eng_register_global_module v_engine casbin_package in
  let v_engine := rs_for_each (fun '(v_key, v_func) v_engine =>
    let v_engine := eng_register_function v_engine v_key v_func in
    v_engine)
  (fm_get_functions v_fm) v_engine in
  let x :=
  {| r_model := v_model;
  r_adapter := v_adapter;
  r_fm := v_fm;
  r_eft := v_eft;
  r_rm := v_rm;
  r_enabled := true;
  r_auto_save := true;
  r_auto_build := true;
  r_auto_notify := true;
  r_watcher := None;
  r_events := hm_new;
  r_engine := v_engine |} in
  let x := gen_enf_on x KPolicyChange CbNotify in
  let (x, r_1) := gen_enf_register_g_functions x in
  match r_1 with
  | Ok _ =>
    (x, (Ok true))
  | Err e_3 =>
    (x, (Err e_3))
  | Panic => (x, Panic)
  end.

Definition gen_enf_new (v_m : modeldef) (v_a : adapter) : renf * outcome bool :=
  let (x, r_1) := gen_enf_new_raw v_m v_a in
  match r_1 with
  | Ok _ =>
    match (if (negb (ad_is_filtered (r_adapter x))) then
        let (x, r_4) := x_core_call x EnforcerGen.gen_load_policy in
        match r_4 with
        | Ok _ =>
          (x, Next tt)
        | Err e_6 =>
          (x, Exit (Err e_6))
        | Panic => (x, Exit Panic)
        end
        else
        (x, Next tt)) with
    | (x, Exit o_7) => (x, o_7)
    | (x, Next _) =>
      (x, (Ok true))
    end
  | Err e_3 =>
    (x, (Err e_3))
  | Panic => (x, Panic)
  end.

(* FunctionMap::default() (src/model/function_map.rs): name, number of ImmutableString parameters;
   each entry calls the function of the same name in snake case on its parameters in order *)
Definition gen_fm_default_table : list (text * nat) :=
  [((T "keyMatch"), 2);
   ((T "keyGet"), 2);
   ((T "keyMatch2"), 2);
   ((T "keyGet2"), 3);
   ((T "keyMatch3"), 2);
   ((T "keyGet3"), 3);
   ((T "keyMatch4"), 2);
   ((T "keyMatch5"), 2);
   ((T "regexMatch"), 2)].

Definition gen_enforcer2_translated : bool := true.
