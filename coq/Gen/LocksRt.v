(* rs2coq part 19, run-time side: the LOCK SKELETON of a Rust function and what
   it means.  tools/rs2coq_locks.py translates every covered function into a
   term of `lk`; this file says which sequences of role-manager instructions
   (Model/Locks.v `instr`, lock RM only) such a term can issue.

   TRUSTED restatements (kept small; each names the Rust behaviour it encodes):

   LHold m b    `X.read()` (m = MR) / `X.write()` (m = MW) on a handle X of type
                Arc<RwLock<dyn RoleManager>> (parking_lot::RwLock::read / write:
                blocks until the lock is granted, returns an RAII guard), the
                guard being alive while b runs.  b is
                  - the rest of the enclosing temporary scope when the guard is a
                    temporary (Rust reference, "temporary scopes": the enclosing
                    statement / let initialiser / `if`-`while` condition / match
                    arm / second operand of && ||; the scrutinee of `if let`,
                    `match`, `while let` and the iterator expression of `for` are
                    NOT such scopes, so their temporaries live across the body),
                  - the rest of the enclosing block up to `drop(g)` when the guard
                    is bound by `let g = X.read();`.
                Drop of the guard = `Rel RM`, and it happens HOWEVER b is left
                (normal end, `break`, `continue`, `return`, `?`): that is the
                RAII rule, encoded once in lk_run (R_hold keeps the outcome).
   LOp i        a call of a `trait RoleManager` method through a live guard:
                i = Read for a `&self` method, Write for a `&mut self` method
                (the receiver kinds are read from src/rbac/role_manager.rs).
   LIf a b      any two-way branch whose condition the skeleton does not
                interpret: if / if let / match arms / && || / `?` (= LIf LExit
                LNop: the error arm returns from the function).
   LLoop b      for / while / while let / loop, and a closure handed to an
                iterator adaptor (std::iter map, flat_map, filter, ... call the
                closure once per element while the iterator is consumed); also
                rhai::Engine::eval_ast_with_scope, which calls the functions
                registered with Engine::register_fn any number of times (b is
                then the choice between the registered closures).
   LExit        `return e` / the error arm of `?`: leaves the enclosing function
                body or closure body (LCall).  LBreak / LCont: `break` / `continue`
                of the innermost loop.
   LCall b      a call of a function (or closure) of the crate whose skeleton is
                b: a `return` inside b ends b only.  `.await` on such a call runs
                it to completion at that point (the skeleton has no suspension;
                a guard alive across the `.await` is an LHold around the LCall).

   Not interpreted: data (which branch, how many iterations); every branch and
   every iteration count is possible in lk_run, so the set of runs of a skeleton
   CONTAINS every execution of the Rust function.  Calls into code outside the
   crate (std, rhai, mini-moka, a user's Adapter / Watcher / event callback) are
   assumed not to touch the role-manager lock except through the closures the
   crate registers with Engine::register_fn. *)
From CV Require Import Model.Base Model.Locks.

Inductive lk :=
| LNop
| LOp (i : instr)
| LHold (m : mode) (b : lk)
| LSeq (a b : lk)
| LIf (a b : lk)
| LLoop (b : lk)
| LExit
| LBreak
| LCont
| LCall (b : lk).

(* how a piece of code is left: normally, by break, by continue, by return *)
Inductive outc := ON | OB | OC | OX.

Inductive lk_run : lk -> list instr -> outc -> Prop :=
| R_nop : lk_run LNop [] ON
| R_op : forall i, lk_run (LOp i) [i] ON
| R_hold : forall m b t o, lk_run b t o -> lk_run (LHold m b) (Acq RM m :: t ++ [Rel RM]) o
| R_seq : forall a b t1 t2 o, lk_run a t1 ON -> lk_run b t2 o -> lk_run (LSeq a b) (t1 ++ t2) o
| R_seq_leave : forall a b t1 o, lk_run a t1 o -> o <> ON -> lk_run (LSeq a b) t1 o
| R_if_l : forall a b t o, lk_run a t o -> lk_run (LIf a b) t o
| R_if_r : forall a b t o, lk_run b t o -> lk_run (LIf a b) t o
| R_loop_end : forall b, lk_run (LLoop b) [] ON
| R_loop_iter : forall b t1 o1 t2 o, lk_run b t1 o1 -> o1 = ON \/ o1 = OC ->
    lk_run (LLoop b) t2 o -> lk_run (LLoop b) (t1 ++ t2) o
| R_loop_break : forall b t1, lk_run b t1 OB -> lk_run (LLoop b) t1 ON
| R_loop_exit : forall b t1, lk_run b t1 OX -> lk_run (LLoop b) t1 OX
| R_exit : lk_run LExit [] OX
| R_break : lk_run LBreak [] OB
| R_cont : lk_run LCont [] OC
| R_call : forall b t o, lk_run b t o -> o = ON \/ o = OX -> lk_run (LCall b) t ON.

(* the instruction sequences of the complete executions of a function whose
   body has skeleton p *)
Definition lk_fn (p : lk) (t : list instr) : Prop := lk_run (LCall p) t ON.

(* abbreviations the generated file uses *)
Definition lk_try : lk := LIf LExit LNop.                 (* e?  *)
Definition lk_tmp (m : mode) (i : instr) : lk := LHold m (LOp i).   (* X.read().f(..) as a whole statement *)
Fixpoint lk_seq (l : list lk) : lk :=
  match l with [] => LNop | [a] => a | a :: r => LSeq a (lk_seq r) end.
Fixpoint lk_alt (l : list lk) : lk :=
  match l with [] => LNop | [a] => a | a :: r => LIf a (lk_alt r) end.

(* flat discipline of a sequence of role-manager instructions: every Acq RM is
   followed by its Rel RM before the next Acq RM (no nesting, no guard held
   across another acquisition), Read / Write only under a guard, nothing else *)
Fixpoint flat_from (h : bool) (p : list instr) : bool :=
  match p with
  | [] => negb h
  | Acq RM _ :: r => negb h && flat_from true r
  | Rel RM :: r => h && flat_from false r
  | Read :: r => h && flat_from h r
  | Write :: r => h && flat_from h r
  | _ :: _ => false
  end.
Definition flat_locks (p : list instr) : bool := flat_from false p.
