(* HAND-WRITTEN glue for the generated file Gen/AdaptersGen.v (tools/rs2coq_adapters.py,
   part 9: the bookkeeping of the bundled adapters - src/adapter/memory_adapter.rs
   entirely, the line handlers of file_adapter.rs and string_adapter.rs).
   Definitions only.  The values, the loop combinator `rs_for` and the `flow`
   type are those of Gen/RustVec.v / Gen/RustStr.v; this file adds the few
   std / hashlink operations and the accesses to the model store that the
   adapters use and part 3 did not need.  As in RustVec.v, every operation
   restates what the std / hashlink documentation says and is NOT defined
   through the model's helpers (rmem, rremove, oset_insert, ins_new, get_ast,
   set_ast, with_policy, first_char, load_line, get_filtered_out ...), so that
   the equations of PinChecks/PcAdaptersGen.v have content.

   State.  A translated method is a function of the values of the fields of
   `self` (st_policy, st_is_filtered), of the model behind `m: &mut dyn Model`
   (st_m) and of its parameters; it returns `option (final state * value)`,
   None = a panic (index / slice out of range).  `Result<T>` is T: none of the
   translated functions has an `Err` path or a `?`.

   The model store.  `m.get_model()` / `m.get_mut_model()` is the whole store
   (Model/Enforce.v: section -> key -> assertion, both LinkedHashMaps, as
   association lists in insertion order).  A `&mut Assertion` reached through
   `.get_mut(sec)` / `.get_mut(key)` IS the assertion stored under (sec, key):
   a write through it is a write-back at that path (`rs_model_put`).  The
   translator refuses any other use of such a reference after a write (the Coq
   variable would be stale). *)
From CV Require Import Model.Base Model.Csv Model.Enforce Gen.RustStr Gen.RustVec.

(* ------------------------------------------------------------------ values *)
(* v.get(i) *)
Definition rs_get {A} (v : list A) (i : nat) : option A := nth_error v i.
(* v[n..]: "Panics if ... the start of the range is greater than the length" *)
Definition rs_slice_from {A} (v : list A) (n : nat) : option (list A) :=
  if Nat.leb n (length v) then Some (skipn n v) else None.
(* v.insert(0, x) (index 0 is always in range) *)
Definition rs_vec_insert0 {A} (v : list A) (x : A) : list A := x :: v.
(* v.extend(w) *)
Definition rs_vec_extend {A} (v w : list A) : list A := v ++ w.
(* a == b on Option<&String> *)
Definition rs_opt_eq (a b : option text) : bool :=
  match a, b with
  | Some x, Some y => rs_eq x y
  | None, None => true
  | _, _ => false
  end.
(* s.chars().next().map(|c| c.to_string()): the first character as a string.
   Byte-level scope note (as for rs_find_char in RustStr.v): for an ASCII first
   character this is exact; for a multi-byte first character the real value is
   the whole UTF-8 sequence and this one is its lead byte alone.  Neither equals
   "p" or "g" nor any section name of a model built by DefaultModel (sections
   are the ASCII names r, p, e, m, g), so both select the same (no) filter and
   the same (no) section. *)
Definition rs_first_char (s : text) : option text :=
  match s with
  | c :: _ => Some [c]
  | [] => None
  end.
(* s.starts_with(c) for an ASCII char literal c *)
Definition rs_starts_with_char (s : text) (c : ascii) : bool :=
  match s with
  | d :: _ => Ascii.eqb d c
  | [] => false
  end.
(* s.split("\n"): the pieces between the line feeds, including a last (maybe empty) one *)
Fixpoint rs_split_nl_from (cur : text) (s : text) : list text :=
  match s with
  | [] => [cur]
  | c :: r => if Nat.eqb (nat_of_ascii c) 10 then cur :: rs_split_nl_from [] r
              else rs_split_nl_from (cur ++ [c]) r
  end.
Definition rs_split_nl (s : text) : list text := rs_split_nl_from [] s.
(* util::parse_csv_line: the model's primitive *)
Definition rs_parse_csv_line (line : text) : option (list text) := Csv.parse_csv_line line.

(* ------------------------------------- LinkedHashSet<Vec<String>> (hashlink) *)
(* the set is the list of its entries in iteration order *)
Definition rs_oset_contains (s : list (list text)) (r : list text) : bool :=
  existsb (fun x => rs_vec_eq x r) s.
(* insert: "If the set did have this value present, false is returned" and "the
   value is moved to the back"; otherwise it is appended and true is returned *)
Definition rs_oset_insert (s : list (list text)) (r : list text) : list (list text) :=
  filter (fun x => negb (rs_vec_eq x r)) s ++ [r].
Definition rs_oset_insert_new (s : list (list text)) (r : list text) : bool :=
  negb (rs_oset_contains s r).
(* remove: "Returns whether the value was present in the set" (the set after it: rs_oset_remove) *)
Definition rs_oset_remove_was (s : list (list text)) (r : list text) : bool :=
  rs_oset_contains s r.

(* ------------------------------------------------------------ model store *)
(* m.get_model().get(sec) / m.get_mut_model().get_mut(sec): first binding of the key *)
Fixpoint rs_map_get {A} (l : list (text * A)) (k : text) : option A :=
  match l with
  | [] => None
  | (k', v) :: l' => if rs_eq k' k then Some v else rs_map_get l' k
  end.
Definition rs_model_get (m : model) (sec : text) : option amap := rs_map_get m sec.
Definition rs_astmap_get (am : amap) (key : text) : option assertion := rs_map_get am key.
(* ast.policy / ast.get_policy() / ast.get_mut_policy() *)
Definition rs_ast_policy (a : assertion) : list (list text) := a_policy a.
(* the assertion after `ast.policy = p` (the other fields are untouched) *)
Definition rs_ast_set_policy (a : assertion) (p : list (list text)) : assertion :=
  {| a_value := a_value a; a_tokens := a_tokens a; a_policy := p; a_handle := a_handle a |}.
(* write-back of the assertion reached through get_mut(sec) / get_mut(key): the
   binding of key in the map of sec is replaced in place *)
Fixpoint rs_map_put {A} (l : list (text * A)) (k : text) (v : A) : list (text * A) :=
  match l with
  | [] => []
  | (k', v') :: l' => if rs_eq k' k then (k', v) :: l' else (k', v') :: rs_map_put l' k v
  end.
Definition rs_model_put (m : model) (sec key : text) (a : assertion) : model :=
  match rs_map_get m sec with
  | Some am => rs_map_put m sec (rs_map_put am key a)
  | None => m
  end.
