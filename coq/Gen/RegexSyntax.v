(* TRUSTED restatement of the PARSER of the third-party `regex` crate
   (`Regex::new(text)`; read against regex-syntax-0.8.11 src/ast/parse.rs:
   parse_with_comments, push_group / pop_group / push_alternate / pop_group_end,
   parse_uncounted_repetition, parse_counted_repetition, parse_group,
   parse_primitive, parse_escape, parse_set_class .. ), for the subset of the
   SYNTAX that can arise in the texts src/model/function_map.rs hands to
   `Regex::new` at run time.  Hand-written, executable definitions only.  The
   result is the AST of Gen/Regex.v, in the shape tools/rs2coq_regex.py gives to
   a regex LITERAL (concatenations and alternations nested to the right, `x+` =
   RPlus, `x?` = ROpt, a non-capturing group = its body).
   Validated against the REAL crate by the Examples of Gen/RegexSyntaxExamples.v
   (tools/rx_syntax_examples.py: the crate compiles the pattern TEXT and runs it;
   a pattern the crate refuses must be `RxBad RxReject` here).

   THREE answers (`rx_compile`):
     RxOk r          the crate accepts the text and it denotes r;
     RxBad RxReject  the crate REFUSES the text (`Regex::new` is `Err`, so
                     `.unwrap()` panics): a repetition operator without operand
                     (`*` at the start, after `(` or `|`), `{` that does not
                     start a counted repetition (`{id}`, `x{`), an unbalanced
                     `(` or `)`, an unclosed `[`, a reversed range `[z-a]`, a
                     trailing backslash;
     RxBad RxOutside syntax OUTSIDE this restatement - nothing is claimed about
                     what the crate does: counted repetition `{n}` `{n,m}`, flags
                     and named groups `(?i)` `(?P<n>..)`, look-around, `\A \z \x
                     \u \p \<`, octal / back references, escapes of letters other
                     than `\s \d \w \S \D \W \b \B \n \t \r`, class syntax beyond
                     single bytes / `\`-escapes / `a-z` ranges / a leading or
                     trailing `-` (nested classes, `[:alpha:]`, `&&` `--` `~~`,
                     `]` or `^` as a member, non-ASCII members), a repetition
                     operator applied to an assertion (`^*`), to a byte >= 128
                     (the crate repeats the whole multi-byte character), to an
                     expression that is already a repetition (`a**`, `a+??`), an
                     unbounded repetition of an expression that can match the
                     empty string (outside the validated subset of Gen/Regex.v),
                     groups nested deeper than 16 (the crate's nest_limit is 250
                     AST levels; 16 groups stay far below it).
   The first problem met from left to right decides (the crate's parser is one
   left-to-right pass too), so RxReject is only answered when everything before
   the offending byte was understood.
   `rx_parse` = Some r exactly for RxOk r.

   SCOPE.  The pattern is valid UTF-8.  A byte >= 128 is a literal byte (a
   non-ASCII character = its bytes, one after the other), as long as no
   repetition operator follows it.  Default flags only.  The crate's RESOURCE
   limit (size_limit: 10 MiB of compiled program) is not modelled: a pattern of
   hundreds of thousands of bytes that the crate refuses for its SIZE is outside
   the scope (like `usize` = nat elsewhere in this development). *)
From CV Require Import Model.Base Gen.Regex.

Inductive rx_err := RxReject | RxOutside.
Inductive rx_res := RxOk (r : regex) | RxBad (e : rx_err).

(* --------------------------------------------------------------- the bytes *)
Definition is_ascii (c : ascii) : bool := Nat.ltb (nat_of_ascii c) 128.
Definition is_alnum (c : ascii) : bool :=
  let n := nat_of_ascii c in byte_in 48 57 n || byte_in 65 90 n || byte_in 97 122 n.
(* regex-syntax is_escapeable_character, restricted to printable ASCII: every
   punctuation byte but `<` and `>` (`\<` `\>` are word-boundary assertions) *)
Definition is_punct (c : ascii) : bool :=
  byte_in 32 126 (nat_of_ascii c) && negb (is_alnum c) &&
  negb (Ascii.eqb c "<"%char) && negb (Ascii.eqb c ">"%char).

(* \s \d \w \S \D \W *)
Definition perl_item (e : ascii) : option citem :=
  if Ascii.eqb e "s"%char then Some ISpace
  else if Ascii.eqb e "d"%char then Some IDigit
  else if Ascii.eqb e "w"%char then Some IWord
  else if Ascii.eqb e "S"%char then Some INotSpace
  else if Ascii.eqb e "D"%char then Some INotDigit
  else if Ascii.eqb e "W"%char then Some INotWord
  else None.
(* \n \t \r *)
Definition ctrl_char (e : ascii) : option ascii :=
  if Ascii.eqb e "n"%char then Some (ascii_of_nat 10)
  else if Ascii.eqb e "t"%char then Some (ascii_of_nat 9)
  else if Ascii.eqb e "r"%char then Some (ascii_of_nat 13)
  else None.

(* ------------------------------------------------------------------ tokens *)
Inductive quant := QStar | QPlus | QOpt.
Inductive rtok :=
| KAtom (rep : bool) (r : regex) (* a primitive; rep = a repetition operator may follow:
                                    it reads exactly one ASCII byte (literal, `.`, class) *)
| KOpen (cap : bool)             (* `(` (true) / `(?:` (false) *)
| KClose | KBar                  (* `)` `|` *)
| KQuant (q : quant)             (* `*` `+` `?` *)
| KBad (e : rx_err).             (* the lexer stops here *)

(* `\e` outside a class; next = the byte after it *)
Definition lex_escape (e : ascii) (next : option ascii) : rtok :=
  match perl_item e with
  | Some i => KAtom true (RSet false [i])
  | None =>
    match ctrl_char e with
    | Some c => KAtom true (RChar c)
    | None =>
      if Ascii.eqb e "b"%char then
        (* `\b{start}` .. is special syntax *)
        match next with
        | Some d => if Ascii.eqb d "{"%char then KBad RxOutside else KAtom false RWordB
        | None => KAtom false RWordB
        end
      else if Ascii.eqb e "B"%char then KAtom false RNotWordB
      else if is_punct e then KAtom true (RChar e)
      else KBad RxOutside
    end
  end.
(* `\e` inside a class *)
Definition cls_escape (e : ascii) : option citem :=
  match perl_item e with
  | Some i => Some i
  | None =>
    match ctrl_char e with
    | Some c => Some (IChar c)
    | None => if is_punct e then Some (IChar e) else None
    end
  end.
(* a byte that stands for itself inside [..]: printable ASCII but [ ] \ ^ - & ~ *)
Definition cls_plain (c : ascii) : bool :=
  byte_in 32 126 (nat_of_ascii c) && negb (memb Ascii.eqb c (T "[]\^-&~")).

(* `{` (parse_counted_repetition): whatever precedes it, the crate refuses it
   unless a decimal follows (after optional white space); next = the byte after `{` *)
Definition lex_lbrace (next : option ascii) : rx_err :=
  match next with
  | None => RxReject
  | Some d => if is_ascii d && negb (rx_is_digit d) && negb (rx_is_space d) then RxReject else RxOutside
  end.

(* a byte that is a token by itself (parse_primitive: anything that is not an
   operator is a literal, `}` and `]` included) *)
Definition lex1 (c : ascii) : rtok :=
  if Ascii.eqb c ")"%char then KClose
  else if Ascii.eqb c "|"%char then KBar
  else if Ascii.eqb c "*"%char then KQuant QStar
  else if Ascii.eqb c "+"%char then KQuant QPlus
  else if Ascii.eqb c "?"%char then KQuant QOpt
  else if Ascii.eqb c "."%char then KAtom true RAny
  else if Ascii.eqb c "^"%char then KAtom false RStart
  else if Ascii.eqb c "$"%char then KAtom false REnd
  else KAtom (is_ascii c) (RChar c).

Inductive lmode := LNorm | LClass (neg : bool) (items : list citem).  (* items: reversed *)

Fixpoint rx_lex (m : lmode) (s : text) {struct s} : list rtok :=
  match s with
  | [] => match m with LNorm => [] | LClass _ _ => [KBad RxReject] (* unclosed class *) end
  | c :: r =>
    match m with
    | LNorm =>
      if Ascii.eqb c "\"%char then
        match r with
        | [] => [KBad RxReject]                  (* trailing backslash *)
        | e :: r' => lex_escape e (hd_error r') :: rx_lex LNorm r'
        end
      else if Ascii.eqb c "["%char then
        match r with
        | d :: r' => if Ascii.eqb d "^"%char then rx_lex (LClass true []) r' else rx_lex (LClass false []) r
        | [] => [KBad RxReject]
        end
      else if Ascii.eqb c "("%char then
        match r with
        | q :: r' =>
          if Ascii.eqb q "?"%char then
            match r' with
            | k :: r'' => if Ascii.eqb k ":"%char then KOpen false :: rx_lex LNorm r'' else [KBad RxOutside]
            | [] => [KBad RxOutside]
            end
          else KOpen true :: rx_lex LNorm r
        | [] => [KOpen true]
        end
      else if Ascii.eqb c "{"%char then [KBad (lex_lbrace (hd_error r))]
      else lex1 c :: rx_lex LNorm r
    | LClass neg items =>
      if Ascii.eqb c "]"%char then
        match items with
        | [] => [KBad RxOutside]                 (* `]` as the first member is a literal *)
        | _ :: _ => KAtom true (RSet neg (rev items)) :: rx_lex LNorm r
        end
      else if Ascii.eqb c "\"%char then
        match r with
        | [] => [KBad RxReject]
        | e :: r' =>
          match cls_escape e with
          | Some i => rx_lex (LClass neg (i :: items)) r'
          | None => [KBad RxOutside]
          end
        end
      else if Ascii.eqb c "-"%char then
        (* a literal `-`: just before the closing `]`, or as the first member
           (not followed by another `-`) *)
        match r with
        | d :: _ =>
          if Ascii.eqb d "]"%char then rx_lex (LClass neg (IChar c :: items)) r
          else match items with
               | [] => if Ascii.eqb d "-"%char then [KBad RxOutside] else rx_lex (LClass neg [IChar c]) r
               | _ :: _ => [KBad RxOutside]
               end
        | [] => [KBad RxReject]
        end
      else if cls_plain c then
        match r with
        | d :: h :: r'' =>
          if Ascii.eqb d "-"%char && negb (Ascii.eqb h "]"%char) then
            (* the range c-h *)
            if cls_plain h then
              if Nat.leb (nat_of_ascii c) (nat_of_ascii h) then rx_lex (LClass neg (IRange c h :: items)) r''
              else [KBad RxReject]               (* reversed range *)
            else [KBad RxOutside]
          else rx_lex (LClass neg (IChar c :: items)) r
        | _ => rx_lex (LClass neg (IChar c :: items)) r
        end
      else [KBad RxOutside]
    end
  end.

(* ------------------------------------------------------------------ parser *)
(* the crate's parser keeps a stack of open groups, each with the alternation
   branches and the concatenation read before it; so does this one.  All lists
   are REVERSED (latest first). *)
Inductive akind :=
| AkRep                            (* a repetition operator may follow *)
| AkNoRep                          (* .. may not (assertion, byte >= 128, lazy repetition) *)
| AkQ (q : quant) (body : regex).  (* a greedy repetition just read: a `?` makes it lazy *)
Record pframe := { f_cap : option nat; f_alts : list regex; f_cat : list (regex * akind) }.
Record pstate := { p_stack : list pframe; p_alts : list regex; p_cat : list (regex * akind); p_n : nat }.

Definition mk_quant (q : quant) (greedy : bool) (a : regex) : regex :=
  match q with QStar => RStar greedy a | QPlus => RPlus greedy a | QOpt => ROpt greedy a end.
(* [z; y; x] (reversed) -> RCat x (RCat y z) *)
Definition mk_cat (l : list (regex * akind)) : regex :=
  match l with
  | [] => REps
  | (z, _) :: before => fold_left (fun acc x => RCat (fst x) acc) before z
  end.
(* last branch b_k, the others reversed -> RAlt b_1 (.. (RAlt b_k-1 b_k)) *)
Definition mk_alt (last : regex) (before : list regex) : regex :=
  fold_left (fun acc x => RAlt x acc) before last.

Definition set_cat (st : pstate) (cat : list (regex * akind)) : pstate :=
  {| p_stack := p_stack st; p_alts := p_alts st; p_cat := cat; p_n := p_n st |}.

Definition rx_max_depth : nat := 16.

Fixpoint rx_run (ts : list rtok) (st : pstate) : rx_res :=
  match ts with
  | [] =>
    match p_stack st with
    | [] => RxOk (mk_alt (mk_cat (p_cat st)) (p_alts st))
    | _ :: _ => RxBad RxReject                                   (* unclosed group *)
    end
  | t :: ts' =>
    match t with
    | KBad e => RxBad e
    | KAtom rep r => rx_run ts' (set_cat st ((r, if rep then AkRep else AkNoRep) :: p_cat st))
    | KQuant q =>
      match p_cat st with
      | [] => RxBad RxReject                                     (* repetition operator missing expression *)
      | (r, AkRep) :: cat' =>
        if match q with QOpt => true | _ => negb (nullable r) end
        then rx_run ts' (set_cat st ((mk_quant q true r, AkQ q r) :: cat'))
        else RxBad RxOutside
      | (_, AkQ q0 body) :: cat' =>
        match q with
        | QOpt => rx_run ts' (set_cat st ((mk_quant q0 false body, AkNoRep) :: cat'))   (* lazy *)
        | _ => RxBad RxOutside
        end
      | (_, AkNoRep) :: _ => RxBad RxOutside
      end
    | KOpen cap =>
      if Nat.leb rx_max_depth (length (p_stack st)) then RxBad RxOutside
      else
        let n' := if cap then S (p_n st) else p_n st in
        rx_run ts' {| p_stack := {| f_cap := if cap then Some n' else None;
                                    f_alts := p_alts st; f_cat := p_cat st |} :: p_stack st;
                      p_alts := []; p_cat := []; p_n := n' |}
    | KBar =>
      rx_run ts' {| p_stack := p_stack st; p_alts := mk_cat (p_cat st) :: p_alts st; p_cat := []; p_n := p_n st |}
    | KClose =>
      match p_stack st with
      | [] => RxBad RxReject                                     (* unopened group *)
      | f :: stk =>
        let body := mk_alt (mk_cat (p_cat st)) (p_alts st) in
        let item := match f_cap f with Some k => RGroup k body | None => body end in
        rx_run ts' {| p_stack := stk; p_alts := f_alts f; p_cat := (item, AkRep) :: f_cat f; p_n := p_n st |}
      end
    end
  end.

Definition p_init : pstate := {| p_stack := []; p_alts := []; p_cat := []; p_n := 0 |}.

(* Regex::new(text) *)
Definition rx_compile (s : text) : rx_res := rx_run (rx_lex LNorm s) p_init.
Definition rx_parse (s : text) : option regex :=
  match rx_compile s with RxOk r => Some r | RxBad _ => None end.

(* Regex::captures_len() - 1: the number of capture groups (numbered 1..n in the
   order of their opening parenthesis) *)
Fixpoint rx_ngroups (r : regex) : nat :=
  match r with
  | RCat a b | RAlt a b => Nat.max (rx_ngroups a) (rx_ngroups b)
  | RStar _ a => rx_ngroups a
  | RGroup n a => Nat.max n (rx_ngroups a)
  | _ => 0
  end.
