(* GENERATED on every run by tools/rs2coq.py from /repo/src/model/function_map.rs (key_match, key_get)
   and /repo/src/util.rs (csv_field, remove_comment) - do not edit. *)
From CV Require Import Model.Base Gen.RustStr.

Definition gen_key_match (v_key1 : text) (v_key2 : text) : bool :=
 (match (rs_find_char "*"%char v_key2) with Some v_i => (rs_starts_with v_key1 (rs_slice_to v_key2 v_i)) | None => (rs_eq v_key1 v_key2) end).

Definition gen_key_get (v_key1 : text) (v_key2 : text) : text :=
 (match (match (rs_find_char "*"%char v_key2) with Some v_i => (match (rs_strip_prefix v_key1 (rs_slice_to v_key2 v_i)) with Some v_rest => (if (negb (rs_is_empty v_rest)) then (Some v_rest) else None) | None => None end) | None => None end) with Some ret_ => ret_ | None =>
 (T "") end).

Definition gen_csv_field (v_value : text) : text :=
 (if (rs_contains_char ","%char v_value) then (rs_format1 (T """") (T """") v_value) else v_value).

Definition gen_remove_comment (v_s : text) : text :=
 (let v_s := (match (rs_find_char "#"%char v_s) with Some v_idx => (rs_slice_to v_s v_idx) | None => v_s end) in
 (rs_trim_end v_s)).

Definition gen_str_translated : bool := true.
