(* GENERATED on every run by tools/rs2coq.py (tools/rs2coq_misc.py, rs2coq part 22) from
   /repo/src/adapter/null_adapter.rs (every method of `trait Adapter` of /repo/src/adapter/mod.rs),
   /repo/src/model/function_map.rs (enum OperatorFunction, FunctionMap::default / add_function / get_functions),
   /repo/src/enforcer.rs (Enforcer::register_function), /repo/src/model/assertion.rs (Assertion::default / get_policy /
   get_mut_policy), /repo/src/frontend.rs (casbin_js_get_permission_for_user); /repo/src/model/mod.rs is checked to
   contain no function body - do not edit.  Features: those of part 15 (glob, ip off).
   NullAdapter: st_m = the model behind `m: &mut dyn Model`; the result is `option (final state * value)`,
   None = a panic; a `Result<T>` is a `res casbin_error T` (the conventions of parts 9 / 17).
   The others: a mutating call rebinds the variable it mutates; `self` / the `&mut` parameter is returned;
   `rs_fn` (None = a panic) only where the body has loops, `?` or calls that can panic. *)
From CV Require Import Model.Base Model.Csv Model.Expr Model.Enforce Model.Engine Model.FileSave.
From CV Require Import Gen.RustStr Gen.RustVec Gen.StrFnGen Gen.FmapGen Gen.AdaptersPrims Gen.AdaptersGen Gen.FsRt.
From CV Require Import Gen.IniRt Gen.IniGen Gen.Model2Rt Gen.Model2Gen.
From CV Require Import Gen.EnforcerPrims Gen.CachedRt Gen.Enforcer2Rt Gen.MiscRt.

(* src/adapter/null_adapter.rs, impl Adapter for NullAdapter load_policy *)
Definition gen_null_load_policy (st_m : model) : option (model * (res casbin_error unit)) :=
 rs_fn (LReturn (st_m, (ROk tt))).

(* src/adapter/null_adapter.rs, impl Adapter for NullAdapter load_filtered_policy *)
Definition gen_null_load_filtered_policy (st_m : model) (v__f_p : list text) (v__f_g : list text) : option (model * (res casbin_error unit)) :=
 rs_fn (LReturn (st_m, (ROk tt))).

(* src/adapter/null_adapter.rs, impl Adapter for NullAdapter save_policy *)
Definition gen_null_save_policy (st_m : model) : option (model * (res casbin_error unit)) :=
 rs_fn (LReturn (st_m, (ROk tt))).

(* src/adapter/null_adapter.rs, impl Adapter for NullAdapter clear_policy *)
Definition gen_null_clear_policy : option (res casbin_error unit) :=
 rs_fn (LReturn (ROk tt)).

(* src/adapter/null_adapter.rs, impl Adapter for NullAdapter is_filtered *)
Definition gen_null_is_filtered : option bool :=
 rs_fn (LReturn false).

(* src/adapter/null_adapter.rs, impl Adapter for NullAdapter add_policy *)
Definition gen_null_add_policy (v__sec : text) (v__ptype : text) (v__rule : list text) : option (res casbin_error bool) :=
 rs_fn (LReturn (ROk true)).

(* src/adapter/null_adapter.rs, impl Adapter for NullAdapter add_policies *)
Definition gen_null_add_policies (v__sec : text) (v__ptype : text) (v__rules : list rule) : option (res casbin_error bool) :=
 rs_fn (LReturn (ROk true)).

(* src/adapter/null_adapter.rs, impl Adapter for NullAdapter remove_policy *)
Definition gen_null_remove_policy (v__sec : text) (v__ptype : text) (v__rule : list text) : option (res casbin_error bool) :=
 rs_fn (LReturn (ROk true)).

(* src/adapter/null_adapter.rs, impl Adapter for NullAdapter remove_policies *)
Definition gen_null_remove_policies (v__sec : text) (v__ptype : text) (v__rules : list rule) : option (res casbin_error bool) :=
 rs_fn (LReturn (ROk true)).

(* src/adapter/null_adapter.rs, impl Adapter for NullAdapter remove_filtered_policy *)
Definition gen_null_remove_filtered_policy (v__sec : text) (v__ptype : text) (v__field_index : nat) (v__field_values : list text) : option (res casbin_error bool) :=
 rs_fn (LReturn (ROk true)).

(* the methods `trait Adapter` (src/adapter/mod.rs) declares, in its order *)
Definition gen_null_methods : list text := [(T "load_policy"); (T "load_filtered_policy"); (T "save_policy"); (T "clear_policy"); (T "is_filtered"); (T "add_policy"); (T "add_policies"); (T "remove_policy"); (T "remove_policies"); (T "remove_filtered_policy")].

(* src/model/function_map.rs: enum OperatorFunction - variant, number of ImmutableString parameters of the fn it carries *)
Definition gen_operator_function_variants : list (text * nat) :=
  [((T "Arg0"), 0); ((T "Arg1"), 1); ((T "Arg2"), 2); ((T "Arg3"), 3); ((T "Arg4"), 4); ((T "Arg5"), 5); ((T "Arg6"), 6)].

(* compiled out: # [ cfg ( feature = "glob" ) ]; # [ cfg ( feature = "ip" ) ] *)
(* src/model/function_map.rs, impl Default for FunctionMap default *)
Definition gen_fm_default : function_map :=
  (let v_fm := Enforcer2Rt.hm_new in
    (let v_fm := (Enforcer2Rt.hm_insert teqb v_fm (T "keyMatch") (Arg2 (closure_ptr (T "key_match")))) in
      (let v_fm := (Enforcer2Rt.hm_insert teqb v_fm (T "keyGet") (Arg2 (closure_ptr (T "key_get")))) in
        (let v_fm := (Enforcer2Rt.hm_insert teqb v_fm (T "keyMatch2") (Arg2 (closure_ptr (T "key_match2")))) in
          (let v_fm := (Enforcer2Rt.hm_insert teqb v_fm (T "keyGet2") (Arg3 (closure_ptr (T "key_get2")))) in
            (let v_fm := (Enforcer2Rt.hm_insert teqb v_fm (T "keyMatch3") (Arg2 (closure_ptr (T "key_match3")))) in
              (let v_fm := (Enforcer2Rt.hm_insert teqb v_fm (T "keyGet3") (Arg3 (closure_ptr (T "key_get3")))) in
                (let v_fm := (Enforcer2Rt.hm_insert teqb v_fm (T "keyMatch4") (Arg2 (closure_ptr (T "key_match4")))) in
                  (let v_fm := (Enforcer2Rt.hm_insert teqb v_fm (T "keyMatch5") (Arg2 (closure_ptr (T "key_match5")))) in
                    (let v_fm := (Enforcer2Rt.hm_insert teqb v_fm (T "regexMatch") (Arg2 (closure_ptr (T "regex_match")))) in
                      {| fm_fm := v_fm |})))))))))).

(* what the closures of FunctionMap::default() compute, in the order of the source:
   the fn pointer, the number of parameters, the body on the list of its arguments *)
Definition gen_fm_default_closures : list (fnptr * nat * (list text -> option eres)) :=
  [((closure_ptr (T "key_match")), 2, fun ss => match ss with [v_s1; v_s2] => Some (dyn_bool (gen_key_match v_s1 v_s2)) | _ => None end);
   ((closure_ptr (T "key_get")), 2, fun ss => match ss with [v_s1; v_s2] => Some (dyn_str (gen_key_get v_s1 v_s2)) | _ => None end);
   ((closure_ptr (T "key_match2")), 2, fun ss => match ss with [v_s1; v_s2] => Some (dyn_obool (gen_key_match2 v_s1 v_s2)) | _ => None end);
   ((closure_ptr (T "key_get2")), 3, fun ss => match ss with [v_s1; v_s2; v_s3] => Some (dyn_otext (gen_key_get2 v_s1 v_s2 v_s3)) | _ => None end);
   ((closure_ptr (T "key_match3")), 2, fun ss => match ss with [v_s1; v_s2] => Some (dyn_obool (gen_key_match3 v_s1 v_s2)) | _ => None end);
   ((closure_ptr (T "key_get3")), 3, fun ss => match ss with [v_s1; v_s2; v_s3] => Some (dyn_otext (gen_key_get3 v_s1 v_s2 v_s3)) | _ => None end);
   ((closure_ptr (T "key_match4")), 2, fun ss => match ss with [v_s1; v_s2] => Some (dyn_obool (gen_key_match4 v_s1 v_s2)) | _ => None end);
   ((closure_ptr (T "key_match5")), 2, fun ss => match ss with [v_s1; v_s2] => Some (dyn_obool (gen_key_match5 v_s1 v_s2)) | _ => None end);
   ((closure_ptr (T "regex_match")), 2, fun ss => match ss with [v_s1; v_s2] => Some (dyn_obool (gen_regex_match v_s1 v_s2)) | _ => None end)].

(* src/model/function_map.rs, impl FunctionMap add_function *)
Definition gen_fm_add_function (self : function_map) (v_fname : text) (v_f : operator_function) : function_map :=
  (let self := (set_fm_fm self (Enforcer2Rt.hm_insert teqb (fm_fm self) v_fname v_f)) in
    self).

(* src/model/function_map.rs, impl FunctionMap get_functions *)
Definition gen_fm_get_functions (self : function_map) : (list (text * operator_function)) :=
  (rs_hm_iter (fm_fm self)).

(* src/enforcer.rs, impl Enforcer register_function *)
Definition gen_enf_register_function (v_engine : engine) (v_key : text) (v_f : operator_function) : engine :=
  (match v_f with
    | Arg0 v_func =>
      (let v_engine := (eng_register_fn v_engine v_key 0 (FnOp v_func)) in
        v_engine)
    | Arg1 v_func =>
      (let v_engine := (eng_register_fn v_engine v_key 1 (FnOp v_func)) in
        v_engine)
    | Arg2 v_func =>
      (let v_engine := (eng_register_fn v_engine v_key 2 (FnOp v_func)) in
        v_engine)
    | Arg3 v_func =>
      (let v_engine := (eng_register_fn v_engine v_key 3 (FnOp v_func)) in
        v_engine)
    | Arg4 v_func =>
      (let v_engine := (eng_register_fn v_engine v_key 4 (FnOp v_func)) in
        v_engine)
    | Arg5 v_func =>
      (let v_engine := (eng_register_fn v_engine v_key 5 (FnOp v_func)) in
        v_engine)
    | Arg6 v_func =>
      (let v_engine := (eng_register_fn v_engine v_key 6 (FnOp v_func)) in
        v_engine)
    end).

(* src/model/assertion.rs, impl Default for Assertion default *)
Definition gen_ast_default : gen_assertion :=
  {| ga_key := ([] : text); ga_value := ([] : text); ga_tokens := []; ga_policy := []; ga_rm := (RmFresh 0) |}.

(* src/model/assertion.rs, impl Assertion get_policy *)
Definition gen_ast_get_policy (self : gen_assertion) : (list (list text)) :=
  (ga_policy self).

(* src/model/assertion.rs, impl Assertion get_mut_policy *)
Definition gen_ast_get_mut_policy (self : gen_assertion) : place gen_assertion (list (list text)) :=
  ((ga_policy self), fun p_1 => (set_ga_policy self p_1)).

(* src/frontend.rs,  casbin_js_get_permission_for_user *)
Definition gen_casbin_js_get_permission_for_user (dyn_to_text : modeldef -> text) (ord : list (text * json) -> list (text * json)) (v_e : renf) (v__user : text) : option (res dyn_error text) :=
  rs_fn (let v_model := (r_model v_e) in
    (let v_m := Enforcer2Rt.hm_new in
      (let v_m := (Enforcer2Rt.hm_insert teqb v_m (T "m") (json_of_string (dyn_to_text v_model))) in
        (let v_p_rules := [] in
          (rs_then (match (Enforcer2Rt.rs_map_get (d_model v_model) (T "p")) with
              | Some v_assertions =>
                (match rs_for (fun it_1 v_p_rules =>
                      (let '(v_ptype, _) := it_1 in
                        (match (Model2Gen.gen_m_get_policy (d_model v_model) (T "p") v_ptype) with
                          | Some px_2 =>
                            (let v_policies := px_2 in
                              (match rs_for (fun it_3 v_p_rules =>
                                    (let v_rules := it_3 in
                                      (let v_rule := [v_ptype] in
                                        (let v_rule := (rs_vec_extend v_rule v_rules) in
                                          (let v_p_rules := (rs_push v_p_rules v_rule) in
                                            (LNext v_p_rules))))))
                                  v_policies v_p_rules with
                                | Done v_p_rules =>
                                  (LNext v_p_rules)
                                | Returned ret_ => LReturn ret_
                                | Panicked => LPanic
                                end))
                          | None => LPanic
                          end)))
                    v_assertions v_p_rules with
                  | Done v_p_rules =>
                    (LNext v_p_rules)
                  | Returned ret_ => LReturn ret_
                  | Panicked => LPanic
                  end)
              | _ =>
                (LNext v_p_rules)
              end)
            (fun v_p_rules =>
              (let v_m := (Enforcer2Rt.hm_insert teqb v_m (T "p") (json_of_rows v_p_rules)) in
                (let v_g_rules := [] in
                  (rs_then (match (Enforcer2Rt.rs_map_get (d_model v_model) (T "g")) with
                      | Some v_assertions =>
                        (match rs_for (fun it_4 v_g_rules =>
                              (let '(v_ptype, _) := it_4 in
                                (match (Model2Gen.gen_m_get_policy (d_model v_model) (T "g") v_ptype) with
                                  | Some px_5 =>
                                    (let v_policies := px_5 in
                                      (match rs_for (fun it_6 v_g_rules =>
                                            (let v_rules := it_6 in
                                              (let v_rule := [v_ptype] in
                                                (let v_rule := (rs_vec_extend v_rule v_rules) in
                                                  (let v_g_rules := (rs_push v_g_rules v_rule) in
                                                    (LNext v_g_rules))))))
                                          v_policies v_g_rules with
                                        | Done v_g_rules =>
                                          (LNext v_g_rules)
                                        | Returned ret_ => LReturn ret_
                                        | Panicked => LPanic
                                        end))
                                  | None => LPanic
                                  end)))
                            v_assertions v_g_rules with
                          | Done v_g_rules =>
                            (LNext v_g_rules)
                          | Returned ret_ => LReturn ret_
                          | Panicked => LPanic
                          end)
                      | _ =>
                        (LNext v_g_rules)
                      end)
                    (fun v_g_rules =>
                      (let v_m := (Enforcer2Rt.hm_insert teqb v_m (T "g") (json_of_rows v_g_rules)) in
                        (match (serde_to_string ord v_m) with
                          | ROk ok_7 =>
                            (let v_result := ok_7 in
                              (LReturn (ROk v_result)))
                          | RErr e_ => (LReturn (RErr (DynSerde e_)))
                          end)))))))))))).

(* src/model/mod.rs: no function body (trait Model is declared there, without provided methods);
   src/frontend.rs: casbin_js_get_permission_for_user is its only function outside #[cfg(test)] *)
Definition gen_misc_other_bodies : list text := [].

Definition gen_misc_translated : bool := true.
