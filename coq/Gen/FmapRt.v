(* Gallina counterparts of the std / `regex` crate operations used (besides those
   of Gen/RustStr.v, Gen/RustVec.v, Gen/RustIter.v, Gen/Regex.v, Gen/RegexRt.v,
   Gen/RegexSyntax.v) by the functions of src/model/function_map.rs that
   tools/rs2coq_fmap.py translates (part 16: Gen/FmapGen.v).  Hand-written,
   definitions only, TRUSTED; each names the Rust operation it restates.  The
   Captures / closure-replacer / HashMap ones are run against the real crate /
   std by tools/rx_syntax_examples.py (Gen/RegexSyntaxExamples.v: rx_caps..,
   rx_replf.., rx_hm..).  Facts about them: Proofs/FmapP.v.

   Conventions as in Gen/RegexRt.v: `&str` / `String` / `Cow<str>` is `text`,
   `usize` is `nat`; `.to_string()`, `.into()`, `&`, `*`, `.iter()`, `.collect()`
   are the identity; an iterator is the list of its items. *)
From CV Require Import Model.Base Gen.RustStr Gen.RustVec Gen.RustIter Gen.Regex Gen.RegexRt Gen.RegexSyntax.

(* ------------------------------------------------------------- outcomes *)
(* what a translated function does: it returns a value, it PANICS (`unwrap` of a
   refused pattern, `panic!`, a slice out of range), or it hands `Regex::new` a
   text whose syntax is outside Gen/RegexSyntax.v (then nothing is known) *)
Inductive fres (A : Type) : Type := FRet (a : A) | FPanic | FOutside.
Arguments FRet {A} a.
Arguments FPanic {A}.
Arguments FOutside {A}.
(* the `option` view: None = the source panics, or - only when the `_r` form of
   the function says FOutside - the pattern is outside the restated syntax *)
Definition fres_opt {A} (r : fres A) : option A :=
  match r with FRet a => Some a | FPanic => None | FOutside => None end.
(* f(args) of another translated function, then the rest *)
Definition f_bind {A B} (x : fres A) (k : A -> fres B) : fres B :=
  match x with FRet a => k a | FPanic => FPanic | FOutside => FOutside end.

(* Regex::new(t).unwrap(), then the rest: a refused pattern panics *)
Definition rx_new_unwrap {A} (t : text) (k : regex -> fres A) : fres A :=
  match rx_compile t with
  | RxOk r => k r
  | RxBad RxReject => FPanic
  | RxBad RxOutside => FOutside
  end.
(* `if let Ok(re) = Regex::new(t) { kok re } else { kerr }` /
   `match Regex::new(t) { Ok(re) => kok re, Err(_) => kerr }` *)
Definition rx_new_result {A} (t : text) (kok : regex -> fres A) (kerr : fres A) : fres A :=
  match rx_compile t with
  | RxOk r => kok r
  | RxBad RxReject => kerr
  | RxBad RxOutside => FOutside
  end.

(* ------------------------------------------------------------- Captures *)
(* Regex::captures_len(): "the total number of capture groups ... always at
   least 1 since every regex has at least 1 capturing group that corresponds to
   the entire match" *)
Definition rx_captures_len (r : regex) : nat := S (rx_ngroups r).
(* regex::Captures: the match with its groups, and the number of groups of the
   expression it came from *)
Record rcaps := { c_len : nat; c_match : rmatch }.
(* Regex::captures(h): the leftmost-first match with its groups *)
Definition rx_captures (r : regex) (h : text) : option rcaps :=
  match rx_find r h with
  | Some m => Some {| c_len := rx_captures_len r; c_match := m |}
  | None => None
  end.
(* Captures::len() *)
Definition rx_caps_len (c : rcaps) : nat := c_len c.
(* Captures::get(i).map(|m| m.as_str()): "Returns the Match associated with the
   capture group at index i. If i does not correspond to a capture group, or if
   the capture group did not participate in the match, then None"; group 0 is
   the whole match.  (A `Match` obtained this way is only used through as_str.) *)
Definition rx_caps_get (c : rcaps) (i : nat) : option text :=
  if Nat.eqb i 0 then Some (m_str (c_match c))
  else if Nat.ltb i (c_len c) then cap_get i (m_caps (c_match c))
  else None.
(* caps[i]: "Panics if there is no group at the given index" (or it did not
   participate); None = the panic *)
Definition rx_caps_index (c : rcaps) (i : nat) : option text := rx_caps_get c i.
(* Captures::iter(): "an iterator over all capture groups ... in the order in
   which they appear in the regex", group 0 first; None = did not participate *)
Definition rx_caps_iter (c : rcaps) : list (option text) := map (rx_caps_get c) (seq 0 (c_len c)).

(* Regex::replace_all(h, |caps: &Captures| { .. }) with a closure that mutates
   locals of the enclosing function (their values: S) and can panic (None).
   regex/src/regex/string.rs replacen: for every match of captures_iter, in
   order, the text between the previous match and this one is copied, then the
   closure's result is appended AS IT IS (`$` is not expanded for a closure);
   the rest of the haystack follows. *)
Fixpoint replace_with_go {S} (ms : list rmatch) (clen : nat) (f : rcaps -> S -> option (text * S))
    (rest : text) (st : S) : option (text * S) :=
  match ms with
  | [] => Some (rest, st)
  | m :: ms' =>
    match f {| c_len := clen; c_match := m |} st with
    | None => None
    | Some (t, st1) =>
      match replace_with_go ms' clen f (m_after m) st1 with
      | None => None
      | Some (t2, st2) => Some (m_gap m ++ t ++ t2, st2)
      end
    end
  end.
Definition rx_replace_all_with {S} (r : regex) (h : text) (f : rcaps -> S -> option (text * S)) (st : S)
    : option (text * S) :=
  replace_with_go (rx_find_iter r h) (rx_captures_len r) f h st.

(* ------------------------------------------------------- iterators, Vec *)
(* a.zip(b): pairs up to the shorter one *)
Definition rs_iter_zip {A B} (a : list A) (b : list B) : list (A * B) := combine a b.
(* it.skip(n) *)
Definition rs_iter_skip {A} (n : nat) (l : list A) : list A := skipn n l.
(* v.len() *)
Definition rs_vec_len {A} (v : list A) : nat := length v.

(* -------------------------------------------------------------- HashMap *)
(* HashMap<String, V> with text keys, only get / insert: an association list
   (no iteration, so no order is observable) *)
Definition hm_new {V} : list (text * V) := [].
(* m.get(k) *)
Fixpoint hm_get {V} (m : list (text * V)) (k : text) : option V :=
  match m with
  | [] => None
  | (k', v) :: m' => if rs_eq k k' then Some v else hm_get m' k
  end.
(* m.insert(k, v): "If the map did have this key present, the value is updated" *)
Definition hm_insert {V} (m : list (text * V)) (k : text) (v : V) : list (text * V) :=
  (k, v) :: filter (fun p => negb (rs_eq (fst p) k)) m.
