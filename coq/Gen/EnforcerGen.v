(* GENERATED on every run by tools/rs2coq_enf.py (rs2coq part 7) from /repo/src/enforcer.rs
   (impl CoreApi for Enforcer; cfg resolved for the features cached, !explain, incremental, !logging, watcher) - do not edit. *)
From CV Require Import Model.Base Model.Enforce Model.Engine Gen.InternalPrims Gen.EnforcerPrims.

(* accessors read as plain field accesses: get_model -> self.model, get_mut_model -> self.model, get_adapter -> self.adapter, get_mut_adapter -> self.adapter, has_auto_save_enabled -> self.auto_save, has_auto_notify_watcher_enabled -> self.auto_notify_watcher, has_auto_build_role_links_enabled -> self.auto_build_role_links, is_enabled -> self.enabled *)

Definition gen_is_filtered (s : estate) : bool :=
  (ad_is_filtered (e_adapter s)).

Definition gen_build_role_links (s : estate) : estate * outcome bool :=
  let s := rm_clear s in
  let (s, le_1) := model_build_role_links s in
  match le_1 with
  | LOk =>
    (s, (Ok true))
  | LErr e_2 => (s, (Err e_2))
  end.

Definition gen_load_policy (s : estate) : estate * outcome bool :=
  let v_backup := (e_model s) in
  let s := upd_model s (m_clear_policy (e_model s)) in
  let '(ad_1, md_2, r_3) := ad_load (e_adapter s) (e_model s) in
  let s := upd_model (upd_adapter s ad_1) md_2 in
  match r_3 with
  | LROk =>
    match (if (e_auto_build s) then
        let (s, r_5) := gen_build_role_links s in
        match r_5 with
        | Ok _ =>
          (s, Next tt)
        | Err e_6 => (s, Exit (Err e_6))
        | Panic => (s, Exit Panic)
        end
        else
        (s, Next tt)) with
    | (s, Exit o_7) => (s, o_7)
    | (s, Next c_8) =>
      (s, (Ok true))
    end
  | LRErr e_4 =>
    let s := upd_model s v_backup in
    (s, (Err e_4))
  | LRPanic => (s, Panic)
  end.

Definition gen_load_filtered_policy (s : estate) (v_f : filter_arg) : estate * outcome bool :=
  let v_backup := (e_model s) in
  let s := upd_model s (m_clear_policy (e_model s)) in
  let '(ad_1, md_2, r_3) := ad_load_filtered (e_adapter s) (fst v_f) (snd v_f) (e_model s) in
  let s := upd_model (upd_adapter s ad_1) md_2 in
  match r_3 with
  | LROk =>
    match (if (e_auto_build s) then
        let (s, r_5) := gen_build_role_links s in
        match r_5 with
        | Ok _ =>
          (s, Next tt)
        | Err e_6 => (s, Exit (Err e_6))
        | Panic => (s, Exit Panic)
        end
        else
        (s, Next tt)) with
    | (s, Exit o_7) => (s, o_7)
    | (s, Next c_8) =>
      (s, (Ok true))
    end
  | LRErr e_4 =>
    let s := upd_model s v_backup in
    (s, (Err e_4))
  | LRPanic => (s, Panic)
  end.

Definition gen_save_policy (s : estate) : estate * outcome bool :=
  if (negb (gen_is_filtered s)) then
  let (ad_1, r_3) := ad_save (e_adapter s) (e_model s) in
  let s := upd_adapter s ad_1 in
  match r_3 with
  | LROk =>
    let v_policies := (m_get_all (e_model s) (T "p")) in
    let v_gpolicies := (m_get_all (e_model s) (T "g")) in
    let v_policies := (v_policies ++ v_gpolicies) in
    let s := emit s (EvSave v_policies) in
    (s, (Ok true))
  | LRErr e_4 => (s, (Err e_4))
  | LRPanic => (s, Panic)
  end
  else (s, Panic).

Definition gen_clear_policy (s : estate) : estate * outcome bool :=
  match (if (e_auto_save s) then
      let (ad_1, r_3) := ad_clear (e_adapter s) in
      let s := upd_adapter s ad_1 in
      match r_3 with
      | LROk =>
        (s, Next tt)
      | LRErr e_4 => (s, Exit (Err e_4))
      | LRPanic => (s, Exit Panic)
      end
      else
      (s, Next tt)) with
  | (s, Exit o_5) => (s, o_5)
  | (s, Next c_6) =>
    let s := upd_model s (m_clear_policy (e_model s)) in
    match (if (e_auto_build s) then
        let (s, r_7) := gen_build_role_links s in
        match r_7 with
        | Ok _ =>
          (s, Next tt)
        | Err e_8 => (s, Exit (Err e_8))
        | Panic => (s, Exit Panic)
        end
        else
        (s, Next tt)) with
    | (s, Exit o_9) => (s, o_9)
    | (s, Next c_10) =>
      let s := emit s EvClear in
      (s, (Ok true))
    end
  end.

Definition gen_set_role_manager (s : estate) (v_rm : new_rm) : estate * outcome bool :=
  let s := replace_rm s v_rm in
  match (if (e_auto_build s) then
      let (s, r_1) := gen_build_role_links s in
      match r_1 with
      | Ok _ =>
        (s, Next tt)
      | Err e_2 => (s, Exit (Err e_2))
      | Panic => (s, Exit Panic)
      end
      else
      (s, Next tt)) with
  | (s, Exit o_3) => (s, o_3)
  | (s, Next c_4) =>
    let (s, le_5) := register_g_functions s in
    match le_5 with
    | LOk => (s, (Ok true))
    | LErr e_6 => (s, (Err e_6))
    end
  end.

Definition gen_set_model (s : estate) (v_m : modeldef) : estate * outcome bool :=
  let s := replace_model s v_m in
  let (s, r_2) := gen_load_policy s in
  match r_2 with
  | Ok _ =>
    let (s, le_4) := register_g_functions s in
    match le_4 with
    | LOk =>
      (s, (Ok true))
    | LErr e_5 => (s, (Err e_5))
    end
  | Err e_3 => (s, (Err e_3))
  | Panic => (s, Panic)
  end.

Definition gen_set_adapter (s : estate) (v_a : adapter) : estate * outcome bool :=
  let s := upd_adapter s v_a in
  let (s, r_2) := gen_load_policy s in
  match r_2 with
  | Ok _ =>
    (s, (Ok true))
  | Err e_3 => (s, (Err e_3))
  | Panic => (s, Panic)
  end.

Definition gen_enable_enforce (s : estate) (v_enabled : bool) : estate * outcome bool :=
  let s := upd_flags s v_enabled (e_auto_save s) (e_auto_build s) (e_auto_notify s) (e_callbacks s) in
  (s, (Ok true)).

Definition gen_enable_auto_save (s : estate) (v_auto_save : bool) : estate * outcome bool :=
  let s := upd_flags s (e_enabled s) v_auto_save (e_auto_build s) (e_auto_notify s) (e_callbacks s) in
  (s, (Ok true)).

Definition gen_enable_auto_build_role_links (s : estate) (v_auto_build_role_links : bool) : estate * outcome bool :=
  let s := upd_flags s (e_enabled s) (e_auto_save s) v_auto_build_role_links (e_auto_notify s) (e_callbacks s) in
  (s, (Ok true)).

Definition gen_enable_auto_notify_watcher (s : estate) (v_auto_notify_watcher : bool) : estate * outcome bool :=
  let s := (if (negb v_auto_notify_watcher) then
    off_policy_change s
    else
    let s := (if (negb (e_auto_notify s)) then
      on_policy_change s
      else
      s) in
    s) in
  let s := upd_flags s (e_enabled s) (e_auto_save s) (e_auto_build s) v_auto_notify_watcher (e_callbacks s) in
  (s, (Ok true)).

Definition gen_add_function (s : estate) (v_fname : text) (v_f : ufun) : estate * outcome bool :=
  let s := add_user_function s v_fname v_f in
  (s, (Ok true)).

Definition gen_set_effector (s : estate) (v_e : effector_arg) : estate * outcome bool :=
  let s := replace_eft s v_e in
  (s, (Ok true)).

Definition gen_enforcer_translated : bool := true.
