(* GENERATED on every run by tools/rs2coq.py (tools/rs2coq_adapters.py) from /repo/src/adapter/memory_adapter.rs,
   file_adapter.rs (line handlers) and string_adapter.rs - do not edit.
   st_<field> = the fields of self, st_m = the model behind `m: &mut dyn Model`, v_f_p / v_f_g = the two lists of
   `f: Filter`; the result is `option (final state * value)`, None = a panic. *)
From CV Require Import Model.Base Model.Csv Model.Enforce Gen.RustStr Gen.RustVec Gen.AdaptersPrims.

(* src/adapter/memory_adapter.rs, impl Adapter for MemoryAdapter load_policy *)
Definition gen_mem_load_policy (st_policy : list rule) (st_is_filtered : bool) (st_m : model) : option (((list rule) * bool * model) * unit) :=
 rs_fn (let st_is_filtered := false in
 (match rs_for (fun v_line st_m =>
 (match (rs_index v_line 0) with Some v_sec => (match (rs_index v_line 1) with Some v_ptype => (match (rs_slice_from v_line 2) with Some v_rule => (let st_m := (match (rs_model_get st_m v_sec) with Some v_t1 => (let st_m := (match (rs_astmap_get v_t1 v_ptype) with Some v_t2 => (let st_m := rs_model_put st_m v_sec v_ptype (rs_ast_set_policy v_t2 (rs_oset_insert (rs_ast_policy v_t2) v_rule)) in
 st_m) | None => st_m end) in
 st_m) | None => st_m end) in
 (LNext st_m)) | None => LPanic end) | None => LPanic end) | None => LPanic end))
 st_policy st_m with
 | Done st_m => (LReturn ((st_policy, st_is_filtered, st_m), tt))
 | Returned ret_ => LReturn ret_
 | Panicked => LPanic end)).

(* src/adapter/memory_adapter.rs, impl Adapter for MemoryAdapter load_filtered_policy *)
Definition gen_mem_load_filtered_policy (st_policy : list rule) (st_is_filtered : bool) (st_m : model) (v_f_p : list text) (v_f_g : list text) : option (((list rule) * bool * model) * unit) :=
 rs_fn (let st_is_filtered := false in
 (match rs_for (fun v_line '(st_is_filtered, st_m) =>
 (match (rs_index v_line 0) with Some v_sec => (match (rs_index v_line 1) with Some v_ptype => (match (rs_slice_from v_line 2) with Some v_rule => (let v_is_filtered := false in
 (if (rs_eq v_sec (T "p"))
 then (match rs_for (fun '(v_i, v_r) v_is_filtered =>
 (let v_is_filtered := (if ((negb (rs_is_empty v_r)) && (negb (rs_opt_eq (Some v_r) (rs_get v_rule v_i)))) then (let v_is_filtered := true in
 v_is_filtered) else v_is_filtered) in
 (LNext v_is_filtered)))
 (rs_enumerate v_f_p) v_is_filtered with
 | Done v_is_filtered => (if (rs_eq v_sec (T "g"))
 then (match rs_for (fun '(v_i, v_r) v_is_filtered =>
 (let v_is_filtered := (if ((negb (rs_is_empty v_r)) && (negb (rs_opt_eq (Some v_r) (rs_get v_rule v_i)))) then (let v_is_filtered := true in
 v_is_filtered) else v_is_filtered) in
 (LNext v_is_filtered)))
 (rs_enumerate v_f_g) v_is_filtered with
 | Done v_is_filtered => (let '(st_is_filtered, st_m) := (if (negb v_is_filtered) then (let st_m := (match (rs_model_get st_m v_sec) with Some v_ast_map => (let st_m := (match (rs_astmap_get v_ast_map v_ptype) with Some v_ast => (let st_m := rs_model_put st_m v_sec v_ptype (rs_ast_set_policy v_ast (rs_oset_insert (rs_ast_policy v_ast) v_rule)) in
 st_m) | None => st_m end) in
 st_m) | None => st_m end) in
 (st_is_filtered, st_m)) else (let st_is_filtered := true in
 (st_is_filtered, st_m))) in
 (LNext (st_is_filtered, st_m)))
 | Returned ret_ => LReturn ret_
 | Panicked => LPanic end)
 else (let '(st_is_filtered, st_m) := (if (negb v_is_filtered) then (let st_m := (match (rs_model_get st_m v_sec) with Some v_ast_map => (let st_m := (match (rs_astmap_get v_ast_map v_ptype) with Some v_ast => (let st_m := rs_model_put st_m v_sec v_ptype (rs_ast_set_policy v_ast (rs_oset_insert (rs_ast_policy v_ast) v_rule)) in
 st_m) | None => st_m end) in
 st_m) | None => st_m end) in
 (st_is_filtered, st_m)) else (let st_is_filtered := true in
 (st_is_filtered, st_m))) in
 (LNext (st_is_filtered, st_m))))
 | Returned ret_ => LReturn ret_
 | Panicked => LPanic end)
 else (if (rs_eq v_sec (T "g"))
 then (match rs_for (fun '(v_i, v_r) v_is_filtered =>
 (let v_is_filtered := (if ((negb (rs_is_empty v_r)) && (negb (rs_opt_eq (Some v_r) (rs_get v_rule v_i)))) then (let v_is_filtered := true in
 v_is_filtered) else v_is_filtered) in
 (LNext v_is_filtered)))
 (rs_enumerate v_f_g) v_is_filtered with
 | Done v_is_filtered => (let '(st_is_filtered, st_m) := (if (negb v_is_filtered) then (let st_m := (match (rs_model_get st_m v_sec) with Some v_ast_map => (let st_m := (match (rs_astmap_get v_ast_map v_ptype) with Some v_ast => (let st_m := rs_model_put st_m v_sec v_ptype (rs_ast_set_policy v_ast (rs_oset_insert (rs_ast_policy v_ast) v_rule)) in
 st_m) | None => st_m end) in
 st_m) | None => st_m end) in
 (st_is_filtered, st_m)) else (let st_is_filtered := true in
 (st_is_filtered, st_m))) in
 (LNext (st_is_filtered, st_m)))
 | Returned ret_ => LReturn ret_
 | Panicked => LPanic end)
 else (let '(st_is_filtered, st_m) := (if (negb v_is_filtered) then (let st_m := (match (rs_model_get st_m v_sec) with Some v_ast_map => (let st_m := (match (rs_astmap_get v_ast_map v_ptype) with Some v_ast => (let st_m := rs_model_put st_m v_sec v_ptype (rs_ast_set_policy v_ast (rs_oset_insert (rs_ast_policy v_ast) v_rule)) in
 st_m) | None => st_m end) in
 st_m) | None => st_m end) in
 (st_is_filtered, st_m)) else (let st_is_filtered := true in
 (st_is_filtered, st_m))) in
 (LNext (st_is_filtered, st_m)))))) | None => LPanic end) | None => LPanic end) | None => LPanic end))
 st_policy (st_is_filtered, st_m) with
 | Done (st_is_filtered, st_m) => (LReturn ((st_policy, st_is_filtered, st_m), tt))
 | Returned ret_ => LReturn ret_
 | Panicked => LPanic end)).

(* src/adapter/memory_adapter.rs, impl Adapter for MemoryAdapter save_policy *)
Definition gen_mem_save_policy (st_policy : list rule) (st_is_filtered : bool) (st_m : model) : option (((list rule) * bool * model) * unit) :=
 rs_fn (let st_policy := ([] : list rule) in
 (match (rs_model_get st_m (T "p")) with
 | Some v_ast_map => (match rs_for (fun '(v_ptype, v_ast) st_policy =>
 (match (rs_first_char v_ptype) with
 | Some v_sec => (match rs_for (fun v_policy st_policy =>
 (let v_rule := v_policy in
 (let v_rule := rs_vec_insert0 v_rule v_ptype in
 (let v_rule := rs_vec_insert0 v_rule v_sec in
 (let st_policy := rs_oset_insert st_policy v_rule in
 (LNext st_policy))))))
 (rs_ast_policy v_ast) st_policy with
 | Done st_policy => (LNext st_policy)
 | Returned ret_ => LReturn ret_
 | Panicked => LPanic end)
 | None => (LNext st_policy) end))
 v_ast_map st_policy with
 | Done st_policy => (match (rs_model_get st_m (T "g")) with
 | Some v_ast_map => (match rs_for (fun '(v_ptype, v_ast) st_policy =>
 (match (rs_first_char v_ptype) with
 | Some v_sec => (match rs_for (fun v_policy st_policy =>
 (let v_rule := v_policy in
 (let v_rule := rs_vec_insert0 v_rule v_ptype in
 (let v_rule := rs_vec_insert0 v_rule v_sec in
 (let st_policy := rs_oset_insert st_policy v_rule in
 (LNext st_policy))))))
 (rs_ast_policy v_ast) st_policy with
 | Done st_policy => (LNext st_policy)
 | Returned ret_ => LReturn ret_
 | Panicked => LPanic end)
 | None => (LNext st_policy) end))
 v_ast_map st_policy with
 | Done st_policy => (LReturn ((st_policy, st_is_filtered, st_m), tt))
 | Returned ret_ => LReturn ret_
 | Panicked => LPanic end)
 | None => (LReturn ((st_policy, st_is_filtered, st_m), tt)) end)
 | Returned ret_ => LReturn ret_
 | Panicked => LPanic end)
 | None => (match (rs_model_get st_m (T "g")) with
 | Some v_ast_map => (match rs_for (fun '(v_ptype, v_ast) st_policy =>
 (match (rs_first_char v_ptype) with
 | Some v_sec => (match rs_for (fun v_policy st_policy =>
 (let v_rule := v_policy in
 (let v_rule := rs_vec_insert0 v_rule v_ptype in
 (let v_rule := rs_vec_insert0 v_rule v_sec in
 (let st_policy := rs_oset_insert st_policy v_rule in
 (LNext st_policy))))))
 (rs_ast_policy v_ast) st_policy with
 | Done st_policy => (LNext st_policy)
 | Returned ret_ => LReturn ret_
 | Panicked => LPanic end)
 | None => (LNext st_policy) end))
 v_ast_map st_policy with
 | Done st_policy => (LReturn ((st_policy, st_is_filtered, st_m), tt))
 | Returned ret_ => LReturn ret_
 | Panicked => LPanic end)
 | None => (LReturn ((st_policy, st_is_filtered, st_m), tt)) end) end)).

(* src/adapter/memory_adapter.rs, impl Adapter for MemoryAdapter clear_policy *)
Definition gen_mem_clear_policy (st_policy : list rule) (st_is_filtered : bool) : option (((list rule) * bool) * unit) :=
 rs_fn (let st_policy := ([] : list rule) in
 (let st_is_filtered := false in
 (LReturn ((st_policy, st_is_filtered), tt)))).

(* src/adapter/memory_adapter.rs, impl Adapter for MemoryAdapter add_policy *)
Definition gen_mem_add_policy (st_policy : list rule) (st_is_filtered : bool) (v_sec : text) (v_ptype : text) (v_rule : list text) : option (((list rule) * bool) * bool) :=
 rs_fn (let v_rule := rs_vec_insert0 v_rule v_ptype in
 (let v_rule := rs_vec_insert0 v_rule v_sec in
 (if (rs_oset_contains st_policy v_rule)
 then (LReturn ((st_policy, st_is_filtered), false))
 else (let ix1 := v_rule in
 (let ix2 := (rs_oset_insert_new st_policy ix1) in
 (let st_policy := (rs_oset_insert st_policy ix1) in
 (LReturn ((st_policy, st_is_filtered), ix2)))))))).

(* src/adapter/memory_adapter.rs, impl Adapter for MemoryAdapter add_policies *)
Definition gen_mem_add_policies (st_policy : list rule) (st_is_filtered : bool) (v_sec : text) (v_ptype : text) (v_rules : list rule) : option (((list rule) * bool) * bool) :=
 rs_fn (let v_all_added := true in
 (let v_rules := (map (fun v_rule =>
 (let v_rule := rs_vec_insert0 v_rule v_ptype in
 (let v_rule := rs_vec_insert0 v_rule v_sec in
 v_rule))) v_rules) in
 (match rs_for (fun v_rule v_all_added =>
 (if (rs_oset_contains st_policy v_rule)
 then (let v_all_added := false in
 (LReturn ((st_policy, st_is_filtered), v_all_added)))
 else (LNext v_all_added)))
 v_rules v_all_added with
 | Done v_all_added => (match rs_for (fun v_rule st_policy =>
 (let st_policy := (if (negb (rs_oset_contains st_policy v_rule)) then (let st_policy := rs_oset_insert st_policy v_rule in
 st_policy) else st_policy) in
 (LNext st_policy)))
 v_rules st_policy with
 | Done st_policy => (LReturn ((st_policy, st_is_filtered), v_all_added))
 | Returned ret_ => LReturn ret_
 | Panicked => LPanic end)
 | Returned ret_ => LReturn ret_
 | Panicked => LPanic end))).

(* src/adapter/memory_adapter.rs, impl Adapter for MemoryAdapter remove_policy *)
Definition gen_mem_remove_policy (st_policy : list rule) (st_is_filtered : bool) (v_sec : text) (v_ptype : text) (v_rule : list text) : option (((list rule) * bool) * bool) :=
 rs_fn (let v_rule := rs_vec_insert0 v_rule v_ptype in
 (let v_rule := rs_vec_insert0 v_rule v_sec in
 (let ix1 := v_rule in
 (let ix2 := (rs_oset_remove_was st_policy ix1) in
 (let st_policy := (rs_oset_remove st_policy ix1) in
 (LReturn ((st_policy, st_is_filtered), ix2))))))).

(* src/adapter/memory_adapter.rs, impl Adapter for MemoryAdapter remove_policies *)
Definition gen_mem_remove_policies (st_policy : list rule) (st_is_filtered : bool) (v_sec : text) (v_ptype : text) (v_rules : list rule) : option (((list rule) * bool) * bool) :=
 rs_fn (let v_all_removed := true in
 (let v_rules := (map (fun v_rule =>
 (let v_rule := rs_vec_insert0 v_rule v_ptype in
 (let v_rule := rs_vec_insert0 v_rule v_sec in
 v_rule))) v_rules) in
 (match rs_for (fun v_rule v_all_removed =>
 (if (negb (rs_oset_contains st_policy v_rule))
 then (let v_all_removed := false in
 (LReturn ((st_policy, st_is_filtered), v_all_removed)))
 else (LNext v_all_removed)))
 v_rules v_all_removed with
 | Done v_all_removed => (match rs_for (fun v_rule st_policy =>
 (let st_policy := rs_oset_remove st_policy v_rule in
 (LNext st_policy)))
 v_rules st_policy with
 | Done st_policy => (LReturn ((st_policy, st_is_filtered), v_all_removed))
 | Returned ret_ => LReturn ret_
 | Panicked => LPanic end)
 | Returned ret_ => LReturn ret_
 | Panicked => LPanic end))).

(* src/adapter/memory_adapter.rs, impl Adapter for MemoryAdapter remove_filtered_policy *)
Definition gen_mem_remove_filtered_policy (st_policy : list rule) (st_is_filtered : bool) (v_sec : text) (v_ptype : text) (v_field_index : nat) (v_field_values : list text) : option (((list rule) * bool) * bool) :=
 rs_fn (if (rs_vec_is_empty v_field_values)
 then (LReturn ((st_policy, st_is_filtered), false))
 else (let v_tmp := ([] : list rule) in
 (let v_res := false in
 (match rs_for (fun v_rule '(v_res, v_tmp) =>
 (match (match (match (rs_index v_rule 0) with Some ix1 => (Some (rs_eq v_sec ix1)) | None => None end) with Some true => (match (rs_index v_rule 1) with Some ix2 => (Some (rs_eq v_ptype ix2)) | None => None end) | Some false => (Some false) | None => None end) with
 | Some true => (let v_matched := true in
 (match rs_for (fun '(v_i, v_field_value) v_matched =>
 (match (if (negb (rs_is_empty v_field_value)) then (match (rs_index v_rule ((v_field_index + v_i) + 2)) with Some ix3 => (Some (negb (rs_eq ix3 v_field_value))) | None => None end) else (Some false)) with
 | Some true => (let v_matched := false in
 (LBreak v_matched))
 | Some false => (LNext v_matched)
 | None => LPanic end))
 (rs_enumerate v_field_values) v_matched with
 | Done v_matched => (let '(v_res, v_tmp) := (if v_matched then (let v_res := true in
 (v_res, v_tmp)) else (let v_tmp := rs_oset_insert v_tmp v_rule in
 (v_res, v_tmp))) in
 (LNext (v_res, v_tmp)))
 | Returned ret_ => LReturn ret_
 | Panicked => LPanic end))
 | Some false => (let v_tmp := rs_oset_insert v_tmp v_rule in
 (LNext (v_res, v_tmp)))
 | None => LPanic end))
 st_policy (v_res, v_tmp) with
 | Done (v_res, v_tmp) => (let st_policy := v_tmp in
 (LReturn ((st_policy, st_is_filtered), v_res)))
 | Returned ret_ => LReturn ret_
 | Panicked => LPanic end)))).

(* src/adapter/memory_adapter.rs, impl Adapter for MemoryAdapter is_filtered *)
Definition gen_mem_is_filtered (st_policy : list rule) (st_is_filtered : bool) : option bool :=
 rs_fn (LReturn st_is_filtered).

(* src/adapter/file_adapter.rs load_policy_line *)
Definition gen_file_load_policy_line (st_m : model) (v_line : text) : option (model * unit) :=
 rs_fn (if ((rs_is_empty v_line) || (rs_starts_with_char v_line "#"%char))
 then (LReturn (st_m, tt))
 else (match (rs_parse_csv_line v_line) with
 | Some v_tokens => (match (rs_index v_tokens 0) with Some v_key => (match (rs_first_char v_key) with
 | Some v_sec => (match (rs_model_get st_m v_sec) with
 | Some v_ast_map => (match (rs_astmap_get v_ast_map v_key) with
 | Some v_ast => (match (rs_slice_from v_tokens 1) with Some ix1 => (let st_m := rs_model_put st_m v_sec v_key (rs_ast_set_policy v_ast (rs_oset_insert (rs_ast_policy v_ast) ix1)) in
 (LReturn (st_m, tt))) | None => LPanic end)
 | None => (LReturn (st_m, tt)) end)
 | None => (LReturn (st_m, tt)) end)
 | None => (LReturn (st_m, tt)) end) | None => LPanic end)
 | None => (LReturn (st_m, tt)) end)).

(* src/adapter/file_adapter.rs load_filtered_policy_line *)
Definition gen_file_load_filtered_policy_line (st_m : model) (v_line : text) (v_f_p : list text) (v_f_g : list text) : option (model * bool) :=
 rs_fn (if ((rs_is_empty v_line) || (rs_starts_with_char v_line "#"%char))
 then (LReturn (st_m, false))
 else (match (rs_parse_csv_line v_line) with
 | Some v_tokens => (match (rs_index v_tokens 0) with Some v_key => (let v_is_filtered := false in
 (match (rs_first_char v_key) with
 | Some v_sec => (if (rs_eq v_sec (T "p"))
 then (match rs_for (fun '(v_i, v_rule) v_is_filtered =>
 (let v_is_filtered := (if ((negb (rs_is_empty v_rule)) && (negb (rs_opt_eq (Some v_rule) (rs_get v_tokens (v_i + 1))))) then (let v_is_filtered := true in
 v_is_filtered) else v_is_filtered) in
 (LNext v_is_filtered)))
 (rs_enumerate v_f_p) v_is_filtered with
 | Done v_is_filtered => (if (rs_eq v_sec (T "g"))
 then (match rs_for (fun '(v_i, v_rule) v_is_filtered =>
 (let v_is_filtered := (if ((negb (rs_is_empty v_rule)) && (negb (rs_opt_eq (Some v_rule) (rs_get v_tokens (v_i + 1))))) then (let v_is_filtered := true in
 v_is_filtered) else v_is_filtered) in
 (LNext v_is_filtered)))
 (rs_enumerate v_f_g) v_is_filtered with
 | Done v_is_filtered => (if (negb v_is_filtered)
 then (match (rs_model_get st_m v_sec) with
 | Some v_ast_map => (match (rs_astmap_get v_ast_map v_key) with
 | Some v_ast => (match (rs_slice_from v_tokens 1) with Some ix1 => (let st_m := rs_model_put st_m v_sec v_key (rs_ast_set_policy v_ast (rs_oset_insert (rs_ast_policy v_ast) ix1)) in
 (LReturn (st_m, v_is_filtered))) | None => LPanic end)
 | None => (LReturn (st_m, v_is_filtered)) end)
 | None => (LReturn (st_m, v_is_filtered)) end)
 else (LReturn (st_m, v_is_filtered)))
 | Returned ret_ => LReturn ret_
 | Panicked => LPanic end)
 else (if (negb v_is_filtered)
 then (match (rs_model_get st_m v_sec) with
 | Some v_ast_map => (match (rs_astmap_get v_ast_map v_key) with
 | Some v_ast => (match (rs_slice_from v_tokens 1) with Some ix2 => (let st_m := rs_model_put st_m v_sec v_key (rs_ast_set_policy v_ast (rs_oset_insert (rs_ast_policy v_ast) ix2)) in
 (LReturn (st_m, v_is_filtered))) | None => LPanic end)
 | None => (LReturn (st_m, v_is_filtered)) end)
 | None => (LReturn (st_m, v_is_filtered)) end)
 else (LReturn (st_m, v_is_filtered))))
 | Returned ret_ => LReturn ret_
 | Panicked => LPanic end)
 else (if (rs_eq v_sec (T "g"))
 then (match rs_for (fun '(v_i, v_rule) v_is_filtered =>
 (let v_is_filtered := (if ((negb (rs_is_empty v_rule)) && (negb (rs_opt_eq (Some v_rule) (rs_get v_tokens (v_i + 1))))) then (let v_is_filtered := true in
 v_is_filtered) else v_is_filtered) in
 (LNext v_is_filtered)))
 (rs_enumerate v_f_g) v_is_filtered with
 | Done v_is_filtered => (if (negb v_is_filtered)
 then (match (rs_model_get st_m v_sec) with
 | Some v_ast_map => (match (rs_astmap_get v_ast_map v_key) with
 | Some v_ast => (match (rs_slice_from v_tokens 1) with Some ix3 => (let st_m := rs_model_put st_m v_sec v_key (rs_ast_set_policy v_ast (rs_oset_insert (rs_ast_policy v_ast) ix3)) in
 (LReturn (st_m, v_is_filtered))) | None => LPanic end)
 | None => (LReturn (st_m, v_is_filtered)) end)
 | None => (LReturn (st_m, v_is_filtered)) end)
 else (LReturn (st_m, v_is_filtered)))
 | Returned ret_ => LReturn ret_
 | Panicked => LPanic end)
 else (if (negb v_is_filtered)
 then (match (rs_model_get st_m v_sec) with
 | Some v_ast_map => (match (rs_astmap_get v_ast_map v_key) with
 | Some v_ast => (match (rs_slice_from v_tokens 1) with Some ix4 => (let st_m := rs_model_put st_m v_sec v_key (rs_ast_set_policy v_ast (rs_oset_insert (rs_ast_policy v_ast) ix4)) in
 (LReturn (st_m, v_is_filtered))) | None => LPanic end)
 | None => (LReturn (st_m, v_is_filtered)) end)
 | None => (LReturn (st_m, v_is_filtered)) end)
 else (LReturn (st_m, v_is_filtered)))))
 | None => (LReturn (st_m, v_is_filtered)) end)) | None => LPanic end)
 | None => (LReturn (st_m, false)) end)).

(* src/adapter/string_adapter.rs load_policy_line *)
Definition gen_str_load_policy_line (st_m : model) (v_line : text) : option (model * unit) :=
 rs_fn (if ((rs_is_empty v_line) || (rs_starts_with_char v_line "#"%char))
 then (LReturn (st_m, tt))
 else (match (rs_parse_csv_line v_line) with
 | Some v_tokens => (match (rs_index v_tokens 0) with Some v_key => (match (rs_first_char v_key) with
 | Some v_sec => (match (rs_model_get st_m v_sec) with
 | Some v_ast_map => (match (rs_astmap_get v_ast_map v_key) with
 | Some v_ast => (match (rs_slice_from v_tokens 1) with Some ix1 => (let st_m := rs_model_put st_m v_sec v_key (rs_ast_set_policy v_ast (rs_oset_insert (rs_ast_policy v_ast) ix1)) in
 (LReturn (st_m, tt))) | None => LPanic end)
 | None => (LReturn (st_m, tt)) end)
 | None => (LReturn (st_m, tt)) end)
 | None => (LReturn (st_m, tt)) end) | None => LPanic end)
 | None => (LReturn (st_m, tt)) end)).

(* src/adapter/string_adapter.rs, impl Adapter for StringAdapter load_policy *)
Definition gen_str_load_policy (st_policy : text) (st_is_filtered : bool) (st_m : model) : option ((text * bool * model) * unit) :=
 rs_fn (let st_is_filtered := false in
 (let v_policies := (rs_split_nl st_policy) in
 (match rs_for (fun v_line st_m =>
 (match gen_str_load_policy_line st_m v_line with Some (st_m, _) => (LNext st_m) | None => LPanic end))
 v_policies st_m with
 | Done st_m => (LReturn ((st_policy, st_is_filtered, st_m), tt))
 | Returned ret_ => LReturn ret_
 | Panicked => LPanic end))).

(* src/adapter/string_adapter.rs, impl Adapter for StringAdapter load_filtered_policy *)
Definition gen_str_load_filtered_policy (st_policy : text) (st_is_filtered : bool) (st_m : model) (v_f_p : list text) (v_f_g : list text) : option ((text * bool * model) * unit) :=
 rs_fn (let st_is_filtered := false in
 (let v_policies := (rs_split_nl st_policy) in
 (match rs_for (fun v_line '(st_is_filtered, st_m) =>
 (if ((rs_is_empty v_line) || (rs_starts_with_char v_line "#"%char))
 then (LNext (st_is_filtered, st_m))
 else (match (rs_parse_csv_line v_line) with
 | Some v_tokens => (match (rs_index v_tokens 0) with Some v_key => (match (rs_slice_from v_tokens 1) with Some v_rule => (let v_is_filtered := false in
 (match (rs_first_char v_key) with
 | Some v_sec => (if (rs_eq v_sec (T "p"))
 then (match rs_for (fun '(v_i, v_r) v_is_filtered =>
 (let v_is_filtered := (if ((negb (rs_is_empty v_r)) && (negb (rs_opt_eq (Some v_r) (rs_get v_rule v_i)))) then (let v_is_filtered := true in
 v_is_filtered) else v_is_filtered) in
 (LNext v_is_filtered)))
 (rs_enumerate v_f_p) v_is_filtered with
 | Done v_is_filtered => (if (rs_eq v_sec (T "g"))
 then (match rs_for (fun '(v_i, v_r) v_is_filtered =>
 (let v_is_filtered := (if ((negb (rs_is_empty v_r)) && (negb (rs_opt_eq (Some v_r) (rs_get v_rule v_i)))) then (let v_is_filtered := true in
 v_is_filtered) else v_is_filtered) in
 (LNext v_is_filtered)))
 (rs_enumerate v_f_g) v_is_filtered with
 | Done v_is_filtered => (let '(st_is_filtered, st_m) := (if (negb v_is_filtered) then (let st_m := (match (rs_model_get st_m v_sec) with Some v_ast_map => (let st_m := (match (rs_astmap_get v_ast_map v_key) with Some v_ast => (let st_m := rs_model_put st_m v_sec v_key (rs_ast_set_policy v_ast (rs_oset_insert (rs_ast_policy v_ast) v_rule)) in
 st_m) | None => st_m end) in
 st_m) | None => st_m end) in
 (st_is_filtered, st_m)) else (let st_is_filtered := true in
 (st_is_filtered, st_m))) in
 (LNext (st_is_filtered, st_m)))
 | Returned ret_ => LReturn ret_
 | Panicked => LPanic end)
 else (let '(st_is_filtered, st_m) := (if (negb v_is_filtered) then (let st_m := (match (rs_model_get st_m v_sec) with Some v_ast_map => (let st_m := (match (rs_astmap_get v_ast_map v_key) with Some v_ast => (let st_m := rs_model_put st_m v_sec v_key (rs_ast_set_policy v_ast (rs_oset_insert (rs_ast_policy v_ast) v_rule)) in
 st_m) | None => st_m end) in
 st_m) | None => st_m end) in
 (st_is_filtered, st_m)) else (let st_is_filtered := true in
 (st_is_filtered, st_m))) in
 (LNext (st_is_filtered, st_m))))
 | Returned ret_ => LReturn ret_
 | Panicked => LPanic end)
 else (if (rs_eq v_sec (T "g"))
 then (match rs_for (fun '(v_i, v_r) v_is_filtered =>
 (let v_is_filtered := (if ((negb (rs_is_empty v_r)) && (negb (rs_opt_eq (Some v_r) (rs_get v_rule v_i)))) then (let v_is_filtered := true in
 v_is_filtered) else v_is_filtered) in
 (LNext v_is_filtered)))
 (rs_enumerate v_f_g) v_is_filtered with
 | Done v_is_filtered => (let '(st_is_filtered, st_m) := (if (negb v_is_filtered) then (let st_m := (match (rs_model_get st_m v_sec) with Some v_ast_map => (let st_m := (match (rs_astmap_get v_ast_map v_key) with Some v_ast => (let st_m := rs_model_put st_m v_sec v_key (rs_ast_set_policy v_ast (rs_oset_insert (rs_ast_policy v_ast) v_rule)) in
 st_m) | None => st_m end) in
 st_m) | None => st_m end) in
 (st_is_filtered, st_m)) else (let st_is_filtered := true in
 (st_is_filtered, st_m))) in
 (LNext (st_is_filtered, st_m)))
 | Returned ret_ => LReturn ret_
 | Panicked => LPanic end)
 else (let '(st_is_filtered, st_m) := (if (negb v_is_filtered) then (let st_m := (match (rs_model_get st_m v_sec) with Some v_ast_map => (let st_m := (match (rs_astmap_get v_ast_map v_key) with Some v_ast => (let st_m := rs_model_put st_m v_sec v_key (rs_ast_set_policy v_ast (rs_oset_insert (rs_ast_policy v_ast) v_rule)) in
 st_m) | None => st_m end) in
 st_m) | None => st_m end) in
 (st_is_filtered, st_m)) else (let st_is_filtered := true in
 (st_is_filtered, st_m))) in
 (LNext (st_is_filtered, st_m)))))
 | None => (LNext (st_is_filtered, st_m)) end)) | None => LPanic end) | None => LPanic end)
 | None => (LNext (st_is_filtered, st_m)) end)))
 v_policies (st_is_filtered, st_m) with
 | Done (st_is_filtered, st_m) => (LReturn ((st_policy, st_is_filtered, st_m), tt))
 | Returned ret_ => LReturn ret_
 | Panicked => LPanic end))).

(* the body of its loop over the lines, as a function of the line *)
Definition gen_str_load_filtered_step (st_policy : text) (st_is_filtered : bool) (st_m : model) (v_line : text) (v_f_p : list text) (v_f_g : list text) : option ((text * bool * model) * unit) :=
 rs_fn (if ((rs_is_empty v_line) || (rs_starts_with_char v_line "#"%char))
 then (LReturn ((st_policy, st_is_filtered, st_m), tt))
 else (match (rs_parse_csv_line v_line) with
 | Some v_tokens => (match (rs_index v_tokens 0) with Some v_key => (match (rs_slice_from v_tokens 1) with Some v_rule => (let v_is_filtered := false in
 (match (rs_first_char v_key) with
 | Some v_sec => (if (rs_eq v_sec (T "p"))
 then (match rs_for (fun '(v_i, v_r) v_is_filtered =>
 (let v_is_filtered := (if ((negb (rs_is_empty v_r)) && (negb (rs_opt_eq (Some v_r) (rs_get v_rule v_i)))) then (let v_is_filtered := true in
 v_is_filtered) else v_is_filtered) in
 (LNext v_is_filtered)))
 (rs_enumerate v_f_p) v_is_filtered with
 | Done v_is_filtered => (if (rs_eq v_sec (T "g"))
 then (match rs_for (fun '(v_i, v_r) v_is_filtered =>
 (let v_is_filtered := (if ((negb (rs_is_empty v_r)) && (negb (rs_opt_eq (Some v_r) (rs_get v_rule v_i)))) then (let v_is_filtered := true in
 v_is_filtered) else v_is_filtered) in
 (LNext v_is_filtered)))
 (rs_enumerate v_f_g) v_is_filtered with
 | Done v_is_filtered => (let '(st_is_filtered, st_m) := (if (negb v_is_filtered) then (let st_m := (match (rs_model_get st_m v_sec) with Some v_ast_map => (let st_m := (match (rs_astmap_get v_ast_map v_key) with Some v_ast => (let st_m := rs_model_put st_m v_sec v_key (rs_ast_set_policy v_ast (rs_oset_insert (rs_ast_policy v_ast) v_rule)) in
 st_m) | None => st_m end) in
 st_m) | None => st_m end) in
 (st_is_filtered, st_m)) else (let st_is_filtered := true in
 (st_is_filtered, st_m))) in
 (LReturn ((st_policy, st_is_filtered, st_m), tt)))
 | Returned ret_ => LReturn ret_
 | Panicked => LPanic end)
 else (let '(st_is_filtered, st_m) := (if (negb v_is_filtered) then (let st_m := (match (rs_model_get st_m v_sec) with Some v_ast_map => (let st_m := (match (rs_astmap_get v_ast_map v_key) with Some v_ast => (let st_m := rs_model_put st_m v_sec v_key (rs_ast_set_policy v_ast (rs_oset_insert (rs_ast_policy v_ast) v_rule)) in
 st_m) | None => st_m end) in
 st_m) | None => st_m end) in
 (st_is_filtered, st_m)) else (let st_is_filtered := true in
 (st_is_filtered, st_m))) in
 (LReturn ((st_policy, st_is_filtered, st_m), tt))))
 | Returned ret_ => LReturn ret_
 | Panicked => LPanic end)
 else (if (rs_eq v_sec (T "g"))
 then (match rs_for (fun '(v_i, v_r) v_is_filtered =>
 (let v_is_filtered := (if ((negb (rs_is_empty v_r)) && (negb (rs_opt_eq (Some v_r) (rs_get v_rule v_i)))) then (let v_is_filtered := true in
 v_is_filtered) else v_is_filtered) in
 (LNext v_is_filtered)))
 (rs_enumerate v_f_g) v_is_filtered with
 | Done v_is_filtered => (let '(st_is_filtered, st_m) := (if (negb v_is_filtered) then (let st_m := (match (rs_model_get st_m v_sec) with Some v_ast_map => (let st_m := (match (rs_astmap_get v_ast_map v_key) with Some v_ast => (let st_m := rs_model_put st_m v_sec v_key (rs_ast_set_policy v_ast (rs_oset_insert (rs_ast_policy v_ast) v_rule)) in
 st_m) | None => st_m end) in
 st_m) | None => st_m end) in
 (st_is_filtered, st_m)) else (let st_is_filtered := true in
 (st_is_filtered, st_m))) in
 (LReturn ((st_policy, st_is_filtered, st_m), tt)))
 | Returned ret_ => LReturn ret_
 | Panicked => LPanic end)
 else (let '(st_is_filtered, st_m) := (if (negb v_is_filtered) then (let st_m := (match (rs_model_get st_m v_sec) with Some v_ast_map => (let st_m := (match (rs_astmap_get v_ast_map v_key) with Some v_ast => (let st_m := rs_model_put st_m v_sec v_key (rs_ast_set_policy v_ast (rs_oset_insert (rs_ast_policy v_ast) v_rule)) in
 st_m) | None => st_m end) in
 st_m) | None => st_m end) in
 (st_is_filtered, st_m)) else (let st_is_filtered := true in
 (st_is_filtered, st_m))) in
 (LReturn ((st_policy, st_is_filtered, st_m), tt)))))
 | None => (LReturn ((st_policy, st_is_filtered, st_m), tt)) end)) | None => LPanic end) | None => LPanic end)
 | None => (LReturn ((st_policy, st_is_filtered, st_m), tt)) end)).

Definition gen_adapters_translated : bool := true.
