(* GENERATED on every run by tools/rs2coq.py (part 16: tools/rs2coq_fmap.py) from /repo/src/model/function_map.rs:
   the statics MAT_B, MAT_P; regex_match, key_match2, key_match3, key_match4, key_match5, key_get2, key_get3,
   COMPLETELY: the text handed to Regex::new at run time is compiled by Gen/RegexSyntax.v rx_compile - do not edit.
   gen_<f>_r : .. -> fres R   FRet v = the function returns v; FPanic = it panics (`unwrap` of a refused pattern,
   `panic!`, a slice out of range); FOutside = the pattern handed to Regex::new is outside the restated syntax.
   gen_<f> = fres_opt (gen_<f>_r ..) : option R.  Regex LITERALS are parsed into Gen/Regex.v's AST by the translator
   (gen_fmap_literals lists them with their text, for the check against rx_parse in PinChecks/PcFmapGen.v). *)
From CV Require Import Model.Base Gen.RustStr Gen.RustVec Gen.RustIter Gen.Regex Gen.RegexRt Gen.RegexSyntax Gen.FmapRt.

(* MAT_B = :[^/]* *)
Definition gen_fm_mat_b : regex :=
 (RCat (RChar ":"%char) (RStar true (RSet true [IChar "/"%char]))).

(* MAT_P = \{[^/]*\} *)
Definition gen_fm_mat_p : regex :=
 (RCat (RChar "{"%char) (RCat (RStar true (RSet true [IChar "/"%char])) (RChar "}"%char))).

Definition gen_regex_match_r (v_key1 : text) (v_key2 : text) : fres bool :=
 (rx_new_unwrap v_key2 (fun re1_ =>
 (FRet (rx_is_match re1_ v_key1)))).
Definition gen_regex_match (v_key1 : text) (v_key2 : text) : option bool := fres_opt (gen_regex_match_r v_key1 v_key2).

Definition gen_key_match2_r (v_key1 : text) (v_key2 : text) : fres bool :=
 (let v_key2 := (if (rs_contains_str v_key2 (T "/*")) then (rs_str_replace v_key2 (T "/*") (T "/.*")) else v_key2) in
 (let v_key2 := (rx_replace_all gen_fm_mat_b v_key2 [TLit (T "[^/]+")]) in
 (gen_regex_match_r v_key1 (rs_format1 (T "^") (T "$") v_key2)))).
Definition gen_key_match2 (v_key1 : text) (v_key2 : text) : option bool := fres_opt (gen_key_match2_r v_key1 v_key2).

Definition gen_key_match3_r (v_key1 : text) (v_key2 : text) : fres bool :=
 (let v_key2 := (if (rs_contains_str v_key2 (T "/*")) then (rs_str_replace v_key2 (T "/*") (T "/.*")) else v_key2) in
 (let v_key2 := (rx_replace_all gen_fm_mat_p v_key2 [TLit (T "[^/]+")]) in
 (gen_regex_match_r v_key1 (rs_format1 (T "^") (T "$") v_key2)))).
Definition gen_key_match3 (v_key1 : text) (v_key2 : text) : option bool := fres_opt (gen_key_match3_r v_key1 v_key2).

(* \{[^/]+?\} *)
Definition gen_key_match4_rx1 : regex :=
 (RCat (RChar "{"%char) (RCat (RPlus false (RSet true [IChar "/"%char])) (RChar "}"%char))).

Definition gen_key_match4_r (v_key1 : text) (v_key2 : text) : fres bool :=
 (let v_key2 := (rs_str_replace v_key2 (T "/*") (T "/.*")) in
 (let v_tokens := [] in
 (let v_re := gen_key_match4_rx1 in
 (match rx_replace_all_with v_re v_key2
 (fun v_caps v_tokens => (match rx_caps_index v_caps 0 with
 | Some t1_ => (match rx_caps_index v_caps 0 with
 | Some t2_ => (match rs_usize_sub (rs_len t2_) 1 with
 | Some n3_ => (match rs_slice t1_ 1 n3_ with
 | Some t4_ => (let v_tokens := rs_push v_tokens t4_ in
 (Some ((T "([^/]+)"), v_tokens)))
 | None => None end)
 | None => None end)
 | None => None end)
 | None => None end))
 v_tokens with
 | Some (t5_, v_tokens) => (let v_key2 := t5_ in
 (rx_new_result (rs_format1 (T "^") (T "$") v_key2)
 (fun v_re => (let v_re := v_re in
 (match (rx_captures v_re v_key1) with
 | Some v_caps => (match rs_iter_map_opt (fun v_m => (match v_m with
 | Some u7_ => (Some u7_)
 | None => None end)) (rs_iter_skip 1 (rx_caps_iter v_caps)) with
 | Some l8_ => (let v_matches := l8_ in
 (if (negb (Nat.eqb (rs_vec_len v_tokens) (rs_vec_len v_matches)))
 then FPanic
 else (let v_values := hm_new in
 (match rs_for (fun '(v_token, v_value) v_values =>
 (match (hm_get v_values v_token) with
 | Some v_existing_value => (if (negb (rs_eq v_existing_value v_value))
 then (LReturn false)
 else (LNext v_values))
 | None => (let v_values := hm_insert v_values v_token v_value in
 (LNext v_values)) end))
 (rs_iter_zip v_tokens v_matches) v_values return fres (bool) with
 | Done v_values => (FRet true)
 | Returned ret_ => (FRet ret_)
 | Panicked => FPanic end))))
 | None => FPanic end)
 | None => (FRet false) end)))
 (FRet false)))
 | None => FPanic end)))).
Definition gen_key_match4 (v_key1 : text) (v_key2 : text) : option bool := fres_opt (gen_key_match4_r v_key1 v_key2).

(* (\{[^/]+?\}) *)
Definition gen_key_match5_rx1 : regex :=
 (RGroup 1 (RCat (RChar "{"%char) (RCat (RPlus false (RSet true [IChar "/"%char])) (RChar "}"%char)))).

Definition gen_key_match5_r (v_key1 : text) (v_key2 : text) : fres bool :=
 (match (rs_find_char "?"%char v_key1) with
 | Some v_i => (match rs_slice v_key1 0 v_i with
 | Some t1_ => (let v_key1 := t1_ in
 (let v_key2 := (rs_str_replace v_key2 (T "/*") (T "/.*")) in
 (let v_key2 := (rx_replace_all gen_key_match5_rx1 v_key2 [TLit (T "[^/]+")]) in
 (gen_regex_match_r v_key1 (rs_format1 (T "^") (T "$") v_key2)))))
 | None => FPanic end)
 | None => (let v_key1 := v_key1 in
 (let v_key2 := (rs_str_replace v_key2 (T "/*") (T "/.*")) in
 (let v_key2 := (rx_replace_all gen_key_match5_rx1 v_key2 [TLit (T "[^/]+")]) in
 (gen_regex_match_r v_key1 (rs_format1 (T "^") (T "$") v_key2))))) end).
Definition gen_key_match5 (v_key1 : text) (v_key2 : text) : option bool := fres_opt (gen_key_match5_r v_key1 v_key2).

(* :[^/]+ *)
Definition gen_key_get2_rx1 : regex :=
 (RCat (RChar ":"%char) (RPlus true (RSet true [IChar "/"%char]))).

Definition gen_key_get2_r (v_key1 : text) (v_key2 : text) (v_path_var : text) : fres text :=
 (let v_key2 := (if (rs_contains_str v_key2 (T "/*")) then (rs_str_replace v_key2 (T "/*") (T "/.*")) else v_key2) in
 (let v_re := gen_key_get2_rx1 in
 (let v_keys := (rx_find_iter v_re v_key2) in
 (let v_key2 := (rx_replace_all v_re v_key2 [TLit (T "([^/]+)")]) in
 (let v_key2 := (rs_format1 (T "^") (T "$") v_key2) in
 (rx_new_result v_key2
 (fun v_re2 => (match (rx_captures v_re2 v_key1) with
 | Some v_caps => (match rs_for (fun '(v_i, v_key) (_ : unit) =>
 (match rs_slice_from (rx_as_str v_key) 1 with
 | Some t1_ => (if (rs_eq v_path_var t1_)
 then (LReturn (rs_map_or (rx_caps_get v_caps (v_i + 1)) (T "") (fun v_m => v_m)))
 else (LNext tt))
 | None => LPanic end))
 (rs_enumerate v_keys) tt return fres (text) with
 | Done _ => (FRet (T ""))
 | Returned ret_ => (FRet ret_)
 | Panicked => FPanic end)
 | None => (FRet (T "")) end))
 (FRet (T "")))))))).
Definition gen_key_get2 (v_key1 : text) (v_key2 : text) (v_path_var : text) : option text := fres_opt (gen_key_get2_r v_key1 v_key2 v_path_var).

(* \{[^/]+?\} *)
Definition gen_key_get3_rx1 : regex :=
 (RCat (RChar "{"%char) (RCat (RPlus false (RSet true [IChar "/"%char])) (RChar "}"%char))).

(* \{ *)
Definition gen_key_get3_rx2 : regex :=
 (RChar "{"%char).

Definition gen_key_get3_r (v_key1 : text) (v_key2 : text) (v_path_var : text) : fres text :=
 (let v_key2 := (if (rs_contains_str v_key2 (T "/*")) then (rs_str_replace v_key2 (T "/*") (T "/.*")) else v_key2) in
 (let v_re := gen_key_get3_rx1 in
 (let v_keys := (rx_find_iter v_re v_key2) in
 (let v_key2 := (rx_replace_all v_re v_key2 [TLit (T "([^/]+?)")]) in
 (let v_key2 := (rx_replace_all gen_key_get3_rx2 v_key2 [TLit (T "\{")]) in
 (let v_key2 := (rs_format1 (T "^") (T "$") v_key2) in
 (rx_new_unwrap v_key2 (fun re1_ =>
 (let v_re2 := re1_ in
 (match (rx_captures v_re2 v_key1) with
 | Some v_caps => (match rs_for (fun '(v_i, v_key) (_ : unit) =>
 (match rs_usize_sub (rs_len (rx_as_str v_key)) 1 with
 | Some n2_ => (match rs_slice (rx_as_str v_key) 1 n2_ with
 | Some t3_ => (if (rs_eq v_path_var t3_)
 then (LReturn (rs_map_or (rx_caps_get v_caps (v_i + 1)) (T "") (fun v_m => v_m)))
 else (LNext tt))
 | None => LPanic end)
 | None => LPanic end))
 (rs_enumerate v_keys) tt return fres (text) with
 | Done _ => (FRet (T ""))
 | Returned ret_ => (FRet ret_)
 | Panicked => FPanic end)
 | None => (FRet (T "")) end)))))))))).
Definition gen_key_get3 (v_key1 : text) (v_key2 : text) (v_path_var : text) : option text := fres_opt (gen_key_get3_r v_key1 v_key2 v_path_var).

(* the regex literals of the file, with the AST the translator gave them *)
Definition gen_fmap_literals : list (text * regex) :=
 [((T ":[^/]*"), gen_fm_mat_b);
  ((T "\{[^/]*\}"), gen_fm_mat_p);
  ((T "\{[^/]+?\}"), gen_key_match4_rx1);
  ((T "(\{[^/]+?\})"), gen_key_match5_rx1);
  ((T ":[^/]+"), gen_key_get2_rx1);
  ((T "\{[^/]+?\}"), gen_key_get3_rx1);
  ((T "\{"), gen_key_get3_rx2)].

Definition gen_fmap_translated : bool := true.
