(* Gallina counterparts of the few operations that the two enforcement loops of
   src/enforcer.rs use beyond those of Gen/RustStr.v and Gen/RustVec.v, for
   tools/rs2coq_loop.py (part 10: Gen/EnforceGen.v).  Hand-written, definitions
   only; the facts about them are in Proofs/RustLoopP.v and the obligations
   that tie the translated functions to the model in PinChecks/PcEnforceGen.v.

   rhai::Scope.  A scope is the list of its entries, NEWEST FIRST (the
   representation of the model: `assoc` finds the newest entry of a name, as
   rhai searches a scope from its end):
     Scope::new()                       sc_new
     scope.push_constant[_dynamic](n,v) sc_push scope n v     one more entry
     scope.len()                        sc_len scope
     scope.rewind(n)                    sc_rewind scope n     "truncate to the first n entries
                                                               pushed": drops the len - n newest
   These are deliberately NOT defined through the model's `bind`.

   Iterators.
     a.iter().zip(b.iter())             rs_zip a b            stops at the shorter one
     v.iter().position(|x| p x)         rs_position p v       index of the first element that satisfies p

   rs_result: the value of a function whose body is a `flow unit (outcome bool)`:
   `return r` / the trailing expression = r, a panic = Panic. *)
From CV Require Import Model.Base Model.Expr Gen.RustStr Gen.RustVec.

Definition scope := list (text * value).
Definition sc_new : scope := [].
Definition sc_push (sc : scope) (n : text) (v : value) : scope := (n, v) :: sc.
Definition sc_len (sc : scope) : nat := length sc.
Definition sc_rewind (sc : scope) (n : nat) : scope := skipn (length sc - n) sc.

Definition rs_zip {A B} (a : list A) (b : list B) : list (A * B) := combine a b.

Fixpoint rs_position {A} (p : A -> bool) (l : list A) : option nat :=
  match l with
  | [] => None
  | x :: l' => if p x then Some 0
               else match rs_position p l' with Some n => Some (S n) | None => None end
  end.

(* String::new() *)
Definition rs_string_new : text := [].

Definition rs_result (c : flow unit (outcome bool)) : outcome bool :=
  match c with
  | LReturn r => r
  | LNext _ => Panic
  | LBreak _ => Panic
  | LPanic => Panic
  end.
