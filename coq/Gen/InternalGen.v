(* GENERATED on every run by tools/rs2coq.py (part 4) from /repo/src/internal_api.rs
   (impl<T> InternalApi for T; cfg resolved for the features cached, !explain, incremental, !logging, watcher) - do not edit. *)
From CV Require Import Model.Base Model.Enforce Model.Engine Gen.InternalPrims.

(* gen_.._cc clear_cache: the entry point, with what emit(Event::ClearCache, ..) does as a parameter;
   gen_.. (below): the plain enforcer, for which it does nothing (InternalPrims.emit_clear_cache) *)

Definition gen_add_policy_internal_cc (clear_cache : estate -> estate) (s : estate) (v_sec : text) (v_ptype : text) (v_rule : rule) : estate * outcome bool :=
  match (if (e_auto_save s) then
      let (ad_1, ares_2) := ad_add (e_adapter s) v_sec v_ptype v_rule in
      let s := upd_adapter s ad_1 in
      match ares_2 with
      | Ok b_3 =>
        (s, Next (negb b_3))
      | Err e_4 => (s, Exit (Err e_4))
      | Panic => (s, Exit Panic)
      end
      else (s, Next false)) with
  | (s, Exit o_5) => (s, o_5)
  | (s, Next c_6) =>
    if c_6 then
    (s, (Ok false))
    else
    let (md_7, chg_8) := m_add_policy (e_model s) v_sec v_ptype v_rule in
    let s := upd_model s md_7 in
    let v_rule_added := chg_8 in
    let v_event_data := (EvAdd v_sec v_ptype v_rule) in
    let s := (if (v_rule_added && (e_auto_notify s)) then
      emit s v_event_data
      else
      s) in
    let s := (if v_rule_added then
      clear_cache s
      else
      s) in
    if (((negb (teqb v_sec (T "g"))) || (negb (e_auto_build s))) || (negb v_rule_added)) then
    (s, (Ok v_rule_added))
    else
    let (s, le_9) := build_incremental_role_links s (EvAdd v_sec v_ptype v_rule) in
    match le_9 with
    | LOk =>
      (s, (Ok v_rule_added))
    | LErr e_10 => (s, (Err e_10))
    end
  end.

Definition gen_add_policies_internal_cc (clear_cache : estate -> estate) (s : estate) (v_sec : text) (v_ptype : text) (v_rules : list rule) : estate * outcome bool :=
  match (if (e_auto_save s) then
      let (ad_1, ares_2) := ad_add_many (e_adapter s) v_sec v_ptype v_rules in
      let s := upd_adapter s ad_1 in
      match ares_2 with
      | Ok b_3 =>
        (s, Next (negb b_3))
      | Err e_4 => (s, Exit (Err e_4))
      | Panic => (s, Exit Panic)
      end
      else (s, Next false)) with
  | (s, Exit o_5) => (s, o_5)
  | (s, Next c_6) =>
    if c_6 then
    (s, (Ok false))
    else
    let (md_7, chg_8) := m_add_policies (e_model s) v_sec v_ptype v_rules in
    let s := upd_model s md_7 in
    let v_rules_added := chg_8 in
    let v_event_data := (EvAddMany v_sec v_ptype v_rules) in
    let s := (if (v_rules_added && (e_auto_notify s)) then
      emit s v_event_data
      else
      s) in
    let s := (if v_rules_added then
      clear_cache s
      else
      s) in
    if (((negb (teqb v_sec (T "g"))) || (negb (e_auto_build s))) || (negb v_rules_added)) then
    (s, (Ok v_rules_added))
    else
    let (s, le_9) := build_incremental_role_links s (EvAddMany v_sec v_ptype v_rules) in
    match le_9 with
    | LOk =>
      (s, (Ok v_rules_added))
    | LErr e_10 => (s, (Err e_10))
    end
  end.

Definition gen_remove_policy_internal_cc (clear_cache : estate -> estate) (s : estate) (v_sec : text) (v_ptype : text) (v_rule : rule) : estate * outcome bool :=
  match (if (e_auto_save s) then
      let (ad_1, ares_2) := ad_remove (e_adapter s) v_sec v_ptype v_rule in
      let s := upd_adapter s ad_1 in
      match ares_2 with
      | Ok b_3 =>
        (s, Next (negb b_3))
      | Err e_4 => (s, Exit (Err e_4))
      | Panic => (s, Exit Panic)
      end
      else (s, Next false)) with
  | (s, Exit o_5) => (s, o_5)
  | (s, Next c_6) =>
    if c_6 then
    (s, (Ok false))
    else
    let (md_7, chg_8) := m_remove_policy (e_model s) v_sec v_ptype v_rule in
    let s := upd_model s md_7 in
    let v_rule_removed := chg_8 in
    let v_event_data := (EvRemove v_sec v_ptype v_rule) in
    let s := (if (v_rule_removed && (e_auto_notify s)) then
      emit s v_event_data
      else
      s) in
    let s := (if v_rule_removed then
      clear_cache s
      else
      s) in
    if (((negb (teqb v_sec (T "g"))) || (negb (e_auto_build s))) || (negb v_rule_removed)) then
    (s, (Ok v_rule_removed))
    else
    let (s, le_9) := build_incremental_role_links s (EvRemove v_sec v_ptype v_rule) in
    match le_9 with
    | LOk =>
      (s, (Ok v_rule_removed))
    | LErr e_10 => (s, (Err e_10))
    end
  end.

Definition gen_remove_policies_internal_cc (clear_cache : estate -> estate) (s : estate) (v_sec : text) (v_ptype : text) (v_rules : list rule) : estate * outcome bool :=
  match (if (e_auto_save s) then
      let (ad_1, ares_2) := ad_remove_many (e_adapter s) v_sec v_ptype v_rules in
      let s := upd_adapter s ad_1 in
      match ares_2 with
      | Ok b_3 =>
        (s, Next (negb b_3))
      | Err e_4 => (s, Exit (Err e_4))
      | Panic => (s, Exit Panic)
      end
      else (s, Next false)) with
  | (s, Exit o_5) => (s, o_5)
  | (s, Next c_6) =>
    if c_6 then
    (s, (Ok false))
    else
    let (md_7, chg_8) := m_remove_policies (e_model s) v_sec v_ptype v_rules in
    let s := upd_model s md_7 in
    let v_rules_removed := chg_8 in
    let v_event_data := (EvRemoveMany v_sec v_ptype v_rules) in
    let s := (if (v_rules_removed && (e_auto_notify s)) then
      emit s v_event_data
      else
      s) in
    let s := (if v_rules_removed then
      clear_cache s
      else
      s) in
    if (((negb (teqb v_sec (T "g"))) || (negb (e_auto_build s))) || (negb v_rules_removed)) then
    (s, (Ok v_rules_removed))
    else
    let (s, le_9) := build_incremental_role_links s (EvRemoveMany v_sec v_ptype v_rules) in
    match le_9 with
    | LOk =>
      (s, (Ok v_rules_removed))
    | LErr e_10 => (s, (Err e_10))
    end
  end.

Definition gen_remove_filtered_policy_internal_cc (clear_cache : estate -> estate) (s : estate) (v_sec : text) (v_ptype : text) (v_field_index : nat) (v_field_values : rule) : estate * outcome bool :=
  match (if (e_auto_save s) then
      let (ad_1, ares_2) := ad_remove_filtered (e_adapter s) v_sec v_ptype v_field_index v_field_values in
      let s := upd_adapter s ad_1 in
      match ares_2 with
      | Ok b_3 =>
        (s, Next (negb b_3))
      | Err e_4 => (s, Exit (Err e_4))
      | Panic => (s, Exit Panic)
      end
      else (s, Next false)) with
  | (s, Exit o_5) => (s, o_5)
  | (s, Next c_6) =>
    if c_6 then
    (s, (Ok false))
    else
    match m_remove_filtered (e_model s) v_sec v_ptype v_field_index v_field_values with
    | None => (s, Panic)
    | Some (md_7, chg_8, rs_9) =>
      let s := upd_model s md_7 in
      let v_rules_removed := chg_8 in
      let v_rules := rs_9 in
      let v_event_data := (EvRemoveFiltered v_sec v_ptype v_rules) in
      let s := (if (v_rules_removed && (e_auto_notify s)) then
        emit s v_event_data
        else
        s) in
      let s := (if v_rules_removed then
        clear_cache s
        else
        s) in
      if ((negb (teqb v_sec (T "g"))) || (negb (e_auto_build s))) then
      (s, (Ok v_rules_removed))
      else
      let (s, le_10) := build_incremental_role_links s (EvRemoveFiltered v_sec v_ptype v_rules) in
      match le_10 with
      | LOk =>
        (s, (Ok v_rules_removed))
      | LErr e_11 => (s, (Err e_11))
      end
    end
  end.

Definition gen_add_policy_internal := gen_add_policy_internal_cc emit_clear_cache.
Definition gen_add_policies_internal := gen_add_policies_internal_cc emit_clear_cache.
Definition gen_remove_policy_internal := gen_remove_policy_internal_cc emit_clear_cache.
Definition gen_remove_policies_internal := gen_remove_policies_internal_cc emit_clear_cache.
Definition gen_remove_filtered_policy_internal := gen_remove_filtered_policy_internal_cc emit_clear_cache.

Definition gen_internal_translated : bool := true.
