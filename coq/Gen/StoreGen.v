(* GENERATED on every run by tools/rs2coq.py from /repo/src/model/default_model.rs
   (get_filtered_policy, remove_filtered_policy, has_policy, get_values_for_field_in_policy)
   - do not edit.  st_policy = the rule list of the (sec, ptype) assertion, in stored order;
   gen_f_absent = the same function when the section or the policy type is unknown. *)
From CV Require Import Model.Base Gen.RustStr Gen.RustVec.

Definition gen_get_filtered (v_field_index : nat) (v_field_values : list text) (st_policy : list rule) : option (list rule) :=
 rs_fn (let v_res := ([] : list rule) in
 (match rs_for (fun v_rule v_res =>
 (let v_matched := true in
 (match rs_for (fun '(v_i, v_field_value) v_matched =>
 (match (if (negb (rs_is_empty v_field_value)) then (match (rs_index v_rule (v_field_index + v_i)) with Some ix1 => (Some (negb (rs_eq ix1 v_field_value))) | None => None end) else (Some false)) with
 | Some true => (let v_matched := false in
 (LBreak v_matched))
 | Some false => (LNext v_matched)
 | None => LPanic end))
 (rs_enumerate v_field_values) v_matched with
 | Done v_matched => (let v_res := (if v_matched then (let v_res := rs_push v_res v_rule in
 v_res) else v_res) in
 (LNext v_res))
 | Returned ret_ => LReturn ret_
 | Panicked => LPanic end)))
 st_policy v_res with
 | Done v_res => (LReturn v_res)
 | Returned ret_ => LReturn ret_
 | Panicked => LPanic end)).

Definition gen_get_filtered_absent (v_field_index : nat) (v_field_values : list text) : option (list rule) :=
 rs_fn (let v_res := ([] : list rule) in
 (LReturn v_res)).

Definition gen_remove_filtered (v_field_index : nat) (v_field_values : list text) (st_policy : list rule) : option (list rule * (bool * (list rule))) :=
 rs_fn (if (rs_vec_is_empty v_field_values)
 then (LReturn (st_policy, (false, ([] : list rule))))
 else (let v_res := false in
 (let v_rules_removed := ([] : list rule) in
 (match rs_for (fun v_rule '(v_res, v_rules_removed) =>
 (let v_matched := true in
 (match rs_for (fun '(v_i, v_field_value) v_matched =>
 (match (if (negb (rs_is_empty v_field_value)) then (match (rs_index v_rule (v_field_index + v_i)) with Some ix1 => (Some (negb (rs_eq ix1 v_field_value))) | None => None end) else (Some false)) with
 | Some true => (let v_matched := false in
 (LBreak v_matched))
 | Some false => (LNext v_matched)
 | None => LPanic end))
 (rs_enumerate v_field_values) v_matched with
 | Done v_matched => (let '(v_res, v_rules_removed) := (if v_matched then (let v_res := true in
 (let v_rules_removed := rs_push v_rules_removed v_rule in
 (v_res, v_rules_removed))) else (v_res, v_rules_removed)) in
 (LNext (v_res, v_rules_removed)))
 | Returned ret_ => LReturn ret_
 | Panicked => LPanic end)))
 st_policy (v_res, v_rules_removed) with
 | Done (v_res, v_rules_removed) => (if (v_res && (negb (rs_vec_is_empty v_rules_removed)))
 then (match rs_for (fun v_rule st_policy =>
 (let st_policy := rs_oset_remove st_policy v_rule in
 (LNext st_policy)))
 v_rules_removed st_policy with
 | Done st_policy => (LReturn (st_policy, (v_res, v_rules_removed)))
 | Returned ret_ => LReturn ret_
 | Panicked => LPanic end)
 else (LReturn (st_policy, (v_res, v_rules_removed))))
 | Returned ret_ => LReturn ret_
 | Panicked => LPanic end)))).

Definition gen_remove_filtered_absent (v_field_index : nat) (v_field_values : list text) : option (bool * (list rule)) :=
 rs_fn (if (rs_vec_is_empty v_field_values)
 then (LReturn (false, ([] : list rule)))
 else (let v_res := false in
 (let v_rules_removed := ([] : list rule) in
 (LReturn (v_res, v_rules_removed))))).

Definition gen_has_policy (v_rule : list text) (st_policy : list rule) : option bool :=
 rs_fn (let v_policy := st_policy in
 (match rs_for (fun v_r (_ : unit) =>
 (if (rs_vec_eq v_r v_rule)
 then (LReturn true)
 else (LNext tt)))
 v_policy tt with
 | Done _ => (LReturn false)
 | Returned ret_ => LReturn ret_
 | Panicked => LPanic end)).

Definition gen_has_policy_absent (v_rule : list text) : option bool :=
 rs_fn (let v_policy := ([] : list rule) in
 (match rs_for (fun v_r (_ : unit) =>
 (if (rs_vec_eq v_r v_rule)
 then (LReturn true)
 else (LNext tt)))
 v_policy tt with
 | Done _ => (LReturn false)
 | Returned ret_ => LReturn ret_
 | Panicked => LPanic end)).

Definition gen_values_for_field (v_field_index : nat) (st_policy : list rule) : option (list text) :=
 rs_fn (match (match (rs_fold (fun v_x v_acc =>
 (match (rs_index v_x v_field_index) with Some ix1 => (let v_acc := rs_set_insert v_acc ix1 in
 (LNext v_acc)) | None => LPanic end))
 st_policy rs_set_new) with Some ix2 => (Some (rs_set_to_vec ix2)) | None => None end) with Some ix3 => LReturn ix3 | None => LPanic end).

Definition gen_values_for_field_absent (v_field_index : nat) : option (list text) :=
 rs_fn (match (match (rs_fold (fun v_x v_acc =>
 (match (rs_index v_x v_field_index) with Some ix1 => (let v_acc := rs_set_insert v_acc ix1 in
 (LNext v_acc)) | None => LPanic end))
 ([] : list rule) rs_set_new) with Some ix2 => (Some (rs_set_to_vec ix2)) | None => None end) with Some ix3 => LReturn ix3 | None => LPanic end).

(* the parts of remove_filtered_policy: the rules selected for removal, the returned flag, the rule list left *)
Definition gen_remove_filtered_select (idx : nat) (vals : list text) (st_policy : list rule) : option (list rule) :=
 option_map (fun x => snd (snd x)) (gen_remove_filtered idx vals st_policy).
Definition gen_remove_filtered_flag (idx : nat) (vals : list text) (st_policy : list rule) : option bool :=
 option_map (fun x => fst (snd x)) (gen_remove_filtered idx vals st_policy).
Definition gen_remove_filtered_store (idx : nat) (vals : list text) (st_policy : list rule) : option (list rule) :=
 option_map fst (gen_remove_filtered idx vals st_policy).

Definition gen_store_translated : bool := true.
