(* GENERATED on every run by tools/rs2coq.py (part 10: tools/rs2coq_loop.py) from /repo/src/enforcer.rs
   (Enforcer::private_enforce, Enforcer::private_enforce_with_context; the lookup macros of src/macros.rs;
   cfg resolved for the features cached, !explain, incremental, !logging, watcher) - do not edit.
   eval_matcher ptab fs m scope stands for `compile_expression(escape_eval(<matcher text>))` followed by
   `eval_ast_with_scope::<bool>`, with m = the expression registered in mexprs for the matcher key. *)
From CV Require Import Model.Base Model.Effector Model.Expr Model.Enforce Gen.RustStr Gen.RustVec Gen.RustEnf.

Definition gen_private_enforce (ptab : text -> option expr) (enabled : bool) (md : model) (mexprs : list (text * expr)) (fs : fstate) (v_rvals : list value) : outcome bool :=
 rs_result
  (if (negb enabled)
   then (LReturn (Ok true))
   else (let v_scope := sc_new in
    (match get_ast md (T "r") (T "r") with
     | Some v_r_ast => (match get_ast md (T "p") (T "p") with
      | Some v_p_ast => (match get_ast md (T "m") (T "m") with
       | Some v_m_ast => (match get_ast md (T "e") (T "e") with
        | Some v_e_ast => (if (negb (Nat.eqb (length (a_tokens v_r_ast)) (length v_rvals)))
         then (LReturn (Err ERequest))
         else (match rs_for (fun '(v_rtoken, v_rval) v_scope =>
           (let v_scope := sc_push v_scope v_rtoken v_rval in
            (LNext v_scope)))
          (rs_zip (a_tokens v_r_ast) v_rvals) v_scope with
          | Done v_scope => (let v_policies := (a_policy v_p_ast) in
           (let v_policy_len := (length v_policies) in
            (let v_scope_len := (sc_len v_scope) in
             (match (new_stream (a_value v_e_ast) (Nat.max v_policy_len 1)) with
              | Some v_eft_stream => (match (assoc (T "m") mexprs) with
               | Some v_m_ast_compiled => (if (Nat.eqb v_policy_len 0)
                then (match rs_for (fun v_token v_scope =>
                  (let v_scope := sc_push v_scope v_token (VStr rs_string_new) in
                   (LNext v_scope)))
                 (a_tokens v_p_ast) v_scope with
                 | Done v_scope => (match (eval_matcher ptab fs v_m_ast_compiled v_scope) with
                  | Ok v_eval_result => (let v_eft := (if v_eval_result then Allow else Indet) in
                   (let v_eft_stream := (push v_eft_stream v_eft) in
                    (match (next v_eft_stream) with Some r1_ => LReturn (Ok r1_) | None => LPanic end)))
                  | Err e_ => LReturn (Err e_)
                  | Panic => LPanic end)
                 | Returned ret_ => LReturn ret_
                 | Panicked => LPanic end)
                else (match rs_for (fun v_pvals '(v_eft_stream, v_scope) =>
                  (let v_scope := sc_rewind v_scope v_scope_len in
                   (if (negb (Nat.eqb (length (a_tokens v_p_ast)) (length v_pvals)))
                    then (LReturn (Err EPolicy))
                    else (match rs_for (fun '(v_ptoken, v_pval) v_scope =>
                      (let v_scope := sc_push v_scope v_ptoken (VStr v_pval) in
                       (LNext v_scope)))
                     (rs_zip (a_tokens v_p_ast) v_pvals) v_scope with
                     | Done v_scope => (match (eval_matcher ptab fs v_m_ast_compiled v_scope) with
                      | Ok v_eval_result => (match (match (rs_position (fun v_x => (rs_eq v_x (T "p_eft"))) (a_tokens v_p_ast)) with Some sm2_ => (if v_eval_result then (match (rs_index v_pvals sm2_) with Some v_p_eft => (Some (if (rs_eq v_p_eft (T "deny")) then Deny else (if (rs_eq v_p_eft (T "allow")) then Allow else Indet))) | None => None end) else (Some Indet)) | None => (if v_eval_result then (Some Allow) else (Some Indet)) end) with
                       | Some v_eft => (let v_eft_stream := (push v_eft_stream v_eft) in
                        (if (done v_eft_stream)
                         then (LBreak (v_eft_stream, v_scope))
                         else (LNext (v_eft_stream, v_scope))))
                       | None => LPanic end)
                      | Err e_ => LReturn (Err e_)
                      | Panic => LPanic end)
                     | Returned ret_ => LReturn ret_
                     | Panicked => LPanic end))))
                 v_policies (v_eft_stream, v_scope) with
                 | Done (v_eft_stream, v_scope) => (match (next v_eft_stream) with Some r3_ => LReturn (Ok r3_) | None => LPanic end)
                 | Returned ret_ => LReturn ret_
                 | Panicked => LPanic end))
               | None => LReturn (Err EEvalc) end)
              | None => LPanic end))))
          | Returned ret_ => LReturn ret_
          | Panicked => LPanic end))
        | None => LReturn (Err EModel) end)
       | None => LReturn (Err EModel) end)
      | None => LReturn (Err EModel) end)
     | None => LReturn (Err EModel) end))).

Definition gen_private_enforce_with_context (ptab : text -> option expr) (enabled : bool) (md : model) (mexprs : list (text * expr)) (fs : fstate) (rk pk ek mk : text) (v_rvals : list value) : outcome bool :=
 rs_result
  (if (negb enabled)
   then (LReturn (Ok true))
   else (let v_scope := sc_new in
    (match get_ast md (T "r") rk with
     | Some v_r_ast => (match get_ast md (T "p") pk with
      | Some v_p_ast => (match get_ast md (T "m") mk with
       | Some v_m_ast => (match get_ast md (T "e") ek with
        | Some v_e_ast => (if (negb (Nat.eqb (length (a_tokens v_r_ast)) (length v_rvals)))
         then (LReturn (Err ERequest))
         else (match rs_for (fun '(v_rtoken, v_rval) v_scope =>
           (let v_scope := sc_push v_scope v_rtoken v_rval in
            (LNext v_scope)))
          (rs_zip (a_tokens v_r_ast) v_rvals) v_scope with
          | Done v_scope => (let v_policies := (a_policy v_p_ast) in
           (let v_policy_len := (length v_policies) in
            (let v_scope_len := (sc_len v_scope) in
             (match (new_stream (a_value v_e_ast) (Nat.max v_policy_len 1)) with
              | Some v_eft_stream => (match (assoc mk mexprs) with
               | Some v_m_ast_compiled => (if (Nat.eqb v_policy_len 0)
                then (match rs_for (fun v_token v_scope =>
                  (let v_scope := sc_push v_scope v_token (VStr rs_string_new) in
                   (LNext v_scope)))
                 (a_tokens v_p_ast) v_scope with
                 | Done v_scope => (match (eval_matcher ptab fs v_m_ast_compiled v_scope) with
                  | Ok v_eval_result => (let v_eft := (if v_eval_result then Allow else Indet) in
                   (let v_eft_stream := (push v_eft_stream v_eft) in
                    (match (next v_eft_stream) with Some r1_ => LReturn (Ok r1_) | None => LPanic end)))
                  | Err e_ => LReturn (Err e_)
                  | Panic => LPanic end)
                 | Returned ret_ => LReturn ret_
                 | Panicked => LPanic end)
                else (match rs_for (fun v_pvals '(v_eft_stream, v_scope) =>
                  (let v_scope := sc_rewind v_scope v_scope_len in
                   (if (negb (Nat.eqb (length (a_tokens v_p_ast)) (length v_pvals)))
                    then (LReturn (Err EPolicy))
                    else (match rs_for (fun '(v_ptoken, v_pval) v_scope =>
                      (let v_scope := sc_push v_scope v_ptoken (VStr v_pval) in
                       (LNext v_scope)))
                     (rs_zip (a_tokens v_p_ast) v_pvals) v_scope with
                     | Done v_scope => (match (eval_matcher ptab fs v_m_ast_compiled v_scope) with
                      | Ok v_eval_result => (let v_eft_token := (rs_format1 (T "") (T "_eft") pk) in
                       (match (match (rs_position (fun v_x => (rs_eq v_x v_eft_token)) (a_tokens v_p_ast)) with Some sm2_ => (if v_eval_result then (match (rs_index v_pvals sm2_) with Some v_p_eft => (Some (if (rs_eq v_p_eft (T "deny")) then Deny else (if (rs_eq v_p_eft (T "allow")) then Allow else Indet))) | None => None end) else (Some Indet)) | None => (if v_eval_result then (Some Allow) else (Some Indet)) end) with
                        | Some v_eft => (let v_eft_stream := (push v_eft_stream v_eft) in
                         (if (done v_eft_stream)
                          then (LBreak (v_eft_stream, v_scope))
                          else (LNext (v_eft_stream, v_scope))))
                        | None => LPanic end))
                      | Err e_ => LReturn (Err e_)
                      | Panic => LPanic end)
                     | Returned ret_ => LReturn ret_
                     | Panicked => LPanic end))))
                 v_policies (v_eft_stream, v_scope) with
                 | Done (v_eft_stream, v_scope) => (match (next v_eft_stream) with Some r3_ => LReturn (Ok r3_) | None => LPanic end)
                 | Returned ret_ => LReturn ret_
                 | Panicked => LPanic end))
               | None => LReturn (Err EEvalc) end)
              | None => LPanic end))))
          | Returned ret_ => LReturn ret_
          | Panicked => LPanic end))
        | None => LReturn (Err EModel) end)
       | None => LReturn (Err EModel) end)
      | None => LReturn (Err EModel) end)
     | None => LReturn (Err EModel) end))).

Definition gen_enforce_translated : bool := true.
