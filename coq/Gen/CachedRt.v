(* Gallina counterparts of the primitives that the bodies of
   src/cached_enforcer.rs are written with; the vocabulary of the terms that
   tools/rs2coq_cached.py emits (Gen/CachedGen.v).  Hand-written, definitions
   only; PinChecks/PcCachedGen.v proves the translated functions equal to the
   cached-enforcer model (Model/Cached.v).

   They are deliberately NOT defined through Model.Cached.cstep_prim /
   cenforce / clears_after: each one says what ONE source-level operation does
   to the pair (inner enforcer, cache), so that the WHERE of a `cache.clear()`
   and the ORDER lookup / decide / store come from the translated source.

     self.cache.clear()                      cg_clear
     self.cache.get(&k)                      cg_get
     self.cache.set(k, v)                    cg_set   (insert replaces: newest first, first match wins)
     self.enforcer.<op>(args)                cg_call c (<Op> args): Engine.step on the inner state, cache untouched
     self.enforcer.private_enforce(&rv)      cg_inner_enforce      (Engine.enforce)
     self.enforcer.private_enforce_with_context(ctx, &rv)
                                             cg_inner_enforce_ctx  (Engine.enforce_with_ctx4)
     rvals.cache_key()                       the request values themselves (used as a key: CKPlain rv)
     DefaultHasher: h.hash(part)*; h.finish()   cg_hash [parts]

   Scope notes
   - A `u64` hash is represented by WHAT WAS HASHED (the assumption of
     Model/Cached.v: the 64-bit SipHash is injective on the keys in play).
     `cg_hash` therefore depends only on which parts were fed (the context's
     key string and/or the hash of the request values), not on their order.
     The four names of a context may also be fed one by one (HField); a name
     that is not fed counts as the empty name.
     A DefaultHasher digest is never identified with a plain `cache_key()`
     (CKPlain): a digest that was fed no context is the key of the EMPTY
     context, which differs from the key of every real context and from every
     plain key.
   - `EnforceContext::get_cache_key()` (src/enforcer.rs) is represented by the
     four section names themselves (see the remark on its '-' separators in
     PcCachedGen.v).
   - Unit results: the model reports a completed `()` / `Ok(())` call as
     `Ok true`, so the translator writes `true` for the Rust value `()`.
   - Panic: a call whose model outcome is Panic unwinds; the translator makes
     every call site propagate it before the next statement runs.
   - `Option<Vec<usize>>` (explain indices; feature `explain` is off) is `unit`. *)
From CV Require Import Model.Base Model.Expr Model.Enforce Model.Engine Model.Cached.

(* where a delegating method clears the cache relative to the delegated call *)
Inductive clear_kind := ClearBefore | ClearAfter | ClearAfterOk | ClearNever.

Definition cg_clear (c : cstate) : cstate := {| c_inner := c_inner c; c_cache := [] |}.

Definition cg_get (c : cstate) (k : ckey) : option bool := cache_get k (c_cache c).

Definition cg_set (c : cstate) (k : ckey) (b : bool) : cstate :=
  {| c_inner := c_inner c; c_cache := (k, b) :: c_cache c |}.

(* a call on the wrapped enforcer: the cache is not involved *)
Definition cg_call (c : cstate) (o : op) : cstate * outcome bool :=
  let (s', r) := step (c_inner c) o in
  ({| c_inner := s'; c_cache := c_cache c |}, r).

(* EnforceContext { r_type, p_type, e_type, m_type } *)
Record cgctx := { x_r : text; x_p : text; x_e : text; x_m : text }.
Definition cg_no_ctx : cgctx := {| x_r := []; x_p := []; x_e := []; x_m := [] |}.

Section Inner.
  Variable ptab : text -> option expr.

  (* Enforcer::private_enforce -> Result<(bool, Option<Vec<usize>>)> *)
  Definition cg_inner_enforce (c : cstate) (rv : list value) : outcome (bool * unit) :=
    match enforce ptab (c_inner c) rv with
    | Ok b => Ok (b, tt)
    | Err e => Err e
    | Panic => Panic
    end.

  (* Enforcer::private_enforce_with_context *)
  Definition cg_inner_enforce_ctx (c : cstate) (x : cgctx) (rv : list value) : outcome (bool * unit) :=
    match enforce_with_ctx4 ptab (c_inner c) (x_r x) (x_p x) (x_e x) (x_m x) rv with
    | Ok b => Ok (b, tt)
    | Err e => Err e
    | Panic => Panic
    end.
End Inner.

(* what a DefaultHasher was fed: the context's key string, one of its four
   names, the hash of the request values *)
Inductive cfield := FR | FP | FE | FM.
Inductive hpart := HCtx (x : cgctx) | HField (f : cfield) (t : text) | HRv (rv : list value).

Definition cfield_eqb (a b : cfield) : bool :=
  match a, b with FR, FR | FP, FP | FE, FE | FM, FM => true | _, _ => false end.

Fixpoint hp_ctx (ps : list hpart) : option cgctx :=
  match ps with
  | [] => None
  | HCtx x :: _ => Some x
  | _ :: ps' => hp_ctx ps'
  end.
(* a name that was not fed is absent from the digest: the empty name *)
Fixpoint hp_field (f : cfield) (ps : list hpart) : text :=
  match ps with
  | [] => []
  | HField g t :: ps' => if cfield_eqb f g then t else hp_field f ps'
  | _ :: ps' => hp_field f ps'
  end.
Fixpoint hp_rv (ps : list hpart) : option (list value) :=
  match ps with
  | [] => None
  | HRv rv :: _ => Some rv
  | _ :: ps' => hp_rv ps'
  end.

Definition cg_hash (ps : list hpart) : ckey :=
  let x := match hp_ctx ps with
           | Some x => x
           | None => {| x_r := hp_field FR ps; x_p := hp_field FP ps; x_e := hp_field FE ps; x_m := hp_field FM ps |}
           end in
  let rv := match hp_rv ps with Some rv => rv | None => [] end in
  CKCtx4 (x_r x) (x_p x) (x_e x) (x_m x) rv.
