(* Run-time vocabulary of the code that tools/rs2coq_api.py generates from
   src/management_api.rs and src/rbac_api.rs (Gen/ApiGen.v).  Hand-written,
   definitions only; everything that relates generated code to the model's
   `step` / `step_rbac` is proved in PinChecks/PcApiGen.v.

   A Rust `async fn f(&mut self, ..) -> Result<A>` of the API layers becomes a
   Gallina function  estate -> .. -> estate * outcome A  (state passing; the
   third outcome, Panic, is a Rust panic: it unwinds through every caller).

   - `e.await?`  is `bind e (fun s x => ..)`: on Ok x the rest runs in the NEW
     state; Err and Panic stop the function (the state reached so far is kept,
     exactly as `&mut self` keeps what was already mutated).
   - `match e.await { Ok(x) => .., Err(y) => .. }` is `on_result`; a panic is
     not catchable.
   - `Ok(v)` in the current state s is `(s, Ok v)`, `Err(y)` is `(s, Err y)`.

   The five internal entry points (src/internal_api.rs) are the model's
   step_add / step_add_many / step_remove / step_remove_many /
   step_remove_filtered, with the arguments in the order of the Rust
   signatures (sec, ptype, ..).  The Rust `remove_filtered_policy_internal`
   returns a PAIR (removed?, removed rules) whereas the model's
   `step_remove_filtered` returns the flag only; `int_remove_filtered` restores
   the pair so that `.0` / `let (rule_removed, rules) = ..` in the source are
   translated for what they are.  Its first component is, by construction, the
   model's flag; the second component (the rules the model removed) has no
   counterpart in `step` and is there for typing only: a source that returned
   something computed from `.1` would not be provable. *)
From CV Require Import Model.Base Model.Enforce Model.Engine.

Definition bind {A B : Type} (ra : estate * outcome A) (f : estate -> A -> estate * outcome B)
  : estate * outcome B :=
  match ra with
  | (s, Ok a) => f s a
  | (s, Err e) => (s, Err e)
  | (s, Panic) => (s, Panic)
  end.

Definition on_result {A B : Type} (ra : estate * outcome A)
  (fok : estate -> A -> estate * outcome B) (ferr : estate -> errc -> estate * outcome B)
  : estate * outcome B :=
  match ra with
  | (s, Ok a) => fok s a
  | (s, Err e) => ferr s e
  | (s, Panic) => (s, Panic)
  end.

(* the rules a filtered removal takes out of the model (what the adapter did
   first is replayed exactly as step_remove_filtered does) *)
Definition removed_rules (s : estate) (sec pt : text) (idx : nat) (vals : list text) : list rule :=
  let ad := if e_auto_save s then fst (ad_remove_filtered (e_adapter s) sec pt idx vals) else e_adapter s in
  match m_remove_filtered (e_model (upd_adapter s ad)) sec pt idx vals with
  | Some (_, _, rs) => rs
  | None => []
  end.

Definition int_remove_filtered (s : estate) (sec pt : text) (idx : nat) (vals : list text)
  : estate * outcome (bool * list rule) :=
  match step_remove_filtered s sec pt idx vals with
  | (s', Ok b) => (s', Ok (b, removed_rules s sec pt idx vals))
  | (s', Err e) => (s', Err e)
  | (s', Panic) => (s', Panic)
  end.
