(* GENERATED on every run by tools/rs2coq_locks.py (rs2coq part 19) from the Rust text under /repo/src
   (every src/**/*.rs is lexed and scanned; the bodies below are parsed); cfg resolved for the features !amortized, cached, !explain, !glob, incremental, !ip, !logging, !runtime-async-std, runtime-tokio, watcher.
   Do not edit.  gen_lk_F : lk is the lock skeleton of F (Gen/LocksRt.v says what it means); gen_locks_F k is the
   sequence of role-manager instructions F issues, k = number of guarded role-manager calls (links added / removed,
   g(..) evaluations, role lookups); gen_locks_F_lo / _hi bound k.  PinChecks/PcLocksGen.v proves from gen_lk_F that
   the complete executions of F issue exactly gen_locks_F k for gen_locks_F_lo <= k (<= gen_locks_F_hi). *)
From CV Require Import Model.Base Model.Locks Gen.LocksRt.

(* Enforcer::register_function  (src/enforcer.rs:356) *)
Definition gen_lk_enforcer_register_function : lk :=
  LNop.

Definition gen_locks_enforcer_register_function_block : list instr := [].
Definition gen_locks_enforcer_register_function_lo : nat := 0.
Definition gen_locks_enforcer_register_function_hi : option nat := Some 0.
Definition gen_locks_enforcer_register_function (k : nat) : list instr := repeat_prog k gen_locks_enforcer_register_function_block.

(* Enforcer::register_g_functions  (src/enforcer.rs:382) *)
Definition gen_lk_register_g_functions : lk :=
  lk_alt
    [ LLoop (* src/enforcer.rs:384 for *)
        (lk_alt
           [ LNop;
             LExit ]);
      LNop ].

Definition gen_locks_register_g_functions_block : list instr := [].
Definition gen_locks_register_g_functions_lo : nat := 0.
Definition gen_locks_register_g_functions_hi : option nat := Some 0.
Definition gen_locks_register_g_functions (k : nat) : list instr := repeat_prog k gen_locks_register_g_functions_block.

(* closure given to Engine::register_fn at src/macros.rs:56 (expanded in src/enforcer.rs) *)
Definition gen_lk_g_closure_1 : lk :=
  LCall (* src/macros.rs:56 (expanded in src/enforcer.rs) closure *)
    (lk_tmp MR Read (* src/macros.rs:57 (expanded in src/enforcer.rs) read(); src/macros.rs:57 (expanded in src/enforcer.rs) has_link *)).

Definition gen_locks_g_closure_1_block : list instr := [Acq RM MR; Read; Rel RM].
Definition gen_locks_g_closure_1_lo : nat := 1.
Definition gen_locks_g_closure_1_hi : option nat := Some 1.
Definition gen_locks_g_closure_1 (k : nat) : list instr := repeat_prog k gen_locks_g_closure_1_block.

(* closure given to Engine::register_fn at src/macros.rs:63 (expanded in src/enforcer.rs) *)
Definition gen_lk_g_closure_2 : lk :=
  LCall (* src/macros.rs:63 (expanded in src/enforcer.rs) closure *)
    (lk_tmp MR Read (* src/macros.rs:66 (expanded in src/enforcer.rs) read(); src/macros.rs:66 (expanded in src/enforcer.rs) has_link *)).

Definition gen_locks_g_closure_2_block : list instr := [Acq RM MR; Read; Rel RM].
Definition gen_locks_g_closure_2_lo : nat := 1.
Definition gen_locks_g_closure_2_hi : option nat := Some 1.
Definition gen_locks_g_closure_2 (k : nat) : list instr := repeat_prog k gen_locks_g_closure_2_block.

(* any function registered with the rhai engine that captures a role-manager handle *)
Definition gen_lk_registered : lk :=
  lk_alt
    [ LCall gen_lk_g_closure_1 (* src/macros.rs:56 (expanded in src/enforcer.rs) *);
      LCall gen_lk_g_closure_2 (* src/macros.rs:63 (expanded in src/enforcer.rs) *) ].

Definition gen_locks_registered_block : list instr := [Acq RM MR; Read; Rel RM].
Definition gen_locks_registered_lo : nat := 1.
Definition gen_locks_registered_hi : option nat := Some 1.
Definition gen_locks_registered (k : nat) : list instr := repeat_prog k gen_locks_registered_block.

(* Enforcer::private_enforce  (src/enforcer.rs:120) *)
Definition gen_lk_private_enforce : lk :=
  lk_seq
    [ lk_try;
      lk_alt
        [ lk_seq
            [ LLoop (* src/enforcer.rs:164 eval_ast_with_scope *)
                (LCall gen_lk_registered (* src/enforcer.rs:164 eval_ast_with_scope *));
              lk_try;
              LExit ];
          LNop ];
      LLoop (* src/enforcer.rs:176 for *)
        (lk_seq
           [ lk_try;
             LLoop (* src/enforcer.rs:192 eval_ast_with_scope *)
               (LCall gen_lk_registered (* src/enforcer.rs:192 eval_ast_with_scope *));
             lk_try;
             lk_alt
               [ LBreak;
                 LNop ] ]) ].

Definition gen_locks_private_enforce_block : list instr := [Acq RM MR; Read; Rel RM].
Definition gen_locks_private_enforce_lo : nat := 0.
Definition gen_locks_private_enforce_hi : option nat := None.
Definition gen_locks_private_enforce (k : nat) : list instr := repeat_prog k gen_locks_private_enforce_block.

(* Enforcer::private_enforce_with_context  (src/enforcer.rs:225) *)
Definition gen_lk_private_enforce_with_context : lk :=
  lk_seq
    [ lk_try;
      lk_alt
        [ lk_seq
            [ LLoop (* src/enforcer.rs:293 eval_ast_with_scope *)
                (LCall gen_lk_registered (* src/enforcer.rs:293 eval_ast_with_scope *));
              lk_try;
              LExit ];
          LNop ];
      LLoop (* src/enforcer.rs:305 for *)
        (lk_seq
           [ lk_try;
             LLoop (* src/enforcer.rs:321 eval_ast_with_scope *)
               (LCall gen_lk_registered (* src/enforcer.rs:321 eval_ast_with_scope *));
             lk_try;
             lk_alt
               [ LBreak;
                 LNop ] ]) ].

Definition gen_locks_private_enforce_with_context_block : list instr := [Acq RM MR; Read; Rel RM].
Definition gen_locks_private_enforce_with_context_lo : nat := 0.
Definition gen_locks_private_enforce_with_context_hi : option nat := None.
Definition gen_locks_private_enforce_with_context (k : nat) : list instr := repeat_prog k gen_locks_private_enforce_with_context_block.

(* Enforcer::enforce  (src/enforcer.rs:588) *)
Definition gen_lk_enforce : lk :=
  lk_seq
    [ lk_try;
      LCall gen_lk_private_enforce (* src/enforcer.rs:591 .private_enforce *);
      lk_try ].

Definition gen_locks_enforce_block : list instr := [Acq RM MR; Read; Rel RM].
Definition gen_locks_enforce_lo : nat := 0.
Definition gen_locks_enforce_hi : option nat := None.
Definition gen_locks_enforce (k : nat) : list instr := repeat_prog k gen_locks_enforce_block.

(* Enforcer::enforce_with_context  (src/enforcer.rs:651) *)
Definition gen_lk_enforce_with_context : lk :=
  lk_seq
    [ lk_try;
      LCall gen_lk_private_enforce_with_context (* src/enforcer.rs:659 .private_enforce_with_context *);
      lk_try ].

Definition gen_locks_enforce_with_context_block : list instr := [Acq RM MR; Read; Rel RM].
Definition gen_locks_enforce_with_context_lo : nat := 0.
Definition gen_locks_enforce_with_context_hi : option nat := None.
Definition gen_locks_enforce_with_context (k : nat) : list instr := repeat_prog k gen_locks_enforce_with_context_block.

(* CachedEnforcer::private_enforce  (src/cached_enforcer.rs:65) *)
Definition gen_lk_cachedenforcer_private_enforce : lk :=
  lk_alt
    [ LNop;
      lk_seq
        [ LCall gen_lk_private_enforce (* src/cached_enforcer.rs:74 .private_enforce *);
          lk_try ] ].

Definition gen_locks_cachedenforcer_private_enforce_block : list instr := [Acq RM MR; Read; Rel RM].
Definition gen_locks_cachedenforcer_private_enforce_lo : nat := 0.
Definition gen_locks_cachedenforcer_private_enforce_hi : option nat := None.
Definition gen_locks_cachedenforcer_private_enforce (k : nat) : list instr := repeat_prog k gen_locks_cachedenforcer_private_enforce_block.

(* CachedEnforcer::enforce  (src/cached_enforcer.rs:217) *)
Definition gen_lk_cached_enforce : lk :=
  lk_seq
    [ lk_try;
      LCall gen_lk_cachedenforcer_private_enforce (* src/cached_enforcer.rs:222 .private_enforce *);
      lk_try ].

Definition gen_locks_cached_enforce_block : list instr := [Acq RM MR; Read; Rel RM].
Definition gen_locks_cached_enforce_lo : nat := 0.
Definition gen_locks_cached_enforce_hi : option nat := None.
Definition gen_locks_cached_enforce (k : nat) : list instr := repeat_prog k gen_locks_cached_enforce_block.

(* Assertion::build_role_links  (src/model/assertion.rs:49) *)
Definition gen_lk_assertion_build_role_links : lk :=
  lk_seq
    [ lk_try;
      LLoop (* src/model/assertion.rs:61 for *)
        (lk_seq
           [ lk_try;
             lk_alt
               [ lk_tmp MW Write (* src/model/assertion.rs:70 write(); src/model/assertion.rs:70 add_link *);
                 lk_tmp MW Write (* src/model/assertion.rs:72 write(); src/model/assertion.rs:72 add_link *);
                 LExit;
                 LNop ] ]) ].

Definition gen_locks_assertion_build_role_links_block : list instr := [Acq RM MW; Write; Rel RM].
Definition gen_locks_assertion_build_role_links_lo : nat := 0.
Definition gen_locks_assertion_build_role_links_hi : option nat := None.
Definition gen_locks_assertion_build_role_links (k : nat) : list instr := repeat_prog k gen_locks_assertion_build_role_links_block.

(* Assertion::build_incremental_role_links  (src/model/assertion.rs:85) *)
Definition gen_lk_assertion_build_incremental_role_links : lk :=
  lk_seq
    [ lk_try;
      lk_alt
        [ LLoop (* src/model/assertion.rs:109 for *)
            (lk_seq
               [ lk_try;
                 lk_alt
                   [ lk_tmp MW Write (* src/model/assertion.rs:119 write(); src/model/assertion.rs:119 add_link *);
                     LHold MW (* src/model/assertion.rs:121 write() *)
                       (lk_seq
                          [ LOp Write (* src/model/assertion.rs:121 delete_link *);
                            lk_try ]);
                     lk_tmp MW Write (* src/model/assertion.rs:125 write(); src/model/assertion.rs:125 add_link *);
                     LHold MW (* src/model/assertion.rs:127 write() *)
                       (lk_seq
                          [ LOp Write (* src/model/assertion.rs:127 delete_link *);
                            lk_try ]);
                     LExit;
                     LNop ] ]);
          LNop ] ].

Definition gen_locks_assertion_build_incremental_role_links_block : list instr := [Acq RM MW; Write; Rel RM].
Definition gen_locks_assertion_build_incremental_role_links_lo : nat := 0.
Definition gen_locks_assertion_build_incremental_role_links_hi : option nat := None.
Definition gen_locks_assertion_build_incremental_role_links (k : nat) : list instr := repeat_prog k gen_locks_assertion_build_incremental_role_links_block.

(* DefaultModel::build_role_links  (src/model/default_model.rs:158) *)
Definition gen_lk_model_build_role_links : lk :=
  lk_alt
    [ LLoop (* src/model/default_model.rs:163 for *)
        (lk_seq
           [ LCall gen_lk_assertion_build_role_links (* src/model/default_model.rs:164 .build_role_links *);
             lk_try ]);
      LNop ].

Definition gen_locks_model_build_role_links_block : list instr := [Acq RM MW; Write; Rel RM].
Definition gen_locks_model_build_role_links_lo : nat := 0.
Definition gen_locks_model_build_role_links_hi : option nat := None.
Definition gen_locks_model_build_role_links (k : nat) : list instr := repeat_prog k gen_locks_model_build_role_links_block.

(* DefaultModel::build_incremental_role_links  (src/model/default_model.rs:171) *)
Definition gen_lk_model_build_incremental_role_links : lk :=
  lk_alt
    [ lk_seq
        [ LCall gen_lk_assertion_build_incremental_role_links (* src/model/default_model.rs:192 .build_incremental_role_links *);
          lk_try ];
      LNop ].

Definition gen_locks_model_build_incremental_role_links_block : list instr := [Acq RM MW; Write; Rel RM].
Definition gen_locks_model_build_incremental_role_links_lo : nat := 0.
Definition gen_locks_model_build_incremental_role_links_hi : option nat := None.
Definition gen_locks_model_build_incremental_role_links (k : nat) : list instr := repeat_prog k gen_locks_model_build_incremental_role_links_block.

(* Enforcer::build_role_links  (src/enforcer.rs:717) *)
Definition gen_lk_enforcer_build_role_links : lk :=
  lk_seq
    [ lk_tmp MW Write (* src/enforcer.rs:718 write(); src/enforcer.rs:718 clear *);
      LCall gen_lk_model_build_role_links (* src/enforcer.rs:719 .build_role_links *);
      lk_try ].

Definition gen_locks_enforcer_build_role_links_block : list instr := [Acq RM MW; Write; Rel RM].
Definition gen_locks_enforcer_build_role_links_lo : nat := 1.
Definition gen_locks_enforcer_build_role_links_hi : option nat := None.
Definition gen_locks_enforcer_build_role_links (k : nat) : list instr := repeat_prog k gen_locks_enforcer_build_role_links_block.

(* Enforcer::build_incremental_role_links  (src/enforcer.rs:725) *)
Definition gen_lk_enforcer_build_incremental_role_links : lk :=
  lk_seq
    [ LCall gen_lk_model_build_incremental_role_links (* src/enforcer.rs:727 .build_incremental_role_links *);
      lk_try ].

Definition gen_locks_enforcer_build_incremental_role_links_block : list instr := [Acq RM MW; Write; Rel RM].
Definition gen_locks_enforcer_build_incremental_role_links_lo : nat := 0.
Definition gen_locks_enforcer_build_incremental_role_links_hi : option nat := None.
Definition gen_locks_enforcer_build_incremental_role_links (k : nat) : list instr := repeat_prog k gen_locks_enforcer_build_incremental_role_links_block.

(* CachedEnforcer::build_incremental_role_links  (src/cached_enforcer.rs:335) *)
Definition gen_lk_cachedenforcer_build_incremental_role_links : lk :=
  LCall gen_lk_enforcer_build_incremental_role_links (* src/cached_enforcer.rs:336 .build_incremental_role_links *).

Definition gen_locks_cachedenforcer_build_incremental_role_links_block : list instr := [Acq RM MW; Write; Rel RM].
Definition gen_locks_cachedenforcer_build_incremental_role_links_lo : nat := 0.
Definition gen_locks_cachedenforcer_build_incremental_role_links_hi : option nat := None.
Definition gen_locks_cachedenforcer_build_incremental_role_links (k : nat) : list instr := repeat_prog k gen_locks_cachedenforcer_build_incremental_role_links_block.

(* InternalApi::add_policy_internal  (src/internal_api.rs:56) *)
Definition gen_lk_add_policy_internal : lk :=
  lk_seq
    [ lk_try;
      lk_alt
        [ LCall gen_lk_cachedenforcer_build_incremental_role_links (* src/internal_api.rs:133 .build_incremental_role_links *);
          LCall gen_lk_enforcer_build_incremental_role_links (* src/internal_api.rs:133 .build_incremental_role_links *) ];
      lk_try ].

Definition gen_locks_add_policy_internal_block : list instr := [Acq RM MW; Write; Rel RM].
Definition gen_locks_add_policy_internal_lo : nat := 0.
Definition gen_locks_add_policy_internal_hi : option nat := None.
Definition gen_locks_add_policy_internal (k : nat) : list instr := repeat_prog k gen_locks_add_policy_internal_block.

(* InternalApi::add_policies_internal  (src/internal_api.rs:143) *)
Definition gen_lk_add_policies_internal : lk :=
  lk_seq
    [ lk_try;
      lk_alt
        [ LCall gen_lk_cachedenforcer_build_incremental_role_links (* src/internal_api.rs:222 .build_incremental_role_links *);
          LCall gen_lk_enforcer_build_incremental_role_links (* src/internal_api.rs:222 .build_incremental_role_links *) ];
      lk_try ].

Definition gen_locks_add_policies_internal_block : list instr := [Acq RM MW; Write; Rel RM].
Definition gen_locks_add_policies_internal_lo : nat := 0.
Definition gen_locks_add_policies_internal_hi : option nat := None.
Definition gen_locks_add_policies_internal (k : nat) : list instr := repeat_prog k gen_locks_add_policies_internal_block.

(* InternalApi::remove_policy_internal  (src/internal_api.rs:232) *)
Definition gen_lk_remove_policy_internal : lk :=
  lk_seq
    [ lk_try;
      lk_alt
        [ LCall gen_lk_cachedenforcer_build_incremental_role_links (* src/internal_api.rs:312 .build_incremental_role_links *);
          LCall gen_lk_enforcer_build_incremental_role_links (* src/internal_api.rs:312 .build_incremental_role_links *) ];
      lk_try ].

Definition gen_locks_remove_policy_internal_block : list instr := [Acq RM MW; Write; Rel RM].
Definition gen_locks_remove_policy_internal_lo : nat := 0.
Definition gen_locks_remove_policy_internal_hi : option nat := None.
Definition gen_locks_remove_policy_internal (k : nat) : list instr := repeat_prog k gen_locks_remove_policy_internal_block.

(* InternalApi::remove_policies_internal  (src/internal_api.rs:322) *)
Definition gen_lk_remove_policies_internal : lk :=
  lk_seq
    [ lk_try;
      lk_alt
        [ LCall gen_lk_cachedenforcer_build_incremental_role_links (* src/internal_api.rs:399 .build_incremental_role_links *);
          LCall gen_lk_enforcer_build_incremental_role_links (* src/internal_api.rs:399 .build_incremental_role_links *) ];
      lk_try ].

Definition gen_locks_remove_policies_internal_block : list instr := [Acq RM MW; Write; Rel RM].
Definition gen_locks_remove_policies_internal_lo : nat := 0.
Definition gen_locks_remove_policies_internal_hi : option nat := None.
Definition gen_locks_remove_policies_internal (k : nat) : list instr := repeat_prog k gen_locks_remove_policies_internal_block.

(* InternalApi::remove_filtered_policy_internal  (src/internal_api.rs:409) *)
Definition gen_lk_remove_filtered_policy_internal : lk :=
  lk_seq
    [ lk_try;
      lk_alt
        [ LCall gen_lk_cachedenforcer_build_incremental_role_links (* src/internal_api.rs:468 .build_incremental_role_links *);
          LCall gen_lk_enforcer_build_incremental_role_links (* src/internal_api.rs:468 .build_incremental_role_links *) ];
      lk_try ].

Definition gen_locks_remove_filtered_policy_internal_block : list instr := [Acq RM MW; Write; Rel RM].
Definition gen_locks_remove_filtered_policy_internal_lo : nat := 0.
Definition gen_locks_remove_filtered_policy_internal_hi : option nat := None.
Definition gen_locks_remove_filtered_policy_internal (k : nat) : list instr := repeat_prog k gen_locks_remove_filtered_policy_internal_block.

(* RbacApi::get_roles_for_user  (src/rbac_api.rs:214) *)
Definition gen_lk_get_roles_for_user : lk :=
  lk_alt
    [ lk_tmp MR Read (* src/rbac_api.rs:222 read(); src/rbac_api.rs:222 get_roles *);
      LNop ].

Definition gen_locks_get_roles_for_user_block : list instr := [Acq RM MR; Read; Rel RM].
Definition gen_locks_get_roles_for_user_lo : nat := 0.
Definition gen_locks_get_roles_for_user_hi : option nat := Some 1.
Definition gen_locks_get_roles_for_user (k : nat) : list instr := repeat_prog k gen_locks_get_roles_for_user_block.

(* RbacApi::get_users_for_role  (src/rbac_api.rs:229) *)
Definition gen_lk_get_users_for_role : lk :=
  lk_alt
    [ LHold MR (* src/rbac_api.rs:236 read() *)
        (lk_seq
           [ LOp Read (* src/rbac_api.rs:236 get_users *);
             LExit ]);
      LNop ].

Definition gen_locks_get_users_for_role_block : list instr := [Acq RM MR; Read; Rel RM].
Definition gen_locks_get_users_for_role_lo : nat := 0.
Definition gen_locks_get_users_for_role_hi : option nat := Some 1.
Definition gen_locks_get_users_for_role (k : nat) : list instr := repeat_prog k gen_locks_get_users_for_role_block.

(* RbacApi::get_implicit_roles_for_user  (src/rbac_api.rs:313) *)
Definition gen_lk_get_implicit_roles_for_user : lk :=
  LLoop (* src/rbac_api.rs:320 while *)
    (lk_tmp MR Read (* src/rbac_api.rs:322 read(); src/rbac_api.rs:322 get_roles *)).

Definition gen_locks_get_implicit_roles_for_user_block : list instr := [Acq RM MR; Read; Rel RM].
Definition gen_locks_get_implicit_roles_for_user_lo : nat := 0.
Definition gen_locks_get_implicit_roles_for_user_hi : option nat := None.
Definition gen_locks_get_implicit_roles_for_user (k : nat) : list instr := repeat_prog k gen_locks_get_implicit_roles_for_user_block.

(* RbacApi::get_implicit_users_for_permission  (src/rbac_api.rs:349) *)
Definition gen_lk_get_implicit_users_for_permission : lk :=
  lk_seq
    [ LLoop (* src/rbac_api.rs:356 flat_map *)
        (LCall (* src/rbac_api.rs:356 closure *)
           (lk_tmp MR Read (* src/rbac_api.rs:357 read(); src/rbac_api.rs:357 get_users *)));
      LLoop (* src/rbac_api.rs:366 for *)
        (lk_alt
           [ LCall gen_lk_cached_enforce (* src/rbac_api.rs:369 .enforce *);
             LCall gen_lk_enforce (* src/rbac_api.rs:369 .enforce *) ]) ].

Definition gen_locks_get_implicit_users_for_permission_block : list instr := [Acq RM MR; Read; Rel RM].
Definition gen_locks_get_implicit_users_for_permission_lo : nat := 0.
Definition gen_locks_get_implicit_users_for_permission_hi : option nat := None.
Definition gen_locks_get_implicit_users_for_permission (k : nat) : list instr := repeat_prog k gen_locks_get_implicit_users_for_permission_block.

(* FileAdapter::load_policy_file  (src/adapter/file_adapter.rs:61) *)
Definition gen_lk_fileadapter_load_policy_file : lk :=
  lk_seq
    [ lk_try;
      LLoop (* src/adapter/file_adapter.rs:74 while *)
        (lk_seq
           [ lk_try;
             lk_alt
               [ LNop;
                 LBreak ] ]) ].

Definition gen_locks_fileadapter_load_policy_file_block : list instr := [].
Definition gen_locks_fileadapter_load_policy_file_lo : nat := 0.
Definition gen_locks_fileadapter_load_policy_file_hi : option nat := Some 0.
Definition gen_locks_fileadapter_load_policy_file (k : nat) : list instr := repeat_prog k gen_locks_fileadapter_load_policy_file_block.

(* FileAdapter::load_filtered_policy_file  (src/adapter/file_adapter.rs:81) *)
Definition gen_lk_fileadapter_load_filtered_policy_file : lk :=
  lk_seq
    [ lk_try;
      LLoop (* src/adapter/file_adapter.rs:99 while *)
        (lk_seq
           [ lk_try;
             lk_alt
               [ LNop;
                 LBreak ] ]) ].

Definition gen_locks_fileadapter_load_filtered_policy_file_block : list instr := [].
Definition gen_locks_fileadapter_load_filtered_policy_file_lo : nat := 0.
Definition gen_locks_fileadapter_load_filtered_policy_file_hi : option nat := Some 0.
Definition gen_locks_fileadapter_load_filtered_policy_file (k : nat) : list instr := repeat_prog k gen_locks_fileadapter_load_filtered_policy_file_block.

(* FileAdapter::load_policy  (src/adapter/file_adapter.rs:138) *)
Definition gen_lk_fileadapter_load_policy : lk :=
  lk_try.

Definition gen_locks_fileadapter_load_policy_block : list instr := [].
Definition gen_locks_fileadapter_load_policy_lo : nat := 0.
Definition gen_locks_fileadapter_load_policy_hi : option nat := Some 0.
Definition gen_locks_fileadapter_load_policy (k : nat) : list instr := repeat_prog k gen_locks_fileadapter_load_policy_block.

(* FileAdapter::load_filtered_policy  (src/adapter/file_adapter.rs:146) *)
Definition gen_lk_fileadapter_load_filtered_policy : lk :=
  lk_try.

Definition gen_locks_fileadapter_load_filtered_policy_block : list instr := [].
Definition gen_locks_fileadapter_load_filtered_policy_lo : nat := 0.
Definition gen_locks_fileadapter_load_filtered_policy_hi : option nat := Some 0.
Definition gen_locks_fileadapter_load_filtered_policy (k : nat) : list instr := repeat_prog k gen_locks_fileadapter_load_filtered_policy_block.

(* FileAdapter::save_policy  (src/adapter/file_adapter.rs:158) *)
Definition gen_lk_fileadapter_save_policy : lk :=
  lk_seq
    [ lk_try;
      LLoop (* src/adapter/file_adapter.rs:172 for *)
        (LLoop (* src/adapter/file_adapter.rs:173 for *)
           (lk_try));
      lk_alt
        [ LLoop (* src/adapter/file_adapter.rs:188 for *)
            (LLoop (* src/adapter/file_adapter.rs:189 for *)
               (lk_try));
          LNop ];
      lk_try ].

Definition gen_locks_fileadapter_save_policy_block : list instr := [].
Definition gen_locks_fileadapter_save_policy_lo : nat := 0.
Definition gen_locks_fileadapter_save_policy_hi : option nat := Some 0.
Definition gen_locks_fileadapter_save_policy (k : nat) : list instr := repeat_prog k gen_locks_fileadapter_save_policy_block.

(* CachedEnforcer::private_enforce_with_context  (src/cached_enforcer.rs:79) *)
Definition gen_lk_cachedenforcer_private_enforce_with_context : lk :=
  lk_alt
    [ LNop;
      lk_seq
        [ LCall gen_lk_private_enforce_with_context (* src/cached_enforcer.rs:89 .private_enforce_with_context *);
          lk_try ] ].

Definition gen_locks_cachedenforcer_private_enforce_with_context_block : list instr := [Acq RM MR; Read; Rel RM].
Definition gen_locks_cachedenforcer_private_enforce_with_context_lo : nat := 0.
Definition gen_locks_cachedenforcer_private_enforce_with_context_hi : option nat := None.
Definition gen_locks_cachedenforcer_private_enforce_with_context (k : nat) : list instr := repeat_prog k gen_locks_cachedenforcer_private_enforce_with_context_block.

(* Config::parse_buffer  (src/config.rs:71) *)
Definition gen_lk_config_parse_buffer : lk :=
  LLoop (* src/config.rs:77 loop *)
    (lk_seq
       [ lk_try;
         lk_alt
           [ LBreak;
             LNop ];
         lk_alt
           [ LCont;
             LNop;
             lk_seq
               [ LLoop (* src/config.rs:94 while *)
                   (lk_seq
                      [ lk_try;
                        lk_alt
                          [ LBreak;
                            LNop ];
                        lk_alt
                          [ LCont;
                            LNop ] ]);
                 lk_try ] ] ]).

Definition gen_locks_config_parse_buffer_block : list instr := [].
Definition gen_locks_config_parse_buffer_lo : nat := 0.
Definition gen_locks_config_parse_buffer_hi : option nat := Some 0.
Definition gen_locks_config_parse_buffer (k : nat) : list instr := repeat_prog k gen_locks_config_parse_buffer_block.

(* Config::parse  (src/config.rs:61) *)
Definition gen_lk_config_parse : lk :=
  lk_try.

Definition gen_locks_config_parse_block : list instr := [].
Definition gen_locks_config_parse_lo : nat := 0.
Definition gen_locks_config_parse_hi : option nat := Some 0.
Definition gen_locks_config_parse (k : nat) : list instr := repeat_prog k gen_locks_config_parse_block.

(* Config::from_file  (src/config.rs:39) *)
Definition gen_lk_config_from_file : lk :=
  lk_try.

Definition gen_locks_config_from_file_block : list instr := [].
Definition gen_locks_config_from_file_lo : nat := 0.
Definition gen_locks_config_from_file_hi : option nat := Some 0.
Definition gen_locks_config_from_file (k : nat) : list instr := repeat_prog k gen_locks_config_from_file_block.

(* DefaultModel::add_def  (src/model/default_model.rs:116) *)
Definition gen_lk_defaultmodel_add_def : lk :=
  lk_try.

Definition gen_locks_defaultmodel_add_def_block : list instr := [].
Definition gen_locks_defaultmodel_add_def_lo : nat := 0.
Definition gen_locks_defaultmodel_add_def_hi : option nat := Some 0.
Definition gen_locks_defaultmodel_add_def (k : nat) : list instr := repeat_prog k gen_locks_defaultmodel_add_def_block.

(* DefaultModel::load_assertion  (src/model/default_model.rs:78) *)
Definition gen_lk_defaultmodel_load_assertion : lk :=
  lk_alt
    [ LNop;
      LExit ].

Definition gen_locks_defaultmodel_load_assertion_block : list instr := [].
Definition gen_locks_defaultmodel_load_assertion_lo : nat := 0.
Definition gen_locks_defaultmodel_load_assertion_hi : option nat := Some 0.
Definition gen_locks_defaultmodel_load_assertion (k : nat) : list instr := repeat_prog k gen_locks_defaultmodel_load_assertion_block.

(* DefaultModel::load_section  (src/model/default_model.rs:62) *)
Definition gen_lk_defaultmodel_load_section : lk :=
  LLoop (* src/model/default_model.rs:65 loop *)
    (lk_seq
       [ lk_try;
         lk_alt
           [ LBreak;
             LNop ] ]).

Definition gen_locks_defaultmodel_load_section_block : list instr := [].
Definition gen_locks_defaultmodel_load_section_lo : nat := 0.
Definition gen_locks_defaultmodel_load_section_hi : option nat := Some 0.
Definition gen_locks_defaultmodel_load_section (k : nat) : list instr := repeat_prog k gen_locks_defaultmodel_load_section_block.

(* DefaultModel::from_file  (src/model/default_model.rs:31) *)
Definition gen_lk_defaultmodel_from_file : lk :=
  lk_try.

Definition gen_locks_defaultmodel_from_file_block : list instr := [].
Definition gen_locks_defaultmodel_from_file_lo : nat := 0.
Definition gen_locks_defaultmodel_from_file_hi : option nat := Some 0.
Definition gen_locks_defaultmodel_from_file (k : nat) : list instr := repeat_prog k gen_locks_defaultmodel_from_file_block.

(* str::try_into_model  (src/convert.rs:28) *)
Definition gen_lk_str_try_into_model : lk :=
  lk_try.

Definition gen_locks_str_try_into_model_block : list instr := [].
Definition gen_locks_str_try_into_model_lo : nat := 0.
Definition gen_locks_str_try_into_model_hi : option nat := Some 0.
Definition gen_locks_str_try_into_model (k : nat) : list instr := repeat_prog k gen_locks_str_try_into_model_block.

(* Enforcer::set_role_manager  (src/enforcer.rs:532) *)
Definition gen_lk_enforcer_set_role_manager : lk :=
  lk_alt
    [ lk_seq
        [ LCall gen_lk_enforcer_build_role_links (* src/enforcer.rs:538 .build_role_links *);
          lk_try ];
      LNop ].

Definition gen_locks_enforcer_set_role_manager_block : list instr := [Acq RM MW; Write; Rel RM].
Definition gen_locks_enforcer_set_role_manager_lo : nat := 0.
Definition gen_locks_enforcer_set_role_manager_hi : option nat := None.
Definition gen_locks_enforcer_set_role_manager (k : nat) : list instr := repeat_prog k gen_locks_enforcer_set_role_manager_block.

(* CachedEnforcer::set_role_manager  (src/cached_enforcer.rs:178) *)
Definition gen_lk_cachedenforcer_set_role_manager : lk :=
  LCall gen_lk_enforcer_set_role_manager (* src/cached_enforcer.rs:184 .set_role_manager *).

Definition gen_locks_cachedenforcer_set_role_manager_block : list instr := [Acq RM MW; Write; Rel RM].
Definition gen_locks_cachedenforcer_set_role_manager_lo : nat := 0.
Definition gen_locks_cachedenforcer_set_role_manager_hi : option nat := None.
Definition gen_locks_cachedenforcer_set_role_manager (k : nat) : list instr := repeat_prog k gen_locks_cachedenforcer_set_role_manager_block.

(* Enforcer::load_policy  (src/enforcer.rs:732) *)
Definition gen_lk_enforcer_load_policy : lk :=
  lk_seq
    [ lk_try;
      lk_alt
        [ lk_seq
            [ LCall gen_lk_enforcer_build_role_links (* src/enforcer.rs:743 .build_role_links *);
              lk_try ];
          LNop ] ].

Definition gen_locks_enforcer_load_policy_block : list instr := [Acq RM MW; Write; Rel RM].
Definition gen_locks_enforcer_load_policy_lo : nat := 0.
Definition gen_locks_enforcer_load_policy_hi : option nat := None.
Definition gen_locks_enforcer_load_policy (k : nat) : list instr := repeat_prog k gen_locks_enforcer_load_policy_block.

(* Enforcer::set_adapter  (src/enforcer.rs:552) *)
Definition gen_lk_enforcer_set_adapter : lk :=
  lk_seq
    [ lk_try;
      LCall gen_lk_enforcer_load_policy (* src/enforcer.rs:554 .load_policy *);
      lk_try ].

Definition gen_locks_enforcer_set_adapter_block : list instr := [Acq RM MW; Write; Rel RM].
Definition gen_locks_enforcer_set_adapter_lo : nat := 0.
Definition gen_locks_enforcer_set_adapter_hi : option nat := None.
Definition gen_locks_enforcer_set_adapter (k : nat) : list instr := repeat_prog k gen_locks_enforcer_set_adapter_block.

(* CachedEnforcer::set_adapter  (src/cached_enforcer.rs:194) *)
Definition gen_lk_cachedenforcer_set_adapter : lk :=
  LCall gen_lk_enforcer_set_adapter (* src/cached_enforcer.rs:196 .set_adapter *).

Definition gen_locks_cachedenforcer_set_adapter_block : list instr := [Acq RM MW; Write; Rel RM].
Definition gen_locks_cachedenforcer_set_adapter_lo : nat := 0.
Definition gen_locks_cachedenforcer_set_adapter_hi : option nat := None.
Definition gen_locks_cachedenforcer_set_adapter (k : nat) : list instr := repeat_prog k gen_locks_cachedenforcer_set_adapter_block.

(* CachedEnforcer::enforce_with_context  (src/cached_enforcer.rs:251) *)
Definition gen_lk_cachedenforcer_enforce_with_context : lk :=
  lk_seq
    [ lk_try;
      LCall gen_lk_cachedenforcer_private_enforce_with_context (* src/cached_enforcer.rs:267 .private_enforce_with_context *);
      lk_try ].

Definition gen_locks_cachedenforcer_enforce_with_context_block : list instr := [Acq RM MR; Read; Rel RM].
Definition gen_locks_cachedenforcer_enforce_with_context_lo : nat := 0.
Definition gen_locks_cachedenforcer_enforce_with_context_hi : option nat := None.
Definition gen_locks_cachedenforcer_enforce_with_context (k : nat) : list instr := repeat_prog k gen_locks_cachedenforcer_enforce_with_context_block.

(* CachedEnforcer::enforce_mut  (src/cached_enforcer.rs:297) *)
Definition gen_lk_cachedenforcer_enforce_mut : lk :=
  LCall gen_lk_cached_enforce (* src/cached_enforcer.rs:298 .enforce *).

Definition gen_locks_cachedenforcer_enforce_mut_block : list instr := [Acq RM MR; Read; Rel RM].
Definition gen_locks_cachedenforcer_enforce_mut_lo : nat := 0.
Definition gen_locks_cachedenforcer_enforce_mut_hi : option nat := None.
Definition gen_locks_cachedenforcer_enforce_mut (k : nat) : list instr := repeat_prog k gen_locks_cachedenforcer_enforce_mut_block.

(* CachedEnforcer::build_role_links  (src/cached_enforcer.rs:328) *)
Definition gen_lk_cachedenforcer_build_role_links : lk :=
  LCall gen_lk_enforcer_build_role_links (* src/cached_enforcer.rs:330 .build_role_links *).

Definition gen_locks_cachedenforcer_build_role_links_block : list instr := [Acq RM MW; Write; Rel RM].
Definition gen_locks_cachedenforcer_build_role_links_lo : nat := 1.
Definition gen_locks_cachedenforcer_build_role_links_hi : option nat := None.
Definition gen_locks_cachedenforcer_build_role_links (k : nat) : list instr := repeat_prog k gen_locks_cachedenforcer_build_role_links_block.

(* CachedEnforcer::load_policy  (src/cached_enforcer.rs:340) *)
Definition gen_lk_cachedenforcer_load_policy : lk :=
  LCall gen_lk_enforcer_load_policy (* src/cached_enforcer.rs:342 .load_policy *).

Definition gen_locks_cachedenforcer_load_policy_block : list instr := [Acq RM MW; Write; Rel RM].
Definition gen_locks_cachedenforcer_load_policy_lo : nat := 0.
Definition gen_locks_cachedenforcer_load_policy_hi : option nat := None.
Definition gen_locks_cachedenforcer_load_policy (k : nat) : list instr := repeat_prog k gen_locks_cachedenforcer_load_policy_block.

(* Enforcer::load_filtered_policy  (src/enforcer.rs:749) *)
Definition gen_lk_enforcer_load_filtered_policy : lk :=
  lk_seq
    [ lk_try;
      lk_alt
        [ lk_seq
            [ LCall gen_lk_enforcer_build_role_links (* src/enforcer.rs:760 .build_role_links *);
              lk_try ];
          LNop ] ].

Definition gen_locks_enforcer_load_filtered_policy_block : list instr := [Acq RM MW; Write; Rel RM].
Definition gen_locks_enforcer_load_filtered_policy_lo : nat := 0.
Definition gen_locks_enforcer_load_filtered_policy_hi : option nat := None.
Definition gen_locks_enforcer_load_filtered_policy (k : nat) : list instr := repeat_prog k gen_locks_enforcer_load_filtered_policy_block.

(* CachedEnforcer::load_filtered_policy  (src/cached_enforcer.rs:346) *)
Definition gen_lk_cachedenforcer_load_filtered_policy : lk :=
  LCall gen_lk_enforcer_load_filtered_policy (* src/cached_enforcer.rs:348 .load_filtered_policy *).

Definition gen_locks_cachedenforcer_load_filtered_policy_block : list instr := [Acq RM MW; Write; Rel RM].
Definition gen_locks_cachedenforcer_load_filtered_policy_lo : nat := 0.
Definition gen_locks_cachedenforcer_load_filtered_policy_hi : option nat := None.
Definition gen_locks_cachedenforcer_load_filtered_policy (k : nat) : list instr := repeat_prog k gen_locks_cachedenforcer_load_filtered_policy_block.

(* Enforcer::save_policy  (src/enforcer.rs:776) *)
Definition gen_lk_enforcer_save_policy : lk :=
  lk_try.

Definition gen_locks_enforcer_save_policy_block : list instr := [].
Definition gen_locks_enforcer_save_policy_lo : nat := 0.
Definition gen_locks_enforcer_save_policy_hi : option nat := Some 0.
Definition gen_locks_enforcer_save_policy (k : nat) : list instr := repeat_prog k gen_locks_enforcer_save_policy_block.

(* CachedEnforcer::save_policy  (src/cached_enforcer.rs:362) *)
Definition gen_lk_cachedenforcer_save_policy : lk :=
  LNop.

Definition gen_locks_cachedenforcer_save_policy_block : list instr := [].
Definition gen_locks_cachedenforcer_save_policy_lo : nat := 0.
Definition gen_locks_cachedenforcer_save_policy_hi : option nat := Some 0.
Definition gen_locks_cachedenforcer_save_policy (k : nat) : list instr := repeat_prog k gen_locks_cachedenforcer_save_policy_block.

(* Enforcer::clear_policy  (src/enforcer.rs:793) *)
Definition gen_lk_enforcer_clear_policy : lk :=
  lk_seq
    [ lk_try;
      lk_alt
        [ lk_seq
            [ LCall gen_lk_enforcer_build_role_links (* src/enforcer.rs:801 .build_role_links *);
              lk_try ];
          LNop ] ].

Definition gen_locks_enforcer_clear_policy_block : list instr := [Acq RM MW; Write; Rel RM].
Definition gen_locks_enforcer_clear_policy_lo : nat := 0.
Definition gen_locks_enforcer_clear_policy_hi : option nat := None.
Definition gen_locks_enforcer_clear_policy (k : nat) : list instr := repeat_prog k gen_locks_enforcer_clear_policy_block.

(* CachedEnforcer::clear_policy  (src/cached_enforcer.rs:367) *)
Definition gen_lk_cachedenforcer_clear_policy : lk :=
  LCall gen_lk_enforcer_clear_policy (* src/cached_enforcer.rs:369 .clear_policy *).

Definition gen_locks_cachedenforcer_clear_policy_block : list instr := [Acq RM MW; Write; Rel RM].
Definition gen_locks_cachedenforcer_clear_policy_lo : nat := 0.
Definition gen_locks_cachedenforcer_clear_policy_hi : option nat := None.
Definition gen_locks_cachedenforcer_clear_policy (k : nat) : list instr := repeat_prog k gen_locks_cachedenforcer_clear_policy_block.

(* Config::from_str  (src/config.rs:48) *)
Definition gen_lk_config_from_str : lk :=
  lk_try.

Definition gen_locks_config_from_str_block : list instr := [].
Definition gen_locks_config_from_str_lo : nat := 0.
Definition gen_locks_config_from_str_hi : option nat := Some 0.
Definition gen_locks_config_from_str (k : nat) : list instr := repeat_prog k gen_locks_config_from_str_block.

(* Config::get_bool  (src/config.rs:217) *)
Definition gen_lk_config_get_bool : lk :=
  LNop.

Definition gen_locks_config_get_bool_block : list instr := [].
Definition gen_locks_config_get_bool_lo : nat := 0.
Definition gen_locks_config_get_bool_hi : option nat := Some 0.
Definition gen_locks_config_get_bool (k : nat) : list instr := repeat_prog k gen_locks_config_get_bool_block.

(* Config::get_int  (src/config.rs:231) *)
Definition gen_lk_config_get_int : lk :=
  LNop.

Definition gen_locks_config_get_int_block : list instr := [].
Definition gen_locks_config_get_int_lo : nat := 0.
Definition gen_locks_config_get_int_hi : option nat := Some 0.
Definition gen_locks_config_get_int (k : nat) : list instr := repeat_prog k gen_locks_config_get_int_block.

(* Config::get_float  (src/config.rs:236) *)
Definition gen_lk_config_get_float : lk :=
  LNop.

Definition gen_locks_config_get_float_block : list instr := [].
Definition gen_locks_config_get_float_lo : nat := 0.
Definition gen_locks_config_get_float_hi : option nat := Some 0.
Definition gen_locks_config_get_float (k : nat) : list instr := repeat_prog k gen_locks_config_get_float_block.

(* Enforcer::enforce_mut  (src/enforcer.rs:688) *)
Definition gen_lk_enforcer_enforce_mut : lk :=
  LCall gen_lk_enforce (* src/enforcer.rs:689 .enforce *).

Definition gen_locks_enforcer_enforce_mut_block : list instr := [Acq RM MR; Read; Rel RM].
Definition gen_locks_enforcer_enforce_mut_lo : nat := 0.
Definition gen_locks_enforcer_enforce_mut_hi : option nat := None.
Definition gen_locks_enforcer_enforce_mut (k : nat) : list instr := repeat_prog k gen_locks_enforcer_enforce_mut_block.

(* MgmtApi::add_named_policy  (src/management_api.rs:222) *)
Definition gen_lk_mgmtapi_add_named_policy : lk :=
  LCall gen_lk_add_policy_internal (* src/management_api.rs:227 .add_policy_internal *).

Definition gen_locks_mgmtapi_add_named_policy_block : list instr := [Acq RM MW; Write; Rel RM].
Definition gen_locks_mgmtapi_add_named_policy_lo : nat := 0.
Definition gen_locks_mgmtapi_add_named_policy_hi : option nat := None.
Definition gen_locks_mgmtapi_add_named_policy (k : nat) : list instr := repeat_prog k gen_locks_mgmtapi_add_named_policy_block.

(* MgmtApi::add_policy  (src/management_api.rs:7) *)
Definition gen_lk_mgmtapi_add_policy : lk :=
  LCall gen_lk_mgmtapi_add_named_policy (* src/management_api.rs:8 .add_named_policy *).

Definition gen_locks_mgmtapi_add_policy_block : list instr := [Acq RM MW; Write; Rel RM].
Definition gen_locks_mgmtapi_add_policy_lo : nat := 0.
Definition gen_locks_mgmtapi_add_policy_hi : option nat := None.
Definition gen_locks_mgmtapi_add_policy (k : nat) : list instr := repeat_prog k gen_locks_mgmtapi_add_policy_block.

(* MgmtApi::add_named_policies  (src/management_api.rs:230) *)
Definition gen_lk_mgmtapi_add_named_policies : lk :=
  LCall gen_lk_add_policies_internal (* src/management_api.rs:235 .add_policies_internal *).

Definition gen_locks_mgmtapi_add_named_policies_block : list instr := [Acq RM MW; Write; Rel RM].
Definition gen_locks_mgmtapi_add_named_policies_lo : nat := 0.
Definition gen_locks_mgmtapi_add_named_policies_hi : option nat := None.
Definition gen_locks_mgmtapi_add_named_policies (k : nat) : list instr := repeat_prog k gen_locks_mgmtapi_add_named_policies_block.

(* MgmtApi::add_policies  (src/management_api.rs:11) *)
Definition gen_lk_mgmtapi_add_policies : lk :=
  LCall gen_lk_mgmtapi_add_named_policies (* src/management_api.rs:15 .add_named_policies *).

Definition gen_locks_mgmtapi_add_policies_block : list instr := [Acq RM MW; Write; Rel RM].
Definition gen_locks_mgmtapi_add_policies_lo : nat := 0.
Definition gen_locks_mgmtapi_add_policies_hi : option nat := None.
Definition gen_locks_mgmtapi_add_policies (k : nat) : list instr := repeat_prog k gen_locks_mgmtapi_add_policies_block.

(* MgmtApi::remove_named_policy  (src/management_api.rs:238) *)
Definition gen_lk_mgmtapi_remove_named_policy : lk :=
  LCall gen_lk_remove_policy_internal (* src/management_api.rs:243 .remove_policy_internal *).

Definition gen_locks_mgmtapi_remove_named_policy_block : list instr := [Acq RM MW; Write; Rel RM].
Definition gen_locks_mgmtapi_remove_named_policy_lo : nat := 0.
Definition gen_locks_mgmtapi_remove_named_policy_hi : option nat := None.
Definition gen_locks_mgmtapi_remove_named_policy (k : nat) : list instr := repeat_prog k gen_locks_mgmtapi_remove_named_policy_block.

(* MgmtApi::remove_policy  (src/management_api.rs:18) *)
Definition gen_lk_mgmtapi_remove_policy : lk :=
  LCall gen_lk_mgmtapi_remove_named_policy (* src/management_api.rs:19 .remove_named_policy *).

Definition gen_locks_mgmtapi_remove_policy_block : list instr := [Acq RM MW; Write; Rel RM].
Definition gen_locks_mgmtapi_remove_policy_lo : nat := 0.
Definition gen_locks_mgmtapi_remove_policy_hi : option nat := None.
Definition gen_locks_mgmtapi_remove_policy (k : nat) : list instr := repeat_prog k gen_locks_mgmtapi_remove_policy_block.

(* MgmtApi::remove_named_policies  (src/management_api.rs:246) *)
Definition gen_lk_mgmtapi_remove_named_policies : lk :=
  LCall gen_lk_remove_policies_internal (* src/management_api.rs:251 .remove_policies_internal *).

Definition gen_locks_mgmtapi_remove_named_policies_block : list instr := [Acq RM MW; Write; Rel RM].
Definition gen_locks_mgmtapi_remove_named_policies_lo : nat := 0.
Definition gen_locks_mgmtapi_remove_named_policies_hi : option nat := None.
Definition gen_locks_mgmtapi_remove_named_policies (k : nat) : list instr := repeat_prog k gen_locks_mgmtapi_remove_named_policies_block.

(* MgmtApi::remove_policies  (src/management_api.rs:22) *)
Definition gen_lk_mgmtapi_remove_policies : lk :=
  LCall gen_lk_mgmtapi_remove_named_policies (* src/management_api.rs:26 .remove_named_policies *).

Definition gen_locks_mgmtapi_remove_policies_block : list instr := [Acq RM MW; Write; Rel RM].
Definition gen_locks_mgmtapi_remove_policies_lo : nat := 0.
Definition gen_locks_mgmtapi_remove_policies_hi : option nat := None.
Definition gen_locks_mgmtapi_remove_policies (k : nat) : list instr := repeat_prog k gen_locks_mgmtapi_remove_policies_block.

(* MgmtApi::add_named_grouping_policy  (src/management_api.rs:254) *)
Definition gen_lk_mgmtapi_add_named_grouping_policy : lk :=
  lk_seq
    [ LCall gen_lk_add_policy_internal (* src/management_api.rs:259 .add_policy_internal *);
      lk_try ].

Definition gen_locks_mgmtapi_add_named_grouping_policy_block : list instr := [Acq RM MW; Write; Rel RM].
Definition gen_locks_mgmtapi_add_named_grouping_policy_lo : nat := 0.
Definition gen_locks_mgmtapi_add_named_grouping_policy_hi : option nat := None.
Definition gen_locks_mgmtapi_add_named_grouping_policy (k : nat) : list instr := repeat_prog k gen_locks_mgmtapi_add_named_grouping_policy_block.

(* MgmtApi::add_grouping_policy  (src/management_api.rs:50) *)
Definition gen_lk_mgmtapi_add_grouping_policy : lk :=
  LCall gen_lk_mgmtapi_add_named_grouping_policy (* src/management_api.rs:54 .add_named_grouping_policy *).

Definition gen_locks_mgmtapi_add_grouping_policy_block : list instr := [Acq RM MW; Write; Rel RM].
Definition gen_locks_mgmtapi_add_grouping_policy_lo : nat := 0.
Definition gen_locks_mgmtapi_add_grouping_policy_hi : option nat := None.
Definition gen_locks_mgmtapi_add_grouping_policy (k : nat) : list instr := repeat_prog k gen_locks_mgmtapi_add_grouping_policy_block.

(* MgmtApi::add_named_grouping_policies  (src/management_api.rs:263) *)
Definition gen_lk_mgmtapi_add_named_grouping_policies : lk :=
  lk_seq
    [ LCall gen_lk_add_policies_internal (* src/management_api.rs:268 .add_policies_internal *);
      lk_try ].

Definition gen_locks_mgmtapi_add_named_grouping_policies_block : list instr := [Acq RM MW; Write; Rel RM].
Definition gen_locks_mgmtapi_add_named_grouping_policies_lo : nat := 0.
Definition gen_locks_mgmtapi_add_named_grouping_policies_hi : option nat := None.
Definition gen_locks_mgmtapi_add_named_grouping_policies (k : nat) : list instr := repeat_prog k gen_locks_mgmtapi_add_named_grouping_policies_block.

(* MgmtApi::add_grouping_policies  (src/management_api.rs:57) *)
Definition gen_lk_mgmtapi_add_grouping_policies : lk :=
  LCall gen_lk_mgmtapi_add_named_grouping_policies (* src/management_api.rs:61 .add_named_grouping_policies *).

Definition gen_locks_mgmtapi_add_grouping_policies_block : list instr := [Acq RM MW; Write; Rel RM].
Definition gen_locks_mgmtapi_add_grouping_policies_lo : nat := 0.
Definition gen_locks_mgmtapi_add_grouping_policies_hi : option nat := None.
Definition gen_locks_mgmtapi_add_grouping_policies (k : nat) : list instr := repeat_prog k gen_locks_mgmtapi_add_grouping_policies_block.

(* MgmtApi::remove_named_grouping_policy  (src/management_api.rs:272) *)
Definition gen_lk_mgmtapi_remove_named_grouping_policy : lk :=
  lk_seq
    [ LCall gen_lk_remove_policy_internal (* src/management_api.rs:278 .remove_policy_internal *);
      lk_try ].

Definition gen_locks_mgmtapi_remove_named_grouping_policy_block : list instr := [Acq RM MW; Write; Rel RM].
Definition gen_locks_mgmtapi_remove_named_grouping_policy_lo : nat := 0.
Definition gen_locks_mgmtapi_remove_named_grouping_policy_hi : option nat := None.
Definition gen_locks_mgmtapi_remove_named_grouping_policy (k : nat) : list instr := repeat_prog k gen_locks_mgmtapi_remove_named_grouping_policy_block.

(* MgmtApi::remove_grouping_policy  (src/management_api.rs:64) *)
Definition gen_lk_mgmtapi_remove_grouping_policy : lk :=
  LCall gen_lk_mgmtapi_remove_named_grouping_policy (* src/management_api.rs:68 .remove_named_grouping_policy *).

Definition gen_locks_mgmtapi_remove_grouping_policy_block : list instr := [Acq RM MW; Write; Rel RM].
Definition gen_locks_mgmtapi_remove_grouping_policy_lo : nat := 0.
Definition gen_locks_mgmtapi_remove_grouping_policy_hi : option nat := None.
Definition gen_locks_mgmtapi_remove_grouping_policy (k : nat) : list instr := repeat_prog k gen_locks_mgmtapi_remove_grouping_policy_block.

(* MgmtApi::remove_named_grouping_policies  (src/management_api.rs:282) *)
Definition gen_lk_mgmtapi_remove_named_grouping_policies : lk :=
  lk_seq
    [ LCall gen_lk_remove_policies_internal (* src/management_api.rs:288 .remove_policies_internal *);
      lk_try ].

Definition gen_locks_mgmtapi_remove_named_grouping_policies_block : list instr := [Acq RM MW; Write; Rel RM].
Definition gen_locks_mgmtapi_remove_named_grouping_policies_lo : nat := 0.
Definition gen_locks_mgmtapi_remove_named_grouping_policies_hi : option nat := None.
Definition gen_locks_mgmtapi_remove_named_grouping_policies (k : nat) : list instr := repeat_prog k gen_locks_mgmtapi_remove_named_grouping_policies_block.

(* MgmtApi::remove_grouping_policies  (src/management_api.rs:71) *)
Definition gen_lk_mgmtapi_remove_grouping_policies : lk :=
  LCall gen_lk_mgmtapi_remove_named_grouping_policies (* src/management_api.rs:75 .remove_named_grouping_policies *).

Definition gen_locks_mgmtapi_remove_grouping_policies_block : list instr := [Acq RM MW; Write; Rel RM].
Definition gen_locks_mgmtapi_remove_grouping_policies_lo : nat := 0.
Definition gen_locks_mgmtapi_remove_grouping_policies_hi : option nat := None.
Definition gen_locks_mgmtapi_remove_grouping_policies (k : nat) : list instr := repeat_prog k gen_locks_mgmtapi_remove_grouping_policies_block.

(* MgmtApi::remove_filtered_named_policy  (src/management_api.rs:310) *)
Definition gen_lk_mgmtapi_remove_filtered_named_policy : lk :=
  lk_seq
    [ LCall gen_lk_remove_filtered_policy_internal (* src/management_api.rs:317 .remove_filtered_policy_internal *);
      lk_try ].

Definition gen_locks_mgmtapi_remove_filtered_named_policy_block : list instr := [Acq RM MW; Write; Rel RM].
Definition gen_locks_mgmtapi_remove_filtered_named_policy_lo : nat := 0.
Definition gen_locks_mgmtapi_remove_filtered_named_policy_hi : option nat := None.
Definition gen_locks_mgmtapi_remove_filtered_named_policy (k : nat) : list instr := repeat_prog k gen_locks_mgmtapi_remove_filtered_named_policy_block.

(* MgmtApi::remove_filtered_policy  (src/management_api.rs:99) *)
Definition gen_lk_mgmtapi_remove_filtered_policy : lk :=
  LCall gen_lk_mgmtapi_remove_filtered_named_policy (* src/management_api.rs:104 .remove_filtered_named_policy *).

Definition gen_locks_mgmtapi_remove_filtered_policy_block : list instr := [Acq RM MW; Write; Rel RM].
Definition gen_locks_mgmtapi_remove_filtered_policy_lo : nat := 0.
Definition gen_locks_mgmtapi_remove_filtered_policy_hi : option nat := None.
Definition gen_locks_mgmtapi_remove_filtered_policy (k : nat) : list instr := repeat_prog k gen_locks_mgmtapi_remove_filtered_policy_block.

(* MgmtApi::remove_filtered_named_grouping_policy  (src/management_api.rs:292) *)
Definition gen_lk_mgmtapi_remove_filtered_named_grouping_policy : lk :=
  lk_seq
    [ LCall gen_lk_remove_filtered_policy_internal (* src/management_api.rs:300 .remove_filtered_policy_internal *);
      lk_try ].

Definition gen_locks_mgmtapi_remove_filtered_named_grouping_policy_block : list instr := [Acq RM MW; Write; Rel RM].
Definition gen_locks_mgmtapi_remove_filtered_named_grouping_policy_lo : nat := 0.
Definition gen_locks_mgmtapi_remove_filtered_named_grouping_policy_hi : option nat := None.
Definition gen_locks_mgmtapi_remove_filtered_named_grouping_policy (k : nat) : list instr := repeat_prog k gen_locks_mgmtapi_remove_filtered_named_grouping_policy_block.

(* MgmtApi::remove_filtered_grouping_policy  (src/management_api.rs:108) *)
Definition gen_lk_mgmtapi_remove_filtered_grouping_policy : lk :=
  LCall gen_lk_mgmtapi_remove_filtered_named_grouping_policy (* src/management_api.rs:113 .remove_filtered_named_grouping_policy *).

Definition gen_locks_mgmtapi_remove_filtered_grouping_policy_block : list instr := [Acq RM MW; Write; Rel RM].
Definition gen_locks_mgmtapi_remove_filtered_grouping_policy_lo : nat := 0.
Definition gen_locks_mgmtapi_remove_filtered_grouping_policy_hi : option nat := None.
Definition gen_locks_mgmtapi_remove_filtered_grouping_policy (k : nat) : list instr := repeat_prog k gen_locks_mgmtapi_remove_filtered_grouping_policy_block.

(* DefaultModel::from_str  (src/model/default_model.rs:47) *)
Definition gen_lk_defaultmodel_from_str : lk :=
  lk_try.

Definition gen_locks_defaultmodel_from_str_block : list instr := [].
Definition gen_locks_defaultmodel_from_str_lo : nat := 0.
Definition gen_locks_defaultmodel_from_str_hi : option nat := Some 0.
Definition gen_locks_defaultmodel_from_str (k : nat) : list instr := repeat_prog k gen_locks_defaultmodel_from_str_block.

(* RbacApi::delete_permission  (src/rbac_api.rs:45) *)
Definition gen_lk_rbacapi_delete_permission : lk :=
  LCall gen_lk_mgmtapi_remove_filtered_policy (* src/rbac_api.rs:49 .remove_filtered_policy *).

Definition gen_locks_rbacapi_delete_permission_block : list instr := [Acq RM MW; Write; Rel RM].
Definition gen_locks_rbacapi_delete_permission_lo : nat := 0.
Definition gen_locks_rbacapi_delete_permission_hi : option nat := None.
Definition gen_locks_rbacapi_delete_permission (k : nat) : list instr := repeat_prog k gen_locks_rbacapi_delete_permission_block.

(* RbacApi::delete_permissions_for_user  (src/rbac_api.rs:57) *)
Definition gen_lk_rbacapi_delete_permissions_for_user : lk :=
  LCall gen_lk_mgmtapi_remove_filtered_policy (* src/rbac_api.rs:61 .remove_filtered_policy *).

Definition gen_locks_rbacapi_delete_permissions_for_user_block : list instr := [Acq RM MW; Write; Rel RM].
Definition gen_locks_rbacapi_delete_permissions_for_user_lo : nat := 0.
Definition gen_locks_rbacapi_delete_permissions_for_user_hi : option nat := None.
Definition gen_locks_rbacapi_delete_permissions_for_user (k : nat) : list instr := repeat_prog k gen_locks_rbacapi_delete_permissions_for_user_block.

(* RbacApi::add_permission_for_user  (src/rbac_api.rs:115) *)
Definition gen_lk_rbacapi_add_permission_for_user : lk :=
  LCall gen_lk_mgmtapi_add_policy (* src/rbac_api.rs:122 .add_policy *).

Definition gen_locks_rbacapi_add_permission_for_user_block : list instr := [Acq RM MW; Write; Rel RM].
Definition gen_locks_rbacapi_add_permission_for_user_lo : nat := 0.
Definition gen_locks_rbacapi_add_permission_for_user_hi : option nat := None.
Definition gen_locks_rbacapi_add_permission_for_user (k : nat) : list instr := repeat_prog k gen_locks_rbacapi_add_permission_for_user_block.

(* RbacApi::add_permissions_for_user  (src/rbac_api.rs:125) *)
Definition gen_lk_rbacapi_add_permissions_for_user : lk :=
  LCall gen_lk_mgmtapi_add_policies (* src/rbac_api.rs:137 .add_policies *).

Definition gen_locks_rbacapi_add_permissions_for_user_block : list instr := [Acq RM MW; Write; Rel RM].
Definition gen_locks_rbacapi_add_permissions_for_user_lo : nat := 0.
Definition gen_locks_rbacapi_add_permissions_for_user_hi : option nat := None.
Definition gen_locks_rbacapi_add_permissions_for_user (k : nat) : list instr := repeat_prog k gen_locks_rbacapi_add_permissions_for_user_block.

(* RbacApi::add_role_for_user  (src/rbac_api.rs:140) *)
Definition gen_lk_rbacapi_add_role_for_user : lk :=
  LCall gen_lk_mgmtapi_add_grouping_policy (* src/rbac_api.rs:146 .add_grouping_policy *).

Definition gen_locks_rbacapi_add_role_for_user_block : list instr := [Acq RM MW; Write; Rel RM].
Definition gen_locks_rbacapi_add_role_for_user_lo : nat := 0.
Definition gen_locks_rbacapi_add_role_for_user_hi : option nat := None.
Definition gen_locks_rbacapi_add_role_for_user (k : nat) : list instr := repeat_prog k gen_locks_rbacapi_add_role_for_user_block.

(* RbacApi::add_roles_for_user  (src/rbac_api.rs:157) *)
Definition gen_lk_rbacapi_add_roles_for_user : lk :=
  LCall gen_lk_mgmtapi_add_grouping_policies (* src/rbac_api.rs:163 .add_grouping_policies *).

Definition gen_locks_rbacapi_add_roles_for_user_block : list instr := [Acq RM MW; Write; Rel RM].
Definition gen_locks_rbacapi_add_roles_for_user_lo : nat := 0.
Definition gen_locks_rbacapi_add_roles_for_user_hi : option nat := None.
Definition gen_locks_rbacapi_add_roles_for_user (k : nat) : list instr := repeat_prog k gen_locks_rbacapi_add_roles_for_user_block.

(* RbacApi::delete_role_for_user  (src/rbac_api.rs:178) *)
Definition gen_lk_rbacapi_delete_role_for_user : lk :=
  LCall gen_lk_mgmtapi_remove_grouping_policy (* src/rbac_api.rs:184 .remove_grouping_policy *).

Definition gen_locks_rbacapi_delete_role_for_user_block : list instr := [Acq RM MW; Write; Rel RM].
Definition gen_locks_rbacapi_delete_role_for_user_lo : nat := 0.
Definition gen_locks_rbacapi_delete_role_for_user_hi : option nat := None.
Definition gen_locks_rbacapi_delete_role_for_user (k : nat) : list instr := repeat_prog k gen_locks_rbacapi_delete_role_for_user_block.

(* RbacApi::delete_roles_for_user  (src/rbac_api.rs:195) *)
Definition gen_lk_rbacapi_delete_roles_for_user : lk :=
  LCall gen_lk_mgmtapi_remove_filtered_grouping_policy (* src/rbac_api.rs:200 .remove_filtered_grouping_policy *).

Definition gen_locks_rbacapi_delete_roles_for_user_block : list instr := [Acq RM MW; Write; Rel RM].
Definition gen_locks_rbacapi_delete_roles_for_user_lo : nat := 0.
Definition gen_locks_rbacapi_delete_roles_for_user_hi : option nat := None.
Definition gen_locks_rbacapi_delete_roles_for_user (k : nat) : list instr := repeat_prog k gen_locks_rbacapi_delete_roles_for_user_block.

(* RbacApi::has_role_for_user  (src/rbac_api.rs:242) *)
Definition gen_lk_rbacapi_has_role_for_user : lk :=
  lk_seq
    [ LCall gen_lk_get_roles_for_user (* src/rbac_api.rs:248 .get_roles_for_user *);
      LLoop (* src/rbac_api.rs:250 for *)
        (lk_alt
           [ LBreak;
             LNop ]) ].

Definition gen_locks_rbacapi_has_role_for_user_block : list instr := [Acq RM MR; Read; Rel RM].
Definition gen_locks_rbacapi_has_role_for_user_lo : nat := 0.
Definition gen_locks_rbacapi_has_role_for_user_hi : option nat := Some 1.
Definition gen_locks_rbacapi_has_role_for_user (k : nat) : list instr := repeat_prog k gen_locks_rbacapi_has_role_for_user_block.

(* RbacApi::delete_user  (src/rbac_api.rs:259) *)
Definition gen_lk_rbacapi_delete_user : lk :=
  lk_seq
    [ LCall gen_lk_mgmtapi_remove_filtered_grouping_policy (* src/rbac_api.rs:261 .remove_filtered_grouping_policy *);
      lk_try;
      LCall gen_lk_mgmtapi_remove_filtered_policy (* src/rbac_api.rs:264 .remove_filtered_policy *);
      lk_try ].

Definition gen_locks_rbacapi_delete_user_block : list instr := [Acq RM MW; Write; Rel RM].
Definition gen_locks_rbacapi_delete_user_lo : nat := 0.
Definition gen_locks_rbacapi_delete_user_hi : option nat := None.
Definition gen_locks_rbacapi_delete_user (k : nat) : list instr := repeat_prog k gen_locks_rbacapi_delete_user_block.

(* RbacApi::delete_role  (src/rbac_api.rs:269) *)
Definition gen_lk_rbacapi_delete_role : lk :=
  lk_seq
    [ LCall gen_lk_mgmtapi_remove_filtered_grouping_policy (* src/rbac_api.rs:271 .remove_filtered_grouping_policy *);
      lk_try;
      LCall gen_lk_mgmtapi_remove_filtered_policy (* src/rbac_api.rs:274 .remove_filtered_policy *);
      lk_try ].

Definition gen_locks_rbacapi_delete_role_block : list instr := [Acq RM MW; Write; Rel RM].
Definition gen_locks_rbacapi_delete_role_lo : nat := 0.
Definition gen_locks_rbacapi_delete_role_hi : option nat := None.
Definition gen_locks_rbacapi_delete_role (k : nat) : list instr := repeat_prog k gen_locks_rbacapi_delete_role_block.

(* RbacApi::delete_permission_for_user  (src/rbac_api.rs:279) *)
Definition gen_lk_rbacapi_delete_permission_for_user : lk :=
  LCall gen_lk_mgmtapi_remove_policy (* src/rbac_api.rs:286 .remove_policy *).

Definition gen_locks_rbacapi_delete_permission_for_user_block : list instr := [Acq RM MW; Write; Rel RM].
Definition gen_locks_rbacapi_delete_permission_for_user_lo : nat := 0.
Definition gen_locks_rbacapi_delete_permission_for_user_hi : option nat := None.
Definition gen_locks_rbacapi_delete_permission_for_user (k : nat) : list instr := repeat_prog k gen_locks_rbacapi_delete_permission_for_user_block.

(* RbacApi::get_implicit_permissions_for_user  (src/rbac_api.rs:332) *)
Definition gen_lk_rbacapi_get_implicit_permissions_for_user : lk :=
  LCall gen_lk_get_implicit_roles_for_user (* src/rbac_api.rs:337 .get_implicit_roles_for_user *).

Definition gen_locks_rbacapi_get_implicit_permissions_for_user_block : list instr := [Acq RM MR; Read; Rel RM].
Definition gen_locks_rbacapi_get_implicit_permissions_for_user_lo : nat := 0.
Definition gen_locks_rbacapi_get_implicit_permissions_for_user_hi : option nat := None.
Definition gen_locks_rbacapi_get_implicit_permissions_for_user (k : nat) : list instr := repeat_prog k gen_locks_rbacapi_get_implicit_permissions_for_user_block.

(* every generated function: name, skeleton, block, bounds *)
Definition gen_locks_table : list (text * lk * list instr * nat * option nat) :=
  [((T "enforcer_register_function"), gen_lk_enforcer_register_function, gen_locks_enforcer_register_function_block, gen_locks_enforcer_register_function_lo, gen_locks_enforcer_register_function_hi);
   ((T "register_g_functions"), gen_lk_register_g_functions, gen_locks_register_g_functions_block, gen_locks_register_g_functions_lo, gen_locks_register_g_functions_hi);
   ((T "g_closure_1"), gen_lk_g_closure_1, gen_locks_g_closure_1_block, gen_locks_g_closure_1_lo, gen_locks_g_closure_1_hi);
   ((T "g_closure_2"), gen_lk_g_closure_2, gen_locks_g_closure_2_block, gen_locks_g_closure_2_lo, gen_locks_g_closure_2_hi);
   ((T "registered"), gen_lk_registered, gen_locks_registered_block, gen_locks_registered_lo, gen_locks_registered_hi);
   ((T "private_enforce"), gen_lk_private_enforce, gen_locks_private_enforce_block, gen_locks_private_enforce_lo, gen_locks_private_enforce_hi);
   ((T "private_enforce_with_context"), gen_lk_private_enforce_with_context, gen_locks_private_enforce_with_context_block, gen_locks_private_enforce_with_context_lo, gen_locks_private_enforce_with_context_hi);
   ((T "enforce"), gen_lk_enforce, gen_locks_enforce_block, gen_locks_enforce_lo, gen_locks_enforce_hi);
   ((T "enforce_with_context"), gen_lk_enforce_with_context, gen_locks_enforce_with_context_block, gen_locks_enforce_with_context_lo, gen_locks_enforce_with_context_hi);
   ((T "cachedenforcer_private_enforce"), gen_lk_cachedenforcer_private_enforce, gen_locks_cachedenforcer_private_enforce_block, gen_locks_cachedenforcer_private_enforce_lo, gen_locks_cachedenforcer_private_enforce_hi);
   ((T "cached_enforce"), gen_lk_cached_enforce, gen_locks_cached_enforce_block, gen_locks_cached_enforce_lo, gen_locks_cached_enforce_hi);
   ((T "assertion_build_role_links"), gen_lk_assertion_build_role_links, gen_locks_assertion_build_role_links_block, gen_locks_assertion_build_role_links_lo, gen_locks_assertion_build_role_links_hi);
   ((T "assertion_build_incremental_role_links"), gen_lk_assertion_build_incremental_role_links, gen_locks_assertion_build_incremental_role_links_block, gen_locks_assertion_build_incremental_role_links_lo, gen_locks_assertion_build_incremental_role_links_hi);
   ((T "model_build_role_links"), gen_lk_model_build_role_links, gen_locks_model_build_role_links_block, gen_locks_model_build_role_links_lo, gen_locks_model_build_role_links_hi);
   ((T "model_build_incremental_role_links"), gen_lk_model_build_incremental_role_links, gen_locks_model_build_incremental_role_links_block, gen_locks_model_build_incremental_role_links_lo, gen_locks_model_build_incremental_role_links_hi);
   ((T "enforcer_build_role_links"), gen_lk_enforcer_build_role_links, gen_locks_enforcer_build_role_links_block, gen_locks_enforcer_build_role_links_lo, gen_locks_enforcer_build_role_links_hi);
   ((T "enforcer_build_incremental_role_links"), gen_lk_enforcer_build_incremental_role_links, gen_locks_enforcer_build_incremental_role_links_block, gen_locks_enforcer_build_incremental_role_links_lo, gen_locks_enforcer_build_incremental_role_links_hi);
   ((T "cachedenforcer_build_incremental_role_links"), gen_lk_cachedenforcer_build_incremental_role_links, gen_locks_cachedenforcer_build_incremental_role_links_block, gen_locks_cachedenforcer_build_incremental_role_links_lo, gen_locks_cachedenforcer_build_incremental_role_links_hi);
   ((T "add_policy_internal"), gen_lk_add_policy_internal, gen_locks_add_policy_internal_block, gen_locks_add_policy_internal_lo, gen_locks_add_policy_internal_hi);
   ((T "add_policies_internal"), gen_lk_add_policies_internal, gen_locks_add_policies_internal_block, gen_locks_add_policies_internal_lo, gen_locks_add_policies_internal_hi);
   ((T "remove_policy_internal"), gen_lk_remove_policy_internal, gen_locks_remove_policy_internal_block, gen_locks_remove_policy_internal_lo, gen_locks_remove_policy_internal_hi);
   ((T "remove_policies_internal"), gen_lk_remove_policies_internal, gen_locks_remove_policies_internal_block, gen_locks_remove_policies_internal_lo, gen_locks_remove_policies_internal_hi);
   ((T "remove_filtered_policy_internal"), gen_lk_remove_filtered_policy_internal, gen_locks_remove_filtered_policy_internal_block, gen_locks_remove_filtered_policy_internal_lo, gen_locks_remove_filtered_policy_internal_hi);
   ((T "get_roles_for_user"), gen_lk_get_roles_for_user, gen_locks_get_roles_for_user_block, gen_locks_get_roles_for_user_lo, gen_locks_get_roles_for_user_hi);
   ((T "get_users_for_role"), gen_lk_get_users_for_role, gen_locks_get_users_for_role_block, gen_locks_get_users_for_role_lo, gen_locks_get_users_for_role_hi);
   ((T "get_implicit_roles_for_user"), gen_lk_get_implicit_roles_for_user, gen_locks_get_implicit_roles_for_user_block, gen_locks_get_implicit_roles_for_user_lo, gen_locks_get_implicit_roles_for_user_hi);
   ((T "get_implicit_users_for_permission"), gen_lk_get_implicit_users_for_permission, gen_locks_get_implicit_users_for_permission_block, gen_locks_get_implicit_users_for_permission_lo, gen_locks_get_implicit_users_for_permission_hi);
   ((T "fileadapter_load_policy_file"), gen_lk_fileadapter_load_policy_file, gen_locks_fileadapter_load_policy_file_block, gen_locks_fileadapter_load_policy_file_lo, gen_locks_fileadapter_load_policy_file_hi);
   ((T "fileadapter_load_filtered_policy_file"), gen_lk_fileadapter_load_filtered_policy_file, gen_locks_fileadapter_load_filtered_policy_file_block, gen_locks_fileadapter_load_filtered_policy_file_lo, gen_locks_fileadapter_load_filtered_policy_file_hi);
   ((T "fileadapter_load_policy"), gen_lk_fileadapter_load_policy, gen_locks_fileadapter_load_policy_block, gen_locks_fileadapter_load_policy_lo, gen_locks_fileadapter_load_policy_hi);
   ((T "fileadapter_load_filtered_policy"), gen_lk_fileadapter_load_filtered_policy, gen_locks_fileadapter_load_filtered_policy_block, gen_locks_fileadapter_load_filtered_policy_lo, gen_locks_fileadapter_load_filtered_policy_hi);
   ((T "fileadapter_save_policy"), gen_lk_fileadapter_save_policy, gen_locks_fileadapter_save_policy_block, gen_locks_fileadapter_save_policy_lo, gen_locks_fileadapter_save_policy_hi);
   ((T "cachedenforcer_private_enforce_with_context"), gen_lk_cachedenforcer_private_enforce_with_context, gen_locks_cachedenforcer_private_enforce_with_context_block, gen_locks_cachedenforcer_private_enforce_with_context_lo, gen_locks_cachedenforcer_private_enforce_with_context_hi);
   ((T "config_parse_buffer"), gen_lk_config_parse_buffer, gen_locks_config_parse_buffer_block, gen_locks_config_parse_buffer_lo, gen_locks_config_parse_buffer_hi);
   ((T "config_parse"), gen_lk_config_parse, gen_locks_config_parse_block, gen_locks_config_parse_lo, gen_locks_config_parse_hi);
   ((T "config_from_file"), gen_lk_config_from_file, gen_locks_config_from_file_block, gen_locks_config_from_file_lo, gen_locks_config_from_file_hi);
   ((T "defaultmodel_add_def"), gen_lk_defaultmodel_add_def, gen_locks_defaultmodel_add_def_block, gen_locks_defaultmodel_add_def_lo, gen_locks_defaultmodel_add_def_hi);
   ((T "defaultmodel_load_assertion"), gen_lk_defaultmodel_load_assertion, gen_locks_defaultmodel_load_assertion_block, gen_locks_defaultmodel_load_assertion_lo, gen_locks_defaultmodel_load_assertion_hi);
   ((T "defaultmodel_load_section"), gen_lk_defaultmodel_load_section, gen_locks_defaultmodel_load_section_block, gen_locks_defaultmodel_load_section_lo, gen_locks_defaultmodel_load_section_hi);
   ((T "defaultmodel_from_file"), gen_lk_defaultmodel_from_file, gen_locks_defaultmodel_from_file_block, gen_locks_defaultmodel_from_file_lo, gen_locks_defaultmodel_from_file_hi);
   ((T "str_try_into_model"), gen_lk_str_try_into_model, gen_locks_str_try_into_model_block, gen_locks_str_try_into_model_lo, gen_locks_str_try_into_model_hi);
   ((T "enforcer_set_role_manager"), gen_lk_enforcer_set_role_manager, gen_locks_enforcer_set_role_manager_block, gen_locks_enforcer_set_role_manager_lo, gen_locks_enforcer_set_role_manager_hi);
   ((T "cachedenforcer_set_role_manager"), gen_lk_cachedenforcer_set_role_manager, gen_locks_cachedenforcer_set_role_manager_block, gen_locks_cachedenforcer_set_role_manager_lo, gen_locks_cachedenforcer_set_role_manager_hi);
   ((T "enforcer_load_policy"), gen_lk_enforcer_load_policy, gen_locks_enforcer_load_policy_block, gen_locks_enforcer_load_policy_lo, gen_locks_enforcer_load_policy_hi);
   ((T "enforcer_set_adapter"), gen_lk_enforcer_set_adapter, gen_locks_enforcer_set_adapter_block, gen_locks_enforcer_set_adapter_lo, gen_locks_enforcer_set_adapter_hi);
   ((T "cachedenforcer_set_adapter"), gen_lk_cachedenforcer_set_adapter, gen_locks_cachedenforcer_set_adapter_block, gen_locks_cachedenforcer_set_adapter_lo, gen_locks_cachedenforcer_set_adapter_hi);
   ((T "cachedenforcer_enforce_with_context"), gen_lk_cachedenforcer_enforce_with_context, gen_locks_cachedenforcer_enforce_with_context_block, gen_locks_cachedenforcer_enforce_with_context_lo, gen_locks_cachedenforcer_enforce_with_context_hi);
   ((T "cachedenforcer_enforce_mut"), gen_lk_cachedenforcer_enforce_mut, gen_locks_cachedenforcer_enforce_mut_block, gen_locks_cachedenforcer_enforce_mut_lo, gen_locks_cachedenforcer_enforce_mut_hi);
   ((T "cachedenforcer_build_role_links"), gen_lk_cachedenforcer_build_role_links, gen_locks_cachedenforcer_build_role_links_block, gen_locks_cachedenforcer_build_role_links_lo, gen_locks_cachedenforcer_build_role_links_hi);
   ((T "cachedenforcer_load_policy"), gen_lk_cachedenforcer_load_policy, gen_locks_cachedenforcer_load_policy_block, gen_locks_cachedenforcer_load_policy_lo, gen_locks_cachedenforcer_load_policy_hi);
   ((T "enforcer_load_filtered_policy"), gen_lk_enforcer_load_filtered_policy, gen_locks_enforcer_load_filtered_policy_block, gen_locks_enforcer_load_filtered_policy_lo, gen_locks_enforcer_load_filtered_policy_hi);
   ((T "cachedenforcer_load_filtered_policy"), gen_lk_cachedenforcer_load_filtered_policy, gen_locks_cachedenforcer_load_filtered_policy_block, gen_locks_cachedenforcer_load_filtered_policy_lo, gen_locks_cachedenforcer_load_filtered_policy_hi);
   ((T "enforcer_save_policy"), gen_lk_enforcer_save_policy, gen_locks_enforcer_save_policy_block, gen_locks_enforcer_save_policy_lo, gen_locks_enforcer_save_policy_hi);
   ((T "cachedenforcer_save_policy"), gen_lk_cachedenforcer_save_policy, gen_locks_cachedenforcer_save_policy_block, gen_locks_cachedenforcer_save_policy_lo, gen_locks_cachedenforcer_save_policy_hi);
   ((T "enforcer_clear_policy"), gen_lk_enforcer_clear_policy, gen_locks_enforcer_clear_policy_block, gen_locks_enforcer_clear_policy_lo, gen_locks_enforcer_clear_policy_hi);
   ((T "cachedenforcer_clear_policy"), gen_lk_cachedenforcer_clear_policy, gen_locks_cachedenforcer_clear_policy_block, gen_locks_cachedenforcer_clear_policy_lo, gen_locks_cachedenforcer_clear_policy_hi);
   ((T "config_from_str"), gen_lk_config_from_str, gen_locks_config_from_str_block, gen_locks_config_from_str_lo, gen_locks_config_from_str_hi);
   ((T "config_get_bool"), gen_lk_config_get_bool, gen_locks_config_get_bool_block, gen_locks_config_get_bool_lo, gen_locks_config_get_bool_hi);
   ((T "config_get_int"), gen_lk_config_get_int, gen_locks_config_get_int_block, gen_locks_config_get_int_lo, gen_locks_config_get_int_hi);
   ((T "config_get_float"), gen_lk_config_get_float, gen_locks_config_get_float_block, gen_locks_config_get_float_lo, gen_locks_config_get_float_hi);
   ((T "enforcer_enforce_mut"), gen_lk_enforcer_enforce_mut, gen_locks_enforcer_enforce_mut_block, gen_locks_enforcer_enforce_mut_lo, gen_locks_enforcer_enforce_mut_hi);
   ((T "mgmtapi_add_named_policy"), gen_lk_mgmtapi_add_named_policy, gen_locks_mgmtapi_add_named_policy_block, gen_locks_mgmtapi_add_named_policy_lo, gen_locks_mgmtapi_add_named_policy_hi);
   ((T "mgmtapi_add_policy"), gen_lk_mgmtapi_add_policy, gen_locks_mgmtapi_add_policy_block, gen_locks_mgmtapi_add_policy_lo, gen_locks_mgmtapi_add_policy_hi);
   ((T "mgmtapi_add_named_policies"), gen_lk_mgmtapi_add_named_policies, gen_locks_mgmtapi_add_named_policies_block, gen_locks_mgmtapi_add_named_policies_lo, gen_locks_mgmtapi_add_named_policies_hi);
   ((T "mgmtapi_add_policies"), gen_lk_mgmtapi_add_policies, gen_locks_mgmtapi_add_policies_block, gen_locks_mgmtapi_add_policies_lo, gen_locks_mgmtapi_add_policies_hi);
   ((T "mgmtapi_remove_named_policy"), gen_lk_mgmtapi_remove_named_policy, gen_locks_mgmtapi_remove_named_policy_block, gen_locks_mgmtapi_remove_named_policy_lo, gen_locks_mgmtapi_remove_named_policy_hi);
   ((T "mgmtapi_remove_policy"), gen_lk_mgmtapi_remove_policy, gen_locks_mgmtapi_remove_policy_block, gen_locks_mgmtapi_remove_policy_lo, gen_locks_mgmtapi_remove_policy_hi);
   ((T "mgmtapi_remove_named_policies"), gen_lk_mgmtapi_remove_named_policies, gen_locks_mgmtapi_remove_named_policies_block, gen_locks_mgmtapi_remove_named_policies_lo, gen_locks_mgmtapi_remove_named_policies_hi);
   ((T "mgmtapi_remove_policies"), gen_lk_mgmtapi_remove_policies, gen_locks_mgmtapi_remove_policies_block, gen_locks_mgmtapi_remove_policies_lo, gen_locks_mgmtapi_remove_policies_hi);
   ((T "mgmtapi_add_named_grouping_policy"), gen_lk_mgmtapi_add_named_grouping_policy, gen_locks_mgmtapi_add_named_grouping_policy_block, gen_locks_mgmtapi_add_named_grouping_policy_lo, gen_locks_mgmtapi_add_named_grouping_policy_hi);
   ((T "mgmtapi_add_grouping_policy"), gen_lk_mgmtapi_add_grouping_policy, gen_locks_mgmtapi_add_grouping_policy_block, gen_locks_mgmtapi_add_grouping_policy_lo, gen_locks_mgmtapi_add_grouping_policy_hi);
   ((T "mgmtapi_add_named_grouping_policies"), gen_lk_mgmtapi_add_named_grouping_policies, gen_locks_mgmtapi_add_named_grouping_policies_block, gen_locks_mgmtapi_add_named_grouping_policies_lo, gen_locks_mgmtapi_add_named_grouping_policies_hi);
   ((T "mgmtapi_add_grouping_policies"), gen_lk_mgmtapi_add_grouping_policies, gen_locks_mgmtapi_add_grouping_policies_block, gen_locks_mgmtapi_add_grouping_policies_lo, gen_locks_mgmtapi_add_grouping_policies_hi);
   ((T "mgmtapi_remove_named_grouping_policy"), gen_lk_mgmtapi_remove_named_grouping_policy, gen_locks_mgmtapi_remove_named_grouping_policy_block, gen_locks_mgmtapi_remove_named_grouping_policy_lo, gen_locks_mgmtapi_remove_named_grouping_policy_hi);
   ((T "mgmtapi_remove_grouping_policy"), gen_lk_mgmtapi_remove_grouping_policy, gen_locks_mgmtapi_remove_grouping_policy_block, gen_locks_mgmtapi_remove_grouping_policy_lo, gen_locks_mgmtapi_remove_grouping_policy_hi);
   ((T "mgmtapi_remove_named_grouping_policies"), gen_lk_mgmtapi_remove_named_grouping_policies, gen_locks_mgmtapi_remove_named_grouping_policies_block, gen_locks_mgmtapi_remove_named_grouping_policies_lo, gen_locks_mgmtapi_remove_named_grouping_policies_hi);
   ((T "mgmtapi_remove_grouping_policies"), gen_lk_mgmtapi_remove_grouping_policies, gen_locks_mgmtapi_remove_grouping_policies_block, gen_locks_mgmtapi_remove_grouping_policies_lo, gen_locks_mgmtapi_remove_grouping_policies_hi);
   ((T "mgmtapi_remove_filtered_named_policy"), gen_lk_mgmtapi_remove_filtered_named_policy, gen_locks_mgmtapi_remove_filtered_named_policy_block, gen_locks_mgmtapi_remove_filtered_named_policy_lo, gen_locks_mgmtapi_remove_filtered_named_policy_hi);
   ((T "mgmtapi_remove_filtered_policy"), gen_lk_mgmtapi_remove_filtered_policy, gen_locks_mgmtapi_remove_filtered_policy_block, gen_locks_mgmtapi_remove_filtered_policy_lo, gen_locks_mgmtapi_remove_filtered_policy_hi);
   ((T "mgmtapi_remove_filtered_named_grouping_policy"), gen_lk_mgmtapi_remove_filtered_named_grouping_policy, gen_locks_mgmtapi_remove_filtered_named_grouping_policy_block, gen_locks_mgmtapi_remove_filtered_named_grouping_policy_lo, gen_locks_mgmtapi_remove_filtered_named_grouping_policy_hi);
   ((T "mgmtapi_remove_filtered_grouping_policy"), gen_lk_mgmtapi_remove_filtered_grouping_policy, gen_locks_mgmtapi_remove_filtered_grouping_policy_block, gen_locks_mgmtapi_remove_filtered_grouping_policy_lo, gen_locks_mgmtapi_remove_filtered_grouping_policy_hi);
   ((T "defaultmodel_from_str"), gen_lk_defaultmodel_from_str, gen_locks_defaultmodel_from_str_block, gen_locks_defaultmodel_from_str_lo, gen_locks_defaultmodel_from_str_hi);
   ((T "rbacapi_delete_permission"), gen_lk_rbacapi_delete_permission, gen_locks_rbacapi_delete_permission_block, gen_locks_rbacapi_delete_permission_lo, gen_locks_rbacapi_delete_permission_hi);
   ((T "rbacapi_delete_permissions_for_user"), gen_lk_rbacapi_delete_permissions_for_user, gen_locks_rbacapi_delete_permissions_for_user_block, gen_locks_rbacapi_delete_permissions_for_user_lo, gen_locks_rbacapi_delete_permissions_for_user_hi);
   ((T "rbacapi_add_permission_for_user"), gen_lk_rbacapi_add_permission_for_user, gen_locks_rbacapi_add_permission_for_user_block, gen_locks_rbacapi_add_permission_for_user_lo, gen_locks_rbacapi_add_permission_for_user_hi);
   ((T "rbacapi_add_permissions_for_user"), gen_lk_rbacapi_add_permissions_for_user, gen_locks_rbacapi_add_permissions_for_user_block, gen_locks_rbacapi_add_permissions_for_user_lo, gen_locks_rbacapi_add_permissions_for_user_hi);
   ((T "rbacapi_add_role_for_user"), gen_lk_rbacapi_add_role_for_user, gen_locks_rbacapi_add_role_for_user_block, gen_locks_rbacapi_add_role_for_user_lo, gen_locks_rbacapi_add_role_for_user_hi);
   ((T "rbacapi_add_roles_for_user"), gen_lk_rbacapi_add_roles_for_user, gen_locks_rbacapi_add_roles_for_user_block, gen_locks_rbacapi_add_roles_for_user_lo, gen_locks_rbacapi_add_roles_for_user_hi);
   ((T "rbacapi_delete_role_for_user"), gen_lk_rbacapi_delete_role_for_user, gen_locks_rbacapi_delete_role_for_user_block, gen_locks_rbacapi_delete_role_for_user_lo, gen_locks_rbacapi_delete_role_for_user_hi);
   ((T "rbacapi_delete_roles_for_user"), gen_lk_rbacapi_delete_roles_for_user, gen_locks_rbacapi_delete_roles_for_user_block, gen_locks_rbacapi_delete_roles_for_user_lo, gen_locks_rbacapi_delete_roles_for_user_hi);
   ((T "rbacapi_has_role_for_user"), gen_lk_rbacapi_has_role_for_user, gen_locks_rbacapi_has_role_for_user_block, gen_locks_rbacapi_has_role_for_user_lo, gen_locks_rbacapi_has_role_for_user_hi);
   ((T "rbacapi_delete_user"), gen_lk_rbacapi_delete_user, gen_locks_rbacapi_delete_user_block, gen_locks_rbacapi_delete_user_lo, gen_locks_rbacapi_delete_user_hi);
   ((T "rbacapi_delete_role"), gen_lk_rbacapi_delete_role, gen_locks_rbacapi_delete_role_block, gen_locks_rbacapi_delete_role_lo, gen_locks_rbacapi_delete_role_hi);
   ((T "rbacapi_delete_permission_for_user"), gen_lk_rbacapi_delete_permission_for_user, gen_locks_rbacapi_delete_permission_for_user_block, gen_locks_rbacapi_delete_permission_for_user_lo, gen_locks_rbacapi_delete_permission_for_user_hi);
   ((T "rbacapi_get_implicit_permissions_for_user"), gen_lk_rbacapi_get_implicit_permissions_for_user, gen_locks_rbacapi_get_implicit_permissions_for_user_block, gen_locks_rbacapi_get_implicit_permissions_for_user_lo, gen_locks_rbacapi_get_implicit_permissions_for_user_hi)].

(* `.read()` / `.write()` calls without arguments in the non-test code of the crate (macros expanded where they are
   used), and how many of them the skeletons above account for (as acquisitions of the role-manager lock) *)
Definition gen_locks_sites_total : nat := 13.
Definition gen_locks_sites_covered : nat := 13.
Definition gen_locks_registered_closures : nat := 2.
(* functions that may reach a lock site (conservative call graph) and are NOT translated; none of them contains a
   lock site when gen_locks_sites_covered = gen_locks_sites_total *)
(* CachedEnforcer::new_raw: Option::try_into_model: recursion *)
(* CachedEnforcer::new: Option::try_into_model: recursion *)
(* CachedEnforcer::set_model: Option::try_into_model: recursion *)
(* Option::try_into_model: Option::try_into_model: recursion *)
(* Enforcer::new_raw: Option::try_into_model: recursion *)
(* Enforcer::new: Option::try_into_model: recursion *)
(* Enforcer::set_model: Option::try_into_model: recursion *)
(* DefaultLogger::default: DefaultLogger::default: line 22: macro o! is neither a std macro of the subset nor a one-rule macro_rules! *)
Definition gen_locks_uncovered : list text := [(T "CachedEnforcer::new_raw"); (T "CachedEnforcer::new"); (T "CachedEnforcer::set_model"); (T "Option::try_into_model"); (T "Enforcer::new_raw"); (T "Enforcer::new"); (T "Enforcer::set_model"); (T "DefaultLogger::default")].
(* skeletons whose runs are not one block repeated *)
Definition gen_locks_irregular : list text := [].
Definition gen_locks_translated : bool := true.
