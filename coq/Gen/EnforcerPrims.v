(* HAND-WRITTEN glue for the generated file Gen/EnforcerGen.v (tools/rs2coq_enf.py,
   part 7: the sequencing methods of `impl CoreApi for Enforcer`, src/enforcer.rs).

   The generated programs are built from the primitives of Model/Engine.v
   (ad_load, ad_load_filtered, ad_save, ad_clear, ad_is_filtered, m_clear_policy,
   m_get_all, upd_model, upd_adapter, upd_flags, emit, register_g_functions, the
   flags e_enabled / e_auto_save / e_auto_build / e_auto_notify), from `flow` of
   Gen/InternalPrims.v and from the definitions below.  Each definition stands
   for ONE Rust operation of the translated bodies that has no primitive of its
   own in the model (the model's hand-written steps do these inline).  Nothing
   here is a whole entry point: the order of the operations, the guards, the `?`s
   and the error paths are read from the source by the translator. *)
From CV Require Import Model.Base Model.Enforce Model.Engine.

(* ---- argument types ---- *)

(* `f: Filter<'a>` (adapter/mod.rs: struct Filter { p: Vec<&str>, g: Vec<&str> }):
   the pair (f.p, f.g), as in the model's OLoadFiltered fp fg *)
Definition filter_arg : Type := (list text * list text)%type.

(* `rm: Arc<RwLock<dyn RoleManager>>` of set_role_manager: the model's
   OSetRoleManager carries a FRESH DefaultRoleManager, given by its hierarchy bound *)
Definition new_rm : Type := nat.

(* `e: Box<dyn Effector>` of set_effector: the effector is not a component of
   the model's state (Model/Effector.v is the DefaultEffector) *)
Definition effector_arg : Type := unit.

(* ---- role manager ---- *)

(* `self.rm.write().clear()`  (DefaultRoleManager::clear) *)
Definition rm_clear (s : estate) : estate := upd_fs s (set_rm (e_fs s) []).

(* `self.model.build_role_links(Arc::clone(&self.rm))`
   (DefaultModel::build_role_links, default_model.rs:158: for every definition of
   section "g", in order, Assertion::build_role_links into the manager that is
   passed - here the enforcer's CURRENT one, whatever it holds; stops at the
   first error).  The model's Engine.build_role_links is this after rm_clear. *)
Definition model_build_role_links (s : estate) : estate * lerr :=
  match assoc s_g (e_model s) with
  | None => (s, LOk)
  | Some am =>
    match build_links_am am (f_rm (e_fs s)) with
    | (am', m', e) =>
      (upd_fs (upd_model s (assoc_set s_g am' (e_model s))) (set_rm (e_fs s) m'), e)
    end
  end.

(* `self.rm = rm`  (set_role_manager): the enforcer points to the new manager;
   whoever captured the old Arc keeps it - the handles of the role definitions
   and the registered g-closures that pointed to the enforcer's manager (HCur)
   now point to a frozen copy of the old one *)
Definition replace_rm (s : estate) (maxd : new_rm) : estate :=
  let fs := e_fs s in
  let fz := freeze_handle (f_rm fs) (f_rm_max fs) in
  let md := match assoc s_g (e_model s) with
            | Some am => assoc_set s_g (map (fun ka => (fst ka, with_handle (snd ka) (fz (a_handle (snd ka))))) am)
                                   (e_model s)
            | None => e_model s end in
  upd_fs (upd_model s md)
         {| f_rm := []; f_rm_max := maxd;
            f_gfuns := map (fun kh => (fst kh, fz (snd kh))) (f_gfuns fs);
            f_ufuns := f_ufuns fs |}.

(* ---- model / effector ---- *)

(* `self.model = m`  (set_model; m already converted): the Rust Model owns both
   the assertion map and the parsed matchers, two components of the Coq state *)
Definition replace_model (s : estate) (d : modeldef) : estate :=
  {| e_model := d_model d; e_mexprs := d_mexprs d; e_adapter := e_adapter s; e_fs := e_fs s;
     e_enabled := e_enabled s; e_auto_save := e_auto_save s; e_auto_build := e_auto_build s;
     e_auto_notify := e_auto_notify s; e_callbacks := e_callbacks s;
     e_watcher := e_watcher s; e_wlog := e_wlog s |}.

(* `self.eft = e`  (set_effector): no component of the state changes *)
Definition replace_eft (s : estate) (e : effector_arg) : estate := s.

(* ---- callbacks (impl EventEmitter<Event> for Enforcer, enforcer.rs:101) ---- *)

(* `self.off(Event::PolicyChange)`: self.events.remove(&e) *)
Definition off_policy_change (s : estate) : estate :=
  upd_flags s (e_enabled s) (e_auto_save s) (e_auto_build s) (e_auto_notify s) 0.

(* `self.on(Event::PolicyChange, notify_logger_and_watcher)`: one more callback is pushed *)
Definition on_policy_change (s : estate) : estate :=
  upd_flags s (e_enabled s) (e_auto_save s) (e_auto_build s) (e_auto_notify s) (e_callbacks s + 1).

(* ---- user functions ---- *)

(* `self.fm.add_function(fname, f); Self::register_function(&mut self.engine, fname, f);`
   The model keeps ONE table for the function map and the engine (f_ufuns, newest
   first); the translator only accepts the two calls together, with the same
   arguments (anything else would put the two out of step, which the model
   cannot express) *)
Definition add_user_function (s : estate) (n : text) (u : ufun) : estate :=
  upd_fs s {| f_rm := f_rm (e_fs s); f_rm_max := f_rm_max (e_fs s); f_gfuns := f_gfuns (e_fs s);
              f_ufuns := (n, u) :: f_ufuns (e_fs s) |}.
