(* GENERATED on every run by tools/rs2coq_links.py (rs2coq part 8) from /repo/src/model/assertion.rs
   (Assertion::build_role_links, ::build_incremental_role_links) and /repo/src/model/default_model.rs
   (build_role_links, build_incremental_role_links, add_policy, add_policies, remove_policy, remove_policies,
   clear_policy of impl Model for DefaultModel) - do not edit.
   v_self = the assertion (`&mut self`), st_rm = the role manager behind the parameter `rm`, st_model = self.model,
   st_policy = the rule list of the (sec, ptype) assertion; gen_f_absent = the section or the policy type is unknown.
   Every function returns the final state with its value; None = panic. *)
From CV Require Import Model.Base Model.RoleGraph Model.Enforce Model.Engine.
From CV Require Import Gen.RustStr Gen.RustVec Gen.LinksPrims.

Definition gen_ast_build_role_links (v_rm : handle) (v_self : assertion) (st_rm : rmgr) : option (assertion * rmgr * lerr) :=
 rs_fn (let v_count := (rs_count_char "_"%char (a_value v_self)) in
 (if (Nat.ltb v_count 2)
 then (LReturn (v_self, st_rm, (LErr EModel)))
 else (match rs_for (fun v_rule st_rm =>
 (if (Nat.ltb (rs_len v_rule) v_count)
 then (LReturn (v_self, st_rm, (LErr EPolicy)))
 else (if (Nat.eqb v_count 2)
 then (match (rs_index v_rule 0) with Some ix1 => (match (rs_index v_rule 1) with Some ix2 => (let st_rm := rs_rm_add_link st_rm ix1 ix2 None in
 (LNext st_rm)) | None => LPanic end) | None => LPanic end)
 else (if (Nat.eqb v_count 3)
 then (match (rs_index v_rule 0) with Some ix4 => (match (rs_index v_rule 1) with Some ix5 => (match (match (rs_index v_rule 2) with Some ix3 => (Some (Some ix3)) | None => None end) with Some ix6 => (let st_rm := rs_rm_add_link st_rm ix4 ix5 ix6 in
 (LNext st_rm)) | None => LPanic end) | None => LPanic end) | None => LPanic end)
 else (if (Nat.leb 4 v_count)
 then (LReturn (v_self, st_rm, (LErr EModel)))
 else (LNext st_rm))))))
 (a_policy v_self) st_rm with
 | Done st_rm => (let v_self := rs_ast_set_rm v_self v_rm in
 (LReturn (v_self, st_rm, LOk)))
 | Returned ret_ => LReturn ret_
 | Panicked => LPanic end))).

Definition gen_ast_build_incremental_role_links (v_rm : handle) (v_d : event) (v_self : assertion) (st_rm : rmgr) : option (assertion * rmgr * lerr) :=
 rs_fn (let v_count := (rs_count_char "_"%char (a_value v_self)) in
 (if (Nat.ltb v_count 2)
 then (LReturn (v_self, st_rm, (LErr EModel)))
 else (match (match v_d with
 | EvAdd _ _ v_rule => (Some (true, [v_rule]))
 | EvAddMany _ _ v_rules => (Some (true, v_rules))
 | EvRemove _ _ v_rule => (Some (false, [v_rule]))
 | EvRemoveMany _ _ v_rules => (Some (false, v_rules))
 | EvRemoveFiltered _ _ v_rules => (Some (false, v_rules))
 | _ => None
 end) with
 | Some (v_insert, v_rules) => (match rs_for (fun v_rule st_rm =>
 (if (Nat.ltb (rs_len v_rule) v_count)
 then (LReturn (v_self, st_rm, (LErr EPolicy)))
 else (if (Nat.eqb v_count 2)
 then (if v_insert
 then (match (rs_index v_rule 0) with Some ix1 => (match (rs_index v_rule 1) with Some ix2 => (let st_rm := rs_rm_add_link st_rm ix1 ix2 None in
 (LNext st_rm)) | None => LPanic end) | None => LPanic end)
 else (match (rs_index v_rule 0) with Some ix3 => (match (rs_index v_rule 1) with Some ix4 => (let '(st_rm, eff_2) := rs_rm_delete_link st_rm ix3 ix4 None in
 (match eff_2 with
 | LOk => (LNext st_rm)
 | LErr e_3 => (LReturn (v_self, st_rm, (LErr e_3))) end)) | None => LPanic end) | None => LPanic end))
 else (if (Nat.eqb v_count 3)
 then (if v_insert
 then (match (rs_index v_rule 0) with Some ix6 => (match (rs_index v_rule 1) with Some ix7 => (match (match (rs_index v_rule 2) with Some ix5 => (Some (Some ix5)) | None => None end) with Some ix8 => (let st_rm := rs_rm_add_link st_rm ix6 ix7 ix8 in
 (LNext st_rm)) | None => LPanic end) | None => LPanic end) | None => LPanic end)
 else (match (rs_index v_rule 0) with Some ix10 => (match (rs_index v_rule 1) with Some ix11 => (match (match (rs_index v_rule 2) with Some ix9 => (Some (Some ix9)) | None => None end) with Some ix12 => (let '(st_rm, eff_5) := rs_rm_delete_link st_rm ix10 ix11 ix12 in
 (match eff_5 with
 | LOk => (LNext st_rm)
 | LErr e_6 => (LReturn (v_self, st_rm, (LErr e_6))) end)) | None => LPanic end) | None => LPanic end) | None => LPanic end))
 else (if (Nat.leb 4 v_count)
 then (LReturn (v_self, st_rm, (LErr EModel)))
 else (LNext st_rm))))))
 v_rules st_rm with
 | Done st_rm => (let v_self := rs_ast_set_rm v_self v_rm in
 (LReturn (v_self, st_rm, LOk)))
 | Returned ret_ => LReturn ret_
 | Panicked => LPanic end)
 | None => (LReturn (v_self, st_rm, LOk)) end))).

Definition gen_model_build_role_links (v_rm : handle) (st_model : model) (st_rm : rmgr) : option (model * rmgr * lerr) :=
 rs_fn (match (rs_model_get_mut st_model (T "g")) with
 | Some v_asts => (match rs_for (fun '(pos_1, v_ast) '(st_rm, v_asts) =>
 (match gen_ast_build_role_links v_rm v_ast st_rm with
 | Some (v_ast, st_rm, eff_2) => (match eff_2 with
 | LOk => (let v_asts := rs_value_set v_asts pos_1 v_ast in
 (LNext (st_rm, v_asts)))
 | LErr e_3 => (let v_asts := rs_value_set v_asts pos_1 v_ast in
 (let st_model := rs_model_set st_model (T "g") v_asts in
 (LReturn (st_model, st_rm, (LErr e_3))))) end)
 | None => LPanic end))
 (rs_values_mut v_asts) (st_rm, v_asts) with
 | Done (st_rm, v_asts) => (let st_model := rs_model_set st_model (T "g") v_asts in
 (LReturn (st_model, st_rm, LOk)))
 | Returned ret_ => LReturn ret_
 | Panicked => LPanic end)
 | None => (LReturn (st_model, st_rm, LOk)) end).

Definition gen_model_build_incremental_role_links (v_rm : handle) (v_d : event) (st_model : model) (st_rm : rmgr) : option (model * rmgr * lerr) :=
 rs_fn (let v_ast := (match v_d with
 | EvAdd v_sec v_ptype _ | EvAddMany v_sec v_ptype _ | EvRemove v_sec v_ptype _ | EvRemoveMany v_sec v_ptype _ | EvRemoveFiltered v_sec v_ptype _ => (if (rs_eq v_sec (T "g")) then (rs_ast_borrow st_model v_sec v_ptype) else None)
 | _ => None
 end) in
 (match v_ast with
 | Some v_ast => (match gen_ast_build_incremental_role_links v_rm v_d (snd v_ast) st_rm with
 | Some (a_2, st_rm, eff_1) => (let v_ast := (fst v_ast, a_2) in
 (let st_model := rs_ast_write_back st_model v_ast in
 (match eff_1 with
 | LOk => (LReturn (st_model, st_rm, LOk))
 | LErr e_3 => (LReturn (st_model, st_rm, (LErr e_3))) end)))
 | None => LPanic end)
 | None => (LReturn (st_model, st_rm, LOk)) end)).

Definition gen_add_policy (v_rule : list text) (st_policy : list rule) : option ((list rule) * bool) :=
 rs_fn (if (rs_oset_contains st_policy v_rule)
 then (LReturn (st_policy, false))
 else (let eff_1 := negb (rs_oset_contains st_policy v_rule) in
 (let st_policy := rs_oset_insert st_policy v_rule in
 (LReturn (st_policy, eff_1))))).

Definition gen_add_policy_absent (v_rule : list text) : option bool :=
 rs_fn (LReturn false).

Definition gen_add_policies (v_rules : list rule) (st_policy : list rule) : option ((list rule) * bool) :=
 rs_fn (if (rs_vec_is_empty v_rules)
 then (LReturn (st_policy, false))
 else (match rs_for (fun v_rule (_ : unit) =>
 (if (rs_oset_contains st_policy v_rule)
 then (LReturn (st_policy, false))
 else (LNext tt)))
 v_rules tt with
 | Done _ => (match rs_for (fun v_rule st_policy =>
 (let st_policy := (if (negb (rs_oset_contains st_policy v_rule)) then (let eff_1 := negb (rs_oset_contains st_policy v_rule) in
 (let st_policy := rs_oset_insert st_policy v_rule in
 st_policy)) else st_policy) in
 (LNext st_policy)))
 v_rules st_policy with
 | Done st_policy => (LReturn (st_policy, true))
 | Returned ret_ => LReturn ret_
 | Panicked => LPanic end)
 | Returned ret_ => LReturn ret_
 | Panicked => LPanic end)).

Definition gen_add_policies_absent (v_rules : list rule) : option bool :=
 rs_fn (if (rs_vec_is_empty v_rules)
 then (LReturn false)
 else (LReturn false)).

Definition gen_remove_policy (v_rule : list text) (st_policy : list rule) : option ((list rule) * bool) :=
 rs_fn (let eff_1 := rs_oset_contains st_policy v_rule in
 (let st_policy := rs_oset_remove st_policy v_rule in
 (LReturn (st_policy, eff_1)))).

Definition gen_remove_policy_absent (v_rule : list text) : option bool :=
 rs_fn (LReturn false).

Definition gen_remove_policies (v_rules : list rule) (st_policy : list rule) : option ((list rule) * bool) :=
 rs_fn (if (rs_vec_is_empty v_rules)
 then (LReturn (st_policy, false))
 else (match rs_for (fun v_rule (_ : unit) =>
 (if (negb (rs_oset_contains st_policy v_rule))
 then (LReturn (st_policy, false))
 else (LNext tt)))
 v_rules tt with
 | Done _ => (match rs_for (fun v_rule st_policy =>
 (let eff_1 := rs_oset_contains st_policy v_rule in
 (let st_policy := rs_oset_remove st_policy v_rule in
 (LNext st_policy))))
 v_rules st_policy with
 | Done st_policy => (LReturn (st_policy, true))
 | Returned ret_ => LReturn ret_
 | Panicked => LPanic end)
 | Returned ret_ => LReturn ret_
 | Panicked => LPanic end)).

Definition gen_remove_policies_absent (v_rules : list rule) : option bool :=
 rs_fn (if (rs_vec_is_empty v_rules)
 then (LReturn false)
 else (LReturn false)).

Definition gen_clear_policy (st_model : model) : option model :=
 rs_fn (match (rs_model_get_mut st_model (T "p")) with
 | Some v_model_p => (match rs_for (fun '(pos_1, v_ast) v_model_p =>
 (let v_ast := rs_ast_set_policy v_ast rs_oset_clear in
 (let v_model_p := rs_value_set v_model_p pos_1 v_ast in
 (LNext v_model_p))))
 (rs_values_mut v_model_p) v_model_p with
 | Done v_model_p => (let st_model := rs_model_set st_model (T "p") v_model_p in
 (match (rs_model_get_mut st_model (T "g")) with
 | Some v_model_g => (match rs_for (fun '(pos_3, v_ast) v_model_g =>
 (let v_ast := rs_ast_set_policy v_ast rs_oset_clear in
 (let v_model_g := rs_value_set v_model_g pos_3 v_ast in
 (LNext v_model_g))))
 (rs_values_mut v_model_g) v_model_g with
 | Done v_model_g => (let st_model := rs_model_set st_model (T "g") v_model_g in
 (LReturn st_model))
 | Returned ret_ => LReturn ret_
 | Panicked => LPanic end)
 | None => (LReturn st_model) end))
 | Returned ret_ => LReturn ret_
 | Panicked => LPanic end)
 | None => (match (rs_model_get_mut st_model (T "g")) with
 | Some v_model_g => (match rs_for (fun '(pos_5, v_ast) v_model_g =>
 (let v_ast := rs_ast_set_policy v_ast rs_oset_clear in
 (let v_model_g := rs_value_set v_model_g pos_5 v_ast in
 (LNext v_model_g))))
 (rs_values_mut v_model_g) v_model_g with
 | Done v_model_g => (let st_model := rs_model_set st_model (T "g") v_model_g in
 (LReturn st_model))
 | Returned ret_ => LReturn ret_
 | Panicked => LPanic end)
 | None => (LReturn st_model) end) end).

Definition gen_links_translated : bool := true.
