(* Gallina counterparts of the std operations - Option, iterator adaptors with
   closures, `while let`, usize arithmetic, Result, HashSet - used by the
   functions of src/rbac/default_role_manager.rs that tools/rs2coq_rm.py
   translates (part 11: Gen/RoleManagerGen.v).  Hand-written, definitions only;
   facts about them are in Proofs/PetgraphP.v.  Same conventions as
   Gen/RustVec.v (whose `flow` / `rs_for` / `rs_fold` / `rs_fn` are reused):
   `String`/`&str` is `text`, `usize` is `nat`, `.clone()` / `.to_owned()` /
   `.into()` / `&` / `*` / `Box::new` / `.iter()` / `.into_iter()` /
   `.collect::<Vec<_>>()` are the identity.

   Iterators.  An iterator is the LIST of the items it will yield.  The closures
   of the source have no side effect, so the laziness of the adaptors cannot be
   observed except through a PANIC inside a closure (`graph[i]`, `map[key]`):
   `find` / `any` stop at the first hit and must not evaluate the closure on
   later items.  A closure that can panic has type `A -> option B` (None = the
   panic) and the adaptor is the `_opt` version, which evaluates the closure
   from left to right and propagates the first panic it reaches.

   Hash containers.  The iteration order of a HashMap / HashSet is unspecified.
   Every translated function that iterates over one takes the order as a
   parameter `ord : list text -> list text` and the obligations quantify over
   all `ord` with `forall l, Permutation (ord l) l`. *)
From CV Require Import Model.Base Gen.RustStr Gen.RustVec.

(* ---------------------------------------------------------------- Option *)
(* o.unwrap_or(d); o.unwrap_or_default() is rs_unwrap_or o <Default::default()> *)
Definition rs_unwrap_or {A} (o : option A) (d : A) : A :=
  match o with Some x => x | None => d end.
(* o.map(f) *)
Definition rs_opt_map {A B} (f : A -> B) (o : option A) : option B :=
  match o with Some x => Some (f x) | None => None end.
(* o.map(f) with a closure that can panic (outer None) *)
Definition rs_opt_map_opt {A B} (f : A -> option B) (o : option A) : option (option B) :=
  match o with
  | Some x => match f x with Some y => Some (Some y) | None => None end
  | None => Some None
  end.
(* o.map_or(d, f) *)
Definition rs_map_or {A B} (o : option A) (d : B) (f : A -> B) : B :=
  match o with Some x => f x | None => d end.
(* o.is_some() *)
Definition rs_is_some {A} (o : option A) : bool :=
  match o with Some _ => true | None => false end.

(* ----------------------------------------------------------------- usize *)
(* a - b / a -= b: "attempt to subtract with overflow" panics in a debug build
   and wraps in a release build; both are outside the model: None *)
Definition rs_usize_sub (a b : nat) : option nat :=
  if Nat.leb b a then Some (a - b) else None.

(* ------------------------------------------------------ iterator adaptors *)
(* total closures *)
Definition rs_iter_filter {A} (p : A -> bool) (l : list A) : list A := filter p l.
Definition rs_iter_map {A B} (f : A -> B) (l : list A) : list B := map f l.
(* it.filter_map(f): the Some results, in order *)
Fixpoint rs_iter_filter_map {A B} (f : A -> option B) (l : list A) : list B :=
  match l with
  | [] => []
  | x :: r => match f x with Some y => y :: rs_iter_filter_map f r | None => rs_iter_filter_map f r end
  end.
(* it.flat_map(f): the items of f x1, then those of f x2, ... *)
Definition rs_iter_flat_map {A B} (f : A -> list B) (l : list A) : list B := flat_map f l.
(* a.chain(b) *)
Definition rs_iter_chain {A} (a b : list A) : list A := a ++ b.
(* it.find(p): the first item that satisfies p *)
Definition rs_iter_find {A} (p : A -> bool) (l : list A) : option A := find p l.
(* it.any(p) *)
Definition rs_iter_any {A} (p : A -> bool) (l : list A) : bool := existsb p l.

(* closures that can panic: outer None = a panic was reached *)
Fixpoint rs_iter_filter_opt {A} (p : A -> option bool) (l : list A) : option (list A) :=
  match l with
  | [] => Some []
  | x :: r => match p x with
              | None => None
              | Some b => match rs_iter_filter_opt p r with
                          | None => None
                          | Some r' => Some (if b then x :: r' else r')
                          end
              end
  end.
Fixpoint rs_iter_map_opt {A B} (f : A -> option B) (l : list A) : option (list B) :=
  match l with
  | [] => Some []
  | x :: r => match f x with
              | None => None
              | Some y => match rs_iter_map_opt f r with None => None | Some r' => Some (y :: r') end
              end
  end.
Fixpoint rs_iter_filter_map_opt {A B} (f : A -> option (option B)) (l : list A) : option (list B) :=
  match l with
  | [] => Some []
  | x :: r => match f x with
              | None => None
              | Some oy => match rs_iter_filter_map_opt f r with
                           | None => None
                           | Some r' => Some (match oy with Some y => y :: r' | None => r' end)
                           end
              end
  end.
Fixpoint rs_iter_flat_map_opt {A B} (f : A -> option (list B)) (l : list A) : option (list B) :=
  match l with
  | [] => Some []
  | x :: r => match f x with
              | None => None
              | Some ys => match rs_iter_flat_map_opt f r with None => None | Some r' => Some (ys ++ r') end
              end
  end.
(* find / any: the items after the first hit are not examined *)
Fixpoint rs_iter_find_opt {A} (p : A -> option bool) (l : list A) : option (option A) :=
  match l with
  | [] => Some None
  | x :: r => match p x with
              | None => None
              | Some true => Some (Some x)
              | Some false => rs_iter_find_opt p r
              end
  end.
Fixpoint rs_iter_any_opt {A} (p : A -> option bool) (l : list A) : option bool :=
  match l with
  | [] => Some false
  | x :: r => match p x with
              | None => None
              | Some true => Some true
              | Some false => rs_iter_any_opt p r
              end
  end.

(* ------------------------------------------------------------ `while let` *)
(* while let Some(x) = <next> { body }
   `next s` evaluates the scrutinee on the loop-carried locals s: it may update
   them (an iterator's `next(&mut self)`) and may panic (None).  Gallina needs a
   bound on the number of iterations: `Panicked` also stands for "not finished
   within `fuel` iterations"; the obligations show that the translated
   functions return `Some _` for every sufficiently large fuel, so that neither
   a panic nor an unfinished loop is hidden in a result. *)
Fixpoint rs_while_some {X S R} (fuel : nat) (next : S -> option (S * option X))
    (body : X -> S -> flow S R) (s : S) : loop_result S R :=
  match fuel with
  | 0 => Panicked
  | S fuel' =>
    match next s with
    | None => Panicked
    | Some (s1, None) => Done s1
    | Some (s1, Some x) =>
      match body x s1 with
      | LNext s2 => rs_while_some fuel' next body s2
      | LBreak s2 => Done s2
      | LReturn r => Returned r
      | LPanic => Panicked
      end
    end
  end.

(* ---------------------------------------------------------------- Result *)
Inductive rs_result (A E : Type) : Type := ROk (v : A) | RErr (e : E).
Arguments ROk {A E} v.
Arguments RErr {A E} e.
Definition rs_is_ok {A E} (r : rs_result A E) : bool :=
  match r with ROk _ => true | RErr _ => false end.
(* crate::error::RbacError::NotFound(msg), after `.into()` *)
Inductive rbac_error : Type := RbacNotFound (msg : text).

(* --------------------------------------------------------------- HashSet *)
(* HashSet<String>: the list of its elements, duplicate-free, in no particular
   order (see `ord` above) *)
Definition hs_new : list text := [].
Definition hs_insert (s : list text) (x : text) : list text :=
  if existsb (rs_eq x) s then s else s ++ [x].
(* s.extend(it) *)
Definition hs_extend (s : list text) (it : list text) : list text := fold_left hs_insert it s.
(* s.into_iter().collect::<Vec<_>>() *)
Definition hs_to_vec (ord : list text -> list text) (s : list text) : list text := ord s.
