(* HAND-WRITTEN (TRUSTED) Gallina counterparts of the types and std operations that the
   bodies translated by tools/rs2coq_misc.py (rs2coq part 22: Gen/MiscGen.v) are written with.
   Definitions only (each one names the Rust item it stands for); the facts about them are in
   Proofs/MiscP.v, the obligations on the generated functions in PinChecks/PcMiscGen.v.

   Covered bodies: src/adapter/null_adapter.rs (the ten methods of `impl Adapter for NullAdapter`, through the
   emitter of parts 9 / 17: nothing of this file is needed for them), src/model/function_map.rs
   `impl Default for FunctionMap`, FunctionMap::add_function / get_functions, src/enforcer.rs
   Enforcer::register_function, src/model/assertion.rs Assertion::default / get_policy / get_mut_policy,
   src/frontend.rs casbin_js_get_permission_for_user.

   The function map.  Gen/Enforcer2Rt.v (part 15) keeps of an `OperatorFunction` only the function pointer
   (`opfun`: a function the harness adds, or a default function named by its registered name) and DERIVES the N
   of its variant ArgN from it (opfun_arity).  Here the enum is restated as it is declared: seven variants, each
   carrying a function pointer; `opfn_of` is the value of the enum that a pointer of the model stands for. *)
From CV Require Import Model.Base Model.Expr Model.Enforce Model.Engine.
From CV Require Import Gen.RustStr Gen.RustVec Gen.FsRt Gen.EnforcerPrims Gen.CachedRt Gen.Enforcer2Rt.

(* ------------------------------------------------------------------ *)
(* model/function_map.rs                                               *)

(* fn(ImmutableString, ..) -> Dynamic: the function pointers the model knows *)
Definition fnptr : Type := opfun.

(* pub enum OperatorFunction { Arg0(fn() -> Dynamic), Arg1(fn(ImmutableString) -> Dynamic), .. Arg6(..) } *)
Inductive operator_function :=
| Arg0 (f : fnptr) | Arg1 (f : fnptr) | Arg2 (f : fnptr) | Arg3 (f : fnptr)
| Arg4 (f : fnptr) | Arg5 (f : fnptr) | Arg6 (f : fnptr).

(* the declaration, as a table: variant, number of ImmutableString parameters of the fn type it carries
   (PcMiscGen.gen_operator_function_variants_ok: this is what the source declares) *)
Definition opfn_variants : list (text * nat) :=
  [(T "Arg0", 0); (T "Arg1", 1); (T "Arg2", 2); (T "Arg3", 3); (T "Arg4", 4); (T "Arg5", 5); (T "Arg6", 6)].

Definition opfn_ptr (f : operator_function) : fnptr :=
  match f with Arg0 p | Arg1 p | Arg2 p | Arg3 p | Arg4 p | Arg5 p | Arg6 p => p end.
(* the N of the variant *)
Definition opfn_variant (f : operator_function) : nat :=
  match f with Arg0 _ => 0 | Arg1 _ => 1 | Arg2 _ => 2 | Arg3 _ => 3 | Arg4 _ => 4 | Arg5 _ => 5 | Arg6 _ => 6 end.
(* what rustc checks: the pointer under ArgN takes N parameters *)
Definition opfn_wt (f : operator_function) : Prop := opfun_arity (opfn_ptr f) = opfn_variant f.

(* the OperatorFunction that carries a pointer of the model (the functions of the model take 1 .. 3
   parameters: Enforcer2Rt.ufun_arity, builtin_arity; the last case is never reached) *)
Definition opfn_of (p : opfun) : operator_function :=
  match opfun_arity p with
  | 0 => Arg0 p | 1 => Arg1 p | 2 => Arg2 p | 3 => Arg3 p | 4 => Arg4 p | 5 => Arg5 p | _ => Arg6 p
  end.

(* pub struct FunctionMap { pub(crate) fm: HashMap<String, OperatorFunction> }
   (the HashMap is the association list of Enforcer2Rt: hm_new / hm_get / hm_insert / hm_remove) *)
Record function_map := { fm_fm : list (text * operator_function) }.
Definition set_fm_fm (s : function_map) (x : list (text * operator_function)) : function_map := {| fm_fm := x |}.

(* the Rust-level function map of a function map of Enforcer2Rt, and back *)
Definition fm_rep (fm : fmap) : function_map := {| fm_fm := map (fun kf => (fst kf, opfn_of (snd kf))) fm |}.
Definition fm_abs (m : function_map) : fmap := map (fun kf => (fst kf, opfn_ptr (snd kf))) (fm_fm m).

(* m.iter() on a HashMap: every entry once, "in arbitrary order" - here the order of the list; the statements
   about the iteration are about the entries (Enforcer2Rt.fm_get_functions is the same restatement) *)
Definition rs_hm_iter {K V : Type} (m : list (K * V)) : list (K * V) := m.

(* m.entry(k).or_insert(v) as a statement: "Ensures a value is in the entry by inserting the default if empty" *)
Definition hm_or_insert {K V : Type} (eqb : K -> K -> bool) (m : list (K * V)) (k : K) (v : V) : list (K * V) :=
  match hm_get eqb m k with Some _ => m | None => hm_insert eqb m k v end.
(* m.contains_key(&k) *)
Definition hm_contains_key {K V : Type} (eqb : K -> K -> bool) (m : list (K * V)) (k : K) : bool :=
  match hm_get eqb m k with Some _ => true | None => false end.

(* The closures of FunctionMap::default():  |s1: ImmutableString, ..| F(&s1, ..).into()  for a function F of
   function_map.rs; they capture nothing and coerce to fn pointers.  The model names a default function by the
   name it is registered under, and that name is the name of F in camel case (Enforce.builtin evaluates F under
   that name): the pointer of the closure that calls F is OfBuiltin (rs_camel F).  What the closure computes is
   translated separately (gen_fm_default_closures) and PcMiscGen.gen_fm_default_closures_ok proves that it is what
   the engine runs for this pointer. *)
Definition rs_upper (c : ascii) : ascii :=
  let n := nat_of_ascii c in if Nat.leb 97 n && Nat.leb n 122 then ascii_of_nat (n - 32) else c.
Fixpoint rs_camel (s : text) : text :=
  match s with
  | [] => []
  | c :: r =>
    if Ascii.eqb c "_"%char
    then match r with [] => [] | d :: r' => rs_upper d :: rs_camel r' end
    else c :: rs_camel r
  end.
Definition closure_ptr (crate_fn : text) : fnptr := OfBuiltin (rs_camel crate_fn).

(* `.into()` from the result of a matcher function to rhai::Dynamic: a bool, a String; a translated function of
   part 16 answers `option` (None = the pattern did not compile / is outside the translated class: an evaluation
   error, as Enforce.ob_res / ot_res) *)
Definition dyn_bool (b : bool) : eres := EV (VBool b).
Definition dyn_str (s : text) : eres := EV (VStr s).
Definition dyn_obool (o : option bool) : eres := ob_res o.
Definition dyn_otext (o : option text) : eres := ot_res o.

(* ------------------------------------------------------------------ *)
(* places                                                              *)

(* `&mut self.field` returned from a method: the value now and the object after a write through the reference *)
Definition place (S A : Type) : Type := (A * (A -> S))%type.
Definition place_get {S A} (p : place S A) : A := fst p.
Definition place_set {S A} (p : place S A) (a : A) : S := snd p a.

(* ------------------------------------------------------------------ *)
(* src/frontend.rs: serde_json                                          *)

(* serde_json::Value, as far as frontend.rs builds one: Value::from(String), Value::from(Vec<Vec<String>>)
   (From<Vec<T>> for Value where T: Into<Value>: an array of the converted elements) *)
Inductive json := JStr (s : text) | JArr (l : list json).
Definition json_of_string (s : text) : json := JStr s.
Definition json_of_rows (rows : list (list text)) : json := JArr (map (fun r => JArr (map JStr r)) rows).

(* serde_json's string escaping (ser.rs ESCAPE table): the quote, the backslash, \b \t \n \f \r by their short
   escapes, the other bytes below 0x20 as \u00XX (lower-case hexadecimal digits); everything else - every byte of a
   multi-byte UTF-8 sequence included - unchanged *)
Definition hex_digit (n : nat) : ascii :=
  if Nat.ltb n 10 then ascii_of_nat (48 + n) else ascii_of_nat (87 + n).
Definition json_escape_byte (c : ascii) : text :=
  let n := nat_of_ascii c in
  if Nat.eqb n 34 then T "\"""
  else if Nat.eqb n 92 then T "\\"
  else if Nat.eqb n 8 then T "\b"
  else if Nat.eqb n 9 then T "\t"
  else if Nat.eqb n 10 then T "\n"
  else if Nat.eqb n 12 then T "\f"
  else if Nat.eqb n 13 then T "\r"
  else if Nat.ltb n 32 then T "\u00" ++ [hex_digit (Nat.div n 16); hex_digit (Nat.modulo n 16)]
  else [c].
Definition json_string (s : text) : text := T """" ++ flat_map json_escape_byte s ++ T """".
Definition json_join (sep : text) (l : list text) : text :=
  match l with [] => [] | x :: r => x ++ flat_map (fun y => sep ++ y) r end.
(* the compact formatter: no white space *)
Fixpoint json_to_string (v : json) : text :=
  match v with
  | JStr s => json_string s
  | JArr l => T "[" ++ json_join (T ",") (map json_to_string l) ++ T "]"
  end.
(* serde_json::to_string(&m) for m: HashMap<&str, Value>: an object with one member per entry, in the iteration
   order of the map (`ord`: any permutation; serialising a map with string keys and these values cannot fail) *)
Definition json_map_to_string (ord : list (text * json) -> list (text * json)) (m : list (text * json)) : text :=
  T "{" ++ json_join (T ",") (map (fun kv => json_string (fst kv) ++ T ":" ++ json_to_string (snd kv)) (ord m)) ++ T "}".

(* serde_json::Error; serde_json::to_string on a HashMap<&str, Value> (string keys, string / array values): Ok *)
Inductive serde_error := SerdeError.
Definition serde_to_string (ord : list (text * json) -> list (text * json)) (m : list (text * json))
  : FsRt.res serde_error text := FsRt.ROk (json_map_to_string ord m).
(* Box<dyn std::error::Error>, as far as frontend.rs builds one: From<serde_json::Error> (the `?`) *)
Inductive dyn_error := DynSerde (e : serde_error).

(* ------------------------------------------------------------------ *)
(* control flow                                                        *)

(* a statement with branches (if / if let / match), then the rest of the block: the branches end in LNext of
   the variables they rebind, or leave the function (LReturn) / panic *)
Definition rs_then {S S' R} (c : flow S R) (k : S -> flow S' R) : flow S' R :=
  match c with
  | LNext s => k s
  | LBreak s => k s
  | LReturn r => LReturn r
  | LPanic => LPanic
  end.
