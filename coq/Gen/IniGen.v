(* GENERATED on every run by tools/rs2coq.py (tools/rs2coq_ini.py) from /repo/src/config.rs,
   /repo/src/model/default_model.rs (loading half) and /repo/src/model/assertion.rs (Assertion::default)
   - do not edit.  The model-text reader over the operations of Gen/IniRt.v, Gen/RustStr.v, Gen/RustVec.v,
   Gen/RustIter.v and the `hashmap` of Gen/Petgraph.v; None / LPanic = a panic, or more than `fuel`
   iterations of a loop. *)
From CV Require Import Model.Base Gen.RustStr Gen.StrFnGen Gen.RustVec Gen.RustIter Gen.Petgraph Gen.IniRt.

Definition gen_DEFAULT_COMMENT : text := (T "#").
Definition gen_DEFAULT_COMMENT_SEM : text := (T ";").
Definition gen_DEFAULT_MULTI_LINE_SEPARATOR : text := (T "\").
Definition gen_DEFAULT_SECTION : text := (T "default").

Record config_state := { conf_data : hashmap (hashmap text) }.
Definition set_conf_data (s : config_state) (x : hashmap (hashmap text)) : config_state :=
  {| conf_data := x |}.

Record gen_assertion := { ga_key : text;
  ga_value : text;
  ga_tokens : list text;
  ga_policy : list (list text);
  ga_rm : rm_handle }.
Definition set_ga_key (s : gen_assertion) (x : text) : gen_assertion :=
  {| ga_key := x; ga_value := ga_value s; ga_tokens := ga_tokens s; ga_policy := ga_policy s; ga_rm := ga_rm s |}.
Definition set_ga_value (s : gen_assertion) (x : text) : gen_assertion :=
  {| ga_key := ga_key s; ga_value := x; ga_tokens := ga_tokens s; ga_policy := ga_policy s; ga_rm := ga_rm s |}.
Definition set_ga_tokens (s : gen_assertion) (x : list text) : gen_assertion :=
  {| ga_key := ga_key s; ga_value := ga_value s; ga_tokens := x; ga_policy := ga_policy s; ga_rm := ga_rm s |}.
Definition set_ga_policy (s : gen_assertion) (x : list (list text)) : gen_assertion :=
  {| ga_key := ga_key s; ga_value := ga_value s; ga_tokens := ga_tokens s; ga_policy := x; ga_rm := ga_rm s |}.
Definition set_ga_rm (s : gen_assertion) (x : rm_handle) : gen_assertion :=
  {| ga_key := ga_key s; ga_value := ga_value s; ga_tokens := ga_tokens s; ga_policy := ga_policy s; ga_rm := x |}.

Record dmodel_state := { dm_model : hashmap (lhm gen_assertion) }.
Definition set_dm_model (s : dmodel_state) (x : hashmap (lhm gen_assertion)) : dmodel_state :=
  {| dm_model := x |}.

Definition gen_add_config (self : config_state) (v_section : text) (v_option : text) (v_value : text) : option config_state :=
 rs_fn (R := config_state) (let v_section := (if (rs_is_empty v_section) then (let v_section := gen_DEFAULT_SECTION in
 v_section) else v_section) in
 (let '(m1, v_section_value) := hm_entry_or (conf_data self) v_section hm_new in
 (let self := (set_conf_data self m1) in
 (match hm_get v_section_value v_option with
 | Some v_old_value => (let v_old_value := v_value in
 (let v_section_value := (hm_insert v_section_value v_option v_old_value) in
 (let self := (set_conf_data self (hm_insert (conf_data self) v_section v_section_value)) in
 (LReturn self))))
 | None => (let v_section_value := (hm_insert v_section_value v_option v_value) in
 (let self := (set_conf_data self (hm_insert (conf_data self) v_section v_section_value)) in
 (LReturn self))) end)))).

Definition gen_parse_buffer (fuel : nat) (self : config_state) (v_reader : reader) : option (config_state * reader * (rs_result unit ini_error)) :=
 rs_fn (R := config_state * reader * (rs_result unit ini_error)) (let v_section := (T "") in
 (match rs_loop fuel (fun '(self, v_reader, v_section) =>
 (let v_line := (T "") in
 (let '(rd1, ln2, res3) := rs_read_line v_reader v_line in
 (let v_reader := rd1 in
 (let v_line := ln2 in
 (match res3 with
 | ROk v4 => (let v_bytes := v4 in
 (if (Nat.eqb v_bytes 0)
 then (LReturn (self, v_reader, (ROk tt)))
 else (let v_line := (rs_str_trim v_line) in
 (if (((rs_is_empty v_line) || (rs_starts_with v_line gen_DEFAULT_COMMENT)) || (rs_starts_with v_line gen_DEFAULT_COMMENT_SEM))
 then (LNext (self, v_reader, v_section))
 else (if ((rs_starts_with_char v_line "["%char) && (rs_ends_with_char v_line "]"%char))
 then (match (match (match (rs_usize_sub (rs_str_len v_line) 1) with Some o6 => (Some (rs_str_slice v_line 1 o6)) | None => None end) with Some o7 => o7 | None => None end) with Some o8 => (let v_section := o8 in
 (LNext (self, v_reader, v_section))) | None => LPanic end)
 else (let v_next_section := (T "") in
 (match rs_while fuel (fun '(v_reader, v_line, v_next_section) => (rs_ends_with v_line gen_DEFAULT_MULTI_LINE_SEPARATOR))
 (fun '(v_reader, v_line, v_next_section) =>
 (match (match (match (match (rs_usize_sub (rs_str_len v_line) 1) with Some o9 => (Some (rs_str_slice v_line 0 o9)) | None => None end) with Some o10 => o10 | None => None end) with Some o11 => (Some (rs_str_trim_end o11)) | None => None end) with Some o12 => (let v_line := o12 in
 (let v_inner_line := (T "") in
 (let '(rd13, ln14, res15) := rs_read_line v_reader v_inner_line in
 (let v_reader := rd13 in
 (let v_inner_line := ln14 in
 (match res15 with
 | ROk v16 => (let v_inner_bytes := v16 in
 (if (Nat.eqb v_inner_bytes 0)
 then (LBreak (v_reader, v_line, v_next_section))
 else (let v_inner_line'18 := (rs_str_trim v_inner_line) in
 (if (((rs_is_empty v_inner_line'18) || (rs_starts_with v_inner_line'18 gen_DEFAULT_COMMENT)) || (rs_starts_with v_inner_line'18 gen_DEFAULT_COMMENT_SEM))
 then (LNext (v_reader, v_line, v_next_section))
 else (if ((rs_starts_with_char v_inner_line'18 "["%char) && (rs_ends_with_char v_inner_line'18 "]"%char))
 then (match (match (match (rs_usize_sub (rs_str_len v_inner_line'18) 1) with Some o19 => (Some (rs_str_slice v_inner_line'18 1 o19)) | None => None end) with Some o20 => o20 | None => None end) with Some o21 => (let v_next_section := o21 in
 (LNext (v_reader, v_line, v_next_section))) | None => LPanic end)
 else (let v_line := (rs_push_str v_line v_inner_line'18) in
 (LNext (v_reader, v_line, v_next_section))))))))
 | RErr e17 => (LReturn (self, v_reader, (RErr e17))) end)))))) | None => LPanic end))
 (v_reader, v_line, v_next_section) with
 | Done (v_reader, v_line, v_next_section) => (let v_option_val := (rs_iter_map (fun v_e => (rs_str_trim v_e)) (rs_splitn_char (rs_str_trim_end_matches (fun v_c => ((rs_char_is_whitespace v_c) || (rs_eq (rs_char_to_string v_c) gen_DEFAULT_MULTI_LINE_SEPARATOR))) v_line) 2 "="%char)) in
 (if (negb (Nat.eqb (rs_vec_len v_option_val) 2))
 then (LReturn (self, v_reader, (RErr (IniIoError IoOther ((T "parse content error, line=") ++ v_line)))))
 else (match (rs_index v_option_val 0) with Some o22 => (match (rs_index v_option_val 1) with Some o23 => (match (gen_add_config self v_section o22 o23) with
 | Some s24 => (let self := s24 in
 (let v_section := (if (negb (rs_is_empty v_next_section)) then (let v_section := v_next_section in
 v_section) else v_section) in
 (LNext (self, v_reader, v_section))))
 | None => LPanic end) | None => LPanic end) | None => LPanic end)))
 | Returned ret_ => LReturn ret_
 | Panicked => LPanic end)))))))
 | RErr e5 => (LReturn (self, v_reader, (RErr e5))) end))))))
 (self, v_reader, v_section) with
 | Done _ => LPanic
 | Returned ret_ => LReturn ret_
 | Panicked => LPanic end)).

Definition gen_from_str (fuel : nat) (v_s : text) : option ((rs_result config_state ini_error)) :=
 rs_fn (R := (rs_result config_state ini_error)) (let v_c := {| conf_data := hm_new |} in
 (match (gen_parse_buffer fuel v_c (rs_bufreader_new (rs_cursor_new v_s))) with
 | Some (s1, _, r2) => (let v_c := s1 in
 (match r2 with
 | ROk v3 => (LReturn (ROk v_c))
 | RErr e4 => (LReturn (RErr e4)) end))
 | None => LPanic end)).

Definition gen_get (self : config_state) (v_key : text) : option (option text) :=
 (let v_keys := (rs_iter_map (fun x => x) (rs_split_str (rs_to_lowercase v_key) (T "::"))) in
 (if (Nat.leb 2 (rs_vec_len v_keys)) then (match (rs_index v_keys 0) with Some v_section => (match (rs_index v_keys 1) with Some v_option => (Some (rs_and_then (hm_get (conf_data self) v_section) (fun v_m => (rs_opt_map (fun v_v => v_v) (hm_get v_m v_option))))) | None => None end) | None => None end) else (let v_section := gen_DEFAULT_SECTION in
 (match (rs_index v_keys 0) with Some v_option => (Some (rs_and_then (hm_get (conf_data self) v_section) (fun v_m => (rs_opt_map (fun v_v => v_v) (hm_get v_m v_option))))) | None => None end)))).

Definition gen_get_str (self : config_state) (v_key : text) : option (option text) :=
 (gen_get self v_key).

Definition gen_assertion_default  : gen_assertion :=
 {| ga_key := (T ""); ga_value := (T ""); ga_tokens := []; ga_policy := []; ga_rm := (RmFresh 0) |}.

Definition gen_get_key_suffix (self : dmodel_state) (v_i : nat) : text :=
 (if (Nat.eqb v_i 1) then (T "") else (rs_u64_to_string v_i)).

Definition gen_add_def (self : dmodel_state) (v_sec : text) (v_key : text) (v_value : text) : option (dmodel_state * bool) :=
 rs_fn (R := dmodel_state * bool) (let v_ast := (let base_ := (gen_assertion_default) in {| ga_key := v_key; ga_value := (gen_remove_comment v_value); ga_tokens := (ga_tokens base_); ga_policy := (ga_policy base_); ga_rm := (ga_rm base_) |}) in
 (if (rs_is_empty (ga_value v_ast))
 then (LReturn (self, false))
 else (let v_ast := (if ((rs_eq v_sec (T "r")) || (rs_eq v_sec (T "p"))) then (let v_ast := (set_ga_tokens v_ast (rs_iter_map (fun v_x => (v_key ++ (T "_") ++ (rs_str_trim v_x))) (rs_split_char (ga_value v_ast) ","%char))) in
 v_ast) else (let v_ast := (set_ga_value v_ast (rs_escape_assertion (ga_value v_ast))) in
 v_ast)) in
 (match hm_get (dm_model self) v_sec with
 | Some v_new_model => (let v_new_model := (lhm_insert v_new_model v_key v_ast) in
 (let self := (set_dm_model self (hm_insert (dm_model self) v_sec v_new_model)) in
 (LReturn (self, true))))
 | None => (let v_new_ast_map := lhm_new in
 (let v_new_ast_map := (lhm_insert v_new_ast_map v_key v_ast) in
 (let self := (set_dm_model self (hm_insert (dm_model self) v_sec v_new_ast_map)) in
 (LReturn (self, true))))) end)))).

Definition gen_load_assertion (self : dmodel_state) (v_cfg : config_state) (v_sec : text) (v_key : text) : option (dmodel_state * (rs_result bool ini_error)) :=
 rs_fn (R := dmodel_state * (rs_result bool ini_error)) (if (rs_eq v_sec (T "r"))
 then (let v_sec_name := (T "request_definition") in
 (match (gen_get_str v_cfg (v_sec_name ++ (T "::") ++ v_key)) with Some o17 => (match o17 with
 | Some v_val => (match (gen_add_def self v_sec v_key v_val) with
 | Some (s18, r19) => (let self := s18 in
 (LReturn (self, (ROk r19))))
 | None => LPanic end)
 | None => (LReturn (self, (ROk false))) end) | None => LPanic end))
 else (if (rs_eq v_sec (T "p"))
 then (let v_sec_name := (T "policy_definition") in
 (match (gen_get_str v_cfg (v_sec_name ++ (T "::") ++ v_key)) with Some o13 => (match o13 with
 | Some v_val => (match (gen_add_def self v_sec v_key v_val) with
 | Some (s14, r15) => (let self := s14 in
 (LReturn (self, (ROk r15))))
 | None => LPanic end)
 | None => (LReturn (self, (ROk false))) end) | None => LPanic end))
 else (if (rs_eq v_sec (T "g"))
 then (let v_sec_name := (T "role_definition") in
 (match (gen_get_str v_cfg (v_sec_name ++ (T "::") ++ v_key)) with Some o9 => (match o9 with
 | Some v_val => (match (gen_add_def self v_sec v_key v_val) with
 | Some (s10, r11) => (let self := s10 in
 (LReturn (self, (ROk r11))))
 | None => LPanic end)
 | None => (LReturn (self, (ROk false))) end) | None => LPanic end))
 else (if (rs_eq v_sec (T "e"))
 then (let v_sec_name := (T "policy_effect") in
 (match (gen_get_str v_cfg (v_sec_name ++ (T "::") ++ v_key)) with Some o5 => (match o5 with
 | Some v_val => (match (gen_add_def self v_sec v_key v_val) with
 | Some (s6, r7) => (let self := s6 in
 (LReturn (self, (ROk r7))))
 | None => LPanic end)
 | None => (LReturn (self, (ROk false))) end) | None => LPanic end))
 else (if (rs_eq v_sec (T "m"))
 then (let v_sec_name := (T "matchers") in
 (match (gen_get_str v_cfg (v_sec_name ++ (T "::") ++ v_key)) with Some o1 => (match o1 with
 | Some v_val => (match (gen_add_def self v_sec v_key v_val) with
 | Some (s2, r3) => (let self := s2 in
 (LReturn (self, (ROk r3))))
 | None => LPanic end)
 | None => (LReturn (self, (ROk false))) end) | None => LPanic end))
 else (LReturn (self, (RErr (IniModelOther ((T "Unknown section: `") ++ v_sec ++ (T "`"))))))))))).

Definition gen_load_section (fuel : nat) (self : dmodel_state) (v_cfg : config_state) (v_sec : text) : option (dmodel_state * (rs_result unit ini_error)) :=
 rs_fn (R := dmodel_state * (rs_result unit ini_error)) (let v_i := 1 in
 (match rs_loop fuel (fun '(self, v_i) =>
 (match (gen_load_assertion self v_cfg v_sec (v_sec ++ (gen_get_key_suffix self v_i))) with
 | Some (s1, r2) => (let self := s1 in
 (match r2 with
 | ROk v3 => (if (negb v3)
 then (LReturn (self, (ROk tt)))
 else (let v_i := (v_i + 1) in
 (LNext (self, v_i))))
 | RErr e4 => (LReturn (self, (RErr e4))) end))
 | None => LPanic end))
 (self, v_i) with
 | Done _ => LPanic
 | Returned ret_ => LReturn ret_
 | Panicked => LPanic end)).

Definition gen_model_from_str (fuel : nat) (v_s : text) : option ((rs_result dmodel_state ini_error)) :=
 rs_fn (R := (rs_result dmodel_state ini_error)) (match (gen_from_str fuel v_s) with
 | Some r1 => (match r1 with
 | ROk v2 => (let v_cfg := v2 in
 (let v_model := {| dm_model := hm_new |} in
 (match (gen_load_section fuel v_model v_cfg (T "r")) with
 | Some (s4, r5) => (let v_model := s4 in
 (match r5 with
 | ROk v6 => (match (gen_load_section fuel v_model v_cfg (T "p")) with
 | Some (s8, r9) => (let v_model := s8 in
 (match r9 with
 | ROk v10 => (match (gen_load_section fuel v_model v_cfg (T "e")) with
 | Some (s12, r13) => (let v_model := s12 in
 (match r13 with
 | ROk v14 => (match (gen_load_section fuel v_model v_cfg (T "m")) with
 | Some (s16, r17) => (let v_model := s16 in
 (match r17 with
 | ROk v18 => (match (gen_load_section fuel v_model v_cfg (T "g")) with
 | Some (s20, r21) => (let v_model := s20 in
 (match r21 with
 | ROk v22 => (LReturn (ROk v_model))
 | RErr e23 => (LReturn (RErr e23)) end))
 | None => LPanic end)
 | RErr e19 => (LReturn (RErr e19)) end))
 | None => LPanic end)
 | RErr e15 => (LReturn (RErr e15)) end))
 | None => LPanic end)
 | RErr e11 => (LReturn (RErr e11)) end))
 | None => LPanic end)
 | RErr e7 => (LReturn (RErr e7)) end))
 | None => LPanic end)))
 | RErr e3 => (LReturn (RErr e3)) end)
 | None => LPanic end).

Definition gen_to_text (ord : list (text * text) -> list (text * text)) (self : dmodel_state) : option text :=
 rs_fn (R := text) (let v_token_patterns := hm_new in
 (let v_token_pattern := tt in
 (match rs_for (fun v_sec v_token_patterns =>
 (match (hm_get (dm_model self) v_sec) with
 | Some v_assertions => (match rs_for (fun v_assertion v_token_patterns =>
 (match rs_for (fun v_token v_token_patterns =>
 (let v_new_token := (rs_regex_token_dot v_token_pattern v_token) in
 (let v_token_patterns := (hm_insert v_token_patterns v_token v_new_token) in
 (LNext v_token_patterns))))
 (ga_tokens v_assertion) v_token_patterns with
 | Done v_token_patterns => (LNext v_token_patterns)
 | Returned ret_ => LReturn ret_
 | Panicked => LPanic end))
 (lhm_values v_assertions) v_token_patterns with
 | Done v_token_patterns => (LNext v_token_patterns)
 | Returned ret_ => LReturn ret_
 | Panicked => LPanic end)
 | None => (LNext v_token_patterns) end))
 [(T "r"); (T "p")] v_token_patterns with
 | Done v_token_patterns => (rs_join (fun (v_token_patterns : (hashmap text)) =>
 (let v_s := (T "") in
 (let v_s := (rs_push_str v_s (T "[request_definition]
")) in
 (rs_join (fun (v_s : text) =>
 (let v_s := (rs_push_str v_s (T "[policy_definition]
")) in
 (rs_join (fun (v_s : text) =>
 (rs_join (fun (v_s : text) =>
 (let v_s := (rs_push_str v_s (T "[policy_effect]
")) in
 (rs_join (fun (v_s : text) =>
 (let v_s := (rs_push_str v_s (T "[matchers]
")) in
 (let v_sec := (T "m") in
 (match (hm_get (dm_model self) v_sec) with
 | Some v_assertions => (match rs_for (fun '(v_ptype, v_assertion) v_s =>
 (let v_value := (ga_value v_assertion) in
 (match rs_for (fun '(v_token_pattern'9, v_new_token) v_value =>
 (let v_value := (rs_str_replace v_value v_token_pattern'9 v_new_token) in
 (LNext v_value)))
 (hm_iter ord v_token_patterns) v_value with
 | Done v_value => (let v_s := (rs_push_str v_s (v_ptype ++ (T " = ") ++ v_value ++ (T "
"))) in
 (LNext v_s))
 | Returned ret_ => LReturn ret_
 | Panicked => LPanic end)))
 (lhm_iter v_assertions) v_s with
 | Done v_s => (LReturn v_s)
 | Returned ret_ => LReturn ret_
 | Panicked => LPanic end)
 | None => (LReturn v_s) end))))
 (fun k8 =>
 (let v_sec := (T "e") in
 (match (hm_get (dm_model self) v_sec) with
 | Some v_assertions => (match rs_for (fun '(v_ptype, v_assertion) v_s =>
 (let v_value := (ga_value v_assertion) in
 (match rs_for (fun '(v_token_pattern'7, v_new_token) v_value =>
 (let v_value := (rs_str_replace v_value v_token_pattern'7 v_new_token) in
 (LNext v_value)))
 (hm_iter ord v_token_patterns) v_value with
 | Done v_value => (let v_s := (rs_push_str v_s (v_ptype ++ (T " = ") ++ v_value ++ (T "
"))) in
 (LNext v_s))
 | Returned ret_ => LReturn ret_
 | Panicked => LPanic end)))
 (lhm_iter v_assertions) v_s with
 | Done v_s => (k8 v_s)
 | Returned ret_ => LReturn ret_
 | Panicked => LPanic end)
 | None => (k8 v_s) end))))))
 (fun k6 =>
 (if (hm_contains_key (dm_model self) (T "g"))
 then (let v_s := (rs_push_str v_s (T "[role_definition]
")) in
 (match (hm_get (dm_model self) (T "g")) with
 | Some v_assertions => (match rs_for (fun '(v_ptype, v_assertion) v_s =>
 (let v_s := (rs_push_str v_s (v_ptype ++ (T " = ") ++ (ga_value v_assertion) ++ (T "
"))) in
 (LNext v_s)))
 (lhm_iter v_assertions) v_s with
 | Done v_s => (k6 v_s)
 | Returned ret_ => LReturn ret_
 | Panicked => LPanic end)
 | None => (k6 v_s) end))
 else (k6 v_s)))))
 (fun k5 =>
 (let v_sec := (T "p") in
 (match (hm_get (dm_model self) v_sec) with
 | Some v_assertions => (match rs_for (fun '(v_ptype, v_assertion) v_s =>
 (let v_value := (ga_value v_assertion) in
 (match rs_for (fun '(v_token_pattern'4, v_new_token) v_value =>
 (let v_value := (rs_str_replace v_value v_token_pattern'4 v_new_token) in
 (LNext v_value)))
 (hm_iter ord v_token_patterns) v_value with
 | Done v_value => (let v_s := (rs_push_str v_s (v_ptype ++ (T " = ") ++ v_value ++ (T "
"))) in
 (LNext v_s))
 | Returned ret_ => LReturn ret_
 | Panicked => LPanic end)))
 (lhm_iter v_assertions) v_s with
 | Done v_s => (k5 v_s)
 | Returned ret_ => LReturn ret_
 | Panicked => LPanic end)
 | None => (k5 v_s) end))))))
 (fun k3 =>
 (let v_sec := (T "r") in
 (match (hm_get (dm_model self) v_sec) with
 | Some v_assertions => (match rs_for (fun '(v_ptype, v_assertion) v_s =>
 (let v_value := (ga_value v_assertion) in
 (match rs_for (fun '(v_token_pattern'2, v_new_token) v_value =>
 (let v_value := (rs_str_replace v_value v_token_pattern'2 v_new_token) in
 (LNext v_value)))
 (hm_iter ord v_token_patterns) v_value with
 | Done v_value => (let v_s := (rs_push_str v_s (v_ptype ++ (T " = ") ++ v_value ++ (T "
"))) in
 (LNext v_s))
 | Returned ret_ => LReturn ret_
 | Panicked => LPanic end)))
 (lhm_iter v_assertions) v_s with
 | Done v_s => (k3 v_s)
 | Returned ret_ => LReturn ret_
 | Panicked => LPanic end)
 | None => (k3 v_s) end)))))))
 (fun k1 =>
 (match (hm_get (dm_model self) (T "e")) with
 | Some v_assertions => (match (lhm_get v_assertions (T "e")) with
 | Some v_assertion => (let v_token_patterns := (if (rs_contains_str (ga_value v_assertion) (T "p_eft")) then (let v_token_patterns := (hm_insert v_token_patterns (T "p_eft") (T "p.eft")) in
 v_token_patterns) else v_token_patterns) in
 (k1 v_token_patterns))
 | None => (k1 v_token_patterns) end)
 | None => (k1 v_token_patterns) end)))
 | Returned ret_ => LReturn ret_
 | Panicked => LPanic end))).

Definition gen_ini_translated : bool := true.
