(* HAND-WRITTEN, TRUSTED runtime for the generated file Gen/FsaveGen.v
   (tools/rs2coq_fsave.py, part 17: the WRITE side and the file reading of
   src/adapter/file_adapter.rs, the save / clear / incremental stubs of
   src/adapter/string_adapter.rs).  Definitions only.

   Every definition restates what one std / tokio operation does, under the
   cfg the crate is built with (feature runtime-tokio, not wasm32), and names
   it.  Nothing here is defined through the adapter model (Engine.v: ad0_save,
   text_lines; Csv.v: render_line_*, join, split_lines, parsed_lines;
   FileSave.v: save_new, run_cut), so that the equations of
   PinChecks/PcFsaveGen.v have content.  What IS shared with Model/FileSave.v
   is the file system itself - `fsys`, the four calls `fop` and their effect
   `apply_fop` - because the C10 crash theorems are statements about exactly
   that file system.

   The file system and its faults.  A `world` is
     w_fs      path -> bytes (Model/FileSave.v)
     w_ops     the file-system calls issued so far, oldest first (a log)
     w_script  what happens to the next calls: one entry is consumed by every
               call that can fail (create, write_all, flush, rename,
               remove_file, open, next_line); an exhausted script means FOk
                 FOk       the call completes
                 FErr k    the call reports an error; a write_all has written
                           the first k of its bytes (k >= length: all of
                           them), every other call has done nothing
                 FCrash k  the process is killed during the call: same effect
                           on the file system as FErr k, and NOTHING the code
                           does afterwards happens (w_dead)
     w_dead    the process was killed: every later call leaves the world
               untouched (its reported result is of no consequence: there is
               nobody left to look at it)
   This is the fault model of Model/FileSave.v (`run_cut`: the first n calls
   complete, an interrupted Append writes a prefix, nothing after it runs),
   with the error return added.  Besides the scripted faults a call fails when
   the file system says so: open / write_all / rename / remove_file of a path
   that does not exist (`apply_fop` leaves the file system unchanged there).
   Trusted, as in FileSave.v: create / rename / remove are atomic, rename
   replaces its target; nothing about durability.

   A `File` handle is the path it was opened on (no other process renames or
   removes files meanwhile: the statements are about one process). *)
From CV Require Import Model.Base Model.Csv Model.FileSave Gen.RustStr Gen.RustVec.

(* ------------------------------------------------------------------ errors *)
(* std::io::Error: reported by the operating system (a scripted fault, a
   missing file) or built by io::Error::new(kind, msg) *)
Inductive io_error := IoOs | IoNew (kind msg : text).
(* std::fmt::Error *)
Inductive fmt_error := FmtError.
(* Box<dyn std::error::Error + Send + Sync>, as far as the adapters build one:
   from a fmt::Error (`e.into()`), from a String (`s.into()`), or
   Box::new(AdapterError(inner)) *)
Inductive box_error := BoxFmt (e : fmt_error) | BoxStr (msg : text) | BoxAdapter (inner : box_error).
(* error.rs: pub struct AdapterError(pub Box<dyn StdError + Send + Sync>) *)
Inductive adapter_error := AdapterErr (b : box_error).
(* error.rs: ModelError::P(String) (the only variant the adapters build) *)
Inductive model_error := ModelErrP (msg : text).
(* error.rs: enum Error, the variants the adapters can return; each has #[from] *)
Inductive casbin_error := ErrIo (e : io_error) | ErrModel (e : model_error) | ErrAdapter (e : adapter_error).

(* Result<A, E> *)
Inductive res (E A : Type) : Type := ROk (a : A) | RErr (e : E).
Arguments ROk {E A} a.
Arguments RErr {E A} e.

(* Box::new(AdapterError(b)) as a Box<dyn Error> *)
Definition rs_box_new_adapter (e : adapter_error) : box_error :=
  match e with AdapterErr b => BoxAdapter b end.
(* Option::ok_or_else(f) *)
Definition rs_ok_or_else {A E} (o : option A) (f : unit -> E) : res E A :=
  match o with Some a => ROk a | None => RErr (f tt) end.
(* Result::map_err(f) *)
Definition rs_map_err {A E F} (r : res E A) (f : E -> F) : res F A :=
  match r with ROk a => ROk a | RErr e => RErr (f e) end.

(* ------------------------------------------------------------------ strings *)
(* format_args!("p0{}p1{}p2", a0, a1): the literal pieces with the arguments
   (Display of a string: the string) between them *)
Fixpoint rs_fmt (pieces args : list text) : text :=
  match pieces with
  | [] => []
  | p :: ps => p ++ match args with
                    | a :: args' => a ++ rs_fmt ps args'
                    | [] => rs_fmt ps []
                    end
  end.
(* writeln!(buf, ..) on a String: fmt::Write for String is push_str - the
   formatted text and a line feed are appended, the result is always Ok(()) *)
Definition rs_writeln (buf line : text) : text * res fmt_error unit :=
  (buf ++ line ++ [ascii_of_nat 10], ROk tt).
(* [String]::join(sep): the elements with sep between consecutive ones *)
Fixpoint rs_join (v : list text) (sep : text) : text :=
  match v with
  | [] => []
  | x :: r => x ++ match r with [] => [] | _ :: _ => sep ++ rs_join r sep end
  end.
(* OsString::push(s) (on the OsString made by path.as_ref().as_os_str().to_owned());
   AsRef<Path>::as_ref, Path::as_os_str, to_owned, str::as_bytes are the identity on `text` *)
Definition rs_os_push (p s : text) : text := p ++ s.

(* ------------------------------------------------------------- file system *)
Inductive fault := FOk | FErr (k : nat) | FCrash (k : nat).
Record world := { w_fs : fsys; w_ops : list fop; w_script : list fault; w_dead : bool }.

(* does the file system accept the call (otherwise: ENOENT, nothing changes) *)
Definition fop_accepted (fs : fsys) (o : fop) : bool :=
  match o with
  | Create _ => true
  | Append p _ | Rename p _ | Remove p => match content fs p with Some _ => true | None => false end
  end.
(* the effect of a call that fails part-way: only a write leaves something behind *)
Definition apply_cut (fs : fsys) (o : fop) (k : nat) : fsys :=
  match o with
  | Append p bs => apply_fop fs (Append p (firstn k bs))
  | _ => fs
  end.

(* one file-system call: (the world after it, whether it reported success) *)
Definition fs_call (w : world) (o : fop) : world * bool :=
  if w_dead w then (w, false) else
  let done sc := ({| w_fs := apply_fop (w_fs w) o; w_ops := w_ops w ++ [o]; w_script := sc; w_dead := false |},
                  fop_accepted (w_fs w) o) in
  match w_script w with
  | [] => done []
  | FOk :: sc => done sc
  | FErr k :: sc =>
      ({| w_fs := apply_cut (w_fs w) o k; w_ops := w_ops w ++ [o]; w_script := sc; w_dead := false |}, false)
  | FCrash k :: sc =>
      ({| w_fs := apply_cut (w_fs w) o k; w_ops := w_ops w ++ [o]; w_script := sc; w_dead := true |}, false)
  end.
(* a call that can fail but changes no file (flush, open, next_line) *)
Definition fs_tick (w : world) : world * bool :=
  if w_dead w then (w, false) else
  let next sc dead := {| w_fs := w_fs w; w_ops := w_ops w; w_script := sc; w_dead := dead |} in
  match w_script w with
  | [] => (next [] false, true)
  | FOk :: sc => (next sc false, true)
  | FErr _ :: sc => (next sc false, false)
  | FCrash _ :: sc => (next sc true, false)
  end.

Definition io_result {A} (ok : bool) (a : A) : res io_error A := if ok then ROk a else RErr IoOs.

(* tokio::fs::File::create(path).await: "This function will create a file if it
   does not exist, and will truncate it if it does."  The handle is the path. *)
Definition fs_create (w : world) (p : text) : world * res io_error text :=
  let (w', ok) := fs_call w (Create p) in (w', io_result ok p).
(* AsyncWriteExt::write_all(&mut file, bytes).await *)
Definition fs_write_all (w : world) (file : text) (bytes : text) : world * res io_error unit :=
  let (w', ok) := fs_call w (Append file bytes) in (w', io_result ok tt).
(* AsyncWriteExt::flush(&mut file).await: waits for the write issued before; no
   byte is added or taken away.  (tokio hands a write to a blocking thread and
   may report ITS failure here: that execution - k bytes written, an Err, the
   next statement not reached - is the one where write_all itself is given
   FErr k, provided both calls are followed by `?` to the same place, which is
   what the generated code shows.) *)
Definition fs_flush (w : world) (file : text) : world * res io_error unit :=
  let (w', ok) := fs_tick w in (w', io_result ok tt).
(* tokio::fs::rename(from, to).await: atomic, replaces `to` *)
Definition fs_rename (w : world) (from to : text) : world * res io_error unit :=
  let (w', ok) := fs_call w (Rename from to) in (w', io_result ok tt).
(* tokio::fs::remove_file(path).await *)
Definition fs_remove_file (w : world) (p : text) : world * res io_error unit :=
  let (w', ok) := fs_call w (Remove p) in (w', io_result ok tt).
(* tokio::fs::File::open(path).await: fails when there is no such file *)
Definition fs_open (w : world) (p : text) : world * res io_error text :=
  let (w', ok) := fs_tick w in
  (w', io_result (ok && match content (w_fs w) p with Some _ => true | None => false end) p).

(* AsyncBufReadExt::lines / Lines::next_line: a line ends at a line feed, which
   is dropped together with a carriage return just before it; the bytes after
   the last line feed are a last line when there are any *)
Definition rs_strip_cr (s : text) : text :=
  match rev s with
  | c :: r => if Nat.eqb (nat_of_ascii c) 13 then rev r else s
  | [] => s
  end.
Fixpoint rs_lines_from (cur s : text) : list text :=
  match s with
  | [] => match cur with [] => [] | _ :: _ => [cur] end
  | c :: r => if Nat.eqb (nat_of_ascii c) 10 then rs_strip_cr cur :: rs_lines_from [] r
              else rs_lines_from (cur ++ [c]) r
  end.
Definition rs_buf_lines (s : text) : list text := rs_lines_from [] s.
(* tokio::fs::read_to_string(path): open + read *)
Definition fs_read_to_string (w : world) (p : text) : world * res io_error text :=
  let (w', r) := fs_open w p in
  (w', match r with ROk _ => ROk (match content (w_fs w) p with Some c => c | None => [] end) | RErr e => RErr e end).
(* BufReader::new(file).lines(): the iterator is the list of the lines still to
   come; the file is read as it stands (one process) *)
Definition fs_lines (w : world) (file : text) : list text :=
  rs_buf_lines (match content (w_fs w) file with Some c => c | None => [] end).
(* lines.next_line().await: Ok(Some(line)) and the iterator advances, Ok(None)
   at the end, or an error (I/O, invalid UTF-8): one scripted call each *)
Definition fs_next_line (w : world) (lines : list text) : world * list text * res io_error (option text) :=
  let (w', ok) := fs_tick w in
  if ok then match lines with
             | [] => (w', [], ROk None)
             | l :: r => (w', r, ROk (Some l))
             end
  else (w', lines, RErr IoOs).

(* ------------------------------------------------------------------- loops *)
(* while let Some(x) = COND { BODY }: `cond s` evaluates the scrutinee in the
   state s of the loop-carried variables - LNext (s', Some x): enter the body,
   LNext (s', None): leave the loop, LReturn r: a `?` in the scrutinee returned
   from the function.  `fuel` bounds the number of iterations; the translator
   only accepts a scrutinee that advances an iterator of known length (a Lines
   over a list of lines: at most one iteration a line, then None) and passes
   that length + 1.  Running out of fuel is reported as a panic, so that no
   `= Some ..` statement can be proved about such a run. *)
Fixpoint rs_while_some {A S R} (fuel : nat) (cond : S -> flow (S * option A) R)
    (body : A -> S -> flow S R) (s : S) : loop_result S R :=
  match fuel with
  | 0 => Panicked
  | Datatypes.S f =>
    match cond s with
    | LNext (s1, Some x) =>
        match body x s1 with
        | LNext s2 => rs_while_some f cond body s2
        | LBreak s2 => Done s2
        | LReturn r => Returned r
        | LPanic => Panicked
        end
    | LNext (s1, None) => Done s1
    | LBreak _ => Panicked
    | LReturn r => Returned r
    | LPanic => Panicked
    end
  end.

(* the world a test starts from *)
Definition mk_world (fs : fsys) (script : list fault) : world :=
  {| w_fs := fs; w_ops := []; w_script := script; w_dead := false |}.
