(* GENERATED on every run by tools/rs2coq_api.py from /repo/src/management_api.rs and
   /repo/src/rbac_api.rs (the mutating helpers) - do not edit.  Vocabulary: Gen/ApiRt.v;
   obligations: PinChecks/PcApiGen.v. *)
From CV Require Import Model.Base Model.Enforce Model.Engine Gen.ApiRt.

(* src/management_api.rs: impl MgmtApi for T :: add_named_policy *)
Definition gen_add_named_policy (s : estate) (v_ptype : text) (v_params : rule) : estate * outcome bool :=
 (step_add s (T "p") v_ptype v_params).

(* src/management_api.rs: impl MgmtApi for T :: add_named_policies *)
Definition gen_add_named_policies (s : estate) (v_ptype : text) (v_paramss : (list rule)) : estate * outcome bool :=
 (step_add_many s (T "p") v_ptype v_paramss).

(* src/management_api.rs: impl MgmtApi for T :: remove_named_policy *)
Definition gen_remove_named_policy (s : estate) (v_ptype : text) (v_params : rule) : estate * outcome bool :=
 (step_remove s (T "p") v_ptype v_params).

(* src/management_api.rs: impl MgmtApi for T :: remove_named_policies *)
Definition gen_remove_named_policies (s : estate) (v_ptype : text) (v_paramss : (list rule)) : estate * outcome bool :=
 (step_remove_many s (T "p") v_ptype v_paramss).

(* src/management_api.rs: impl MgmtApi for T :: add_named_grouping_policy *)
Definition gen_add_named_grouping_policy (s : estate) (v_ptype : text) (v_params : rule) : estate * outcome bool :=
 (bind (step_add s (T "g") v_ptype v_params) (fun s t1 =>
 (let v_rule_added := t1 in
 (s, Ok v_rule_added)))).

(* src/management_api.rs: impl MgmtApi for T :: add_named_grouping_policies *)
Definition gen_add_named_grouping_policies (s : estate) (v_ptype : text) (v_paramss : (list rule)) : estate * outcome bool :=
 (bind (step_add_many s (T "g") v_ptype v_paramss) (fun s t1 =>
 (let v_all_added := t1 in
 (s, Ok v_all_added)))).

(* src/management_api.rs: impl MgmtApi for T :: remove_named_grouping_policy *)
Definition gen_remove_named_grouping_policy (s : estate) (v_ptype : text) (v_params : rule) : estate * outcome bool :=
 (bind (step_remove s (T "g") v_ptype v_params) (fun s t1 =>
 (let v_rule_removed := t1 in
 (s, Ok v_rule_removed)))).

(* src/management_api.rs: impl MgmtApi for T :: remove_named_grouping_policies *)
Definition gen_remove_named_grouping_policies (s : estate) (v_ptype : text) (v_paramss : (list rule)) : estate * outcome bool :=
 (bind (step_remove_many s (T "g") v_ptype v_paramss) (fun s t1 =>
 (let v_all_removed := t1 in
 (s, Ok v_all_removed)))).

(* src/management_api.rs: impl MgmtApi for T :: remove_filtered_named_policy *)
Definition gen_remove_filtered_named_policy (s : estate) (v_ptype : text) (v_field_index : nat) (v_field_values : rule) : estate * outcome bool :=
 (bind (int_remove_filtered s (T "p") v_ptype v_field_index v_field_values) (fun s t1 =>
 (s, Ok (fst t1)))).

(* src/management_api.rs: impl MgmtApi for T :: remove_filtered_named_grouping_policy *)
Definition gen_remove_filtered_named_grouping_policy (s : estate) (v_ptype : text) (v_field_index : nat) (v_field_values : rule) : estate * outcome bool :=
 (bind (int_remove_filtered s (T "g") v_ptype v_field_index v_field_values) (fun s t1 =>
 (let v_rule_removed := fst t1 in let v_rules := snd t1 in
 (s, Ok v_rule_removed)))).

(* src/management_api.rs: trait MgmtApi (default method) :: add_policy *)
Definition gen_add_policy (s : estate) (v_params : rule) : estate * outcome bool :=
 (gen_add_named_policy s (T "p") v_params).

(* src/management_api.rs: trait MgmtApi (default method) :: add_policies *)
Definition gen_add_policies (s : estate) (v_paramss : (list rule)) : estate * outcome bool :=
 (gen_add_named_policies s (T "p") v_paramss).

(* src/management_api.rs: trait MgmtApi (default method) :: remove_policy *)
Definition gen_remove_policy (s : estate) (v_params : rule) : estate * outcome bool :=
 (gen_remove_named_policy s (T "p") v_params).

(* src/management_api.rs: trait MgmtApi (default method) :: remove_policies *)
Definition gen_remove_policies (s : estate) (v_paramss : (list rule)) : estate * outcome bool :=
 (gen_remove_named_policies s (T "p") v_paramss).

(* src/management_api.rs: trait MgmtApi (default method) :: add_grouping_policy *)
Definition gen_add_grouping_policy (s : estate) (v_params : rule) : estate * outcome bool :=
 (gen_add_named_grouping_policy s (T "g") v_params).

(* src/management_api.rs: trait MgmtApi (default method) :: add_grouping_policies *)
Definition gen_add_grouping_policies (s : estate) (v_paramss : (list rule)) : estate * outcome bool :=
 (gen_add_named_grouping_policies s (T "g") v_paramss).

(* src/management_api.rs: trait MgmtApi (default method) :: remove_grouping_policy *)
Definition gen_remove_grouping_policy (s : estate) (v_params : rule) : estate * outcome bool :=
 (gen_remove_named_grouping_policy s (T "g") v_params).

(* src/management_api.rs: trait MgmtApi (default method) :: remove_grouping_policies *)
Definition gen_remove_grouping_policies (s : estate) (v_paramss : (list rule)) : estate * outcome bool :=
 (gen_remove_named_grouping_policies s (T "g") v_paramss).

(* src/management_api.rs: trait MgmtApi (default method) :: remove_filtered_policy *)
Definition gen_remove_filtered_policy (s : estate) (v_field_index : nat) (v_field_values : rule) : estate * outcome bool :=
 (gen_remove_filtered_named_policy s (T "p") v_field_index v_field_values).

(* src/management_api.rs: trait MgmtApi (default method) :: remove_filtered_grouping_policy *)
Definition gen_remove_filtered_grouping_policy (s : estate) (v_field_index : nat) (v_field_values : rule) : estate * outcome bool :=
 (gen_remove_filtered_named_grouping_policy s (T "g") v_field_index v_field_values).

(* src/rbac_api.rs: impl RbacApi for T :: add_permission_for_user *)
Definition gen_add_permission_for_user (s : estate) (v_user : text) (v_permission : rule) : estate * outcome bool :=
 (let v_perm := v_permission in
 (let v_perm_1 := (v_user :: v_perm) in
 (gen_add_policy s v_perm_1))).

(* src/rbac_api.rs: impl RbacApi for T :: add_permissions_for_user *)
Definition gen_add_permissions_for_user (s : estate) (v_user : text) (v_permissions : (list rule)) : estate * outcome bool :=
 (let v_perms := (map (fun v_p => (let v_p_1 := (v_user :: v_p) in
 v_p_1)) v_permissions) in
 (gen_add_policies s v_perms)).

(* src/rbac_api.rs: impl RbacApi for T :: add_role_for_user *)
Definition gen_add_role_for_user (s : estate) (v_user : text) (v_role : text) (v_domain : (option text)) : estate * outcome bool :=
 (gen_add_grouping_policy s (match v_domain with Some v_domain_1 => (map (fun v_s => v_s) [v_user; v_role; v_domain_1]) | None => (map (fun v_s_2 => v_s_2) [v_user; v_role]) end)).

(* src/rbac_api.rs: impl RbacApi for T :: add_roles_for_user *)
Definition gen_add_roles_for_user (s : estate) (v_user : text) (v_roles : rule) (v_domain : (option text)) : estate * outcome bool :=
 (gen_add_grouping_policies s (map (fun v_role => (match v_domain with Some v_domain_1 => [v_user; v_role; v_domain_1] | None => [v_user; v_role] end)) v_roles)).

(* src/rbac_api.rs: impl RbacApi for T :: delete_role_for_user *)
Definition gen_delete_role_for_user (s : estate) (v_user : text) (v_role : text) (v_domain : (option text)) : estate * outcome bool :=
 (gen_remove_grouping_policy s (match v_domain with Some v_domain_1 => (map (fun v_s => v_s) [v_user; v_role; v_domain_1]) | None => (map (fun v_s_2 => v_s_2) [v_user; v_role]) end)).

(* src/rbac_api.rs: impl RbacApi for T :: delete_roles_for_user *)
Definition gen_delete_roles_for_user (s : estate) (v_user : text) (v_domain : (option text)) : estate * outcome bool :=
 (gen_remove_filtered_grouping_policy s 0 (match v_domain with Some v_domain_1 => (map (fun v_s => v_s) [v_user; (T ""); v_domain_1]) | None => (map (fun v_s_2 => v_s_2) [v_user]) end)).

(* src/rbac_api.rs: impl RbacApi for T :: delete_user *)
Definition gen_delete_user (s : estate) (v_name : text) : estate * outcome bool :=
 (bind (gen_remove_filtered_grouping_policy s 0 [v_name]) (fun s t1 =>
 (let v_res1 := t1 in
 (bind (gen_remove_filtered_policy s 0 [v_name]) (fun s t2 =>
 (let v_res2 := t2 in
 (s, Ok (v_res1 || v_res2)))))))).

(* src/rbac_api.rs: impl RbacApi for T :: delete_role *)
Definition gen_delete_role (s : estate) (v_name : text) : estate * outcome bool :=
 (bind (gen_remove_filtered_grouping_policy s 1 [v_name]) (fun s t1 =>
 (let v_res1 := t1 in
 (bind (gen_remove_filtered_policy s 0 [v_name]) (fun s t2 =>
 (let v_res2 := t2 in
 (s, Ok (v_res1 || v_res2)))))))).

(* src/rbac_api.rs: trait RbacApi (default method) :: delete_permission *)
Definition gen_delete_permission (s : estate) (v_permission : rule) : estate * outcome bool :=
 (gen_remove_filtered_policy s 1 v_permission).

(* src/rbac_api.rs: impl RbacApi for T :: delete_permission_for_user *)
Definition gen_delete_permission_for_user (s : estate) (v_user : text) (v_permission : rule) : estate * outcome bool :=
 (let v_permission_1 := v_permission in
 (let v_permission_2 := (v_user :: v_permission_1) in
 (gen_remove_policy s v_permission_2))).

(* src/rbac_api.rs: trait RbacApi (default method) :: delete_permissions_for_user *)
Definition gen_delete_permissions_for_user (s : estate) (v_user : text) : estate * outcome bool :=
 (gen_remove_filtered_policy s 0 (map (fun v_s => v_s) [v_user])).

Definition gen_api_translated : bool := true.
