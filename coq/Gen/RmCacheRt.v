(* HAND-WRITTEN (TRUSTED) restatement of std::collections::hash_map::DefaultHasher
   and of `impl Hash for str`, as far as `DefaultRoleManager::has_link` (feature
   `cached`, src/rbac/default_role_manager.rs) uses them to build its cache key;
   the vocabulary of gen_c_has_link in Gen/RmCacheGen.v (tools/rs2coq_rmcache.py,
   part 23).  Definitions only.

   What is restated.
     DefaultHasher::new()   a hasher with FIXED keys (SipHash-1-3, k0 = k1 = 0): two
                            hashers created by `new()` and fed the same bytes finish
                            with the same u64 - in one process and across processes.
     <str>.hash(&mut h)     `impl Hash for str`: writes the bytes of the string, then
                            the byte 0xff.  No UTF-8 string contains 0xff, so the byte
                            stream written by a SEQUENCE of `str::hash` calls
                            determines the sequence of strings (it is prefix-free):
                            "ab","c" and "a","bc" write different streams.
     h.finish()             the digest of everything written so far; `h` is not
                            consumed.
   Hence: the state of a hasher is the LIST of the strings fed so far, in order
   (`hasher`), and `finish` is ONE function `hfin` of that list - the composition of
   the (injective) encoding above and SipHash.  `hfin` is a parameter of the
   translated functions.  Nothing is assumed about it here; the theorems of
   PinChecks/PcRmCacheGen.v state the one hypothesis they need (no collision among
   the keys in play: `hfin_inj_on`).  A u64 is a `nat` (only equality is used).

   What this makes visible: a key built from ONE string that is the concatenation
   of the three components is `hfin [a ++ b ++ d]`, not `hfin [a; b; d]`: equal
   lists for ("ab","c",d) and ("a","bc",d) - a collision that no assumption about
   the digest can exclude. *)
From CV Require Import Model.Base.

Definition hasher : Type := list text.
Definition rs_hasher_new : hasher := [].
Definition rs_hash_str (h : hasher) (s : text) : hasher := h ++ [s].
Definition rs_hasher_finish (hfin : hasher -> nat) (h : hasher) : nat := hfin h.

(* [a, b, c].concat() on a slice of strings *)
Definition rs_concat (l : list text) : text := List.concat l.
