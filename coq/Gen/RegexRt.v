(* Gallina counterparts of the std string operations used (besides those of
   Gen/RustStr.v, Gen/RustVec.v, Gen/RustIter.v) by the regex-based functions of
   src/util.rs that tools/rs2coq_regex.py translates (part 14: Gen/RegexGen.v).
   Hand-written, definitions only, TRUSTED; facts about them are in
   Proofs/RegexP.v.  The regex crate itself is restated in Gen/Regex.v.

   Conventions as in Gen/RustStr.v: `&str` / `String` / `Cow<str>` is `text` (the
   UTF-8 bytes), `usize` is `nat`; `.as_ref()` (of `S: AsRef<str>`), `.to_owned()`,
   `.to_string()`, `.into()`, `&` are the identity.  SCOPE: ASCII text (every byte
   is a char boundary; `str::trim` is Unicode-aware and also removes U+0085,
   U+00A0, U+1680, U+2000-200A, U+2028, U+2029, U+202F, U+205F, U+3000: text that
   starts or ends with NON-ASCII white space is outside the byte-level model,
   as stated in Model/Csv.v). *)
From CV Require Import Model.Base Model.Csv Gen.RustStr Gen.Regex.

(* s.trim_start(): drops the leading white space (ASCII members: 9-13, 32) *)
Definition rs_trim_start (s : text) : text := Csv.trim_start s.
(* s.trim() = leading and trailing white space removed *)
Definition rs_trim (s : text) : text := rs_trim_end (rs_trim_start s).

(* s.starts_with(c) for an ASCII char c: the first byte is c *)
Definition rs_starts_with_char (s : text) (c : ascii) : bool :=
  match s with x :: _ => Ascii.eqb x c | [] => false end.
(* s.ends_with(c) for an ASCII char c: the last byte is c *)
Definition rs_ends_with_char (s : text) (c : ascii) : bool :=
  match rev s with x :: _ => Ascii.eqb x c | [] => false end.

(* s.len(): the length in bytes *)
Definition rs_len (s : text) : nat := length s.

(* &s[a..b]: "Panics if begin > end or end > len" (or off a char boundary:
   impossible on ASCII text); None = the panic *)
Definition rs_slice (s : text) (a b : nat) : option text :=
  if Nat.leb a b && Nat.leb b (length s) then Some (firstn (b - a) (skipn a s)) else None.
(* &s[a..] *)
Definition rs_slice_from (s : text) (a : nat) : option text :=
  if Nat.leb a (length s) then Some (skipn a s) else None.

(* Match::as_str() *)
Definition rx_as_str (m : rmatch) : text := m_str m.

(* ---- used by key_match2 / key_match3 of src/model/function_map.rs ---- *)
(* s.contains(p) for a string pattern p: p occurs in s as a substring *)
Fixpoint rs_contains_str (s p : text) : bool :=
  rs_starts_with s p || match s with _ :: s' => rs_contains_str s' p | [] => false end.

(* s.replace(from, to) (str::replace: "Replaces all matches of a pattern with
   another string"): the non-overlapping occurrences of `from`, found from left
   to right, become `to`.  For a NON-EMPTY `from` (the translator refuses the
   empty literal, for which std inserts `to` around every char).
   skip = bytes of the occurrence just replaced that are still to be dropped *)
Fixpoint rs_str_replace_go (skip : nat) (s from to : text) : text :=
  match s with
  | [] => []
  | c :: s' =>
    match skip with
    | S n => rs_str_replace_go n s' from to
    | 0 => if rs_starts_with s from
           then to ++ rs_str_replace_go (length from - 1) s' from to
           else c :: rs_str_replace_go 0 s' from to
    end
  end.
Definition rs_str_replace (s from to : text) : text := rs_str_replace_go 0 s from to.
