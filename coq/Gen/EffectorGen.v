(* GENERATED on every run by tools/rs2coq.py from /repo/src/effector.rs - do not edit. *)
From CV Require Import Model.Base Model.Effector.

(* mirrors struct DefaultEffectStream (the explain-only field left out) *)
Record gstate := { g_done : bool; g_res : bool; g_expr : text; g_idx : nat; g_cap : nat }.

Definition gen_push_effect (s : gstate) (eft : eff) : gstate * bool :=
 (let s := (if (teqb (g_expr s) (T "some(where (p_eft == allow))")) then (let s := (if (eff_eqb eft Allow) then (let s := {| g_done := true; g_res := g_res s; g_expr := g_expr s; g_idx := g_idx s; g_cap := g_cap s |} in
 (let s := {| g_done := g_done s; g_res := true; g_expr := g_expr s; g_idx := g_idx s; g_cap := g_cap s |} in
 s)) else s) in
 s) else (let s := (if (teqb (g_expr s) (T "some(where (p_eft == allow)) && !some(where (p_eft == deny))")) then (let s := (if (eff_eqb eft Allow) then (let s := {| g_done := g_done s; g_res := true; g_expr := g_expr s; g_idx := g_idx s; g_cap := g_cap s |} in
 s) else (let s := (if (eff_eqb eft Deny) then (let s := {| g_done := true; g_res := g_res s; g_expr := g_expr s; g_idx := g_idx s; g_cap := g_cap s |} in
 (let s := {| g_done := g_done s; g_res := false; g_expr := g_expr s; g_idx := g_idx s; g_cap := g_cap s |} in
 s)) else s) in
 s)) in
 s) else (let s := (if (teqb (g_expr s) (T "!some(where (p_eft == deny))")) then (let s := (if (eff_eqb eft Deny) then (let s := {| g_done := true; g_res := g_res s; g_expr := g_expr s; g_idx := g_idx s; g_cap := g_cap s |} in
 (let s := {| g_done := g_done s; g_res := false; g_expr := g_expr s; g_idx := g_idx s; g_cap := g_cap s |} in
 s)) else s) in
 s) else (let s := (if ((teqb (g_expr s) (T "priority(p_eft) || deny")) && (negb (eff_eqb eft Indet))) then (let s := {| g_done := g_done s; g_res := (eff_eqb eft Allow); g_expr := g_expr s; g_idx := g_idx s; g_cap := g_cap s |} in
 (let s := {| g_done := true; g_res := g_res s; g_expr := g_expr s; g_idx := g_idx s; g_cap := g_cap s |} in
 s)) else s) in
 s)) in
 s)) in
 s)) in
 (let s := (if (Nat.eqb ((g_idx s) + 1) (g_cap s)) then (let s := {| g_done := true; g_res := g_res s; g_expr := g_expr s; g_idx := g_idx s; g_cap := g_cap s |} in
 (let s := {| g_done := g_done s; g_res := g_res s; g_expr := g_expr s; g_idx := (g_cap s); g_cap := g_cap s |} in
 s)) else (let s := {| g_done := g_done s; g_res := g_res s; g_expr := g_expr s; g_idx := (g_idx s + 1); g_cap := g_cap s |} in
 s)) in
 (s, (g_done s)))).

Definition gen_next (s : gstate) : option bool :=
 (if (g_done s) then Some (g_res s) else None).

Definition gen_next_asserts : bool := true.

Definition gen_init_res (expr : text) : option bool :=
    if teqb expr (T "some(where (p_eft == allow))") || teqb expr (T "some(where (p_eft == allow)) && !some(where (p_eft == deny))") || teqb expr (T "priority(p_eft) || deny") then Some false else
    if teqb expr (T "!some(where (p_eft == deny))") then Some true else
    None.
Definition gen_new_stream (expr : text) (cap : nat) : option gstate :=
  if Nat.ltb 0 cap then
    match gen_init_res expr with
    | Some res => Some {| g_done := false; g_res := res; g_expr := expr; g_idx := 0; g_cap := cap |}
    | None => None
    end
  else None.

Definition gen_translated : bool := true.
